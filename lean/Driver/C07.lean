/-
  Driver for C07 (packet framing) and the frame part of C08 (unpackers never panic).
  Line formats: see harness/c07.go.  The model is GoMC.Model.Frame; the oracle is GoMC.Spec.Frame (an
  independent frame reader) plus the clauses of the property statement evaluated on the implementation's
  observation.
-/
import Driver.Util
import GoMC.Model.Frame
import GoMC.Spec.Frame
namespace Driver.C07
open GoMC GoMC.Model Driver

/-! ### byte-string expressions and digests (mirrors of harness/c07.go) -/

def lcgBytes (seed : UInt64) (n : Nat) (shift : UInt64) : Bytes := Id.run do
  let mut x := seed
  let mut acc : Array Byte := Array.mkEmpty n
  for _ in [0:n] do
    x := x * 6364136223846793005 + 1442695040888963407
    acc := acc.push (BitVec.ofNat 8 (x >>> shift).toNat)
  return acc.toList

def parsePiece (p : String) : Option Bytes :=
  match p.toList with
  | 'g' :: rest | 'r' :: rest =>
    match (String.ofList rest).splitOn "." with
    | [a, b] =>
      match a.toNat?, b.toNat? with
      | some seed, some n => some (lcgBytes seed.toUInt64 n (if p.startsWith "g" then 56 else 62))
      | _, _ => none
    | _ => none
  | 'z' :: rest =>
    match (String.ofList rest).splitOn "." with
    | [a, b] =>
      match parseHexNat a, b.toNat? with
      | some v, some n => some (List.replicate n (BitVec.ofNat 8 v))
      | _, _ => none
    | _ => none
  | _ => parseHex p

def parseBx (s : String) : Option Bytes :=
  if s == "-" then some [] else
  (s.splitOn "+").foldl (fun acc p => match acc, parsePiece p with
    | some a, some b => some (a ++ b)
    | _, _ => none) (some [])

def fnv64 (bs : Bytes) : UInt64 :=
  bs.foldl (fun h b => (h ^^^ b.toNat.toUInt64) * 0x100000001b3) 0xcbf29ce484222325

def dig (bs : Bytes) : String :=
  if bs.length ≤ 40 then hexOfBytes bs
  else s!"#{bs.length}:{hexOfNat 16 (fnv64 bs).toNat}:{hexOfBytes (bs.take 8)}"

def parseInt (s : String) : Option Int :=
  if s.startsWith "-" then (s.drop 1).toString.toNat?.map (fun n => -(n : Int)) else s.toNat?.map (fun n => (n : Int))

/-- `none` | `same` | bx -/
def parseOpt (s : String) (same : Bytes) : Option (Option Bytes) :=
  if s == "none" then some none
  else if s == "same" then some (some same)
  else (parseBx s).map some

def parseRecv (s : String) : Option Pkt :=
  match s.splitOn ":" with
  | [a, b] => match a.toNat?, b.toNat? with
    | some l, some c => some { id := 0x55555555#32, data := List.replicate l 0xEE#8, cap := c }
    | _, _ => none
  | _ => none

/-- arbitrary stale content of the pooled objects handed to every model call -/
def stale : Pool := { buf := [0xde, 0xad, 0xbe, 0xef], zw := [0x01, 0x02, 0x03] }

def lebId (id : BitVec 32) : Bytes := Spec.leb id.toNat

/-- zlib for one `Pack` call: `deflate` returns the blob Go produced, the readers know that one stream -/
def zOne (z : Bytes) (zi zr : Option Bytes) : ZLib :=
  { deflate := fun _ => z
    inflate := fun x => if x == z then zi else none
    zread := fun x => if x == z then zr else none }

/-! ### the oracle -/

/-- the protocol-conformant frames for a packet (minimal VarInts), each confirmed by the independent reader -/
def conformant (t : Int) (id : BitVec 32) (data z : Bytes) (zi : Option Bytes) : List Bytes :=
  let body := lebId id ++ data
  let inflate : Bytes → Option Bytes := fun x => if x == z then zi else none
  let cands : List Bytes :=
    if t < 0 then [Spec.leb body.length ++ body]
    else
      let c1 := Spec.leb (1 + body.length) ++ [0#8] ++ body
      let dl := Spec.leb body.length
      [c1, Spec.leb (dl.length + z.length) ++ dl ++ z]
  cands.filter fun c => Spec.readFrame inflate t c == some ((id, data), [])

def showUnpack (r : Res Pkt) (rest : Nat) : String :=
  match r with
  | .ok p => s!"ok id={hexOfNat 8 p.id.toNat} data={dig p.data} cap={p.cap} rest={rest}"
  | .err => s!"err rest={rest}"
  | .panic => "panic"

/-- `frame.rt` -/
def rt (args : List String) (obs : String) : Verdict :=
  match (kv args "t").bind parseInt, (kv args "id").bind parseHexNat, (kv args "data").bind parseBx,
        (kv args "p0").bind parseRecv, (kv args "rest").bind parseBx, (kv args "z").bind parseBx with
  | some t, some idn, some data, some p₀, some rest, some z =>
    let id := BitVec.ofNat 32 idn
    let same := lebId id ++ data
    match (kv args "zi").bind (parseOpt · same), (kv args "zr").bind (parseOpt · same) with
    | some zi, some zr =>
      let Z := zOne z zi zr
      -- model
      let (model, mframe) : String × Option Bytes :=
        match pack Z t { id, data, cap := data.length } stale with
        | .ok frame =>
          let (r, s) := unpack Z t p₀ stale (Stream.ofBytes (frame ++ rest))
          (s!"P ok {dig frame} U {showUnpack r s.flat.length}", some frame)
        | .err => ("P err", none)
        | .panic => ("P panic", none)
      let _ := mframe
      -- oracle on the implementation's observation
      let toks := obs.splitOn " "
      let spec : Option String :=
        match toks with
        | "P" :: "ok" :: fd :: "U" :: u =>
          let good := (conformant t id data z zi).map dig
          if !good.contains fd then some "emitted frame is not a conformant frame for this packet (independent reader)"
          else
            let want := s!"ok id={hexOfNat 8 id.toNat} data={dig data}"
            match u with
            | ["ok", a, b, _, r] =>
              if s!"ok {a} {b}" != want then some s!"round trip: expected {want}"
              else if r != s!"rest={rest.length}" then some s!"did not consume exactly one frame: {r}, expected rest={rest.length}"
              else none
            | ["panic"] => some "UnPack panicked"
            | ["hang"] => some "UnPack did not return"
            | _ => some s!"round trip: expected {want}"
        | _ => some "Pack into a bytes.Buffer did not succeed"
      { model, spec }
    | _, _ => { model := "bad-arg" }
  | _, _, _, _, _, _ => { model := "bad-arg" }

structure SeqItem where
  id : BitVec 32
  data : Bytes
  z : Bytes
  zi : Option Bytes
  zr : Option Bytes

def parseItem (s : String) : Option SeqItem :=
  match s.splitOn "/" with
  | [a, b, c, d, e] =>
    match parseHexNat a, parseBx b, parseBx c with
    | some idn, some data, some z =>
      let id := BitVec.ofNat 32 idn
      let same := lebId id ++ data
      match parseOpt d same, parseOpt e same with
      | some zi, some zr => some { id, data, z, zi, zr }
      | _, _ => none
    | _, _, _ => none
  | _ => none

def parseItems (s : String) : Option (List SeqItem) :=
  (s.splitOn ",").foldr (fun it acc => match parseItem it, acc with
    | some a, some l => some (a :: l)
    | _, _ => none) (some [])

/-- the model's sequence of `UnPack` calls with one reused `Packet`; stops at the first failure -/
def unpackLoop (Z : ZLib) (t : Int) : Nat → Pkt → Stream → List String → List String × Stream
  | 0, _, s, acc => (acc.reverse, s)
  | k + 1, p₀, s, acc =>
    match unpack Z t p₀ stale s with
    | (.ok p, s') => unpackLoop Z t k p s' (s!"ok/{hexOfNat 8 p.id.toNat}/{dig p.data}/{p.cap}" :: acc)
    | (.err, s') => (("err" :: acc).reverse, s')
    | (.panic, s') => (("panic" :: acc).reverse, s')

/-- `frame.seq` -/
def seq (args : List String) (obs : String) : Verdict :=
  match (kv args "t").bind parseInt, (kv args "p0").bind parseRecv, (kv args "tail").bind parseBx,
        (kv args "pks").bind parseItems with
  | some t, some p₀, some tail, some items =>
    let frames := items.map fun it => pack (zOne it.z it.zi it.zr) t { id := it.id, data := it.data, cap := 0 } stale
    let Zall : ZLib :=
      { deflate := fun _ => []
        inflate := fun _ => none
        zread := fun x => (items.find? fun it => it.z == x).bind (·.zr) }
    let model : String :=
      match frames.find? (fun r => !r.isOk) with
      | some .panic => "P panic"
      | some _ => "P err"
      | none =>
        let fs := frames.filterMap fun r => match r with | .ok f => some f | _ => none
        let stream := fs.flatten ++ tail
        let (res, s) := unpackLoop Zall t items.length p₀ (Stream.ofBytes stream) []
        s!"P ok {",".intercalate (fs.map dig)} U {",".intercalate res} rest={s.flat.length}"
    let spec : Option String :=
      match obs.splitOn " " with
      | ["P", "ok", fds, "U", us, r] =>
        let fdl := fds.splitOn ","
        let okFrames := fdl.length == items.length &&
          (List.zip items fdl).all fun (it, fd) => ((conformant t it.id it.data it.z it.zi).map dig).contains fd
        if !okFrames then some "an emitted frame is not a conformant frame for its packet (independent reader)"
        else
          let ul := us.splitOn ","
          let want := items.map fun it => s!"ok/{hexOfNat 8 it.id.toNat}/{dig it.data}/"
          if ul.contains "panic" then some "UnPack panicked"
          else if ul.length != want.length || !((List.zip want ul).all fun (w, u) => u.startsWith w) then
            some "a concatenation of frames was not recovered packet by packet in order"
          else if r != s!"rest={tail.length}" then some s!"frames consumed inexactly: {r}, expected rest={tail.length}"
          else none
      | _ => some "Pack into a bytes.Buffer did not succeed"
    { model, spec }
  | _, _, _, _ => { model := "bad-arg" }

/-- `frame.unpack`: arbitrary peer bytes -/
def unpackOp (args : List String) (obs : String) : Verdict :=
  match (kv args "t").bind parseInt, (kv args "p0").bind parseRecv, (kv args "in").bind parseBx,
        kv args "zin", (kv args "zr").bind (parseOpt · []) with
  | some t, some p₀, some input, some zin, some zr =>
    let Z : ZLib :=
      { deflate := fun _ => []
        inflate := fun _ => none
        zread := fun x => if dig x == zin then zr else none }
    let (r, s) := unpack Z t p₀ stale (Stream.ofBytes input)
    let model := showUnpack r s.flat.length
    -- oracle: never panic / hang; the rejection clause on the header as the independent reader sees it
    let isErr := obs.startsWith "err"
    let spec : Option String :=
      if obs == "panic" then some "UnPack panicked on peer-controlled bytes"
      else if obs == "hang" then some "UnPack did not return"
      else
        match Spec.readVarInt input with
        | none => none
        | some (l1, r1) =>
          match Spec.readVarInt r1 with
          | none => none
          | some (l2, r2) =>
            if t < 0 then
              let declared : Int := Spec.int32 l1 - ((r1.length - r2.length : Nat) : Int)
              if (declared < 0 ∨ declared > (Spec.maxDataLength : Int)) ∧ !isErr then
                some s!"declared payload size {declared} was not rejected"
              else none
            else
              let d := Spec.int32 l2
              if (d < 0 ∨ d > (Spec.maxDataLength : Int) ∨ (0 < d ∧ d < t)) ∧ !isErr then
                some s!"declared data length {d} (threshold {t}) was not rejected"
              else none
    { model, spec }
  | _, _, _, _, _ => { model := "bad-arg" }

/-- the model's sequence of `UnPack` calls, each into a fresh (zero) `Packet`, all kept; stops at the first failure -/
def unpackLoopFresh (Z : ZLib) (t : Int) : Nat → Stream → List Pkt → List String → List Pkt × List String × Stream
  | 0, s, held, acc => (held.reverse, acc.reverse, s)
  | k + 1, s, held, acc =>
    match unpack Z t Pkt.zero stale s with
    | (.ok p, s') => unpackLoopFresh Z t k s' (p :: held) (s!"ok/{hexOfNat 8 p.id.toNat}/{dig p.data}/{p.cap}" :: acc)
    | (.err, s') => (held.reverse, ("err" :: acc).reverse, s')
    | (.panic, s') => (held.reverse, ("panic" :: acc).reverse, s')

/-- `frame.hold`: every frame is read into a fresh `Packet`; all packets are held while the rest of the stream is
read and while further `Pack`/`UnPack` calls reuse the pool; `H` is what the held packets contain afterwards.
In the model a returned packet is a value (its payload was copied out of the pooled buffer, `Pkt.backing`). -/
def hold (args : List String) (obs : String) : Verdict :=
  match (kv args "t").bind parseInt, (kv args "tail").bind parseBx, (kv args "pks").bind parseItems with
  | some t, some tail, some items =>
    let frames := items.map fun it => pack (zOne it.z it.zi it.zr) t { id := it.id, data := it.data, cap := 0 } stale
    let Zall : ZLib :=
      { deflate := fun _ => []
        inflate := fun _ => none
        zread := fun x => (items.find? fun it => it.z == x).bind (·.zr) }
    let model : String :=
      match frames.find? (fun r => !r.isOk) with
      | some .panic => "P panic"
      | some _ => "P err"
      | none =>
        let fs := frames.filterMap fun r => match r with | .ok f => some f | _ => none
        let stream := fs.flatten ++ tail
        let (held, res, s) := unpackLoopFresh Zall t items.length (Stream.ofBytes stream) [] []
        let h := held.map fun p => s!"{hexOfNat 8 p.id.toNat}/{dig p.data}"
        s!"P ok {",".intercalate (fs.map dig)} U {",".intercalate res} rest={s.flat.length} H {",".intercalate h}"
    let spec : Option String :=
      match obs.splitOn " " with
      | ["P", "ok", fds, "U", us, r, "H", hs] =>
        let fdl := fds.splitOn ","
        let okFrames := fdl.length == items.length &&
          (List.zip items fdl).all fun (it, fd) => ((conformant t it.id it.data it.z it.zi).map dig).contains fd
        if !okFrames then some "an emitted frame is not a conformant frame for its packet (independent reader)"
        else
          let ul := us.splitOn ","
          let want := items.map fun it => s!"ok/{hexOfNat 8 it.id.toNat}/{dig it.data}/"
          let wantH := items.map fun it => s!"{hexOfNat 8 it.id.toNat}/{dig it.data}"
          if ul.contains "panic" then some "UnPack panicked"
          else if ul.length != want.length || !((List.zip want ul).all fun (w, u) => u.startsWith w) then
            some "a concatenation of frames was not recovered packet by packet in order"
          else if r != s!"rest={tail.length}" then some s!"frames consumed inexactly: {r}, expected rest={tail.length}"
          else if hs.splitOn "," != wantH then
            some "a received packet no longer has the id and payload that were sent once later frames were processed (its Data is not its own)"
          else none
      | _ => some "Pack into a bytes.Buffer did not succeed, or the observation is incomplete"
    { model, spec }
  | _, _, _ => { model := "bad-arg" }

/-- `none` | `same` | `other` -/
def parseOpt3 (s : String) (same : Bytes) : Option (Option Bytes) :=
  if s == "none" then some none
  else if s == "same" then some (some same)
  else if s == "other" then some (some [])
  else none

/-- `frame.big`: one near-maximum packet; the zlib blob is NOT on the line, only its length `zl` and first bytes
`zh`; the observation carries the frame's length and first 15 bytes, from which the independent reader parses the
two VarInt length fields itself. -/
def big (args : List String) (obs : String) : Verdict :=
  match (kv args "t").bind parseInt, (kv args "id").bind parseHexNat, (kv args "data").bind parseBx,
        (kv args "p0").bind parseRecv, (kv args "rest").bind parseBx, (kv args "zl").bind (·.toNat?),
        (kv args "zh").bind parseBx with
  | some t, some idn, some data, some p₀, some rest, some zl, some zh =>
    let id := BitVec.ofNat 32 idn
    let same := lebId id ++ data
    match (kv args "zi").bind (parseOpt3 · same), (kv args "zr").bind (parseOpt3 · same) with
    | some zi, some zr =>
      -- a surrogate blob of the right length and first bytes: the model is parametric in `deflate`
      let surrogate := zh ++ List.replicate (zl - zh.length) 0#8
      let Z : ZLib :=
        { deflate := fun _ => surrogate
          inflate := fun x => if x.length == zl then zi else none
          zread := fun x => if x.length == zl then zr else none }
      let model : String :=
        match pack Z t { id, data, cap := data.length } stale with
        | .ok frame =>
          let (r, s) := unpack Z t p₀ stale (Stream.ofBytes (frame ++ rest))
          s!"P ok n={frame.length} hd={hexOfBytes (frame.take 15)} U {showUnpack r s.flat.length}"
        | .err => "P err"
        | .panic => "P panic"
      let spec : Option String :=
        match obs.splitOn " " with
        | "P" :: "ok" :: ns :: hds :: "U" :: u =>
          match ((ns.drop 2).toString.toNat?), parseHex (hds.drop 3).toString with
          | some n, some hd =>
            -- the actual header, padded to the actual length: the independent reader parses the length fields itself
            let frame' := hd ++ List.replicate (n - hd.length) 0#8
            let body := same
            let plainOk (c : Bytes) : Bool := n == c.length && hd == c.take 15
            let good : Bool :=
              if hd.length != min 15 n then false
              else if t < 0 then plainOk (Spec.leb body.length ++ body)
              else plainOk (Spec.leb (1 + body.length) ++ [0#8] ++ body) ||
                (Spec.dataLengthField frame' != some 0 &&
                  Spec.readFrame Z.inflate t frame' == some ((id, data), []))
            if !good then some "emitted frame is not a conformant frame for this packet (independent reader on the actual header)"
            else
              let want := s!"ok id={hexOfNat 8 id.toNat} data={dig data}"
              match u with
              | ["ok", a, b, _, r] =>
                if s!"ok {a} {b}" != want then some s!"round trip: expected {want}"
                else if r != s!"rest={rest.length}" then some s!"did not consume exactly one frame: {r}, expected rest={rest.length}"
                else none
              | ["panic"] => some "UnPack panicked"
              | ["hang"] => some "UnPack did not return"
              | _ => some s!"round trip: expected {want}"
          | _, _ => some "unparseable observation"
        | _ => some "Pack into a bytes.Buffer did not succeed"
      { model, spec }
    | _, _ => { model := "bad-arg" }
  | _, _, _, _, _, _, _ => { model := "bad-arg" }

def handle (op : String) (args : List String) (obs : String) : Option Verdict :=
  match op with
  | "frame.rt" => some (rt args obs)
  | "frame.seq" => some (seq args obs)
  | "frame.unpack" => some (unpackOp args obs)
  | "frame.hold" => some (hold args obs)
  | "frame.big" => some (big args obs)
  | _ => none

end Driver.C07
