import Driver.Util
import GoMC.Model.Palette
import GoMC.Spec.Paletted
namespace Driver.C12
open GoMC GoMC.Model Driver

/-! ## line format

`pal.hist <kind> <gb> <len> <ctor> <ops> => <obs>`
  kind: `blocks` | `biomes`;  gb: the real `block.BitsPerBlock` / `biome.BitsPerBiome` (printed by the harness)
  ctor: `new:<default>` | `wd:<data>:<palette>`   (data: `nil` | `-` | hex longs; palette: `-` | ints joined by `.`)
  ops (comma separated): `set:i:v` `get:i` `all` `pal` `wt` `rf:<hex bytes>` `rf:<reader kind>:<hex bytes>`
  obs (comma separated): first the constructor (`ok` | `panic`; after `panic` nothing follows), then one per op:
    set: `ok` | `panic`;  get: the integer | `panic`;
    all: every position (`Get(0..len-1)`) joined by `.` when len ≤ 64, else `#` + 16 hex digits of the digest
         h ← h·1099511628211 + uint64(v) from 14695981039346656037; `panic` if a Get panics;
    pal: `Palette()` joined by `.` (`-` when empty);  wt: `<hex bytes>:<n>`;
    rf: `ok:<n>:<unread>` | `err:<unread>` | `panic`   (a history ends at the first rf that is not `ok`)
-/

inductive Op where
  | set (i v : Int) | get (i : Int) | all | pal | wt | rf (bs : Bytes)

/-- the kinds of `io.Reader` the harness delivers the bytes through (`rf:<kind>:<hex>`; `rf:<hex>` is `br`).
The model reads the byte CONTENT (`Rd` programs built from `io.ReadFull`/`ReadByte` contracts are
fragmentation invariant: `C12_readFrom_fragInv`), so the observation must not depend on the kind:
`br` bytes.Reader, `bb` bytes.Buffer, `bu` bufio.Reader, `ob` one byte per Read (no ReadByte), `rc` random
chunks (no ReadByte), `de` last bytes delivered together with io.EOF, `do` the same one byte at a time,
`zn` returns (0, nil) every third call, `lr…` an *io.LimitedReader over the kind that follows -/
def readerKinds : List String :=
  let base := ["br", "bb", "bu", "ob", "rc", "de", "do", "zn"]
  base ++ base.map ("lr" ++ ·)

def parseOp (s : String) : Option Op :=
  match s.splitOn ":" with
  | ["set", i, v] => do let i ← i.toInt?; let v ← v.toInt?; pure (Op.set i v)
  | ["get", i] => i.toInt?.map Op.get
  | ["all"] => some Op.all
  | ["pal"] => some Op.pal
  | ["wt"] => some Op.wt
  | ["rf", h] => (parseHex h).map Op.rf
  | ["rf", kind, h] => if readerKinds.contains kind then (parseHex h).map Op.rf else none
  | _ => none

def parseOps (s : String) : Option (List Op) :=
  if s == "-" then some [] else (s.splitOn ",").mapM parseOp

def parseInts (s : String) : Option (List Int) :=
  if s == "-" then some [] else (s.splitOn ".").mapM String.toInt?

def showInts (xs : List Int) : String :=
  if xs.isEmpty then "-" else ".".intercalate (xs.map toString)

def digest (xs : List Int) : Nat :=
  xs.foldl (fun h v => (h * 1099511628211 + (v % 18446744073709551616).toNat) % 18446744073709551616) 14695981039346656037

def showAll (xs : List Int) : String :=
  if xs.length ≤ 64 then showInts xs else "#" ++ hexOfNat 16 (digest xs)

def longOfBytes (bs : Bytes) : BitVec 64 :=
  BitVec.ofNat 64 (bs.foldl (fun acc b => 256 * acc + b.toNat) 0)

partial def longsOfBytes (bs : Bytes) (acc : List (BitVec 64)) : Option (List (BitVec 64)) :=
  if bs.isEmpty then some acc.reverse
  else if bs.length < 8 then none
  else longsOfBytes (bs.drop 8) (longOfBytes (bs.take 8) :: acc)

inductive Ctor where
  | new (d : Int)
  | wd (data : Option (List (BitVec 64))) (pal : List Int)

def parseCtor (s : String) : Option Ctor :=
  match s.splitOn ":" with
  | ["new", d] => d.toInt?.map Ctor.new
  | ["wd", data, pal] => do
    let p ← parseInts pal
    if data == "nil" then pure (Ctor.wd none p)
    else
      let bs ← parseHex data
      let ls ← longsOfBytes bs []
      pure (Ctor.wd (some ls) p)
  | _ => none

/-! ### the model side -/

def collect (c : Container) (n : Nat) : Option (List Int) :=
  (List.range n).mapM fun (k : Nat) => match c.get (k : Int) with
    | .ok v => some v
    | _ => none

def showRes (r : Res Int) : String :=
  match r with
  | .ok v => toString v
  | .err => "err"
  | .panic => "panic"

def stepModel (c : Container) : Op → String × Container
  | .set i v => let r := c.set i v; (resTag r.1, r.2)
  | .get i => (showRes (c.get i), c)
  | .all =>
    (match collect c c.data.len.toNat with
      | some xs => showAll xs
      | none => "panic", c)
  | .pal => (showInts c.palette, c)
  | .wt => let bs := c.writeTo; (s!"{hexOfBytes bs}:{bs.length}", c)
  | .rf bs =>
    let r := c.readFrom (Stream.ofBytes bs)
    let unread := r.2.2.flat.length
    (match r.1 with
      | .ok n => s!"ok:{n}:{unread}"
      | .err => s!"err:{unread}"
      | .panic => "panic", r.2.1)

def runModel (c : Container) : List Op → List String
  | [] => []
  | op :: rest => let r := stepModel c op; r.1 :: runModel r.2 rest

/-! ### the spec side: a plain array of `n` ids, written from the property statement

`known = some xs`: the container must behave as the array `xs`.  `none`: the property says nothing about the
present state (after reading an ill-formed wire form, or built from ill-formed save data). -/

structure Ref where
  kind : Spec.PKind
  gb : Nat
  n : Nat
  known : Option (List Int)

def inRegistry (gb : Nat) (v : Int) : Bool := decide (0 ≤ v) && decide (v < (2 : Int) ^ gb)

def specStep (r : Ref) (op : Op) (obs : String) : Option String × Ref :=
  match op with
  | .set i v =>
    match r.known with
    | none => (none, r)
    | some xs =>
      if 0 ≤ i && i < r.n then
        if inRegistry r.gb v then
          (if obs != "ok" then some s!"Set({i},{v}): valid call refused" else none,
           { r with known := some (xs.set i.toNat v) })
        else
          -- a value outside the registry range leaves the property's domain once it is stored (it does not
          -- fit the direct width, and the wire form truncates it to 32 bits)
          (none, if obs == "ok" then { r with known := none } else r)
      else (none, r)
  | .get i =>
    match r.known with
    | none => (none, r)
    | some xs =>
      if 0 ≤ i && i < r.n then
        let want := toString (xs.getD i.toNat 0)
        (if obs != want then some s!"Get({i}): expected {want}" else none, r)
      else (none, r)
  | .all =>
    match r.known with
    | none => (none, r)
    | some xs => (if obs != showAll xs then some "positions differ from the last values set" else none, r)
  | .pal => (none, r)
  | .wt =>
    match r.known with
    | none => (none, r)
    | some xs =>
      match obs.splitOn ":" with
      | [h, cnt] =>
        match parseHex h with
        | none => (some "WriteTo: unparseable observation", r)
        | some bs =>
          if toString bs.length != cnt then (some "WriteTo: returned count is not the number of bytes written", r)
          else match Spec.readPaletted r.kind r.gb r.n bs with
            | none => (some "WriteTo: not a well-formed paletted container", r)
            | some (ys, rest) =>
              if !rest.isEmpty then (some "WriteTo: bytes after the paletted container", r)
              else if ys != xs then (some "WriteTo: the wire form decodes to other values", r)
              else (none, r)
      | _ => (some "WriteTo: unparseable observation", r)
  | .rf bs =>
    let unknown : Ref := { r with known := none }
    if obs == "panic" then (some "ReadFrom panicked on wire input", unknown) else
    match Spec.readPaletted r.kind r.gb r.n bs with
    | some (xs, rest) =>
      let want := s!"ok:{bs.length - rest.length}:{rest.length}"
      (if obs != want then some s!"ReadFrom of a well-formed container: expected {want}" else none,
       { r with known := if xs.all (inRegistry r.gb) then some xs else none })
    | none => (none, unknown)

def specRun (r : Ref) : List Op → List String → Option String
  | [], _ => none
  | _ :: _, [] => none
  | op :: ops, o :: obs =>
    match specStep r op o with
    | (some why, _) => some why
    | (none, r') => specRun r' ops obs

def specCtor (kind : Spec.PKind) (gb : Nat) (n : Int) (ct : Ctor) (obs : String) : Option String × Ref :=
  let r0 : Ref := { kind, gb, n := n.toNat, known := none }
  if n < 0 then (none, r0) else
  match ct with
  | .new d =>
    (if obs != "ok" then some "the constructor must succeed" else none,
     { r0 with known := if inRegistry gb d then some (List.replicate n.toNat d) else none })
  | .wd data pal =>
    if !(pal.all (inRegistry gb)) then (none, r0) else
    match pal, data with
    | [], some ls =>
      -- no palette: direct ids (what this library exports for a global palette)
      if ls.length = Spec.size gb n.toNat then
        (if obs != "ok" then some "direct data of the right length refused" else none,
         { r0 with known := some ((Spec.unpack gb n.toNat ls).map fun (i : Nat) => (i : Int)) })
      else (none, r0)
    | [v], _ =>
      (if obs != "ok" then some "single-entry palette refused" else none, { r0 with known := some (List.replicate n.toNat v) })
    | _, some ls =>
      match Spec.readSaved kind n.toNat pal ls with
      | some xs => (if obs != "ok" then some "well-formed palette+data refused" else none, { r0 with known := some xs })
      | none => (none, r0)
    | _, none => (none, r0)

def hist (kindS gbS lenS ctorS opsS obs : String) : Verdict :=
  let kind? : Option (PalKind × Spec.PKind) :=
    if kindS == "blocks" then some (.blocks, .blocks) else if kindS == "biomes" then some (.biomes, .biomes) else none
  match kind?, gbS.toInt?, lenS.toInt?, parseCtor ctorS, parseOps opsS with
  | some (mk, sk), some gb, some length, some ct, some ops =>
    let cfg : PalCfg := { kind := mk, gbits := gb }
    let c0 : Res Container :=
      match ct with
      | .new d => .ok (Container.new cfg length d)
      | .wd data pal => Container.withData cfg length data pal
    let model : String :=
      match c0 with
      | .ok c => ",".intercalate ("ok" :: runModel c ops)
      | _ => "panic"
    let toks := obs.splitOn ","
    let spec : Option String :=
      match toks with
      | [] => some "empty observation"
      | o :: rest =>
        match specCtor sk gb.toNat length ct o with
        | (some why, _) => some why
        | (none, r) => if o == "ok" then specRun r ops rest else none
    { model, spec }
  | _, _, _, _, _ => { model := "bad-arg" }

/-! ## several live containers of one kind and length

`pal.multi <kind> <gb> <len> <ctor>|<ctor>[|<ctor>] <ops> => <obs>`
  ops (comma separated): `<k>@<op>` — `<op>` of `pal.hist` applied to container `k`
  obs (comma separated): first the constructors' `ok` joined by `|` (any `panic`: nothing follows), then one per
    op: `<op observation>/<all of container 0>/<all of container 1>[/…]` — EVERY container is read after every
    step.  The property is per container: an operation on one of them changes nothing in the others. -/

def parseMultiOp (s : String) : Option (Nat × Op) :=
  match s.splitOn "@" with
  | [k, o] => do let k ← k.toNat?; let o ← parseOp o; pure (k, o)
  | _ => none

def allOf (c : Container) : String :=
  match collect c c.data.len.toNat with
  | some xs => showAll xs
  | none => "panic"

def runMulti (cs : List Container) : List (Nat × Op) → List String
  | [] => []
  | (k, op) :: rest =>
    match cs[k]? with
    | none => ["bad-index"]
    | some c =>
      let r := stepModel c op
      let cs' := applyAt cs k (fun _ => r.2)
      "/".intercalate (r.1 :: cs'.map allOf) :: runMulti cs' rest

def specMulti (rs : List Ref) : List (Nat × Op) → List String → Option String
  | [], _ => none
  | _ :: _, [] => none
  | (k, op) :: ops, o :: obs =>
    match rs[k]?, o.splitOn "/" with
    | some r, oo :: alls =>
      match specStep r op oo with
      | (some why, _) => some s!"container {k}: {why}"
      | (none, r') =>
        let rs' := rs.set k r'
        if alls.length != rs'.length then some "one reading per container expected" else
        let bad := (List.zip (List.range rs'.length) (List.zip rs' alls)).findSome? fun (j, (rj, a)) =>
          match (specStep rj .all a).1 with
          | some why => some s!"container {j} after an operation on container {k}: {why}"
          | none => none
        match bad with
        | some why => some why
        | none => specMulti rs' ops obs
    | _, _ => some "unparseable observation"

def multi (kindS gbS lenS ctorsS opsS obs : String) : Verdict :=
  let kind? : Option (PalKind × Spec.PKind) :=
    if kindS == "blocks" then some (.blocks, .blocks) else if kindS == "biomes" then some (.biomes, .biomes) else none
  let ops? : Option (List (Nat × Op)) := if opsS == "-" then some [] else (opsS.splitOn ",").mapM parseMultiOp
  match kind?, gbS.toInt?, lenS.toInt?, (ctorsS.splitOn "|").mapM parseCtor, ops? with
  | some (mk, sk), some gb, some length, some cts, some ops =>
    let cfg : PalCfg := { kind := mk, gbits := gb }
    let cs? : Option (List Container) := cts.mapM fun ct =>
      match ct with
      | .new d => some (Container.new cfg length d)
      | .wd data pal => match Container.withData cfg length data pal with
        | .ok c => some c
        | _ => none
    let ctorObs := "|".intercalate (cts.map fun _ => "ok")
    let model : String :=
      match cs? with
      | some cs => ",".intercalate (ctorObs :: runMulti cs ops)
      | none => "panic"
    let toks := obs.splitOn ","
    let spec : Option String :=
      match toks with
      | [] => some "empty observation"
      | o :: rest =>
        let cobs := o.splitOn "|"
        if cobs.length != cts.length then (if o == "panic" then none else some "one constructor result per container expected") else
        let rs := (List.zip cts cobs).map fun (ct, co) => specCtor sk gb.toNat length ct co
        match rs.findSome? (·.1) with
        | some why => some why
        | none => if cobs.all (· == "ok") then specMulti (rs.map (·.2)) ops rest else none
    { model, spec }
  | _, _, _, _, _ => { model := "bad-arg" }

def handle (op : String) (args : List String) (obs : String) : Option Verdict :=
  match op, args with
  | "pal.hist", [k, gb, n, ct, ops] => some (hist k gb n ct ops obs)
  | "pal.multi", [k, gb, n, cts, ops] => some (multi k gb n cts ops obs)
  | _, _ => none

end Driver.C12
