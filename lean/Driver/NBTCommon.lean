/-
  Driver glue shared by C01 and C03: canonical printing of the model's values, the spec oracle for the
  decoding entry points (computed from the independent reader `Spec.parseDoc`, never from the model), and
  the handler for `c01.dec` / `c03.dec` lines:

      <op> <dest> <file|net> <br|rd|rd0> <hex document + trailing bytes> => ok name=<hex> v=<canon> left=<n> | err left=<n> | panic | hang
-/
import Driver.Util
import GoMC.Spec.NBT
import GoMC.Model.NBTDecode
namespace Driver.NBT
open GoMC GoMC.Spec GoMC.Model.NBT Driver

def hexPlain (bs : Bytes) : String :=
  String.ofList (bs.foldr (fun b acc => hexDigit (b.toNat / 16) :: hexDigit (b.toNat % 16) :: acc) [])

def bytesLt : Bytes → Bytes → Bool
  | [], [] => false
  | [], _ :: _ => true
  | _ :: _, [] => false
  | a :: as, b :: bs => if a.toNat < b.toNat then true else if b.toNat < a.toNat then false else bytesLt as bs

def sortKvs {α} (kvs : List (Bytes × α)) : List (Bytes × α) :=
  kvs.mergeSort (fun a b => !bytesLt b.1 a.1)

def joinWith (sep : String) (xs : List String) : String := sep.intercalate xs

/-! ### printing the model's values (same text as the harness prints for the Go values) -/

partial def showAny : GoAny → String
  | .nil => "nil"
  | .i8 v => "b" ++ hexOfNat 2 v.toNat
  | .i16 v => "s" ++ hexOfNat 4 v.toNat
  | .i32 v => "i" ++ hexOfNat 8 v.toNat
  | .i64 v => "l" ++ hexOfNat 16 v.toNat
  | .f32 v => "f" ++ hexOfNat 8 v.toNat
  | .f64 v => "d" ++ hexOfNat 16 v.toNat
  | .str s => "S(" ++ hexPlain s ++ ")"
  | .bytes xs => "B(" ++ hexPlain xs ++ ")"
  | .ints xs => "I(" ++ String.join (xs.map fun x => hexOfNat 8 x.toNat) ++ ")"
  | .longs xs => "L(" ++ String.join (xs.map fun x => hexOfNat 16 x.toNat) ++ ")"
  | .list xs => "A[" ++ joinWith "," (xs.map showAny) ++ "]"
  | .map kvs => "M{" ++ joinWith "," ((sortKvs kvs).map fun (k, v) => hexPlain k ++ ":" ++ showAny v) ++ "}"

partial def showVal : Val → String
  | .dyn v => showAny v
  | .mapAny kvs => showAny (.map kvs)
  | .i32 v => "i" ++ hexOfNat 8 v.toNat
  | .str s => "S(" ++ hexPlain s ++ ")"
  | .raw t d => "R" ++ hexOfNat 2 t.toNat ++ "(" ++ hexPlain d ++ ")"
  | .struct fs => "T{" ++ joinWith "," (fs.map fun (n, v) => hexPlain n ++ ":" ++ showVal v) ++ "}"

/-! ### the spec side: what the NBT format assigns to a parsed tree (written on `Spec.NBT`, not on the model) -/

/-- compounds by key: the last entry for a key is the one that counts -/
def lastWins {α} (kvs : List (Bytes × α)) : List (Bytes × α) :=
  (kvs.reverse.foldl (fun (acc : List (Bytes × α)) e => if acc.any (fun a => a.1 == e.1) then acc else e :: acc) [])

partial def specAny : NBT → String
  | .byte v => "b" ++ hexOfNat 2 v.toNat
  | .short v => "s" ++ hexOfNat 4 v.toNat
  | .int v => "i" ++ hexOfNat 8 v.toNat
  | .long v => "l" ++ hexOfNat 16 v.toNat
  | .float v => "f" ++ hexOfNat 8 v.toNat
  | .double v => "d" ++ hexOfNat 16 v.toNat
  | .string s => "S(" ++ hexPlain s ++ ")"
  | .byteArray xs => "B(" ++ hexPlain xs ++ ")"
  | .intArray xs => "I(" ++ String.join (xs.map fun x => hexOfNat 8 x.toNat) ++ ")"
  | .longArray xs => "L(" ++ String.join (xs.map fun x => hexOfNat 16 x.toNat) ++ ")"
  | .list _ xs => "A[" ++ joinWith "," (xs.map specAny) ++ "]"
  | .compound kvs => "M{" ++ joinWith "," ((sortKvs (lastWins kvs)).map fun (k, v) => hexPlain k ++ ":" ++ specAny v) ++ "}"

def specRaw (t : NBT) : String := "R" ++ hexOfNat 2 t.tag.toNat ++ "(" ++ hexPlain (encPayload t) ++ ")"

def lowerAscii (bs : Bytes) : Bytes := bs.map fun b => if 65 ≤ b.toNat && b.toNat ≤ 90 then BitVec.ofNat 8 (b.toNat + 32) else b

/-- documented field matching: the exact name, else the first field equal under case folding -/
def matchField (names : List String) (key : Bytes) : Option String :=
  let nb := names.map fun n => (n, n.toUTF8.toList.map (fun (b : UInt8) => BitVec.ofNat 8 b.toNat))
  match nb.find? (fun p => p.2 == key) with
  | some p => some p.1
  | none => (nb.find? (fun p => lowerAscii p.2 == lowerAscii key)).map (·.1)

def signed (w : Nat) (v : Nat) : Int := if v < 2 ^ (w - 1) then v else (v : Int) - 2 ^ w
def toI32 (i : Int) : Nat := (i % (2 ^ 32 : Int)).toNat

/-- an int32 field accepts Byte, Short and Int (sign-extended) -/
def specI32 : NBT → Option Nat
  | .byte v => some (toI32 (signed 8 v.toNat))
  | .short v => some (toI32 (signed 16 v.toNat))
  | .int v => some v.toNat
  | _ => none

structure Fix1 where
  a : Nat := 0
  bee : Bytes := []
  x : String := "R00()"
  m : List (Bytes × NBT) := []
deriving Inhabited

structure Fix2 where
  inner : Fix1 := {}
  num : Nat := 0
  note : Bytes := []
deriving Inhabited

def hexName (s : String) : String := hexPlain (s.toUTF8.toList.map fun (b : UInt8) => BitVec.ofNat 8 b.toNat)

def showFix1 (f : Fix1) : String :=
  "T{" ++ hexName "a" ++ ":i" ++ hexOfNat 8 f.a ++ "," ++ hexName "Bee" ++ ":S(" ++ hexPlain f.bee ++ ")," ++ hexName "x" ++ ":" ++ f.x ++ ","
    ++ hexName "m" ++ ":" ++ specAny (.compound f.m) ++ "," ++ hexName "z" ++ ":T{}}"

def showFix2 (f : Fix2) : String :=
  "T{" ++ hexName "inner" ++ ":" ++ showFix1 f.inner ++ "," ++ hexName "Num" ++ ":i" ++ hexOfNat 8 f.num ++ "," ++ hexName "note"
    ++ ":S(" ++ hexPlain f.note ++ ")}"

/-- decode the entries of a compound into the first fixed struct type; `none` = some entry does not fit its field -/
def specFix1 (f : Fix1) : List (Bytes × NBT) → Option Fix1
  | [] => some f
  | (k, v) :: rest =>
    match matchField ["a", "Bee", "x", "m", "z"] k with
    | some "a" => (specI32 v).bind fun n => specFix1 { f with a := n } rest
    | some "Bee" => match v with
      | .string s => specFix1 { f with bee := s } rest
      | _ => none
    | some "x" => specFix1 { f with x := specRaw v } rest
    | some "m" => match v with
      | .compound kvs => specFix1 { f with m := f.m ++ kvs } rest
      | _ => none
    | some "z" => match v with
      | .compound _ => specFix1 f rest
      | _ => none
    | _ => specFix1 f rest

def specFix2 (f : Fix2) : List (Bytes × NBT) → Option Fix2
  | [] => some f
  | (k, v) :: rest =>
    match matchField ["inner", "Num", "note"] k with
    | some "inner" => match v with
      | .compound kvs => (specFix1 f.inner kvs).bind fun i => specFix2 { f with inner := i } rest
      | _ => none
    | some "Num" => (specI32 v).bind fun n => specFix2 { f with num := n } rest
    | some "note" => match v with
      | .string s => specFix2 { f with note := s } rest
      | _ => none
    | _ => specFix2 f rest

/-- the value a destination must hold after decoding the tree, or `none` when the tree does not fit it -/
def specValue (dest : String) (t : NBT) : Option String :=
  match dest, t with
  | "any", t => some (specAny t)
  | "raw", t => some (specRaw t)
  | "map", .compound kvs => some (specAny (.compound kvs))
  | "skip", .compound _ => some "T{}"
  | "disallow", .compound [] => some "T{}"
  | "fix1", .compound kvs => (specFix1 {} kvs).map showFix1
  | "fix2", .compound kvs => (specFix2 {} kvs).map showFix2
  | _, _ => none

/-- does the tree (or the root name) hold a string the format allows but this package refuses (≥ 2^15 bytes)? -/
partial def hasLongString : NBT → Bool
  | .string s => s.length ≥ 32768
  | .list _ xs => xs.any hasLongString
  | .compound kvs => kvs.any fun (k, v) => k.length ≥ 32768 || hasLongString v
  | _ => false

def fix1Ty : Ty := .struct [("a".toUTF8.toList.map (fun (b : UInt8) => BitVec.ofNat 8 b.toNat), .i32),
  ("Bee".toUTF8.toList.map (fun (b : UInt8) => BitVec.ofNat 8 b.toNat), .str),
  ("x".toUTF8.toList.map (fun (b : UInt8) => BitVec.ofNat 8 b.toNat), .raw),
  ("m".toUTF8.toList.map (fun (b : UInt8) => BitVec.ofNat 8 b.toNat), .mapAny),
  ("z".toUTF8.toList.map (fun (b : UInt8) => BitVec.ofNat 8 b.toNat), .struct [])]

def fix2Ty : Ty := .struct [("inner".toUTF8.toList.map (fun (b : UInt8) => BitVec.ofNat 8 b.toNat), fix1Ty),
  ("Num".toUTF8.toList.map (fun (b : UInt8) => BitVec.ofNat 8 b.toNat), .i32),
  ("note".toUTF8.toList.map (fun (b : UInt8) => BitVec.ofNat 8 b.toNat), .str)]

def showRun {α} (sh : α → String) (r : Res (α × Bytes) × Stream) : String :=
  match r.1 with
  | .ok (v, name) => s!"ok name={hexOfBytes name} v={sh v} left={r.2.flat.length}"
  | .err => s!"err left={r.2.flat.length}"
  | .panic => "panic"

/-- run the model of one entry point -/
def runModel (dest : String) (network : Bool) (doc : Bytes) : Option String :=
  let s := Stream.ofBytes doc
  match dest with
  | "any" => some (showRun showAny (decodeAny network s))
  | "map" => some (showRun showVal (decodeMap network s))
  | "skip" => some (showRun showVal (decodeSkip network s))
  | "disallow" => some (showRun showVal (decodeDisallow network s))
  | "raw" => some (showRun showVal (decodeRaw network s))
  | "fix1" => some (showRun showVal (decodeTy network false fix1Ty s))
  | "fix2" => some (showRun showVal (decodeTy network false fix2Ty s))
  | _ => none

/-- The oracle. `prop` is "C01" or "C03" (unused since the long-string marker was dropped; kept for callers). -/
def decVerdict (_prop dest fmt : String) (doc : Bytes) (obs : String) : Verdict :=
  let network := fmt == "net"
  match runModel dest network doc with
  | none => { model := "bad-dest" }
  | some model =>
    if obs == "panic" then { model, spec := some "decoder panicked" }
    else if obs == "hang" then { model, spec := some "decoder did not return (watchdog)" }
    else
      let isOk := obs.startsWith "ok "
      match parseDoc (if network then .network else .file) doc with
      | none =>
        -- not a well-formed document followed by anything: truncated, negative length, unknown tag, End at the root …
        { model, spec := if isOk then some "ill-formed or truncated document reported as decoded" else none }
      | some (name, t, rest) =>
        -- strings, keys and names of 2^15 … 2^16−1 bytes are legal NBT but outside the property's quantifier
        -- ("0..32767-byte strings"): no demand there, only the comparison with the model
        if name.length ≥ 32768 || hasLongString t then { model } else
        match specValue dest t with
        | some v =>
          let want := s!"ok name={hexOfBytes name} v={v} left={rest.length}"
          if obs == want then { model } else
            { model, spec := some ("well-formed document: expected " ++ (want.take 200).toString) }
        | none =>
          { model, spec := if isOk then some "document does not fit the destination but was reported as decoded" else none }

def handleDec (prop : String) (args : List String) (obs : String) : Option Verdict :=
  match args with
  | [dest, fmt, _rk, hexdoc] =>
    match parseHex hexdoc with
    | some doc => some (decVerdict prop dest fmt doc obs)
    | none => some { model := "bad-arg" }
  | _ => none

end Driver.NBT
