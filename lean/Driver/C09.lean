/-
  Driver for C09 — fragmentation invariance and I/O failures (readers and writers).

  Reader lines
    frag <decoder> <input: hex or bx expression> <k> <schedule> <tail> base=<obs> <key=value …>  =>  <obs>
      the source delivers the first <k> bytes of the input in chunks of the scheduled sizes (`-` = one chunk;
      the last size repeats when the schedule runs out) and then ends with <tail>:
        eof | fail (injected I/O error) | eofd / faild (the last chunk is delivered TOGETHER with the end)
      <obs>  = `ok <decoder-specific value and count> left=<n>` | `err left=<n>` | `panic`
               (left = delivered bytes the decoder did not consume)
      base   = the observation of the contiguous run on the WHOLE input ending with EOF (`|` for spaces)
  Writer lines
    wfault <encoder> <mode> <k> full=<bx> <key=value …>  =>  ok|err wrote=<hex or digest>
      the sink accepts <k> bytes and then fails with a short write; mode `stick`: it keeps failing,
      `once`: it fails once and accepts everything afterwards; full = what the encoder writes to an unlimited sink

  Part 2: the nbt decoders (`nbt.any` … `nbt.fix2`: Model/NBTDecode printed by Driver.NBTCommon; `nbt.typed`, `nbtfield`:
  Model/NBTTyped / NBTField printed by Driver.GoValText), `palette` (Model/Palette), `section` / `chunk` / `blockentity`
  (Model/ChunkWire) — the owning properties' models on the chunked stream; writers `nbt` (Model/WritersNBT), `palette`,
  `section` (Model/WritersLevel), `chunk` (Model/WritersChunk).

  Large values: the input of a `frag` line and `full=` are bx expressions of harness/c07.go (hex pieces, `g<seed>.<n>`,
  `r<seed>.<n>`, `z<hh>.<n>` joined by `+`); the parameters of the decoders / encoders in `macroEncoders` may contain the
  macros `!h<bx>!`, `!l<bx>!`, `!q<bx>!` (`expand`); a token `key=value` of an observation longer than 600 characters is
  replaced by its length and FNV-1a digest (`squash`), what a sink received beyond 256 bytes likewise (`digW`).  For an
  input longer than 2048 bytes the model's own contiguous run is compared with `base` only on the contiguous line
  (once per input), the model's unlimited run with `full` only on the `k = 0` lines.

  The registries `decoders` / `encoders` have one line per decoder / encoder (harness/c09.go has the matching
  line).  The model side runs the decoder model on the chunked `Stream` / the `Wr` model under `budget := some k`.
  The spec oracle is decoder-generic and written from the property's sentence:
    * a decoder never needs more than it consumed: if the contiguous run on the whole input succeeded having
      consumed c bytes, then on a source delivering k ≥ c bytes — however chunked, however it ends — the result
      is the same value and count with k − c bytes left, and on a source delivering k < c bytes it is an error;
    * if the contiguous run failed, every other chunking of the same bytes with the same end fails the same way;
    * decoders that read to the end of the source by definition (PluginMessageData) are only compared on the whole
      input, and must fail when the source ends with an I/O error;
    * a sink accepting fewer bytes than the encoding ⇒ error; at least the encoding ⇒ success with all bytes.
-/
import Driver.Util
import Driver.C04
import Driver.C06
import Driver.C07
import Driver.C10
import Driver.C11
import Driver.C16
import Driver.DYNBT
import Driver.NBTCommon
import Driver.C02
import Driver.C08
import GoMC.Model.Writers
import GoMC.Model.WritersLevel
import GoMC.Model.WritersNBT
import GoMC.Model.WritersChunk
import GoMC.Model.WritersChat
import Driver.C17
import GoMC.Model.Readers
import GoMC.Model.NBTField
import GoMC.Model.ChunkWire
namespace Driver.C09
open GoMC GoMC.Model GoMC.Spec Driver

/-! ### sources -/

def chunksOf (sizes : List Nat) : Nat → List Nat → Bytes → List Bytes
  | 0, _, _ => []
  | _, _, [] => []
  | fuel + 1, [], bs =>
    let k := match sizes.getLast? with | some k => (if k = 0 then 1 else k) | none => bs.length
    bs.take k :: chunksOf sizes fuel [] (bs.drop k)
  | fuel + 1, k :: ks, bs =>
    let k := if k = 0 then 1 else k
    bs.take k :: chunksOf sizes fuel ks (bs.drop k)

def parseSched (s : String) : Option (List Nat) :=
  if s == "-" then some [] else (s.splitOn ",").mapM String.toNat?

def mkStream (input : Bytes) (k : Nat) (sched tail : String) : Option Stream :=
  match parseSched sched with
  | none => none
  | some sizes =>
    if !(["eof", "fail", "eofd", "faild"].contains tail) then none else
    let d := input.take k
    let chunks := if sizes.isEmpty then (if d.isEmpty then [] else [d]) else chunksOf sizes (d.length + 1) sizes d
    some { chunks := chunks, failing := tail == "fail" || tail == "faild" }

/-! ### decoders: parameters → stream → (core observation, residual stream) -/

structure Dec where
  run : List String → Stream → Option (String × Stream)
  regular : List String → Bool := fun _ => true
  readsAll : List String → Bool := fun _ => false

def core {α} (r : Res α) (f : α → String) : String :=
  match r with
  | .ok a => "ok " ++ f a
  | .err => "err"
  | .panic => "panic"

def runVar (w : Nat) (_ : List String) (s : Stream) : Option (String × Stream) :=
  if w == 32 then
    let (r, s') := varIntRead s
    some (core r fun (v, n) => s!"v={hexOfNat 8 v.toNat} n={n}", s')
  else
    let (r, s') := varLongRead s
    some (core r fun (v, n) => s!"v={hexOfNat 16 v.toNat} n={n}", s')

def fldTy (p : List String) : Option Ty := (kv p "ty").bind C06.tyOfString

def runFld (p : List String) (s : Stream) : Option (String × Stream) :=
  match fldTy p, (kv p "val").bind C06.svOfString with
  | some t, some sv =>
    match C06.toAbs t sv with
    | none => none
    | some a =>
      let v := ofAbs t a
      let mode := C06.natArg ((kv p "mode").getD "0")
      let (r, s') := (codec t).dec (prior mode t v) s
      some (core r fun (d, n) => s!"rn={n} v={C06.showAbs t (abs t d)}", s')
  | _, _ => none

def runFrame (p : List String) (s : Stream) : Option (String × Stream) :=
  match (kv p "t").bind C07.parseInt, (kv p "p0").bind C07.parseRecv, kv p "zin", (kv p "zr").bind (C07.parseOpt · []) with
  | some t, some p₀, some zin, some zr =>
    let Z : ZLib :=
      { deflate := fun _ => []
        inflate := fun _ => none
        zread := fun x => if C07.dig x == zin then zr else none }
    let (r, s') := unpack Z t p₀ C07.stale s
    some (core r fun q => s!"id={hexOfNat 8 q.id.toNat} data={C07.dig q.data} cap={q.cap}", s')
  | _, _, _, _ => none

def runRcon (_ : List String) (s : Stream) : Option (String × Stream) :=
  let (r, s') := RCON.readPacketRd s
  some (core r fun q => s!"id={C16.h8 q.id} type={C16.h8 q.typ} p={hexOfBytes q.payload}", s')

def runDynbt (file : Bool) (_ : List String) (s : Stream) : Option (String × Stream) :=
  let (r, s') := DynBT.decodeDoc file s
  some (core r fun (t, _, v) =>
    match DynBT.marshal v with
    | .ok out => s!"tag={t.toNat} out={hexOfBytes out}"
    | _ => s!"tag={t.toNat} encerr", s')

def runSnbt (p : List String) (s : Stream) : Option (String × Stream) :=
  let fo := C04.mkFmtOracle (C04.parseFfTable ((kv p "ff").getD "-"))
  let (r, s') := snbtDoc fo s
  some (core r fun (_, text) => s!"text={hexOfBytes text}", s')

/-- the longs of a byte string, linear in its length (C11's `longsOfBytes` measures the rest at every step) -/
def longsLin : Bytes → List (BitVec 64) → Option (List (BitVec 64))
  | [], acc => some acc.reverse
  | a :: b :: c :: d :: e :: f :: g :: h :: rest, acc => longsLin rest (C11.longOfBytes [a, b, c, d, e, f, g, h] :: acc)
  | _, _ => none

def parseInitLin (s : String) : Option (Option (List (BitVec 64))) :=
  if s == "nil" then some none else ((parseHex s).bind fun bs => longsLin bs []).map some

def bitsOf (p : List String) : Option BitStorage :=
  match (kv p "b").bind String.toInt?, (kv p "n").bind String.toInt?, (kv p "init").bind parseInitLin with
  | some b, some n, some init =>
    match newBitStorage b n init with
    | .ok st => some st
    | _ => none
  | _, _, _ => none

def runBits (p : List String) (s : Stream) : Option (String × Stream) :=
  (bitsOf p).map fun st =>
    let (r, s') := bitsRead st s
    (core r fun (n, st') => s!"n={n} raw={C11.hexOfLongs st'.raw}", s')

/-! nbt.Decoder into tree-level destinations (models: Model/NBTDecode, printed by Driver.NBTCommon), into typed
destinations (Model/NBTTyped, printed by Driver.GoValText), NBTField (Model/NBTField) -/

def runNbtTree (dest : String) (p : List String) (s : Stream) : Option (String × Stream) :=
  let net := kv p "fmt" == some "net"
  let sh {α} (f : α → String) (r : Res (α × Bytes) × Stream) : String × Stream :=
    (core r.1 fun (v, name) => s!"name={hexOfBytes name} v={f v}", r.2)
  match dest with
  | "any" => some (sh NBT.showAny (Model.NBT.decodeAny net s))
  | "map" => some (sh NBT.showVal (Model.NBT.decodeMap net s))
  | "skip" => some (sh NBT.showVal (Model.NBT.decodeSkip net s))
  | "disallow" => some (sh NBT.showVal (Model.NBT.decodeDisallow net s))
  | "raw" => some (sh NBT.showVal (Model.NBT.decodeRaw net s))
  | "fix1" => some (sh NBT.showVal (Model.NBT.decodeTy net false NBT.fix1Ty s))
  | "fix2" => some (sh NBT.showVal (Model.NBT.decodeTy net false NBT.fix2Ty s))
  | _ => none

def goTy (p : List String) : Option Model.Go.GoType :=
  match (kv p "ty").bind fun d => GoText.parseType d.toList with
  | some (t, []) => some t
  | _ => none

def runNbtTyped (p : List String) (s : Stream) : Option (String × Stream) :=
  (goTy p).map fun t =>
    let r := Model.Go.decodeTyped C02.cx (kv p "fmt" == some "net") (kv p "dis" == some "1") t s
    (core r.1 fun (v, name) => s!"name={hexOfBytes name} v={GoText.showVal v}", r.2)

def runNbtField (p : List String) (s : Stream) : Option (String × Stream) :=
  (goTy p).map fun t =>
    let r := Model.Go.fieldRead C02.cx (kv p "allow" == some "1") t t.zero s
    (core r.1 fun (v, n) => s!"n={n} v={GoText.showVal v}", r.2)

/-! level: the paletted container (Model/Palette), section / chunk / block entity (Model/ChunkWire), printed as in C08 -/

def palOf (p : List String) : Option (Container × Nat) :=
  match kv p "kind", (kv p "gb").bind String.toInt? with
  | some k, some gb =>
    if k == "states" then some (Container.new ⟨.blocks, gb⟩ 4096 0, 4096)
    else if k == "biomes" then some (Container.new ⟨.biomes, gb⟩ 64 0, 64) else none
  | _, _ => none

def runPalette (p : List String) (s : Stream) : Option (String × Stream) :=
  (palOf p).map fun (d, n) =>
    match d.readFrom s with
    | (.ok k, d', s') => (s!"ok n={k} v={(C08.contObs d' n).getD "panic"}", s')
    | (.err, _, s') => ("err", s')
    | (.panic, _, s') => ("panic", s')

def gbsOf (p : List String) : Option C13.M.Ctx :=
  match kv p "gbs", kv p "gbb" with
  | some a, some b => C08.ctxOf a b
  | _, _ => none

def coreV {α} (r : Res (α × Nat) × Stream) (sh : α → Option String) : String × Stream :=
  (core r.1 fun (v, n) => s!"n={n} v={(sh v).getD "panic"}", r.2)

def runSection (p : List String) (s : Stream) : Option (String × Stream) :=
  (gbsOf p).bind fun x =>
    match C13.M.build x 1 [] with
    | .ok d =>
      match d.secs with
      | sec :: _ => some (coreV (Model.Chunk.Section.readFrom x.gbS x.gbB sec s) C08.secObs)
      | [] => none
    | _ => none

def runChunk (p : List String) (s : Stream) : Option (String × Stream) :=
  (gbsOf p).bind fun x =>
    match C13.M.build x (C06.natArg ((kv p "secs").getD "1")) [] with
    | .ok d => some (coreV (Model.Chunk.Chunk.readFrom x.gbS x.gbB d s) C08.chunkObs)
    | _ => none

def runBlockEntity (_ : List String) (s : Stream) : Option (String × Stream) :=
  some (coreV (Model.Chunk.BlockEntity.readFrom (0#8, 0, 0#32, ⟨0#8, []⟩) s) fun e => some (C13.M.entsObs ⟨[e], []⟩))

/-! chat: the NBT form of a text component and the chat-type header (Model/ChatNBT, printed as Driver.C17 / C08 do) -/

def runChatNBT (_ : List String) (s : Stream) : Option (String × Stream) :=
  some (match ChatNBT.readFrom s with
    | (.ok (v, n), s') => (s!"ok n={n} v={((ChatNBT.ofGo v).map C17.showMsg).getD "?"}", s')
    | (.err, s') => ("err", s')
    | (.panic, s') => ("panic", s'))

def runChatType (_ : List String) (s : Stream) : Option (String × Stream) :=
  some (match Chat.typeDec C17.goCodec ⟨0, ChatNBT.messageTy.zero, none⟩ s with
    | (.ok (r, n), s') =>
      (match ChatNBT.ofGo r.sender, (match r.target with | some x => (ChatNBT.ofGo x).map some | none => some none) with
        | some a, some b => (s!"ok n={n} v={C17.showType ⟨r.id, a, b⟩}", s')
        | _, _ => (s!"ok n={n} v=?", s'))
    | (.err, s') => ("err", s')
    | (.panic, s') => ("panic", s'))

/-- `ReadPacket` × n on one stream; `none`: one of them returned an error -/
def readFrames (t : Int) : Nat → Stream → List String → Res (List String) × Stream
  | 0, s, acc => (.ok acc.reverse, s)
  | n + 1, s, acc =>
    let Z : ZLib := { deflate := fun _ => [], inflate := fun _ => none, zread := fun _ => none }
    match unpack Z t { id := 0, data := [], cap := 0 } C07.stale s with
    | (.ok q, s') => readFrames t n s' (s!"{hexOfNat 8 q.id.toNat}:{C07.dig q.data}" :: acc)
    | (_, s') => (.err, s')

/-- `conn.cipher`: `pre` frames through the plain `Conn.Reader` (C10's `connRead`: it IS the socket), `SetCipher`
(C10's `connSetCipher`: the decrypting reader continues on the SAME residual socket stream), `post` frames -/
def runConnCipher (p : List String) (s : Stream) : Option (String × Stream) :=
  match kv p "cipher", (kv p "key").bind parseHex, (kv p "iv").bind parseHex, (kv p "t").bind C07.parseInt,
        (kv p "pre").bind String.toNat?, (kv p "post").bind String.toNat? with
  | some cn, some key, some iv, some t, some pre, some post =>
    (C10.cipherOf cn key).map fun ci =>
      match CFB8.connRead (fun s => readFrames t pre s []) s with
      | (.ok got1, s1) =>
        match CFB8.connSetCipher ci.E ci.bs iv s1 with
        | .ok s2 =>
          match readFrames t post s2 got1.reverse with
          | (.ok got, s3) => (s!"ok pk={",".intercalate got}", s3)
          | (_, s3) => ("err", s3)
        | _ => ("panic", s1)
      | (_, s1) => ("err", s1)
  | _, _, _, _, _, _ => none

/-- THE REGISTRY (readers): one line per decoder -/
def decoders : List (String × Dec) := [
  ("varint", { run := runVar 32 }),
  ("varlong", { run := runVar 64 }),
  ("fld", { run := runFld,
            regular := fun p => ((fldTy p).map Ty.regular).getD true,
            readsAll := fun p => fldTy p == some Ty.pluginmsg }),
  ("frame", { run := runFrame }),
  ("rcon", { run := runRcon }),
  ("dynbt.net", { run := runDynbt false }),
  ("dynbt.file", { run := runDynbt true }),
  ("snbt", { run := runSnbt }),
  ("bits", { run := runBits }),
  ("nbt.any", { run := runNbtTree "any" }),
  ("nbt.map", { run := runNbtTree "map" }),
  ("nbt.skip", { run := runNbtTree "skip" }),
  ("nbt.disallow", { run := runNbtTree "disallow" }),
  ("nbt.raw", { run := runNbtTree "raw" }),
  ("nbt.fix1", { run := runNbtTree "fix1" }),
  ("nbt.fix2", { run := runNbtTree "fix2" }),
  ("nbt.typed", { run := runNbtTyped }),
  ("nbtfield", { run := runNbtField }),
  ("palette", { run := runPalette }),
  ("section", { run := runSection }),
  ("chunk", { run := runChunk }),
  ("blockentity", { run := runBlockEntity }),
  ("chat.nbt", { run := runChatNBT }),
  ("chat.type", { run := runChatType }),
  ("conn.cipher", { run := runConnCipher })
]

/-! ### compact descriptions of large payloads (mirrors of harness/c09.go) -/

/-- encoders whose parameters may contain the macros `!h<bx>!` (hex digits of the bytes of the bx expression) and
`!l<bx>!` (the bytes as a comma-separated list of two-digit hex numbers), `!q<bx>!` (as 16-digit numbers) -/
def macroEncoders : List String := ["fld", "rcon", "dynbt", "nbt", "bits"]

def hexCharsOf (bs : Bytes) : List Char :=
  bs.foldr (fun b acc => hexDigit (b.toNat / 16) :: hexDigit (b.toNat % 16) :: acc) []

def groups8 : Bytes → Nat → List String
  | a :: b :: c :: d :: e :: f :: g :: h :: rest, fuel + 1 => hexOfBytes [a, b, c, d, e, f, g, h] :: groups8 rest fuel
  | _, _ => []

def expandMacro (m : String) : Option String :=
  let body := (m.drop 1).toString
  if m.startsWith "h" then (C07.parseBx body).map fun bs => String.ofList (hexCharsOf bs)
  else if m.startsWith "l" then
    (C07.parseBx body).map fun bs =>
      String.ofList ((bs.foldr (fun b acc => ',' :: hexDigit (b.toNat / 16) :: hexDigit (b.toNat % 16) :: acc) []).drop 1)
  else if m.startsWith "q" then
    (C07.parseBx body).map fun bs => ",".intercalate (groups8 bs bs.length)
  else none

/-- literal!macro!literal!macro!… -/
def expandParts : List String → Bool → Option String
  | [], _ => some ""
  | p :: ps, isMacro =>
    match (if isMacro && !p.isEmpty then expandMacro p else some p), expandParts ps (!isMacro) with
    | some a, some b => some (a ++ b)
    | _, _ => none

def expand (s : String) : Option String :=
  if !s.contains '!' then some s else expandParts (s.splitOn "!") false

def expandParams (name : String) (params : List String) : Option (List String) :=
  if macroEncoders.contains name then params.mapM expand else some params

/-- what the sink received: hex up to 256 bytes, a digest beyond -/
def digW (bs : Bytes) : String :=
  if bs.length ≤ 256 then hexOfBytes bs
  else s!"#{bs.length}:{hexOfNat 16 (C07.fnv64 bs).toNat}:{hexOfBytes (bs.take 8)}"

/-- a token `key=value` longer than 600 characters becomes `key=#<length of the value>:<FNV-1a of the value text>` -/
def squash (obs : String) : String :=
  if obs.length ≤ 600 then obs else
  " ".intercalate ((obs.splitOn " ").map fun t =>
    if t.length ≤ 600 then t else
    match t.splitOn "=" with
    | key :: rest@(_ :: _) =>
      let v := "=".intercalate rest
      let h : UInt64 := v.foldl (fun h c => (h ^^^ c.toNat.toUInt64) * 0x100000001b3) 0xcbf29ce484222325
      s!"{key}=#{v.length}:{hexOfNat 16 h.toNat}"
    | _ => t)

def showObs (c : String) (s' : Stream) : String :=
  if c == "panic" then "panic" else s!"{squash c} left={s'.flat.length}"

def toks (o : String) : List String := o.splitOn " "
def cls (o : String) : String := (toks o).headD ""
def leftOf (o : String) : Option Nat := (kv (toks o) "left").bind String.toNat?
def dropLeft (o : String) : String := " ".intercalate ((toks o).filter fun t => !t.startsWith "left=")

def frag (args : List String) (obs : String) : Verdict :=
  match args with
  | name :: hexS :: kS :: sched :: tail :: params =>
    match decoders.lookup name, C07.parseBx hexS, kS.toNat?, expandParams name params with
    | some d, some input, some k, some params =>
      if k > input.length then { model := "bad-arg" } else
      match mkStream input k sched tail with
      | none => { model := "bad-arg" }
      | some s =>
        -- the model's own contiguous run is compared with `base` on every line of a small input, and once (on the
        -- contiguous line) for a large one
        let base := ((kv params "base").getD "").replace "|" " "
        let checkBase := input.length ≤ 2048 || (k == input.length && sched == "-" && tail == "eof")
        match d.run params s, (if checkBase then d.run params (Stream.ofBytes input) else some (base, Stream.ofBytes [])) with
        | some (c, s'), some (bc, bs') =>
          let mbase := if checkBase then showObs bc bs' else base
          let m := showObs c s'
          let model := if mbase == base then m else s!"{m} [model-base={mbase}]"
          let eofish := tail == "eof" || tail == "eofd"
          let whole := k == input.length
          -- NBT documents, independently of the decoder's own contiguous run: the format's reference reader
          -- (Spec/NBT.lean, written from the format description) finds no complete document in the bytes that were
          -- delivered — e.g. an array announces more elements than the source holds — so success is a silently
          -- truncated result
          let nbtFmt : Option Format :=
            if name == "snbt" || name == "dynbt.net" || name == "nbtfield" then some .network
            else if name == "dynbt.file" then some .file
            else if name.startsWith "nbt." then some (if kv params "fmt" == some "file" then .file else .network)
            else none
          let truncated : Bool :=
            match nbtFmt with
            | some f => cls obs == "ok" && k ≤ 4096 && (input.take k).head? != some 0 && (parseDoc f (input.take k)).isNone
            | none => false
          let spec : Option String :=
            if truncated then some s!"the {k} delivered bytes do not hold a complete NBT document (reference reader), but the decoder reports success"
            else if cls base == "panic" || cls base == "" then none
            else if d.regular params then
              if cls base == "ok" then
                match leftOf base with
                | none => some "unparseable base observation"
                | some lb =>
                  let c := input.length - lb
                  if k < c then
                    (if cls obs == "err" then none
                     else some s!"the source ended after {k} of the {c} bytes the decoder needs: the result must be an error")
                  else
                    let want := s!"{dropLeft base} left={k - c}"
                    if obs == want then none
                    else some s!"all {c} bytes the decoder needs were delivered: expected {want.take 200}"
              else if whole && eofish then
                (if obs == base then none else some s!"differs from the contiguous run: {base.take 200}")
              else none
            else
              if whole && eofish then
                (if obs == base then none else some s!"differs from the contiguous run: {base.take 200}")
              else if d.readsAll params && !eofish then
                (if cls obs == "err" then none else some "the source ended with an I/O error but the read-to-end decoder reports success")
              else none
          { model, spec }
        | _, _ => { model := "bad-arg" }
    | _, _, _, _ => { model := "bad-arg" }
  | _ => { model := "bad-arg" }

/-! ### encoders: parameters → writer program (result forgotten) -/

def forget {α} (e : Wr α) : Wr Unit := e >>= fun _ => (pure () : Wr Unit)

def encFld (p : List String) : Option (Wr Unit) :=
  match fldTy p, (kv p "val").bind C06.svOfString with
  | some t, some sv => (C06.toAbs t sv).map fun a => forget (wcodec t (ofAbs t a))
  | _, _ => none

def encPack (p : List String) : Option (Wr Unit) :=
  match (kv p "t").bind C07.parseInt, (kv p "id").bind parseHexNat, (kv p "data").bind C07.parseBx, (kv p "z").bind C07.parseBx with
  | some t, some idn, some data, some z =>
    let id := BitVec.ofNat 32 idn
    let same := C07.lebId id ++ data
    match (kv p "zi").bind (C07.parseOpt · same), (kv p "zr").bind (C07.parseOpt · same) with
    | some zi, some zr => some (wPack (C07.zOne z zi zr) t { id, data, cap := data.length } C07.stale)
    | _, _ => none
  | _, _, _, _ => none

def encRcon (p : List String) : Option (Wr Unit) :=
  match (kv p "id").bind C16.p8, (kv p "typ").bind C16.p8, (kv p "p").bind parseHex with
  | some id, some typ, some pl => some (wRcon id typ pl)
  | _, _, _ => none

def encBits (p : List String) : Option (Wr Unit) := (bitsOf p).map fun st => forget (wBits st)

def encDynbt (p : List String) : Option (Wr Unit) :=
  match (kv p "doc").bind parseHex with
  | some (tag :: payload) =>
    match DynBT.unmarshal tag (Stream.ofBytes payload) with
    | (.ok v, _) => some (DynBT.wMarshal v)
    | _ => none
  | _ => none

/-- the container the wire form `wire=` denotes: the model's `ReadFrom` into a fresh container -/
def encPalette (p : List String) : Option (Wr Unit) :=
  match palOf p, (kv p "wire").bind parseHex with
  | some (d, _), some wire =>
    match d.readFrom (Stream.ofBytes wire) with
    | (.ok _, c, _) => some (forget (wContainer c))
    | _ => none
  | _, _ => none

def encSection (p : List String) : Option (Wr Unit) :=
  match gbsOf p, (kv p "wire").bind parseHex with
  | some x, some wire =>
    match C13.M.build x 1 [] with
    | .ok d =>
      match d.secs with
      | sec :: _ =>
        match Model.Chunk.Section.readFrom x.gbS x.gbB sec (Stream.ofBytes wire) with
        | (.ok (sec', _), _) => some (forget (wSection sec'.core))
        | _ => none
      | [] => none
    | _ => none
  | _, _ => none

/-- `nbt.Encoder.Encode(v, name)`: the value travels in C02's text form -/
def encNbt (p : List String) : Option (Wr Unit) :=
  match goTy p, (kv p "name").bind parseHex with
  | some t, some name =>
    match (kv p "val").bind fun v => GoText.parseVal t v.toList with
    | some (v, []) => some (Model.Go.wEncode C02.cx (kv p "fmt" == some "net") name (some v))
    | _ => none
  | _, _ => none

/-- `Chunk.WriteTo` of the chunk the wire form `wire=` denotes (the model's `ReadFrom` into an empty chunk) -/
def encChunk (p : List String) : Option (Wr Unit) :=
  match gbsOf p, (kv p "wire").bind parseHex with
  | some x, some wire =>
    match C13.M.build x (C06.natArg ((kv p "secs").getD "1")) [] with
    | .ok d =>
      match Model.Chunk.Chunk.readFrom x.gbS x.gbB d (Stream.ofBytes wire) with
      | (.ok (c, _), _) => some (forget (Model.Chunk.wChunk C02.cx x.gbS x.gbB c))
      | _ => none
    | _ => none
  | _, _ => none

def encChatMsg (p : List String) : Option (Wr Unit) :=
  ((kv p "m").bind C17.parseMsgTok).map fun m => forget (ChatNBT.wMessage m)

def encChatType (p : List String) : Option (Wr Unit) :=
  match (kv p "id").bind String.toInt?, (kv p "s").bind C17.parseMsgTok, kv p "t" with
  | some id, some sender, some ts =>
    (if ts == "-" then some none else (C17.parseMsgTok ts).map some).map fun target =>
      forget (ChatNBT.wType ⟨BitVec.ofInt 32 id, sender, target⟩)
  | _, _, _ => none

/-- ORACLE-ONLY encoders (none at present): encoders without a `Wr` model would be listed here; for them only the generic
oracle applies (a sink accepting fewer bytes than the encoding ⇒ error; room for all ⇒ success with all bytes) and the
model column echoes the observation. -/
def oracleEncoders : List String := []

/-- THE REGISTRY (writers): one line per encoder -/
def encoders : List (String × (List String → Option (Wr Unit))) := [
  ("fld", encFld),
  ("pack", encPack),
  ("rcon", encRcon),
  ("bits", encBits),
  ("dynbt", encDynbt),
  ("palette", encPalette),
  ("section", encSection),
  ("nbt", encNbt),
  ("chunk", encChunk),
  ("chat.msg", encChatMsg),
  ("chat.type", encChatType)
]

def showW (r : Res Unit × WState) : String := s!"{resTag r.1} wrote={digW r.2.out}"

def wfaultSpec (k : Nat) (full : Bytes) (obs : String) : Option String :=
  let wantFull := s!"ok wrote={digW full}"
  if obs == "panic" then some "encoder panicked" else
  if k < full.length then
    (if cls obs == "err" then none
     else some s!"the sink accepted {k} of {full.length} bytes and failed, but the encoder reports success")
  else
    (if obs == wantFull then none else some s!"the sink had room for the whole encoding: expected {wantFull.take 200}")

def wfault (args : List String) (obs : String) : Verdict :=
  match args with
  | name :: _mode :: kS :: params =>
    if oracleEncoders.contains name then
      match kS.toNat?, (kv params "full").bind C07.parseBx with
      | some k, some full => { model := obs, spec := wfaultSpec k full obs }
      | _, _ => { model := "bad-arg" }
    else
    match encoders.lookup name, kS.toNat?, (kv params "full").bind C07.parseBx, expandParams name params with
    | some mk, some k, some full, some xparams =>
      match mk xparams with
      | none => { model := "bad-arg" }
      | some e =>
        let m := showW (e ⟨[], some k⟩)
        let wantFull := s!"ok wrote={digW full}"
        -- the model's unlimited run is compared with `full` on every line of a short encoding, on the k = 0 lines of a long one
        let mfull := if full.length ≤ 2048 || k == 0 then showW (e ⟨[], none⟩) else wantFull
        let model := if mfull == wantFull then m else s!"{m} [model-full={mfull.take 200}]"
        let spec : Option String :=
          if obs == "panic" then some "encoder panicked" else
          if k < full.length then
            (if cls obs == "err" then none
             else some s!"the sink accepted {k} of {full.length} bytes and failed, but the encoder reports success")
          else
            (if obs == wantFull then none else some s!"the sink had room for the whole encoding: expected {wantFull.take 200}")
        { model, spec }
    | _, _, _, _ => { model := "bad-arg" }
  | _ => { model := "bad-arg" }

def handle (op : String) (args : List String) (obs : String) : Option Verdict :=
  match op with
  | "frag" => some (frag args obs)
  | "wfault" => some (wfault args obs)
  | _ => none

end Driver.C09
