import Driver.Util
import GoMC.Model.Digest
import GoMC.Spec.JavaBigInt
namespace Driver.C18
open GoMC GoMC.Model GoMC.Spec Driver

def hexArg (args : List String) (key : String) : Option Bytes := (kv args key).bind parseHex

/-- hex without the "-" convention for empty (fixed-width values) -/
def hexPlain (bs : Bytes) : String := if bs.isEmpty then "" else hexOfBytes bs

def showStr : Res String → String
  | .ok s => s
  | .err => "!err"
  | .panic => "!panic"

def allZero (d : Bytes) : Bool := d.all (· == 0#8)

/-- `uuid name=<hex> md5=<hex> => <hex uuid>`.
    The MD5 parameter of the model is instantiated with the value Go's crypto/md5 produced for the one input
    that occurs ("OfflinePlayer:" ++ name, built here from the text of the property, not from the model). -/
def uuid (args : List String) (obs : String) : Verdict :=
  match hexArg args "name", hexArg args "md5" with
  | some name, some h =>
    let input : Bytes := "OfflinePlayer:".toUTF8.toList.map (fun b => BitVec.ofNat 8 b.toNat) ++ name
    let md5 : Bytes → Bytes := fun x => if x == input then h else []
    let model := hexOfBytes (nameToUUID md5 name)
    let want := hexOfBytes (nameUUID h)
    { model, spec := if h.length != 16 then some "md5 is not 16 bytes" else if obs == want then none else some s!"Java: {want}" }
  | _, _ => { model := "bad-arg" }

/-- `digest.auth sid=<hex> secret=<hex> key=<hex> sha1=<hex> => bot=<text> srv=<text>` -/
def digestAuth (args : List String) (obs : String) : Verdict :=
  match hexArg args "sid", hexArg args "secret", hexArg args "key", hexArg args "sha1" with
  | some sid, some secret, some key, some d =>
    let input := sid ++ secret ++ key
    let sha1 : Bytes → Bytes := fun x => if x == input then d else []
    let model := s!"bot={showStr (authDigest sha1 sid secret key)} srv={showStr (authDigestServer sha1 sid secret key)}"
    let spec : Option String :=
      if d.isEmpty then some "empty digest" else
      if allZero d then none            -- Java "0", Go "": needs a SHA-1 preimage of zero (assumption of the property)
      else
        let want := javaHex (toSigned d)
        if obs == s!"bot={want} srv={want}" then none else some s!"Java: {want}"
    { model, spec }
  | _, _, _, _ => { model := "bad-arg" }

/-- `digest.twos p=<hex> => bot=<hex> srv=<hex>` -/
def digestTwos (args : List String) (obs : String) : Verdict :=
  match hexArg args "p" with
  | some p =>
    let r := hexOfBytes (twosComplement p)
    let model := s!"bot={r} srv={r}"
    let toks := obs.splitOn " "
    let spec : Option String :=
      match (kv toks "bot").bind parseHex, (kv toks "srv").bind parseHex with
      | some a, some b =>
        let want := (256 ^ p.length - beNat p) % 256 ^ p.length
        if a.length != p.length || b.length != p.length then some "length changed"
        else if beNat a != want || beNat b != want then some "not the negation modulo 256^n"
        else none
      | _, _ => some "unparseable observation"
    { model, spec }
  | none => { model := "bad-arg" }

def showBool : Res Bool → String
  | .ok true => "true"
  | .ok false => "false"
  | .err => "err"
  | .panic => "panic"

/-- the two external calls as seen on the line: SHA-256 is instantiated with the identity (its value is never
    observed), RSA verification answers the harness's verdict for the text the harness built independently -/
def rsaOf (text sig : Bytes) (ok : Bool) : Unit → Bytes → Bytes → Bool :=
  fun _ h s => h == text && s == sig && ok

/-- a signature that no RSA verification under the active key can accept was accepted -/
def forgeryOracle (args : List String) (obs : String) : Option String :=
  if obs == "true" && kv args "any" != some "1" then some "accepted a signature that is not valid under the active key for any message"
  else none

/-- `for=<hex>`: the harness obtained `sig` by signing, with the active services key, the text of THAT profile key
    (`for=none`: no such provenance). Accepting it for a different key is accepting a signature the services key
    never issued for the key presented — whatever text format the verifier uses. `rsa=0` (RSA rejects the
    signature for the presented key's own PEM text) is required as well, so the oracle asks no more than
    `C18_verify_sound`. `keyHex` is the presented key as printed on the line. -/
def crossKeyOracle (args : List String) (keyHex : String) (obs : String) : Option String :=
  match kv args "for" with
  | some f =>
    if obs == "true" && f != "none" && f != keyHex && kv args "rsa" != some "1" then
      some "accepted, for this key, a signature the services key issued for a different key"
    else none
  | none => none

/-- `sig.verify pk=<mojang|der> key=<hex> sig=<hex> [for=<hex|none>] text=<hex> rsa=<0|1> any=<0|1> => true|false|panic` -/
def sigVerify (args : List String) (obs : String) : Verdict :=
  match hexArg args "key", hexArg args "sig", hexArg args "text", kv args "rsa" with
  | some key, some sig, some text, some rsa =>
    let r := verifySignature (Key := Unit) (fun t => t) (rsaOf text sig (rsa == "1")) () key sig
    { model := showBool r, spec := (forgeryOracle args obs) <|> (crossKeyOracle args ((kv args "key").getD "") obs) }
  | _, _, _, _ => { model := "bad-arg" }

def showBytes : Res Bytes → String
  | .ok b => hexOfBytes b
  | .err => "err"
  | .panic => "panic"

/-- `pem.text key=<hex> => <hex text>|panic`: the text built through the repository's line breaker (hook) -/
def pemTextOp (args : List String) (_obs : String) : Verdict :=
  match hexArg args "key" with
  | some key => { model := showBytes (pemText key) }
  | none => { model := "bad-arg" }

/-- `pem.collide a=<hex> b=<hex> => same|diff|panic`: do two keys give the same hashed text?  Two DIFFERENT keys
    with the same text is a violation by itself: every signature issued for one verifies for the other. -/
def pemCollide (args : List String) (obs : String) : Verdict :=
  match hexArg args "a", hexArg args "b" with
  | some a, some b =>
    let model := match pemText a, pemText b with
      | .ok x, .ok y => if x == y then "same" else "diff"
      | _, _ => "panic"
    { model, spec := if obs == "same" && a != b then some "two different keys are hashed to the same message" else none }
  | _, _ => { model := "bad-arg" }

def parseWrites (s : String) : Option (List Bytes) :=
  if s == "none" then some [] else (s.splitOn ",").mapM parseHex

/-- `lb.writes w=<hex>,<hex>,…|none => ok <hex>|err|panic`: the line breaker under an arbitrary sequence of writes -/
def lbWrites (args : List String) (_obs : String) : Verdict :=
  match (kv args "w").bind parseWrites with
  | some ws =>
    let model := match lbWriteAll { line := [], out := [] } ws with
      | .ok l => "ok " ++ hexOfBytes (lbClose l)
      | .err => "err"
      | .panic => "panic"
    { model }
  | none => { model := "bad-arg" }

/-- `pubkey.verify pk=… expired=<0|1> der=<hex|err|panic> sig=<hex> text=<hex> rsa=<0|1> any=<0|1> => true|false|panic` -/
def pubkeyVerify (args : List String) (obs : String) : Verdict :=
  match kv args "expired", kv args "der", hexArg args "sig", hexArg args "text", kv args "rsa" with
  | some expired, some der, some sig, some text, some rsa =>
    let marshal : Option (Res Bytes) :=
      if der == "err" then some .err else if der == "panic" then some .panic else (parseHex der).map .ok
    match marshal with
    | none => { model := "bad-arg" }
    | some m =>
      let r := publicKeyVerify (Key := Unit) (fun t => t) (rsaOf text sig (rsa == "1")) () (expired == "1") m sig
      let spec :=
        if obs == "true" && expired == "1" then some "accepted an expired key"
        else (forgeryOracle args obs) <|> (crossKeyOracle args der obs)
      { model := showBool r, spec }
  | _, _, _, _, _ => { model := "bad-arg" }

/-! ### pubkey.hist — one `PublicKey` value under a history

  `pubkey.hist pk=… n=<N> e<i>=<label> c<i>=<rsa|notrsa|bad> k<i>=<hex> s<i>=<hex> … okp=<i:j,…|none> steps=<…>`
  `=> rf=ok|rf=err|set|v=<true|false|panic>@<e>.<k>.<s>,…`
  Time stamps are the labels (a leading '-' is the past; the zero value "z" is the past). -/

structure HistPkt where
  label : String
  cls : String
  key : Bytes
  sig : Bytes

def parsePkts (args : List String) (n : Nat) : Option (List HistPkt) :=
  (List.range n).mapM fun i => do
    let l ← kv args s!"e{i}"
    let c ← kv args s!"c{i}"
    let k ← hexArg args s!"k{i}"
    let g ← hexArg args s!"s{i}"
    pure { label := l, cls := c, key := k, sig := g }

def parsePairs (s : String) : List (Nat × Nat) :=
  if s == "none" then [] else
  (s.splitOn ",").filterMap fun t =>
    match t.splitOn ":" with
    | [a, b] => match a.toNat?, b.toNat? with
      | some x, some y => some (x, y)
      | _, _ => none
    | _ => none

def labelExpired (l : String) : Bool := l == "z" || l.startsWith "-"

def firstIdx {α} (xs : List α) (p : α → Bool) : Option Nat :=
  (xs.zipIdx.find? (fun (x, _) => p x)).map (·.2)

/-- the identity of the current fields, printed like the harness prints it -/
def identOf (pkts : List HistPkt) (v : PubKeyVal String) : String :=
  let e := match firstIdx pkts (fun p => p.label == v.expiresAt) with | some i => toString i | none => "z"
  let k := match v.pubKey with
    | none => "n"
    | some der => match firstIdx pkts (fun p => p.cls == "rsa" && p.key == der) with | some i => toString i | none => "?"
  let s := match firstIdx pkts (fun p => p.sig == v.signature) with | some i => toString i | none => "z"
  s!"{e}.{k}.{s}"

def keyParseOf (p : HistPkt) : KeyParse :=
  if p.cls == "rsa" then .rsa p.key else if p.cls == "notrsa" then .notRsa else .bad

def parseStep (pkts : List HistPkt) (st : String) : Option (PubKeyStep String × String) :=
  match st.splitOn ":" with
  | ["v"] => some (.verify, "v")
  | ["rf", "x"] => some (.readFrom none, "rf")
  | ["rf", a] => do
    let p ← a.toNat? >>= (pkts[·]?)
    some (.readFrom (some { expiresAt := p.label, key := keyParseOf p, signature := p.sig }), "rf")
  | ["se", a] => do let p ← a.toNat? >>= (pkts[·]?); some (.setExpiresAt p.label, "set")
  | ["sk", "n"] => some (.setPubKey none, "set")
  | ["sk", a] => do let p ← a.toNat? >>= (pkts[·]?); some (.setPubKey (some p.key), "set")
  | ["ss", a] => do let p ← a.toNat? >>= (pkts[·]?); some (.setSignature p.sig, "set")
  | ["cp"] => some (.other, "cp")
  | ["vc", a] => do let _ ← a.toNat?; some (.other, "vc:" ++ a)
  | ["kw", a] => do let _ ← a.toNat? >>= (pkts[·]?); some (.other, "kw=ok")
  | ["pw"] => some (.other, "pw")
  | ["pp"] => some (.other, "pp=ok")
  | ["vs", a] => do let _ ← a.toNat? >>= (pkts[·]?); some (.other, "vs:" ++ a)
  | _ => none

def pubkeyHist (args : List String) (obs : String) : Verdict :=
  match (kv args "n").bind String.toNat?, kv args "okp", kv args "steps" with
  | some n, some okp, some stepsS =>
    match parsePkts args n, (stepsS.splitOn ",").mapM (parseStep (pkts := (parsePkts args n).getD [])) with
    | some pkts, some steps =>
      let pairs := parsePairs okp
      -- external calls: SHA-256 is the identity; RSA answers the harness's verdict for (text of key i, signature j)
      let rsa : Unit → Bytes → Bytes → Bool := fun _ h s =>
        pairs.any fun (i, j) =>
          match pkts[i]?, pkts[j]? with
          | some pi, some pj => pemText pi.key == .ok h && pj.sig == s
          | _, _ => false
      let v0 : PubKeyVal String := { expiresAt := "z", pubKey := none, signature := [] }
      -- a copy is a value: `cp` appends the current fields to `kept`, `vc:i` verifies those fields
      let (_, _, outs) := steps.foldl (init := (v0, ([] : List (PubKeyVal String)), ([] : List String))) fun (v, kept, acc) (st, tag) =>
        if tag == "cp" then (v, kept ++ [v], acc ++ ["cp"]) else
        if tag.startsWith "vc:" then
          match (tag.drop 3).toString.toNat? >>= (kept[·]?) with
          | some k => (v, kept, acc ++ [s!"vc={showBool (pubKeyVerifyNow (Key := Unit) (fun t => t) rsa () labelExpired k)}@{identOf pkts k}"])
          | none => (v, kept, acc ++ ["vc=?"])
        else
        let (v', acc') : PubKeyVal String × List String :=
        match st with
        | .verify =>
          let r := pubKeyVerifyNow (Key := Unit) (fun t => t) rsa () labelExpired v
          (v, acc ++ [s!"v={showBool r}@{identOf pkts v}"])
        | .readFrom p =>
          let (v', ok) := pubKeyReadFrom v p
          (v', acc ++ [if ok then "rf=ok" else "rf=err"])
        | st =>
          let out :=
            if tag == "pw" then (if v.pubKey.isSome then "pw=ok" else "pw=panic")
            else if tag.startsWith "vs:" then
              match (tag.drop 3).toString.toNat? >>= (pkts[·]?) with
              | some p => s!"vs={showBool (verifySignature (Key := Unit) (fun t => t) rsa () p.key p.sig)}#{(tag.drop 3).toString}"
              | none => "vs=?"
            else tag
          (pubKeyApply v st, acc ++ [out])
        (v', kept, acc')
      let model := ",".intercalate outs
      -- oracle, from the observation alone: a `true` needs current fields that are unexpired and a (key, signature)
      -- pair for which RSA verification under the services key succeeds
      let bad := (obs.splitOn ",").find? fun item =>
        if item.startsWith "v=true@" then
          match ((item.drop 7).toString).splitOn "." with
          | [e, k, s] =>
            match e.toNat?, k.toNat?, s.toNat? with
            | some ei, some ki, some si =>
              match pkts[ei]? with
              | some pe => labelExpired pe.label || !(pairs.contains (ki, si))
              | none => true
            | _, _, _ => true
          | _ => true
        else if item.startsWith "vc=" && (item.splitOn "/changed").length > 1 then true   -- a kept copy changed
        else if item.startsWith "vc=true@" then
          match ((item.drop 8).toString).splitOn "." with
          | [e, k, s] =>
            match e.toNat?, k.toNat?, s.toNat? with
            | some ei, some ki, some si =>
              match pkts[ei]? with
              | some pe => labelExpired pe.label || !(pairs.contains (ki, si))
              | none => true
            | _, _, _ => true
          | _ => true
        else if item.startsWith "vs=true#" then
          match ((item.drop 8).toString).toNat? with
          | some i => !(pairs.contains (i, i))
          | none => true
        else false
      { model, spec := bad.map fun item =>
          if (item.splitOn "/changed").length > 1 then s!"a kept copy of the value no longer holds what it held when it was taken: {item}"
          else s!"accepted what does not verify under the services key fixed at the start: {item}" }
    | _, _ => { model := "bad-arg" }
  | _, _, _ => { model := "bad-arg" }

/-! ### auth.hs — the server side of the handshake

  `auth.hs kseed= kbits= mode=<ok|badtoken|garbtok|garbsec|badid|short> http=<ok|fail|badjson> secret=<hex> key=<hex>`
  `tok=<ok1|ok0|err> dec=<hex|err> sha1=<hex|-> client=<text> => ok|err|panic|hang [hash=<text>]` -/

def authHs (args : List String) (obs : String) : Verdict :=
  match kv args "mode", kv args "http", hexArg args "key", kv args "tok", kv args "dec" with
  | some mode, some http, some key, some tok, some dec =>
    let secret : Res Bytes := if dec == "err" then .err else match parseHex dec with | some b => .ok b | none => .err
    let d := (hexArg args "sha1").getD []
    let sha1 : Bytes → Bytes := fun x =>
      match secret with
      | .ok s => if x == s ++ key then d else []
      | _ => []
    let i : HandshakeIn := {
      idOk := mode != "badid", scanOk := mode != "short",
      token := if tok == "ok1" then .ok true else if tok == "ok0" then .ok false else .err,
      secret := secret, httpOk := http == "ok" }
    let (asked, r) := serverEncrypt sha1 key i
    let model := (match r with | .ok _ => "ok" | .err => "err" | .panic => "panic") ++
      (match asked with | some h => s!" hash={h}" | none => "")
    -- oracle: whatever hash the server asked the session server about must be the Java rendering of
    -- SHA-1("" ‖ the secret the client encrypted ‖ key), and equal to the client-side digest
    let toks := obs.splitOn " "
    let spec : Option String :=
      match kv toks "hash" with
      | none =>
        if toks.head? == some "ok" then some "the server accepted the login without presenting this handshake's session hash to the session server"
        else none
      | some h =>
        if (toks.filter (·.startsWith "hash=")).length > 1 then some "more than one session-server request for one handshake" else
        if dec == "err" then none          -- the client chose no secret: the property compares nothing here
        else if allZero d then none
        else
          let want := javaHex (toSigned d)
          if h != want then some s!"server-side session hash is not Java's rendering for the client's secret: {want}"
          else if kv args "client" != some h then some "server-side and client-side session hashes differ"
          else none
    { model, spec }
  | _, _, _, _, _ => { model := "bad-arg" }

/-- `auth.hs2 kseed= kbits= pattern= n=<N> key=<hex> secret<i>= tok<i>= dec<i>= sha1<i>= client<i>= name<i>= => <obs0>;<obs1>;…`:
    N handshakes in one process (equal letters of `pattern` = equal player names); each is judged like `auth.hs` -/
def authHs2 (args : List String) (obs : String) : Verdict :=
  match (kv args "n").bind String.toNat?, kv args "key" with
  | some n, some key =>
    let parts := obs.splitOn ";"
    let vs := (List.range n).map fun i =>
      let get := fun (k : String) => (kv args s!"{k}{i}").getD "?"
      authHs ["mode=ok", "http=ok", s!"key={key}", s!"tok={get "tok"}", s!"dec={get "dec"}", s!"sha1={get "sha1"}",
              s!"client={get "client"}"] (parts.getD i "missing")
    { model := ";".intercalate (vs.map (·.model)),
      spec := if parts.length != n then some "wrong number of handshake observations"
              else (vs.zipIdx.findSome? fun (v, i) => v.spec.map fun r => s!"handshake {i}: {r}") }
  | _, _ => { model := "bad-arg" }

/-! ### bot.hs — the client side of the handshake

  `bot.hs kseed= kbits= sid=<hex> key=<hex, as sent> kc=<rsa|bad> http=<ok|deny>`
  `=> ok hash=<text> secret=<hex> sha1=<hex> srv=<text> | err | panic`
  `secret` (what `rand.Read` gave the client, recovered by decrypting its response), `sha1` (Go's SHA-1 of
  sid ‖ secret ‖ key as sent) and `srv` (the server-side `authDigest` of the same triple) are on the right-hand side
  because the secret is fresh in every run. -/

def botHs (args : List String) (obs : String) : Verdict :=
  match hexArg args "sid", hexArg args "key", kv args "kc", kv args "http" with
  | some sid, some key, some kc, some http =>
    let toks := obs.splitOn " "
    match (kv toks "secret").bind parseHex, (kv toks "sha1").bind parseHex with
    | some secret, some d =>
      let sha1 : Bytes → Bytes := fun x => if x == sid ++ secret ++ key then d else []
      let (asked, r) := clientHandshake sha1 sid key secret (http == "ok") (kc == "rsa")
      let model := match r, asked with
        | .ok _, some h => s!"ok hash={h} secret={hexOfBytes secret} sha1={hexOfBytes d} srv={showStr (authDigestServer sha1 sid secret key)}"
        | .panic, _ => "panic"
        | _, _ => "err"
      let spec : Option String :=
        match kv toks "hash" with
        | none => none
        | some h =>
          if allZero d then none else
          let want := javaHex (toSigned d)
          if h != want then some s!"the hash the client sent is not Java's rendering of SHA-1(server id ‖ secret ‖ key as sent): {want}"
          else if kv toks "srv" != some h then some "client-side and server-side session hashes differ"
          else none
      { model, spec }
    | _, _ =>
      -- no response packet: nothing to recover the secret from
      let model := if http == "ok" && kc == "rsa" then "ok" else "err"
      { model }
  | _, _, _, _ => { model := "bad-arg" }

def handle (op : String) (args : List String) (obs : String) : Option Verdict :=
  match op with
  | "uuid" => some (uuid args obs)
  | "digest.auth" => some (digestAuth args obs)
  | "digest.twos" => some (digestTwos args obs)
  | "sig.verify" => some (sigVerify args obs)
  | "pubkey.verify" => some (pubkeyVerify args obs)
  | "pem.text" => some (pemTextOp args obs)
  | "pem.collide" => some (pemCollide args obs)
  | "lb.writes" => some (lbWrites args obs)
  | "pubkey.hist" => some (pubkeyHist args obs)
  | "auth.hs" => some (authHs args obs)
  | "auth.hs2" => some (authHs2 args obs)
  | "bot.hs" => some (botHs args obs)
  | _ => none

end Driver.C18
