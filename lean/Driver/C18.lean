import Driver.Util
import GoMC.Model.Digest
import GoMC.Spec.JavaBigInt
namespace Driver.C18
open GoMC GoMC.Model GoMC.Spec Driver

def hexArg (args : List String) (key : String) : Option Bytes := (kv args key).bind parseHex

/-- hex without the "-" convention for empty (fixed-width values) -/
def hexPlain (bs : Bytes) : String := if bs.isEmpty then "" else hexOfBytes bs

def showStr : Res String → String
  | .ok s => s
  | .err => "!err"
  | .panic => "!panic"

def allZero (d : Bytes) : Bool := d.all (· == 0#8)

/-- `uuid name=<hex> md5=<hex> => <hex uuid>`.
    The MD5 parameter of the model is instantiated with the value Go's crypto/md5 produced for the one input
    that occurs ("OfflinePlayer:" ++ name, built here from the text of the property, not from the model). -/
def uuid (args : List String) (obs : String) : Verdict :=
  match hexArg args "name", hexArg args "md5" with
  | some name, some h =>
    let input : Bytes := "OfflinePlayer:".toUTF8.toList.map (fun b => BitVec.ofNat 8 b.toNat) ++ name
    let md5 : Bytes → Bytes := fun x => if x == input then h else []
    let model := hexOfBytes (nameToUUID md5 name)
    let want := hexOfBytes (nameUUID h)
    { model, spec := if h.length != 16 then some "md5 is not 16 bytes" else if obs == want then none else some s!"Java: {want}" }
  | _, _ => { model := "bad-arg" }

/-- `digest.auth sid=<hex> secret=<hex> key=<hex> sha1=<hex> => bot=<text> srv=<text>` -/
def digestAuth (args : List String) (obs : String) : Verdict :=
  match hexArg args "sid", hexArg args "secret", hexArg args "key", hexArg args "sha1" with
  | some sid, some secret, some key, some d =>
    let input := sid ++ secret ++ key
    let sha1 : Bytes → Bytes := fun x => if x == input then d else []
    let model := s!"bot={showStr (authDigest sha1 sid secret key)} srv={showStr (authDigestServer sha1 sid secret key)}"
    let spec : Option String :=
      if d.isEmpty then some "empty digest" else
      if allZero d then none            -- Java "0", Go "": needs a SHA-1 preimage of zero (assumption of the property)
      else
        let want := javaHex (toSigned d)
        if obs == s!"bot={want} srv={want}" then none else some s!"Java: {want}"
    { model, spec }
  | _, _, _, _ => { model := "bad-arg" }

/-- `digest.twos p=<hex> => bot=<hex> srv=<hex>` -/
def digestTwos (args : List String) (obs : String) : Verdict :=
  match hexArg args "p" with
  | some p =>
    let r := hexOfBytes (twosComplement p)
    let model := s!"bot={r} srv={r}"
    let toks := obs.splitOn " "
    let spec : Option String :=
      match (kv toks "bot").bind parseHex, (kv toks "srv").bind parseHex with
      | some a, some b =>
        let want := (256 ^ p.length - beNat p) % 256 ^ p.length
        if a.length != p.length || b.length != p.length then some "length changed"
        else if beNat a != want || beNat b != want then some "not the negation modulo 256^n"
        else none
      | _, _ => some "unparseable observation"
    { model, spec }
  | none => { model := "bad-arg" }

def showBool : Res Bool → String
  | .ok true => "true"
  | .ok false => "false"
  | .err => "err"
  | .panic => "panic"

/-- the two external calls as seen on the line: SHA-256 is instantiated with the identity (its value is never
    observed), RSA verification answers the harness's verdict for the text the harness built independently -/
def rsaOf (text sig : Bytes) (ok : Bool) : Unit → Bytes → Bytes → Bool :=
  fun _ h s => h == text && s == sig && ok

/-- a signature that no RSA verification under the active key can accept was accepted -/
def forgeryOracle (args : List String) (obs : String) : Option String :=
  if obs == "true" && kv args "any" != some "1" then some "accepted a signature that is not valid under the active key for any message"
  else none

/-- `for=<hex>`: the harness obtained `sig` by signing, with the active services key, the text of THAT profile key
    (`for=none`: no such provenance). Accepting it for a different key is accepting a signature the services key
    never issued for the key presented — whatever text format the verifier uses. `rsa=0` (RSA rejects the
    signature for the presented key's own PEM text) is required as well, so the oracle asks no more than
    `C18_verify_sound`. `keyHex` is the presented key as printed on the line. -/
def crossKeyOracle (args : List String) (keyHex : String) (obs : String) : Option String :=
  match kv args "for" with
  | some f =>
    if obs == "true" && f != "none" && f != keyHex && kv args "rsa" != some "1" then
      some "accepted, for this key, a signature the services key issued for a different key"
    else none
  | none => none

/-- `sig.verify pk=<mojang|der> key=<hex> sig=<hex> [for=<hex|none>] text=<hex> rsa=<0|1> any=<0|1> => true|false|panic` -/
def sigVerify (args : List String) (obs : String) : Verdict :=
  match hexArg args "key", hexArg args "sig", hexArg args "text", kv args "rsa" with
  | some key, some sig, some text, some rsa =>
    let r := verifySignature (Key := Unit) (fun t => t) (rsaOf text sig (rsa == "1")) () key sig
    { model := showBool r, spec := (forgeryOracle args obs) <|> (crossKeyOracle args ((kv args "key").getD "") obs) }
  | _, _, _, _ => { model := "bad-arg" }

def showBytes : Res Bytes → String
  | .ok b => hexOfBytes b
  | .err => "err"
  | .panic => "panic"

/-- `pem.text key=<hex> => <hex text>|panic`: the text built through the repository's line breaker (hook) -/
def pemTextOp (args : List String) (_obs : String) : Verdict :=
  match hexArg args "key" with
  | some key => { model := showBytes (pemText key) }
  | none => { model := "bad-arg" }

/-- `pem.collide a=<hex> b=<hex> => same|diff|panic`: do two keys give the same hashed text?  Two DIFFERENT keys
    with the same text is a violation by itself: every signature issued for one verifies for the other. -/
def pemCollide (args : List String) (obs : String) : Verdict :=
  match hexArg args "a", hexArg args "b" with
  | some a, some b =>
    let model := match pemText a, pemText b with
      | .ok x, .ok y => if x == y then "same" else "diff"
      | _, _ => "panic"
    { model, spec := if obs == "same" && a != b then some "two different keys are hashed to the same message" else none }
  | _, _ => { model := "bad-arg" }

def parseWrites (s : String) : Option (List Bytes) :=
  if s == "none" then some [] else (s.splitOn ",").mapM parseHex

/-- `lb.writes w=<hex>,<hex>,…|none => ok <hex>|err|panic`: the line breaker under an arbitrary sequence of writes -/
def lbWrites (args : List String) (_obs : String) : Verdict :=
  match (kv args "w").bind parseWrites with
  | some ws =>
    let model := match lbWriteAll { line := [], out := [] } ws with
      | .ok l => "ok " ++ hexOfBytes (lbClose l)
      | .err => "err"
      | .panic => "panic"
    { model }
  | none => { model := "bad-arg" }

/-- `pubkey.verify pk=… expired=<0|1> der=<hex|err|panic> sig=<hex> text=<hex> rsa=<0|1> any=<0|1> => true|false|panic` -/
def pubkeyVerify (args : List String) (obs : String) : Verdict :=
  match kv args "expired", kv args "der", hexArg args "sig", hexArg args "text", kv args "rsa" with
  | some expired, some der, some sig, some text, some rsa =>
    let marshal : Option (Res Bytes) :=
      if der == "err" then some .err else if der == "panic" then some .panic else (parseHex der).map .ok
    match marshal with
    | none => { model := "bad-arg" }
    | some m =>
      let r := publicKeyVerify (Key := Unit) (fun t => t) (rsaOf text sig (rsa == "1")) () (expired == "1") m sig
      let spec :=
        if obs == "true" && expired == "1" then some "accepted an expired key"
        else (forgeryOracle args obs) <|> (crossKeyOracle args der obs)
      { model := showBool r, spec }
  | _, _, _, _, _ => { model := "bad-arg" }

def handle (op : String) (args : List String) (obs : String) : Option Verdict :=
  match op with
  | "uuid" => some (uuid args obs)
  | "digest.auth" => some (digestAuth args obs)
  | "digest.twos" => some (digestTwos args obs)
  | "sig.verify" => some (sigVerify args obs)
  | "pubkey.verify" => some (pubkeyVerify args obs)
  | "pem.text" => some (pemTextOp args obs)
  | "pem.collide" => some (pemCollide args obs)
  | "lb.writes" => some (lbWrites args obs)
  | _ => none

end Driver.C18
