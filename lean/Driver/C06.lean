import Driver.Util
import GoMC.Model.Combinators
import GoMC.Spec.Wire
namespace Driver.C06
open GoMC GoMC.Model GoMC.Spec Driver

/-! ### the term language: types -/

def lenKindOf : String → Option LenKind
  | "varint" => some .varint | "varlong" => some .varlong | "byte" => some .byte | "ubyte" => some .ubyte
  | "short" => some .short | "ushort" => some .ushort | "int" => some .int | "long" => some .long
  | _ => none

def leafOf : String → Option Ty
  | "bool" => some .bool | "byte" => some .byte | "ubyte" => some .ubyte | "short" => some .short
  | "ushort" => some .ushort | "int" => some .int | "long" => some .long | "float" => some .float
  | "double" => some .double | "string" => some .string | "varint" => some .varint | "varlong" => some .varlong
  | "position" => some .position | "angle" => some .angle | "uuid" => some .uuid | "bytearray" => some .bytearray
  | "pluginmsg" => some .pluginmsg | "bitset" => some .bitset
  | _ => none

def tupleOf : List Ty → Ty
  | [] => .unit
  | t :: ts => .pair t (tupleOf ts)

def isHeadChar (c : Char) : Bool := c.isAlphanum || c == ':'

mutual
partial def parseTy (cs : List Char) : Option (Ty × List Char) :=
  let head := String.ofList (cs.takeWhile isHeadChar)
  let rest := cs.dropWhile isHeadChar
  match rest with
  | '(' :: rest =>
    match parseTyArgs rest [] with
    | none => none
    | some (args, rest) =>
      if head == "tuple" then some (tupleOf args, rest) else
      match args with
      | [a] =>
        if head == "option" then some (.option a, rest)
        else if head == "opt1" then some (.opt1 a, rest)
        else if head == "opt0" then some (.opt0 a, rest)
        else if head.startsWith "ary:" then (lenKindOf (head.drop 4).toString).map fun l => (.ary l a, rest)
        else none
      | _ => none
  | _ =>
    if head.startsWith "fixedbits:" then (head.drop 10).toString.toNat?.map fun n => (.fixedbits n, rest)
    else (leafOf head).map fun t => (t, rest)
partial def parseTyArgs (cs : List Char) (acc : List Ty) : Option (List Ty × List Char) :=
  match cs with
  | ')' :: rest => some (acc.reverse, rest)
  | _ =>
    match parseTy cs with
    | none => none
    | some (t, ',' :: rest) => parseTyArgs rest (t :: acc)
    | some (t, ')' :: rest) => some ((t :: acc).reverse, rest)
    | _ => none
end

def tyOfString (s : String) : Option Ty :=
  match parseTy s.toList with
  | some (t, []) => some t
  | _ => none

/-! ### the term language: values -/

inductive SV where
  | atom (s : String)
  | list (xs : List SV)
deriving Inhabited

mutual
partial def parseSV (cs : List Char) : Option (SV × List Char) :=
  match cs with
  | '(' :: ')' :: rest => some (.list [], rest)
  | '(' :: rest => parseSVs rest []
  | _ =>
    let isA := fun (c : Char) => c != ',' && c != ')' && c != '('
    some (.atom (String.ofList (cs.takeWhile isA)), cs.dropWhile isA)
partial def parseSVs (cs : List Char) (acc : List SV) : Option (SV × List Char) :=
  match parseSV cs with
  | some (v, ',' :: rest) => parseSVs rest (v :: acc)
  | some (v, ')' :: rest) => some (.list (v :: acc).reverse, rest)
  | _ => none
end

def svOfString (s : String) : Option SV :=
  match parseSV s.toList with
  | some (v, []) => some v
  | _ => none

def hexBV (w : Nat) (digits : Nat) (s : String) : Option (BitVec w) :=
  if s.length != digits then none else (parseHexNat s).map (BitVec.ofNat w)

/-- the abstract value a value term denotes at type `t` -/
def toAbs : (t : Ty) → SV → Option t.Abs
  | .bool, .atom "0" => some false
  | .bool, .atom "1" => some true
  | .byte, .atom s | .ubyte, .atom s | .angle, .atom s => hexBV 8 2 s
  | .short, .atom s | .ushort, .atom s => hexBV 16 4 s
  | .int, .atom s | .float, .atom s | .varint, .atom s => hexBV 32 8 s
  | .long, .atom s | .double, .atom s | .varlong, .atom s => hexBV 64 16 s
  | .string, .atom s | .bytearray, .atom s | .pluginmsg, .atom s => parseHex s
  | .position, .list [.atom x, .atom y, .atom z] => do
    let x ← hexBV 64 16 x; let y ← hexBV 64 16 y; let z ← hexBV 64 16 z
    pure (x, y, z)
  | .uuid, .atom s => hexBV 128 32 s
  | .bitset, .list xs => xs.mapM fun
    | .atom s => hexBV 64 16 s
    | _ => none
  | .fixedbits n, .atom s => (parseHex s).bind fun bs =>
      if bs.length = n then some (BitVec.ofNat (8 * n) (unbe bs)) else none
  | .unit, .list [] => some ()
  | .pair a b, .list (x :: xs) => do
    let x ← toAbs a x; let y ← toAbs b (.list xs)
    pure (x, y)
  | .option _, .list [] => some none
  | .option t, .list [x] => (toAbs t x).map some
  | .opt1 t, v => toAbs t v
  | .opt0 _, .atom "_" => some ()
  | .ary _ t, .list xs => xs.mapM (toAbs t)
  | _, _ => none

def joinComma (xs : List String) : String := "(" ++ ",".intercalate xs ++ ")"

mutual
/-- canonical printing (the harness prints decoded values the same way) -/
def showAbs : (t : Ty) → t.Abs → String
  | .bool, b => if b then "1" else "0"
  | .byte, v | .ubyte, v | .angle, v => hexOfNat 2 v.toNat
  | .short, v | .ushort, v => hexOfNat 4 v.toNat
  | .int, v | .float, v | .varint, v => hexOfNat 8 v.toNat
  | .long, v | .double, v | .varlong, v => hexOfNat 16 v.toNat
  | .string, v | .bytearray, v | .pluginmsg, v => hexOfBytes v
  | .position, (x, y, z) => joinComma [hexOfNat 16 x.toNat, hexOfNat 16 y.toNat, hexOfNat 16 z.toNat]
  | .uuid, v => hexOfNat 32 v.toNat
  | .bitset, xs => joinComma (xs.map fun x => hexOfNat 16 x.toNat)
  | .fixedbits n, v => if n = 0 then "-" else hexOfNat (2 * n) v.toNat
  | .unit, _ => "()"
  | .pair a b, v => joinComma (showFields (.pair a b) v)
  | .option _, none => "()"
  | .option t, some v => joinComma [showAbs t v]
  | .opt1 t, v => showAbs t v
  | .opt0 _, _ => "_"
  | .ary _ t, xs => joinComma (xs.map (showAbs t))
def showFields : (t : Ty) → t.Abs → List String
  | .pair a b, (x, y) => showAbs a x :: showFields b y
  | _, _ => []
end

/-! ### running the model -/

def natArg (s : String) : Nat := s.toNat?.getD 0

def showDecode (t : Ty) (r : Res (Rep t × Nat) × Stream) : String :=
  match r with
  | (.ok (d, n), s) => s!"ok rn={n} left={s.flat.length} v={showAbs t (abs t d)}"
  | (.err, _) => "err"
  | (.panic, _) => "panic"

/-- spec oracle for a successful round trip: the protocol's bytes, exact counts, residual untouched, equal value -/
def specRT (t : Ty) (a : t.Abs) (trail : Bytes) : Option String :=
  if !inDomB t a then none else
  if !t.regular && !trail.isEmpty then none else
  let w := wire t a
  some s!"ok w={hexOfBytes w} wn={w.length} rn={w.length + (if t.regular then 0 else trail.length)} left={if t.regular then trail.length else 0} v="

def rt (tyS valS modeS trailS obs : String) : Verdict :=
  match tyOfString tyS, svOfString valS, parseHex trailS with
  | some t, some sv, some trail =>
    match toAbs t sv with
    | none => { model := "bad-value" }
    | some a =>
      let v := ofAbs t a
      let (w, wn) := (codec t).enc v
      let d := (codec t).dec (prior (natArg modeS) t v) (Stream.ofBytes (w ++ trail))
      let model := match showDecode t d with
        | "err" => s!"rerr w={hexOfBytes w} wn={wn}"
        | "panic" => "panic"
        | s => s!"ok w={hexOfBytes w} wn={wn} {(s.drop 3).toString}"
      let spec : Option String :=
        if obs == "panic" then some "panic on a value round trip" else
        match specRT t a trail with
        | none => none
        | some pre =>
          -- for a regular type the decoded value is the value written; a trailing `pluginmsg` swallows the trail (only checked with no trail)
          let want := pre ++ showAbs t a
          if obs == want then none else some s!"expected {want}"
      { model, spec }
  | _, _, _ => { model := "bad-arg" }

def trunc (tyS valS modeS kS obs : String) : Verdict :=
  match tyOfString tyS, svOfString valS with
  | some t, some sv =>
    match toAbs t sv with
    | none => { model := "bad-value" }
    | some a =>
      let v := ofAbs t a
      let (w, _) := (codec t).enc v
      let k := natArg kS
      let d := (codec t).dec (prior (natArg modeS) t v) (Stream.ofBytes (w.take k))
      let model := showDecode t d
      let spec : Option String :=
        if obs == "panic" then some "panic on a truncated encoding" else
        if !inDomB t a || !t.regular then none else
        let sw := wire t a
        if k < sw.length then
          (if obs == "err" then none else some "a strict prefix of an encoding was accepted")
        else
          let want := s!"ok rn={sw.length} left=0 v={showAbs t a}"
          if obs == want then none else some s!"expected {want}"
      { model, spec }
  | _, _ => { model := "bad-arg" }

def dec (tyS hexS modeS obs : String) : Verdict :=
  match tyOfString tyS, parseHex hexS with
  | some t, some input =>
    let z := (codec t).zero
    let d := (codec t).dec (prior (natArg modeS) t z) (Stream.ofBytes input)
    -- no value was written, so C06 itself demands nothing here except what C08 builds on: no panic
    { model := showDecode t d, spec := if obs == "panic" then some "decoder panicked on malformed input" else none }
  | _, _ => { model := "bad-arg" }

/-- Marshal / Builder / Scan: the fields in order, nothing else -/
def pkt (tyS valS modeS variantS trailS obs : String) : Verdict :=
  match tyOfString tyS, svOfString valS, parseHex trailS with
  | some t, some sv, some trail =>
    match toAbs t sv with
    | none => { model := "bad-value" }
    | some a =>
      let v := ofAbs t a
      let w := marshal t v
      let id := natArg variantS * 7 + 1
      let model := match scan t (prior (natArg modeS) t v) (w ++ trail) with
        | .ok x => s!"ok id={id} w={hexOfBytes w} v={showAbs t (abs t x)}"
        | .err => s!"serr w={hexOfBytes w}"
        | .panic => "panic"
      let spec : Option String :=
        if obs == "panic" then some "panic in Marshal/Scan" else
        if !inDomB t a || (!t.regular && !trail.isEmpty) then none else
        let want := s!"ok id={id} w={hexOfBytes (wire t a)} v={showAbs t a}"
        if obs == want then none else some s!"expected {want}"
      { model, spec }
  | _, _, _ => { model := "bad-arg" }

/-- NBTField on a few fixed values: the expected documents are written out by hand from the NBT format
(network format: the root tag has no name). The NBT codec's own model belongs to C01/C02. -/
def nbtTable : List (String × String × String) := [
  ("nil", "00", "<nil>"),
  ("int", "0300000005", "5"),
  ("string", "0800026869", "hi"),
  ("struct", "0a" ++ "03" ++ "0001" ++ "61" ++ "00000007" ++ "08" ++ "0001" ++ "62" ++ "0002" ++ "7879" ++ "00", "{7_xy}"),
  ("any-compound", "0a" ++ "03" ++ "0001" ++ "61" ++ "ffffffff" ++ "08" ++ "0001" ++ "62" ++ "0000" ++ "00", "a=-1,b=\"\",n=2"),
  ("longs", "0c" ++ "00000002" ++ "0000000000000001" ++ "fffffffffffffffe", "[1_-2]")]

def nbt (name obs : String) : Verdict :=
  match nbtTable.find? (fun e => e.1 == name) with
  | none => { model := "unknown-case" }
  | some (_, w, v) =>
    let n := w.length / 2
    let want := s!"ok w={w} wn={n} rn={n} left=2 v={v}"
    { model := want, spec := if obs == want then none else some s!"expected {want}" }

def handle (op : String) (args : List String) (obs : String) : Option Verdict :=
  match op, args with
  | "fld.rt", [t, v, m, _, tr] => some (rt t v m tr obs)
  | "fld.trunc", [t, v, m, _, k] => some (trunc t v m k obs)
  | "fld.dec", [t, h, m, _] => some (dec t h m obs)
  | "pkt.rt", [t, v, m, va, tr] => some (pkt t v m va tr obs)
  | "nbt.rt", [n] => some (nbt n obs)
  | "c06.crash", [_] => some { model := "finished", spec := some "the harness child died (out of memory / fatal error) while running the real code on generated compositions" }
  | _, _ => none

end Driver.C06
