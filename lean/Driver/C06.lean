import Driver.Util
import GoMC.Model.Combinators
import GoMC.Spec.Wire
import GoMC.Model.PkNBTField
import Driver.NBTCommon
import Driver.GoValText
namespace Driver.C06
open GoMC GoMC.Model GoMC.Spec Driver

/-! ### the term language: types -/

def lenKindOf : String → Option LenKind
  | "varint" => some .varint | "varlong" => some .varlong | "byte" => some .byte | "ubyte" => some .ubyte
  | "short" => some .short | "ushort" => some .ushort | "int" => some .int | "long" => some .long
  | _ => none

def leafOf : String → Option Ty
  | "bool" => some .bool | "byte" => some .byte | "ubyte" => some .ubyte | "short" => some .short
  | "ushort" => some .ushort | "int" => some .int | "long" => some .long | "float" => some .float
  | "double" => some .double | "string" => some .string | "varint" => some .varint | "varlong" => some .varlong
  | "position" => some .position | "angle" => some .angle | "uuid" => some .uuid | "bytearray" => some .bytearray
  | "pluginmsg" => some .pluginmsg | "bitset" => some .bitset
  | _ => none

def tupleOf : List Ty → Ty
  | [] => .unit
  | t :: ts => .pair t (tupleOf ts)

def isHeadChar (c : Char) : Bool := c.isAlphanum || c == ':'

mutual
partial def parseTy (cs : List Char) : Option (Ty × List Char) :=
  let head := String.ofList (cs.takeWhile isHeadChar)
  let rest := cs.dropWhile isHeadChar
  match rest with
  | '(' :: rest =>
    match parseTyArgs rest [] with
    | none => none
    | some (args, rest) =>
      if head == "tuple" then some (tupleOf args, rest) else
      match args with
      | [a] =>
        if head.startsWith "tuplen:" then (head.drop 7).toString.toNat?.map fun n => (tupleOf (List.replicate n a), rest)
        else if head == "option" then some (.option a, rest)
        else if head == "opt1" then some (.opt1 a, rest)
        else if head == "opt0" then some (.opt0 a, rest)
        else if head.startsWith "ary:" then (lenKindOf (head.drop 4).toString).map fun l => (.ary l a, rest)
        else none
      | _ => none
  | _ =>
    if head.startsWith "fixedbits:" then (head.drop 10).toString.toNat?.map fun n => (.fixedbits n, rest)
    else (leafOf head).map fun t => (t, rest)
partial def parseTyArgs (cs : List Char) (acc : List Ty) : Option (List Ty × List Char) :=
  match cs with
  | ')' :: rest => some (acc.reverse, rest)
  | _ =>
    match parseTy cs with
    | none => none
    | some (t, ',' :: rest) => parseTyArgs rest (t :: acc)
    | some (t, ')' :: rest) => some ((t :: acc).reverse, rest)
    | _ => none
end

def tyOfString (s : String) : Option Ty :=
  match parseTy s.toList with
  | some (t, []) => some t
  | _ => none

/-! ### the term language: values -/

inductive SV where
  | atom (s : String)
  | list (xs : List SV)
deriving Inhabited

mutual
partial def parseSV (cs : List Char) : Option (SV × List Char) :=
  match cs with
  | '(' :: ')' :: rest => some (.list [], rest)
  | '(' :: rest => parseSVs rest []
  | _ =>
    let isA := fun (c : Char) => c != ',' && c != ')' && c != '('
    some (.atom (String.ofList (cs.takeWhile isA)), cs.dropWhile isA)
partial def parseSVs (cs : List Char) (acc : List SV) : Option (SV × List Char) :=
  match parseSV cs with
  | some (v, ',' :: rest) => parseSVs rest (v :: acc)
  | some (v, ')' :: rest) => some (.list (v :: acc).reverse, rest)
  | _ => none
end

def svOfString (s : String) : Option SV :=
  match parseSV s.toList with
  | some (v, []) => some v
  | _ => none

/-! ### deterministic, non-periodic contents for big values (the harness's `c06Mix`, `c06GenElem`, `c06Expand`) -/

def m64 : Nat := 2 ^ 64
def mix (x : Nat) : Nat := ((x + 1) * 0x9E3779B97F4A7C15) % m64
def subSeed (x j : Nat) : Nat := (x * 31 + j + 1) % m64
def itemSeed (seed k : Nat) : Nat := (seed * 1000003 + k) % m64
/-- two's complement of a `b`-bit field as a 64-bit word -/
def sext (v b : Nat) : BitVec 64 := BitVec.ofNat 64 (if v ≥ 2 ^ (b - 1) then v + m64 - 2 ^ b else v)

def genBytes (x n : Nat) : Bytes := (List.range n).map fun j => BitVec.ofNat 8 (mix (subSeed x j) / 2 ^ 56)

/-- the value of type `t` derived from `x`; `j` is the index of the next field while walking a tuple -/
def genAbs : (t : Ty) → Nat → Nat → t.Abs
  | .bool, x, _ => mix x / 2 ^ 63 == 1
  | .byte, x, _ | .ubyte, x, _ | .angle, x, _ => BitVec.ofNat 8 (mix x / 2 ^ 56)
  | .short, x, _ | .ushort, x, _ => BitVec.ofNat 16 (mix x / 2 ^ 48)
  | .int, x, _ | .float, x, _ | .varint, x, _ => BitVec.ofNat 32 (mix x / 2 ^ 32)
  | .long, x, _ | .double, x, _ | .varlong, x, _ => BitVec.ofNat 64 (mix x)
  | .string, x, _ | .bytearray, x, _ | .pluginmsg, x, _ => genBytes x ((mix x / 2 ^ 60) % 4)
  | .position, x, _ => (sext (mix x / 2 ^ 38) 26, sext (mix (x + 1) / 2 ^ 52) 12, sext (mix (x + 2) / 2 ^ 38) 26)
  | .uuid, x, _ => BitVec.ofNat 128 (mix x * m64 + mix (x + 0x51))
  | .bitset, x, _ => (List.range (mix x / 2 ^ 62)).map fun j => BitVec.ofNat 64 (mix (subSeed x j))
  | .fixedbits n, x, _ => BitVec.ofNat (8 * n) (unbe (genBytes x n))
  | .unit, _, _ => ()
  | .pair a b, x, j => (genAbs a (subSeed x j) 0, genAbs b x (j + 1))
  | .option t, x, _ => if mix x / 2 ^ 63 == 0 then none else some (genAbs t (subSeed x 0) 0)
  | .opt1 t, x, _ => genAbs t (subSeed x 0) 0
  | .opt0 _, _, _ => ()
  | .ary _ t, x, _ => (List.range (mix x / 2 ^ 62)).map fun j => genAbs t (subSeed x j) 0

/-- the fields of a tuple written `#<n>s<seed>`: field `k` from `itemSeed seed k` -/
def genTuple : (t : Ty) → Nat → Nat → t.Abs
  | .pair a b, seed, k => (genAbs a (itemSeed seed k) 0, genTuple b seed (k + 1))
  | t, seed, k => genAbs t (itemSeed seed k) 0

/-- `#<count>s<seed>` -/
def parseGen (s : String) : Option (Nat × Nat) :=
  if !s.startsWith "#" then none else
  match (s.drop 1).toString.splitOn "s" with
  | [n, seed] => do let n ← n.toNat?; let seed ← seed.toNat?; pure (n, seed)
  | _ => none

/-- a byte-string atom: parts joined by `+`, each hex, `r<count>x<hex>` (the hex repeated `count` times) or
`g<len>s<seed>` (non-periodic: byte `i` is the top byte of `mix (itemSeed seed i)`) -/
def parseBytesExpr (s : String) : Option Bytes :=
  if s == "-" then some [] else
  (s.splitOn "+").foldlM (fun acc part =>
    if part.startsWith "g" then
      match (part.drop 1).toString.splitOn "s" with
      | [n, seed] => do
        let n ← n.toNat?
        let seed ← seed.toNat?
        pure (acc ++ (List.range n).map fun k => BitVec.ofNat 8 (mix (itemSeed seed k) / 2 ^ 56))
      | _ => none
    else if part.startsWith "r" then
      match (part.drop 1).toString.splitOn "x" with
      | [n, h] => do
        let n ← n.toNat?
        let unit ← parseHex h
        pure (acc ++ (List.replicate n unit).flatten)
      | _ => none
    else (parseHex part).map (acc ++ ·)) []

/-- hex up to 2048 bytes, otherwise `#<len>.<FNV-1a 64>` (as the harness prints it) -/
def hexS (bs : Bytes) : String :=
  if bs.length ≤ 2048 then hexOfBytes bs else
  let h : UInt64 := bs.foldl (fun h b => (h ^^^ (UInt64.ofNat b.toNat)) * 1099511628211) 14695981039346656037
  s!"#{bs.length}.{hexOfNat 16 h.toNat}"

def hexBV (w : Nat) (digits : Nat) (s : String) : Option (BitVec w) :=
  if s.length != digits then none else (parseHexNat s).map (BitVec.ofNat w)

/-- the abstract value a value term denotes at type `t` -/
def toAbs : (t : Ty) → SV → Option t.Abs
  | .bool, .atom "0" => some false
  | .bool, .atom "1" => some true
  | .byte, .atom s | .ubyte, .atom s | .angle, .atom s => hexBV 8 2 s
  | .short, .atom s | .ushort, .atom s => hexBV 16 4 s
  | .int, .atom s | .float, .atom s | .varint, .atom s => hexBV 32 8 s
  | .long, .atom s | .double, .atom s | .varlong, .atom s => hexBV 64 16 s
  | .string, .atom s | .bytearray, .atom s | .pluginmsg, .atom s => parseBytesExpr s
  | .position, .list [.atom x, .atom y, .atom z] => do
    let x ← hexBV 64 16 x; let y ← hexBV 64 16 y; let z ← hexBV 64 16 z
    pure (x, y, z)
  | .uuid, .atom s => hexBV 128 32 s
  | .bitset, .list xs => xs.mapM fun
    | .atom s => hexBV 64 16 s
    | _ => none
  | .bitset, .atom s => (parseGen s).map fun (n, seed) =>
      (List.range n).map fun k => BitVec.ofNat 64 (mix (itemSeed seed k))
  | .ary _ t, .atom s => (parseGen s).map fun (n, seed) => (List.range n).map fun k => genAbs t (itemSeed seed k) 0
  | .pair a b, .atom s => (parseGen s).map fun (_, seed) => genTuple (.pair a b) seed 0
  | .fixedbits n, .atom s => (parseBytesExpr s).bind fun bs =>
      if bs.length = n then some (BitVec.ofNat (8 * n) (unbe bs)) else none
  | .unit, .list [] => some ()
  | .pair a b, .list (x :: xs) => do
    let x ← toAbs a x; let y ← toAbs b (.list xs)
    pure (x, y)
  | .option _, .list [] => some none
  | .option t, .list [x] => (toAbs t x).map some
  | .opt1 t, v => toAbs t v
  | .opt0 _, .atom "_" => some ()
  | .ary _ t, .list xs => xs.mapM (toAbs t)
  | _, _ => none

/-- a list or a tuple: in full up to 64 items, otherwise `#<count>.<FNV-1a 64 of the joined text>` (harness `c06Join`) -/
def joinComma (xs : List String) : String :=
  let j := ",".intercalate xs
  if xs.length ≤ 64 then "(" ++ j ++ ")" else
  let h : UInt64 := j.toUTF8.foldl (fun h b => (h ^^^ b.toUInt64) * 1099511628211) 14695981039346656037
  s!"#{xs.length}.{hexOfNat 16 h.toNat}"

mutual
/-- canonical printing (the harness prints decoded values the same way) -/
def showAbs : (t : Ty) → t.Abs → String
  | .bool, b => if b then "1" else "0"
  | .byte, v | .ubyte, v | .angle, v => hexOfNat 2 v.toNat
  | .short, v | .ushort, v => hexOfNat 4 v.toNat
  | .int, v | .float, v | .varint, v => hexOfNat 8 v.toNat
  | .long, v | .double, v | .varlong, v => hexOfNat 16 v.toNat
  | .string, v | .bytearray, v | .pluginmsg, v => hexS v
  | .position, (x, y, z) => joinComma [hexOfNat 16 x.toNat, hexOfNat 16 y.toNat, hexOfNat 16 z.toNat]
  | .uuid, v => hexOfNat 32 v.toNat
  | .bitset, xs => joinComma (xs.map fun x => hexOfNat 16 x.toNat)
  | .fixedbits n, v => if n = 0 then "-" else hexOfNat (2 * n) v.toNat
  | .unit, _ => "()"
  | .pair a b, v => joinComma (showFields (.pair a b) v)
  | .option _, none => "()"
  | .option t, some v => joinComma [showAbs t v]
  | .opt1 t, v => showAbs t v
  | .opt0 _, _ => "_"
  | .ary _ t, xs => joinComma (xs.map (showAbs t))
def showFields : (t : Ty) → t.Abs → List String
  | .pair a b, (x, y) => showAbs a x :: showFields b y
  | _, _ => []
end

/-! ### running the model -/

def natArg (s : String) : Nat := s.toNat?.getD 0

def showDecode (t : Ty) (r : Res (Rep t × Nat) × Stream) : String :=
  match r with
  | (.ok (d, n), s) => s!"ok rn={n} left={s.flat.length} v={showAbs t (abs t d)}"
  | (.err, _) => "err"
  | (.panic, _) => "panic"

/-- spec oracle for a successful round trip: the protocol's bytes, exact counts, residual untouched, equal value -/
def specRT (t : Ty) (a : t.Abs) (trail : Bytes) : Option String :=
  if !inDomB t a then none else
  if !t.regular && !trail.isEmpty then none else
  let w := wire t a
  some s!"ok w={hexS w} wn={w.length} rn={w.length + (if t.regular then 0 else trail.length)} left={if t.regular then trail.length else 0} v="

def rt (tyS valS modeS trailS obs : String) : Verdict :=
  match tyOfString tyS, svOfString valS, parseHex trailS with
  | some t, some sv, some trail =>
    match toAbs t sv with
    | none => { model := "bad-value" }
    | some a =>
      let v := ofAbs t a
      let (w, wn) := (codec t).enc v
      let d := (codec t).dec (prior (natArg modeS) t v) (Stream.ofBytes (w ++ trail))
      let model := match showDecode t d with
        | "err" => s!"rerr w={hexS w} wn={wn}"
        | "panic" => "panic"
        | s => s!"ok w={hexS w} wn={wn} {(s.drop 3).toString}"
      let spec : Option String :=
        if obs == "panic" then some "panic on a value round trip" else
        match specRT t a trail with
        | none => none
        | some pre =>
          -- for a regular type the decoded value is the value written; a trailing `pluginmsg` swallows the trail (only checked with no trail)
          let want := pre ++ showAbs t a
          if obs == want then none else some s!"expected {want}"
      { model, spec }
  | _, _, _ => { model := "bad-arg" }

def trunc (tyS valS modeS kS obs : String) : Verdict :=
  match tyOfString tyS, svOfString valS with
  | some t, some sv =>
    match toAbs t sv with
    | none => { model := "bad-value" }
    | some a =>
      let v := ofAbs t a
      let (w, _) := (codec t).enc v
      let k := natArg kS
      let d := (codec t).dec (prior (natArg modeS) t v) (Stream.ofBytes (w.take k))
      let model := showDecode t d
      let spec : Option String :=
        if obs == "panic" then some "panic on a truncated encoding" else
        if !inDomB t a || !t.regular then none else
        let sw := wire t a
        if k < sw.length then
          (if obs == "err" then none else some "a strict prefix of an encoding was accepted")
        else
          let want := s!"ok rn={sw.length} left=0 v={showAbs t a}"
          if obs == want then none else some s!"expected {want}"
      { model, spec }
  | _, _ => { model := "bad-arg" }

def dec (tyS hexS modeS obs : String) : Verdict :=
  match tyOfString tyS, parseHex hexS with
  | some t, some input =>
    let z := (codec t).zero
    let d := (codec t).dec (prior (natArg modeS) t z) (Stream.ofBytes input)
    -- no value was written, so C06 itself demands nothing here except what C08 builds on: no panic
    { model := showDecode t d, spec := if obs == "panic" then some "decoder panicked on malformed input" else none }
  | _, _ => { model := "bad-arg" }

/-- Marshal / Builder / Scan: the fields in order, nothing else -/
def pkt (tyS valS modeS variantS trailS obs : String) : Verdict :=
  match tyOfString tyS, svOfString valS, parseHex trailS with
  | some t, some sv, some trail =>
    match toAbs t sv with
    | none => { model := "bad-value" }
    | some a =>
      let v := ofAbs t a
      let w := marshal t v
      let id := natArg variantS * 7 + 1
      let model := match scan t (prior (natArg modeS) t v) (w ++ trail) with
        | .ok x => s!"ok id={id} w={hexS w} v={showAbs t (abs t x)}"
        | .err => s!"serr w={hexS w}"
        | .panic => "panic"
      let spec : Option String :=
        if obs == "panic" then some "panic in Marshal/Scan" else
        if !inDomB t a || (!t.regular && !trail.isEmpty) then none else
        let want := s!"ok id={id} w={hexS (wire t a)} v={showAbs t a}"
        if obs == want then none else some s!"expected {want}"
      { model, spec }
  | _, _, _ => { model := "bad-arg" }

/-- `pkt.hist`: a history of Marshal (or one-Builder) calls, all packets observed after the last call -/
def hist (args : List String) (obs : String) : Verdict :=
  match args with
  | how :: rest =>
    let rec pairs : List String → Option (List (String × String))
      | [] => some []
      | t :: v :: more => (pairs more).map ((t, v) :: ·)
      | _ => none
    match pairs rest with
    | none => { model := "bad-arg" }
    | some ps =>
      -- per call: (model bytes, model scan text, spec bytes/text if the values are in their domain)
      let one := fun (p : String × String) => match tyOfString p.1, svOfString p.2 with
        | some t, some sv => match toAbs t sv with
          | some a =>
            let v := ofAbs t a
            some (Call.mk t v, if inDomB t a && t.regular then some (wire t a, showAbs t a) else none)
          | none => none
        | _, _ => none
      match ps.mapM one with
      | none => { model := "bad-arg" }
      | some cs =>
        let calls := cs.map (·.1)
        let builder := how == "builder"
        let datas := if builder then builderHist [] calls else marshalHist calls
        -- the model: scan every packet back with the model decoders of the calls it holds
        let scanTxt := fun (i : Nat) (data : Bytes) =>
          let part := if builder then calls.take (i + 1) else (calls.drop i).take 1
          let rec go : List Call → Stream → Option String
            | [], _ => some ""
            | c :: more, s => match (codec c.t).dec (prior 0 c.t c.v) s with
              | (.ok (d, _), s') => (go more s').map (showAbs c.t (abs c.t d) ++ ·)
              | _ => none
          (go part (Stream.ofBytes data)).getD "serr"
        let idx := List.range datas.length
        let model := "ok " ++ " ".intercalate ((idx.zip datas).map fun (i, d) => s!"p{i}={3 * i + 1},{hexS d},{scanTxt i d}")
        -- the oracle: call i alone determines packet i (Marshal), calls 0..i in order (Builder); layouts from Spec.wire
        let specs := cs.map (·.2)
        let spec : Option String :=
          if obs == "panic" then some "panic in a Marshal/Builder history" else
          if specs.any Option.isNone then none else
          let ws := specs.filterMap id
          let want := "ok " ++ " ".intercalate (idx.map fun i =>
            let part := if builder then ws.take (i + 1) else (ws.drop i).take 1
            s!"p{i}={3 * i + 1},{hexS (part.map (·.1)).flatten},{String.join (part.map (·.2))}")
          if obs == want then none else
            -- name the first packet that is not what its own call produced
            let got := (obs.drop 3).toString.splitOn " "
            let exp := (want.drop 3).toString.splitOn " "
            let bad := (got.zip exp).find? fun (g, e) => g != e
            some ("a packet of the history is not the composition of its own call's fields: " ++
              (match bad with | some (g, e) => s!"got {(g.take 120).toString} expected {(e.take 120).toString}" | none => "packet count differs"))
        { model, spec }
  | _ => { model := "bad-arg" }

/-- NBTField on a few fixed values: the expected documents are written out by hand from the NBT format
(network format: the root tag has no name). The NBT codec's own model belongs to C01/C02. -/
def nbtTable : List (String × String × String) := [
  ("nil", "00", "<nil>"),
  ("int", "0300000005", "5"),
  ("string", "0800026869", "hi"),
  ("struct", "0a" ++ "03" ++ "0001" ++ "61" ++ "00000007" ++ "08" ++ "0001" ++ "62" ++ "0002" ++ "7879" ++ "00", "{7_xy}"),
  ("any-compound", "0a" ++ "03" ++ "0001" ++ "61" ++ "ffffffff" ++ "08" ++ "0001" ++ "62" ++ "0000" ++ "00", "a=-1,b=\"\",n=2"),
  ("longs", "0c" ++ "00000002" ++ "0000000000000001" ++ "fffffffffffffffe", "[1_-2]")]

def nbt (name obs : String) : Verdict :=
  match nbtTable.find? (fun e => e.1 == name) with
  | none => { model := "unknown-case" }
  | some (_, w, v) =>
    let n := w.length / 2
    let want := s!"ok w={w} wn={n} rn={n} left=2 v={v}"
    { model := want, spec := if obs == want then none else some s!"expected {want}" }


/-! ### NBTField on generated documents (op `nbt.fld`) -/

namespace Fld
open GoMC.Model.Go GoMC.Model.NBTF Driver.NBT

def ascii (s : String) : Bytes := s.toUTF8.toList.map fun (b : UInt8) => BitVec.ofNat 8 b.toNat

def cx : SnbtCarrier := Driver.GoText.snbtCarrier

/-- `map[string]any` -/
def mapAnyT : GoType := .map .iface

/-- the harness's `nbtFix1`: A int32 `nbt:"a"`; Bee string; X RawMessage `nbt:"x"`; M map[string]any `nbt:"m"`; Z struct{} `nbt:"z"` -/
def fix1T : GoType := .struct (ascii "nbtFix1") [
  ({ name := ascii "A", anonymous := false, exported := true, nbt := ascii "a" }, .int .i32),
  ({ name := ascii "Bee", anonymous := false, exported := true }, .str),
  ({ name := ascii "X", anonymous := false, exported := true, nbt := ascii "x" }, .raw),
  ({ name := ascii "M", anonymous := false, exported := true, nbt := ascii "m" }, mapAnyT),
  ({ name := ascii "Z", anonymous := false, exported := true, nbt := ascii "z" }, .struct [] [])]

def tyOf : String → Option GoType
  | "any" => some .iface | "map" => some mapAnyT | "raw" => some .raw | "dyn" => some .dyn
  | "fix1" => some fix1T | "skip" => some (.struct [] [])
  | _ => none

def boxed (v : GoVal) : GoVal := .iface (some v)

/-- the prior destination states the harness prepares (`nbtDst`) -/
def priorOf (target : String) (prior : Nat) (ty : GoType) : GoVal :=
  match target, prior with
  | "any", 1 => boxed (.int .i32 7)
  | "any", 2 => boxed (.map .iface false [(ascii "old", boxed (.int .i8 1))])
  | "any", 3 => boxed (.str (ascii "old"))
  | "map", 1 => .map .iface false []
  | "map", 2 => .map .iface false [(ascii "old", boxed (.int .i8 1)), (ascii "a", boxed (.str (ascii "x")))]
  | "raw", 1 => .raw 3#8 [0#8, 0#8, 0#8, 9#8]
  | "raw", 2 => .raw 10#8 (List.replicate 40 0x55#8)
  | "fix1", 1 => match fix1T with
    | .struct n fields => .struct n fields [.int .i32 99, .str (ascii "old"), .raw 3#8 [0#8, 0#8, 0#8, 9#8],
        .map .iface false [(ascii "old", boxed (.int .i8 1))], .struct [] [] []]
    | _ => ty.zero
  | _, _ => ty.zero      -- (a used dynbt.Value: its old content is never looked at)

/-- the harness's `nbtFix3`: A int32 `nbt:"a,omitempty"`; B string `nbt:"b"` -/
def fix3T : GoType := .struct (ascii "nbtFix3") [
  ({ name := ascii "A", anonymous := false, exported := true, nbt := ascii "a,omitempty" }, .int .i32),
  ({ name := ascii "B", anonymous := false, exported := true, nbt := ascii "b" }, .str)]

def fix3 (a : Int) (b : String) : GoVal :=
  match fix3T with
  | .struct n fields => .struct n fields [.int .i32 a, .str (ascii b)]
  | _ => .iface none

def twos (bits : Nat) (v : Int) : Nat := (v % (2 ^ bits : Int)).toNat

/-- Go values printed as the harness prints them (`nbtCanonAny`, `nbtCanonMap`, `nbtCanonRaw`, `nbtCanonFix1`) -/
partial def showGo : GoVal → String
  | .iface none => "nil"
  | .iface (some v) => showGo v
  | .int .i8 v => "b" ++ hexOfNat 2 (twos 8 v)
  | .int .i16 v => "s" ++ hexOfNat 4 (twos 16 v)
  | .int .i32 v => "i" ++ hexOfNat 8 (twos 32 v)
  | .int .i64 v => "l" ++ hexOfNat 16 (twos 64 v)
  | .int _ v => "?int" ++ toString v
  | .f32 b => "f" ++ hexOfNat 8 b.toNat
  | .f64 b => "d" ++ hexOfNat 16 b.toNat
  | .str s => "S(" ++ hexPlain s ++ ")"
  | .slice (.int .u8) _ xs => "B(" ++ String.join (xs.map fun | .int _ v => hexOfNat 2 (twos 8 v) | _ => "??") ++ ")"
  | .slice (.int .i32) _ xs => "I(" ++ String.join (xs.map fun | .int _ v => hexOfNat 8 (twos 32 v) | _ => "??") ++ ")"
  | .slice (.int .i64) _ xs => "L(" ++ String.join (xs.map fun | .int _ v => hexOfNat 16 (twos 64 v) | _ => "??") ++ ")"
  | .slice _ _ xs => "A[" ++ joinWith "," (xs.map showGo) ++ "]"
  | .map _ _ kvs => "M{" ++ joinWith "," ((sortKvs kvs).map fun (k, v) => hexPlain k ++ ":" ++ showGo v) ++ "}"
  | .raw t d => "R" ++ hexOfNat 2 t.toNat ++ "(" ++ hexPlain d ++ ")"
  | .dyn d => "D" ++ hexOfNat 2 d.tag.toNat ++ "(" ++
      (if d.tag = 0#8 then "" else match Model.DynBT.marshal d with | .ok b => hexPlain b | _ => "!err") ++ ")"
  | .struct _ fields fs => "T{" ++ joinWith ","
      ((fields.zip fs).map fun ((info, _), v) => hexPlain (if info.nbt.isEmpty then info.name else info.nbt) ++ ":" ++ showGo v) ++ "}"
  | _ => "?"

/-- the fresh-destination value the property demands, printed; `none`: the tree does not fit the destination -/
def specShow (target : String) (allow : Bool) (t : NBT) : Option String :=
  match target with
  | "dyn" => some ("D" ++ hexOfNat 2 t.tag.toNat ++ "(" ++ hexPlain (encPayload t) ++ ")")
  | "skip" => specValue (if allow then "skip" else "disallow") t
  | d => specValue d t

def zeroShow (target : String) : String :=
  match target with
  | "any" => "nil" | "map" => "M{}" | "raw" => "R00()" | "dyn" => "D00()" | "skip" => "T{}"
  | _ => showFix1 {}

def markerOf : String → List String
  | "any" => ["C06.nbt-any-keeps-dynamic-type"]
  | "map" => ["C06.nbt-map-merges"]
  | "fix1" => ["C06.nbt-map-merges"]        -- with every field present only the map field `m` can keep old entries
  | _ => []

def fld (target priorS allowS wrap docS trailS obs : String) : Verdict :=
  match tyOf target, parseHex docS, parseHex trailS with
  | some ty, some doc, some trail =>
    let allow := allowS == "1"
    let prior := natArg priorS
    let old := priorOf target prior ty
    let toks := obs.splitOn " "
    let an := (kv toks "an").getD "-"
    let al := (kv toks "al").getD "-"
    let cell : Cell := { wire := doc, dst := old }
    let c := cellC cx allow ty
    -- the model: the generic combinators around the NBT cell (`Go.fieldRead`)
    let (w, wn, res) : Bytes × Nat × (Res (String × Nat) × Stream) :=
      match wrap with
      | "tuple" =>
        let cc := pairC varIntC (pairC c (pairC byteC unitC))
        let (w, wn) := cc.enc (300#32, cell, 0x7f#8, ())
        let r := cc.dec (0xffffffff#32, cell, 1#8, ()) (Stream.ofBytes (w ++ trail))
        (w, wn, (r.1.map fun (d, n) => (joinComma [hexOfNat 8 d.1.toNat, showGo d.2.1.dst, hexOfNat 2 d.2.2.1.toNat], n), r.2))
      | "option" =>
        let cc := optionC c
        let (w, wn) := cc.enc (true, cell)
        let r := cc.dec (prior % 2 == 1, cell) (Stream.ofBytes (w ++ trail))
        (w, wn, (r.1.map fun (d, n) => ((if d.1 then joinComma [showGo d.2.dst] else "()"), n), r.2))
      | "ary" =>
        let cc := aryC .varint c
        let (w, wn) := cc.enc { elems := [cell, cell] }
        let r := cc.dec { elems := [cell, cell] } (Stream.ofBytes (w ++ trail))
        (w, wn, (r.1.map fun (d, n) => (joinComma (d.elems.map fun x => showGo x.dst), n), r.2))
      | _ =>
        let (w, wn) := c.enc cell
        let r := c.dec cell (Stream.ofBytes (w ++ trail))
        (w, wn, (r.1.map fun (d, n) => (showGo d.dst, n), r.2))
    let model := match res with
      | (.ok (v, n), s) => s!"ok w={hexS w} wn={wn} an={an} al={al} rn={n} left={s.flat.length} v={v}"
      | (.err, _) => s!"rerr w={hexS w} wn={wn} an={an} al={al}"
      | (.panic, _) => "panic"
    -- the oracle: the NBT format's own reader on the document, the wrappers' layout written out by hand
    let isOk := obs.startsWith "ok "
    let spec : Option String :=
      if obs == "panic" then some "NBTField panicked" else
      if an != al then some "WriteTo of the decoded value returned a count different from the bytes produced" else
      let wrapOf := fun (d : Bytes) => match wrap with
        | "tuple" => [0xac#8, 0x02#8] ++ d ++ [0x7f#8]
        | "option" => 0x01#8 :: d
        | "ary" => 0x02#8 :: d ++ d
        | _ => d
      let showWrap := fun (v : String) => match wrap with
        | "tuple" => joinComma ["0000012c", v, "7f"]
        | "option" => joinComma [v]
        | "ary" => joinComma [v, v]
        | _ => v
      let expect := fun (v : String) (extra : Nat) =>
        let ww := wrapOf doc
        s!"ok w={hexS ww} wn={ww.length} an={an} al={al} rn={ww.length - extra} left={trail.length + extra} v={showWrap v}"
      if doc == [0#8] then
        let want := expect (zeroShow target) 0
        if obs == want then none else some s!"absent value: expected {want}"
      else match parseDoc .network (if wrap == "plain" then doc ++ trail else doc) with
        | none => if isOk then some "ill-formed or truncated document reported as read" else none
        | some (_, t, rest) =>
          if hasLongString t then none else
          if wrap != "plain" && !rest.isEmpty then none else
          let extra := if wrap == "plain" then rest.length - trail.length else 0
          -- a struct destination holding old values: only a document carrying every field can be what a
          -- write of that struct type produced; other documents say nothing about the fields they lack
          let complete := match t with
            | .compound kvs => ["a", "Bee", "x", "m", "z"].all fun k => kvs.any fun e => e.1 == ascii k
            | _ => false
          if target == "fix1" && prior != 0 && !complete then none else
          match specShow target allow t with
          | none => if isOk then some "document does not fit the destination but was reported as read" else none
          | some v =>
            let want := expect v extra
            if obs == want then none
            else if isOk || (target != "fix1" || allow) then some ("well-formed document: expected " ++ (want.take 300).toString)
            else none      -- fix1 with DisallowUnknownFields may refuse unknown keys
    { model, spec, markers := if prior != 0 && spec.isSome then markerOf target else [] }
  | _, _, _ => { model := "bad-arg" }

/-- `nbt.omit`: a struct with an omitempty field written and read back. What was written is known here (the struct
value), so the demand is the property's own: the value read back equals it, whatever the destination held. -/
def omitField (priorS aS obs : String) : Verdict :=
  match parseHexNat aS with
  | none => { model := "bad-arg" }
  | some an =>
    let a : Int := (BitVec.ofNat 32 an).toInt
    let prior := natArg priorS
    let old := if prior == 1 then fix3 99 "old" else fix3T.zero
    let showF := fun (v : GoVal) => match v with
      | .struct _ _ [.int _ x, .str s] => "T{61:i" ++ hexOfNat 8 (twos 32 x) ++ ",62:S(" ++ hexPlain s ++ ")}"
      | _ => "?"
    match fieldWrite cx (some (fix3 a "x")) with
    | .ok (w, wn) =>
      let r := fieldRead cx false fix3T old (Stream.ofBytes w)
      let model := match r with
        | (.ok (v, n), s) => s!"ok w={hexS w} wn={wn} rn={n} left={s.flat.length} v={showF v}"
        | (.err, _) => s!"rerr w={hexS w} wn={wn}"
        | (.panic, _) => "panic"
      -- spec: the layout written out by hand — compound, [Int "a" a unless a = 0], String "b" = "x", End
      let doc : Bytes := [0x0a#8] ++ (if a == 0 then [] else [0x03#8, 0#8, 1#8, 0x61#8] ++ be 4 (twos 32 a))
        ++ [0x08#8, 0#8, 1#8, 0x62#8, 0#8, 1#8, 0x78#8, 0#8]
      let want := s!"ok w={hexS doc} wn={doc.length} rn={doc.length} left=0 v={showF (fix3 a "x")}"
      let spec := if obs == want then none else some s!"expected {want}"
      { model, spec, markers := if prior != 0 && spec.isSome then ["C06.nbt-struct-keeps-missing-fields"] else [] }
    | _ => { model := "werr" }

end Fld

def handle (op : String) (args : List String) (obs : String) : Option Verdict :=
  match op, args with
  | "fld.rt", [t, v, m, _, tr] => some (rt t v m tr obs)
  | "fld.trunc", [t, v, m, _, k] => some (trunc t v m k obs)
  | "fld.dec", [t, h, m, _] => some (dec t h m obs)
  | "pkt.rt", [t, v, m, va, tr] => some (pkt t v m va tr obs)
  | "pkt.hist", args => some (hist args obs)
  | "nbt.rt", [n] => some (nbt n obs)
  | "nbt.fld", [t, p, a, w, _, d, tr] => some (Fld.fld t p a w d tr obs)
  | "nbt.omit", [p, a] => some (Fld.omitField p a obs)
  | "c06.crash", [_] => some { model := "finished", spec := some "the harness child died (out of memory / fatal error) while running the real code on generated compositions" }
  | _, _ => none

end Driver.C06
