/-
  C02 driver (typed NBT codec). Lines (see harness/c02.go for the syntax of types and values):

    c02.tf <T>                                    => <field table>
    c02.rt <file|net> <val|ptr> <name> <T> <V>     => enc=ok:<hex>|err|panic|hang chg=<0|1> [dec=ok:<V'> name=<hex> left=<n>|dec=err|dec=panic|dec=hang]
    c02.dec <T> <file|net> <0|1> <reader> <doc>    => ok name=<hex> v=<V> left=<n> | err left=<n> | panic | hang
    c02.re <file|net> <T> <doc>                    => dec=ok|err|panic|hang [enc=ok:<hex>|err|panic]

  Model: `Model/TypeInfo` (typeFields), `Model/NBTEncode` (Encode), `Model/NBTTyped` (typed Decode).
  The model decodes the bytes the IMPLEMENTATION emitted (Go's map order is arbitrary); emitted documents are
  compared as trees by the spec reader.

  Oracle (the property, evaluated on the implementation's observation, independent of the models):
  nothing panics or hangs; Encode does not change its argument; when Encode succeeds, Decode of the bytes into a
  fresh variable of the type succeeds, consumes everything, returns the root name and a value ≈ the original
  (nil ≈ empty containers, floats by bit pattern except ±0); a decoder never reports an ill-formed document as
  decoded; the carriers re-encode byte for byte. Classes where the documentation promises nothing are exempt
  (`loose`); two known deviations carry markers.
-/
import Driver.NBTCommon
import Driver.GoValText
import GoMC.Model.NBTField
namespace Driver.C02
open GoMC GoMC.Spec GoMC.Model.Go Driver Driver.GoText

def cx : SnbtCarrier := snbtCarrier

def resStr {α} (sh : α → String) : Res α → String
  | .ok a => "ok:" ++ sh a
  | .err => "err"
  | .panic => "panic"

/-! ### classes of values -/

/-- the types a decoded `any` can hold -/
partial def dynContent : GoVal → Bool
  | .int .i8 _ | .int .i16 _ | .int .i32 _ | .int .i64 _ | .f32 _ | .f64 _ | .str _ => true
  | .slice (.int .u8) _ _ | .slice (.int .i32) _ _ | .slice (.int .i64) _ _ => true
  | .slice .iface _ xs => xs.all fun x => match x with
    | .iface (some y) => dynContent y
    | _ => false
  | .map .iface _ kvs => kvs.all fun kv => match kv.2 with
    | .iface (some y) => dynContent y
    | _ => false
  | _ => false

/-- classes for which the documentation promises no round trip: StringifiedMessage (its text is re-rendered),
`int` / `uint` (not encodable), interfaces holding anything but what Decode would put there -/
partial def loose : GoVal → Bool
  | .snbt _ => true
  | .raw t _ => t == 0                                   -- the zero RawMessage / dynbt.Value is not a value
  | .dyn d => d.tag == 0
  | .int .int _ | .int .uint _ => true
  | .iface none => true
  | .iface (some v) => !dynContent v || loose v
  | .slice e _ xs => looseTy e || xs.any loose
  | .array e xs => looseTy e || xs.any loose
  | .map e _ kvs => looseTy e || kvs.any fun kv => loose kv.2
  | .struct _ fields fs => fs.any loose || fields.any fun f => looseTy f.2 ||
      -- an interface field with the list option: the list it is written as comes back as []any
      (ifaceTy f.2 && (f.1.nbtType == strList || (parseOpts (f.1.nbt.length + 1) (cutComma f.1.nbt).2).2))
  | .ptr e none => looseTy e
  | .ptr _ (some v) => loose v
  | _ => false
where
  ifaceTy : GoType → Bool                                -- an interface, possibly behind pointers
    | .iface => true
    | .ptr e => ifaceTy e
    | _ => false
  looseTy : GoType → Bool
    | .snbt | .int .int | .int .uint => true
    | .slice e | .array _ e | .map e | .ptr e => looseTy e
    | .struct _ fs => fs.any fun f => looseTy f.2
    | _ => false

partial def hasNilPtr : GoVal → Bool
  | .ptr _ none => true
  | .ptr _ (some v) | .iface (some v) => hasNilPtr v
  | .slice _ _ xs | .array _ xs | .struct _ _ xs => xs.any hasNilPtr
  | .map _ _ kvs => kvs.any fun kv => hasNilPtr kv.2
  | _ => false

/-- a `[]any` / `[N]any` whose first element is byte-, int- or long-like is written as a typed array -/
partial def hasAnyArray : GoVal → Bool
  | .slice .iface _ (x :: xs) | .array .iface (x :: xs) =>
    (match x with
      | .iface (some (.int .i8 _)) | .iface (some (.int .u8 _)) | .iface (some (.bool _))
      | .iface (some (.int .i32 _)) | .iface (some (.int .u32 _))
      | .iface (some (.int .i64 _)) | .iface (some (.int .u64 _)) => true
      | _ => false) || (x :: xs).any hasAnyArray
  | .ptr _ (some v) | .iface (some v) => hasAnyArray v
  | .slice _ _ xs | .array _ xs | .struct _ _ xs => xs.any hasAnyArray
  | .map _ _ kvs => kvs.any fun kv => hasAnyArray kv.2
  | _ => false

/-- Types and values that are in the documented universe beyond doubt — scalars of a fixed size, floats, strings,
and slices, arrays, string-keyed maps, pointers and structs of these (no interfaces, no carriers, no `int` / `uint`,
no `,list` option, no slice of pointers to byte-, int- or long-sized elements, which is written as a typed array of
pointers) —: `Encode` must not refuse such a value. A nil pointer has an encoding like any other value of these
types (the finding `C02.nil-pointer` is about WHAT it is: the zero value; not about whether there is one). -/
partial def plainTy : GoType → Bool
  | .bool | .int .i8 | .int .u8 | .int .i16 | .int .u16 | .int .i32 | .int .u32 | .int .i64 | .int .u64 | .f32 | .f64 | .str => true
  | .slice e | .array _ e => plainTy e && !(match e with | .ptr _ => arrayElem (strip e) | _ => false)
  | .map e | .ptr e => plainTy e
  | .struct _ fs => fs.all fun f => plainTy f.2 && f.1.nbtType.isEmpty &&
      !((parseOpts (f.1.nbt.length + 1) (cutComma f.1.nbt).2).2)
  | _ => false
where
  strip : GoType → GoType
    | .ptr e => strip e
    | e => e
  arrayElem : GoType → Bool
    | .bool | .int .i8 | .int .u8 | .int .i32 | .int .u32 | .int .i64 | .int .u64 => true
    | _ => false

partial def plainVal : GoVal → Bool
  | .str s => s.length ≤ 32767
  | .slice _ _ xs | .array _ xs | .struct _ _ xs => xs.all plainVal
  | .map _ _ kvs => kvs.all fun kv => kv.1.length ≤ 32767 && plainVal kv.2
  | .ptr _ (some v) => plainVal v
  | _ => true

def isZeroF32 (b : BitVec 32) : Bool := b.toNat % 2 ^ 31 == 0
def isZeroF64 (b : BitVec 64) : Bool := b.toNat % 2 ^ 63 == 0

/-- v' ≈ v: Go `==` / DeepEqual, except NaN by bit pattern and nil ≈ empty for slices and maps -/
partial def approx : GoVal → GoVal → Bool
  | .bool a, .bool b => a == b
  | .int k a, .int l b => k == l && a == b
  | .f32 a, .f32 b => a == b || (isZeroF32 a && isZeroF32 b)
  | .f64 a, .f64 b => a == b || (isZeroF64 a && isZeroF64 b)
  | .str a, .str b | .snbt a, .snbt b => a == b
  | .raw t a, .raw u b => t == u && a == b
  | .dyn a, .dyn b => showVal (.dyn a) == showVal (.dyn b)
  | .slice _ _ xs, .slice _ _ ys | .array _ xs, .array _ ys | .struct _ _ xs, .struct _ _ ys =>
    xs.length == ys.length && (xs.zip ys).all fun p => approx p.1 p.2
  | .map _ _ a, .map _ _ b =>
    let a := sortKvs a
    let b := sortKvs b
    a.length == b.length && (a.zip b).all fun p => p.1.1 == p.2.1 && approx p.1.2 p.2.2
  | .ptr _ none, .ptr _ none | .iface none, .iface none => true
  | .ptr _ (some a), .ptr _ (some b) => approx a b
  | .iface (some a), .iface (some b) => showType a.typeOf == showType b.typeOf && approx a b
  | _, _ => false

mutual
  /-- the part of a value the codec sees: fields that are not in the field table of their struct type
  (`nbt:"-"`, unexported, hidden or annihilated by the embedding rules) are replaced by zero values. The table
  is the model's (`typeFields`, tied to the real one by `c02.tf`), not the implementation's. -/
  partial def project : GoVal → GoVal
    | .struct n fields fs =>
      let paths := (typeFields (.struct n fields)).map (·.index)
      .struct n fields (projFields paths [] 0 fields fs)
    | .slice e nl xs => .slice e nl (xs.map project)
    | .array e xs => .array e (xs.map project)
    | .map e nl kvs => .map e nl (kvs.map fun kv => (kv.1, project kv.2))
    | .ptr e (some v) => .ptr e (some (project v))
    | .iface (some v) => .iface (some (project v))
    | v => v
  partial def projFields (paths : List (List Nat)) (pre : List Nat) : Nat → List (FieldInfo × GoType) → List GoVal → List GoVal
    | i, (_, t) :: fields, v :: vs =>
      let p := pre ++ [i]
      let rest := projFields paths pre (i + 1) fields vs
      if paths.any (· == p) then project v :: rest
      else if paths.any (fun q => q.length > p.length && q.take p.length == p) then
        -- an embedded struct (or pointer to one) that is being expanded
        (match v with
          | .struct n fs2 xs => .struct n fs2 (projFields paths p 0 fs2 xs)
          | .ptr e (some (.struct n fs2 xs)) =>
            -- an embedded pointer whose visible fields are all zero comes back nil when they are omitted: same thing
            let inner := GoVal.struct n fs2 (projFields paths p 0 fs2 xs)
            if showVal inner == showVal e.zero then .ptr e none else .ptr e (some inner)
          | other => other) :: rest
      else t.zero :: rest
    | _, _, _ => []
end

/-! ### handlers -/

def tf (tdesc : String) : Verdict :=
  match parseType tdesc.toList with
  | some (t, []) => { model := showFields (typeFields t) }
  | _ => { model := "bad-type" }

/-- `(root name, tree)` of a complete document, if the spec reader accepts it -/
def readDoc (fmt : Format) (bs : Bytes) : Option (Bytes × NBT) :=
  match parseDoc fmt bs with
  | some (n, t, []) => some (n, t)
  | _ => none

def sameDoc (fmt : Format) (a b : Bytes) : Bool :=
  a == b ||
  match readDoc fmt a, readDoc fmt b with
  | some (n, t), some (n', t') => n == n' && NBT.specAny t == NBT.specAny t' && t.tag == t'.tag && a.length == b.length
  | none, none =>
    -- neither is a well-formed document (zero carriers …): map entries may still come in another order
    a.length == b.length && (a.map (·.toNat)).mergeSort == (b.map (·.toNat)).mergeSort
  | _, _ => false

def showDec (r : Res (GoVal × Bytes) × Stream) : String :=
  match r.1 with
  | .ok (v, name) => s!"dec=ok:{showVal v} name={hexOfBytes name} left={r.2.flat.length}"
  | .err => "dec=err"
  | .panic => "dec=panic"

def rt (fmtS _how nameHex tdesc vdesc obs : String) : Verdict :=
  match parseHex nameHex, parseType tdesc.toList with
  | some name, some (t, []) =>
    match parseVal t vdesc.toList with
    | some (v, []) =>
      let network := fmtS == "net"
      let fmt : Format := if network then .network else .file
      let toks := obs.splitOn " "
      let encTok := (kv toks "enc").getD ""
      let implBytes : Option Bytes := if encTok.startsWith "ok:" then parseHex (encTok.drop 3).toString else none
      let r := encode cx network name (some v)
      -- the model's observation
      let encStr := match r, implBytes with
        | .ok bs, some ib => if sameDoc fmt bs ib then "enc=" ++ encTok else "enc=ok:" ++ hexOfBytes bs
        | .ok bs, none => "enc=ok:" ++ hexOfBytes bs
        | .err, _ => "enc=err"
        | .panic, _ => "enc=panic"
      let docForDec : Option Bytes := match r, implBytes with
        | .ok _, some ib => some ib
        | .ok bs, none => some bs
        | _, _ => none
      let model := match docForDec with
        | some doc => encStr ++ " chg=0 " ++ showDec (decodeTyped cx network false t (Stream.ofBytes doc))
        | none => encStr ++ " chg=0"
      -- the property on the implementation's observation
      let decTok := (kv toks "dec").getD ""
      let markers := (if hasNilPtr v then ["C02.nil-pointer"] else []) ++ (if hasAnyArray v then ["C02.any-slice-array"] else [])
      let exempt := loose v
      let spec : Option String :=
        if encTok == "panic" then some "Encode panicked"
        else if encTok == "hang" then some "Encode did not return"
        else if (kv toks "chg") == some "1" then some "Encode modified its argument"
        else if decTok == "panic" then some "Decode of the encoder's own output panicked"
        else if decTok == "hang" then some "Decode did not return"
        else if encTok == "err" && plainTy t && plainVal v then some "a value of the documented universe was refused by Encode"
        else if encTok.startsWith "ok:" then
          if exempt then none
          else if decTok == "err" then some "the encoding of the value does not decode into its type"
          else if decTok.startsWith "ok:" then
            match parseVal t (decTok.drop 3).toString.toList with
            | some (v', []) =>
              if (kv toks "left") != some "0" then some "bytes left after decoding the encoder's output"
              else if (kv toks "name") != some (hexOfBytes (if network then [] else name)) then some "root name differs"
              else if approx (project v) (project v') then none
              else some "decoded value differs from the encoded one"
            | _ => some "unparseable decoded value"
          else some "no decode observation"
        else none
      { model, spec, markers }
    | _ => { model := "bad-value" }
  | _, _ => { model := "bad-arg" }

partial def typeHasSnbt : GoType → Bool
  | .snbt => true
  | .slice e | .array _ e | .map e | .ptr e => typeHasSnbt e
  | .struct _ fs => fs.any fun f => typeHasSnbt f.2
  | _ => false

def dec (tdesc fmtS dis hexdoc obs : String) : Verdict :=
  match parseType tdesc.toList, parseHex hexdoc with
  | some (t, []), some doc =>
    let network := fmtS == "net"
    let r := decodeTyped cx network (dis == "1") t (Stream.ofBytes doc)
    let model := match r.1 with
      | .ok (v, name) => s!"ok name={hexOfBytes name} v={showVal v} left={r.2.flat.length}"
      | .err => s!"err left={r.2.flat.length}"
      | .panic => "panic"
    let spec : Option String :=
      if obs == "panic" then some "typed decoder panicked"
      else if obs == "hang" then some "typed decoder did not return"
      else if obs.startsWith "ok " && !typeHasSnbt t && !(t matches .dyn) then   -- dynbt.Value accepts a bare End (DYNBT)
        match parseDoc (if network then .network else .file) doc with
        | none => some "ill-formed or truncated document reported as decoded"
        | some (_, _, rest) =>
          if (kv (obs.splitOn " ") "left") == some (toString rest.length) then none
          else some "decoder stopped elsewhere than at the end of the document"
      else none
    { model, spec }
  | _, _ => { model := "bad-arg" }

def dec2 (tdesc fmtS hex1 hex2 obs : String) : Verdict :=
  match parseType tdesc.toList, parseHex hex1, parseHex hex2 with
  | some (t, []), some d1, some d2 =>
    let network := fmtS == "net"
    let model := match (decodeTyped cx network false t (Stream.ofBytes d1)).1 with
      | .ok (v1, _) =>
        let r := decodeInto cx network false t v1 (Stream.ofBytes d2)
        (match r.1 with
          | .ok (v, name) => s!"first=ok ok name={hexOfBytes name} v={showVal v} left={r.2.flat.length}"
          | .err => s!"first=ok err left={r.2.flat.length}"
          | .panic => "panic")
      | .err => "first=err"
      | .panic => "panic"
    { model, spec := if obs == "panic" then some "typed decoder panicked on a destination with a history"
                     else if obs == "hang" then some "typed decoder did not return" else none }
  | _, _, _ => { model := "bad-arg" }

/-- `c02.decinto`: one document into a variable that already holds `vdesc` (a reused holder: interfaces holding typed
nil pointers, …). The model is `decodeInto` on that value; the property demanded is C03's: never panic, never hang. -/
def decInto (tdesc fmtS vdesc hexdoc obs : String) : Verdict :=
  match parseType tdesc.toList, parseHex hexdoc with
  | some (t, []), some doc =>
    match parseVal t vdesc.toList with
    | some (old, []) =>
      let r := decodeInto cx (fmtS == "net") false t old (Stream.ofBytes doc)
      let model := match r.1 with
        | .ok (v, name) => s!"ok name={hexOfBytes name} v={showVal v} left={r.2.flat.length}"
        | .err => s!"err left={r.2.flat.length}"
        | .panic => "panic"
      { model, spec := if obs == "panic" then some "typed decoder panicked on a destination that holds a value"
                       else if obs == "hang" then some "typed decoder did not return" else none }
    | _ => { model := "bad-value" }
  | _, _ => { model := "bad-arg" }

def fr (allow tdesc hexdoc obs : String) : Verdict :=
  match parseType tdesc.toList, parseHex hexdoc with
  | some (t, []), some doc =>
    let r := fieldRead cx (allow == "1") t t.zero (Stream.ofBytes doc)
    let model := match r.1 with
      | .ok (v, n) => s!"ok n={n} v={showVal v}"
      | .err => "err"
      | .panic => "panic"
    -- the count is the number of bytes consumed; a bare End is "no value": one byte, nothing stored
    let spec : Option String :=
      if obs == "panic" || obs == "hang" then some "NBTField.ReadFrom panicked or hung"
      else if obs.startsWith "ok " then
        match (kv (obs.splitOn " ") "n").bind String.toNat? with
        | some n => if n > doc.length then some "count exceeds the input" else none
        | none => some "no count"
      else none
    { model, spec }
  | _, _ => { model := "bad-arg" }

def fw (how tdesc vdesc obs : String) : Verdict :=
  let v : Option (Option GoVal) :=
    if vdesc == "nil" then some none else
    match parseType tdesc.toList with
    | some (t, []) => (match parseVal t vdesc.toList with
      | some (.iface none, []) => if how == "val" then some none else some (some (.iface none))   -- a nil `any` passed by value is `V: nil`
      | some (x, []) => some (some x)
      | _ => none)
    | _ => none
  match v with
  | none => { model := "bad-arg" }
  | some v =>
    let toks := obs.splitOn " "
    let implBytes := (kv toks "bytes").bind parseHex
    let model := match fieldWrite cx v, implBytes with
      | .ok (bs, n), some ib => if sameDoc .network bs ib then s!"ok n={n} bytes={hexOfBytes ib}" else s!"ok n={n} bytes={hexOfBytes bs}"
      | .ok (bs, n), none => s!"ok n={n} bytes={hexOfBytes bs}"
      | .err, _ => "err"
      | .panic, _ => "panic"
    let spec : Option String :=
      if obs == "panic" then some "NBTField.WriteTo panicked"
      else match implBytes, (kv toks "n").bind String.toNat? with
        | some ib, some n => if n == ib.length then none else some "count differs from the bytes written"
        | _, _ => none
    { model, spec }

/-- the destinations in which a carrier must give back the bytes it read -/
def carrierPos : GoType → Bool
  | .raw | .dyn | .ptr .raw | .ptr .dyn => true
  | .slice .raw | .slice .dyn | .map .raw | .map .dyn => true
  | .struct _ [(_, .raw)] | .struct _ [(_, .dyn)] | .struct _ [(_, .ptr .raw)] | .struct _ [(_, .ptr .dyn)] => true
  | _ => false

/-- documents that `StringifiedMessage` gives back byte for byte when re-encoded: integers and the three arrays, in
non-empty lists and in compounds with plain lower-case keys (no strings, whose quoting is the SNBT work package's
business, no floats, whose text form is, no empty lists, whose element type the text does not carry) -/
partial def snbtExactTree : NBT → Bool
  | .byte _ | .short _ | .int _ | .long _ | .byteArray _ | .intArray _ | .longArray _ => true
  | .list _ ts => !ts.isEmpty && ts.all snbtExactTree
  | .compound kvs => kvs.all (fun kv => !kv.1.isEmpty && kv.1.all (fun b => 97 ≤ b.toNat && b.toNat ≤ 122) && snbtExactTree kv.2) &&
      (kvs.map (·.1)).eraseDups.length == kvs.length
  | _ => false

def snbtPos : GoType → Bool
  | .snbt | .ptr .snbt | .slice .snbt | .map .snbt => true
  | .struct _ [(_, .snbt)] => true
  | _ => false

def re (fmtS tdesc hexdoc obs : String) : Verdict :=
  match parseType tdesc.toList, parseHex hexdoc with
  | some (t, []), some doc =>
    let network := fmtS == "net"
    let fmt : Format := if network then .network else .file
    let r := decodeTyped cx network false t (Stream.ofBytes doc)
    let toks := obs.splitOn " "
    let encTok := (kv toks "enc").getD ""
    let implBytes : Option Bytes := if encTok.startsWith "ok:" then parseHex (encTok.drop 3).toString else none
    let model := match r.1 with
      | .ok (v, name) =>
        "dec=ok " ++ (match encode cx network name (some v), implBytes with
          | .ok bs, some ib => if sameDoc fmt bs ib then "enc=" ++ encTok else "enc=ok:" ++ hexOfBytes bs
          | .ok bs, none => "enc=ok:" ++ hexOfBytes bs
          | .err, _ => "enc=err"
          | .panic, _ => "enc=panic")
      | .err => "dec=err"
      | .panic => "dec=panic"
    let spec : Option String :=
      if (kv toks "dec") == some "panic" || (kv toks "dec") == some "hang" then some "Decode panicked or hung"
      else if encTok == "panic" then some "Encode panicked"
      else if carrierPos t then
        match parseDoc fmt doc with
        | some (n, tr, []) =>
          if n.length ≥ 32768 || NBT.hasLongString tr then none
          else if implBytes == some doc then none
          else some "carrier did not re-encode the document byte for byte"
        | _ => none
      else if snbtPos t then
        match parseDoc fmt doc with
        | some (n, tr, []) =>
          let inner : Option NBT := match t, tr with
            | .snbt, x | .ptr .snbt, x => some x
            | .slice .snbt, .list _ xs => some (.list 9 xs)
            | .map .snbt, .compound kvs | .struct _ _, .compound kvs => some (.compound kvs)
            | _, _ => none
          if n.length ≥ 32768 then none
          else match inner with
            | some x =>
              if !snbtExactTree x then none
              else if (kv toks "dec") != some "ok" then some "StringifiedMessage refused a document of integers and arrays"
              else if implBytes == some doc then none
              else some "StringifiedMessage did not give the document back"
            | none => none
        | _ => none
      else none
    { model, spec }
  | _, _ => { model := "bad-arg" }

/-- `c02.hist`: a history of `Marshal` / `Encoder.Encode` calls whose results are all held and examined after the last
call. In the model `Marshal` is a pure function of its argument — `encode cx false [] (some v) : Res Bytes`, a fresh
byte string, with no state between calls — so the model's observation of a history is the list of the observations of
its steps, each held result unchanged (`held=1`), each argument unchanged (`arg=1`). The oracle is the property's
"decoding the encoding of v yields v" for EVERY held encoding (decoded after all the calls), plus: no held result
and no argument is modified by a later call. `@j` in a value is a carrier built from the bytes step `j` returned. -/
def hist (_api how : String) (steps : List (String × String)) (obs : String) : Verdict :=
  let stepObs := obs.splitOn " ; "
  let rec go (i : Nat) (steps : List (String × String)) (sobs : List String) (encs : List (Option Bytes))
      (bad : List Bool) (models : List String) (spec : Option String) (markers : List String) : Verdict :=
    match steps, sobs with
    | (t, v) :: steps', o :: sobs' =>
      -- carriers built from earlier results
      let v' := (List.range i).foldl (fun (acc : String) j =>
        let txt := match encs[j]? with
          | some (some b) => hexOfBytes (b.take 1) ++ ":" ++ hexOfBytes (b.drop 3)
          | _ => "00:"
        acc.replace s!"@{j}" txt) v
      let toks := o.splitOn " "
      let o' := " ".intercalate (toks.filter fun tk => !(tk.startsWith "held=") && !(tk.startsWith "arg="))
      let r := rt "file" how "-" t v' o'
      let encTok := (kv toks "enc").getD ""
      let enc : Option Bytes := if encTok.startsWith "ok:" then parseHex (encTok.drop 3).toString else none
      let model := if encTok.startsWith "ok:" then r.model.replace " chg=0 " " chg=0 held=1 arg=1 " else r.model
      -- a carrier built from a result that is itself no document (the zero RawMessage / dynbt.Value are not values,
      -- a failed step) carries no document: only "returns, modifies nothing" is demanded of such a step
      let refsBad := (List.range i).any fun j => (bad[j]?).getD true && (v.splitOn s!"@{j}").length > 1
      let looseStep := match parseType t.toList with
        | some (ty, []) => (match parseVal ty v'.toList with
          | some (x, []) => loose x
          | _ => true)
        | _ => true
      let rspec := match r.spec with
        | some why => if refsBad && !((why.splitOn "panicked").length > 1 || (why.splitOn "did not return").length > 1
            || (why.splitOn "modified").length > 1) then none else some why
        | none => none
      let stepSpec : Option String :=
        match rspec with
        | some why => some why
        | none =>
          if (kv toks "held") == some "0" then some "the bytes an earlier call returned were overwritten by a later call"
          else if (kv toks "arg") == some "0" then some "a later call modified the argument of an earlier one"
          else none
      let spec' := match spec, stepSpec with
        | some w, _ => some w
        | none, some w => some s!"step {i}: {w}"
        | none, none => none
      if encTok == "panic" || encTok == "hang" then
        { model := " ; ".intercalate (models ++ [r.model]), spec := spec', markers := markers ++ r.markers }
      else go (i + 1) steps' sobs' (encs ++ [enc]) (bad ++ [looseStep || refsBad || enc.isNone]) (models ++ [model]) spec'
        (markers ++ r.markers)
    | [], [] => { model := " ; ".intercalate models, spec, markers := markers.eraseDups }
    | _, _ => { model := " ; ".intercalate (models ++ ["bad-history"]), spec, markers }
  go 0 steps stepObs [] [] [] none []

def pairUp : List String → List (String × String)
  | a :: b :: rest => (a, b) :: pairUp rest
  | _ => []

/-- `c02.odd`: values of types OUTSIDE the universe of the model (`GoType` is a finite tree with string-keyed maps):
recursive pointer types, maps with other keys. There is no model evaluation here; the table says what the repaired
encoder does — a nil pointer of a type whose zero value contains it again has no finite encoding (error; it used to
overflow the stack), a map key that is neither a string nor a `fmt.Stringer` names no tag (error; every entry used
to be called "<int Value>") — and the oracle is the property's: `Encode` returns, and what it wrote decodes to the
value. -/
def odd (variant obs : String) : Verdict :=
  let toks := obs.splitOn " "
  let expect : Option String := match variant with
    | "rec-zero" | "rec-list" | "rec-nilptr" | "rec-slice" | "rec-map" | "rec-mutual" | "map-int" => some "enc=err"
    | "rec-omitempty" => some "enc=ok:0a000003000156000000010a00044e65787403000156000000020a00044e6578740300015600000003000000 dec=ok same=1"
    | "rec-omitempty-nil" => some "enc=ok:0a0000030001560000000000 dec=ok same=1"
    | "map-stringer" => some "enc=ok:0a0000030004312c2d320000000700"
    | "map-empty-int" => some "enc=ok:0a000000"
    | _ => none
  let spec : Option String :=
    if obs == "crash" then some "Encode killed the process (stack overflow)"
    else if obs == "hang" then some "Encode did not return"
    else if obs == "panic" then some "Encode panicked"
    else if (kv toks "dec") == some "err" then some "the encoding of the value does not decode into its type"
    else if (kv toks "same") == some "0" then some "decoded value differs from the encoded one"
    else none
  { model := expect.getD "bad-variant", spec }

def handle (op : String) (args : List String) (obs : String) : Option Verdict :=
  match op, args with
  | "c02.tf", [t] => some (tf t)
  | "c02.rt", [f, how, n, t, v] => some (rt f how n t v obs)
  | "c02.dec", [t, f, d, _rk, doc] => some (dec t f d doc obs)
  | "c02.re", [f, t, doc] => some (re f t doc obs)
  | "c02.dec2", [t, f, d1, d2] => some (dec2 t f d1 d2 obs)
  | "c02.decinto", [t, f, v, doc] => some (decInto t f v doc obs)
  | "c02.fr", [a, t, doc] => some (fr a t doc obs)
  | "c02.fw", [how, t, v] => some (fw how t v obs)
  | "c02.odd", [variant] => some (odd variant obs)
  | "c02.hist", api :: how :: _n :: rest => some (hist api how (pairUp rest) obs)
  | _, _ => none

end Driver.C02
