import Driver.Util
import GoMC.Model.Command
/-
  Driver for the command-dispatcher clause of C08 (pseudo-ID CMD).
    cmd.exec  <graph> <line hex> => ok <node> <args> | err | panic | hang
    cmd.write <graph>            => ok | err | panic
  <graph> = node;node;…   node = K:r:name:p:children   (see harness/cmd.go)
-/
namespace Driver.CMD
open GoMC GoMC.Command Driver

/-- raw description of one node, as written on the line (used by the spec oracle without going through the model) -/
structure RawNode where
  kind : String
  run : String
  name : String
  parser : String
  children : List Nat

def parseChildren (s : String) : Option (List Nat) :=
  if s == "-" then some [] else (s.splitOn ",").mapM String.toNat?

def parseRawNode (s : String) : Option RawNode :=
  match s.splitOn ":" with
  | [k, r, n, p, c] => (parseChildren c).map fun cs => { kind := k, run := r, name := n, parser := p, children := cs }
  | _ => none

def parseRaw (s : String) : Option (List RawNode) := (s.splitOn ";").mapM parseRawNode

def asciiChars (bs : Bytes) : Option (List Char) :=
  bs.mapM fun b => if b.toNat < 128 then some (Char.ofNat b.toNat) else none

def toNode (r : RawNode) : Option Node := do
  let kind ← match r.kind with
    | "R" => some Kind.root | "L" => some Kind.literal | "A" => some Kind.argument | _ => none
  let run ← match r.run with
    | "n" => some RunKind.none | "u" => some RunKind.unhandled | "h" => some RunKind.handler | _ => none
  let name ← (parseHex r.name).bind asciiChars
  let parser ← match r.parser with
    | "-" => some PKind.none | "0" => some PKind.word | "1" => some PKind.quotable | "2" => some PKind.greedy
    | p => p.toNat?.map fun _ => PKind.unknown
  some { kind, name, children := r.children, run, parser }

def toGraph (rs : List RawNode) : Option Graph := (rs.mapM toNode).map fun ns => { nodes := ns }

def charsHex (cs : List Char) : String := hexOfBytes (cs.map fun c => BitVec.ofNat 8 c.toNat)

def showArg : Arg → String
  | .nil => "nil"
  | .lit n => "L" ++ charsHex n
  | .str v => "S" ++ charsHex v

def showOutcome : Outcome → String
  | .ran i args => s!"ok {i} " ++ (if args.isEmpty then "-" else ",".intercalate (args.map showArg))
  | .err => "err"
  | .panic => "panic"
  | .fuelOut => "fuel-out"

/-- Spec side, written from the builder API's contract and the property text, not from the model:
    is this description something the builders produce when used on one graph with `StringParser(0|1|2)`? -/
def rawWellBuilt (rs : List RawNode) : Bool :=
  match rs with
  | [] => false
  | r :: rest =>
    r.kind == "R" &&
    rest.all (fun n => n.kind == "L" || n.kind == "A") &&
    rs.all (fun n => n.children.all fun c => 1 ≤ c && c < rs.length) &&
    rs.all (fun n => n.kind != "A" || n.parser == "0" || n.parser == "1" || n.parser == "2")

/-- "return a value or an error: never panic and never spin"; when a handler is reported it must be a node that
    has one -/
def specExec (rs : List RawNode) (obs : String) : Option String :=
  if !rawWellBuilt rs then none else
  if obs == "panic" then some "Graph.Execute panicked" else
  if obs == "hang" then some "Graph.Execute did not return" else
  if obs == "err" then none else
  match obs.splitOn " " with
  | ["ok", i, _] =>
    match i.toNat?.bind (fun k => rs[k]?) with
    | some n => if n.run == "h" then none else some "a handler ran at a node that has none"
    | none => some "unknown node reported"
  | _ => some "unparseable observation"

def exec (gs lineHex obs : String) : Verdict :=
  match parseRaw gs with
  | none => { model := "bad-graph" }
  | some rs =>
    match toGraph rs, (parseHex lineHex).bind asciiChars with
    | some g, some line => { model := showOutcome (Execute g line), spec := specExec rs obs }
    | _, _ => { model := "bad-arg" }

/-- `Graph.WriteTo` is not modelled byte by byte; the observation is its outcome class.  It fails only through a
    nil `Parser` on an argument node (`pk.Opt` with a nil field). -/
def write (gs obs : String) : Verdict :=
  match parseRaw gs with
  | none => { model := "bad-graph" }
  | some rs =>
    match toGraph rs with
    | none => { model := "bad-arg" }
    | some g =>
      let model := if g.nodes.any (fun n => n.kind == .argument && n.parser == .none) then "panic" else "ok"
      let spec := if rawWellBuilt rs && obs != "ok" then some "Graph.WriteTo to a buffer did not succeed" else none
      { model, spec }

def handle (op : String) (args : List String) (obs : String) : Option Verdict :=
  match op, args with
  | "cmd.exec", [g, l] => some (exec g l obs)
  | "cmd.write", [g] => some (write g obs)
  | _, _ => none

end Driver.CMD
