/-
  Driver for C10 (CFB8; encrypted Conn).  Ops (all arguments are key=value tokens):

    aes.selftest fips197                                   => ok
    aes.block key=<hex> in=<hex>                           => <hex>
    toy.block bs=<n> key=<hex> in=<hex>                    => <hex>
    cfb8 cipher=aes|toy8|toy16|toy32 key= iv= de=0|1 calls=<mode:n,...> msg=<hex>
                                                           => ok <hex out> pos=<ivPos> iv=<hex ring buffer> | panic
    cfb8.rt cipher= key= iv= enc=<calls> dec=<calls> msg=  => ok ct=<hex> pt=<hex> | panic
    conn.wire cipher= key= iv= writes=<n,n,...> plain=<hex> => ok <hex on the wire>
    conn cipher= key= iv= thr=<n> dir=ab|ba frag=<seed> keep=own|reuse|mix pkts=<id:hex;id:hex;...>
                                                           => ok <id:hex;...> | err ... | panic | hang
    cfb8.pair cipher= key= iv= spare=<n> kinds=e|d|ee|ed|de|dd lazy=0|1 sched=<stream:mode:n,...> msg0= msg1=
                                                           => ok out0=<hex> out1=<hex> back=<hex caller's array> | panic
    conn.sess cipher= key= iv= spare=<n> thr=<n> rd=tcp|<frag seed> accept=0|1 script=<a>id:hex,b<,aC,...>
                                                           => ok a=<pkts> b=<pkts> keybuf=same|changed | err step=k | panic | hang

  call modes: inplace (dst = src), disjoint / below / above (separate buffer: own allocation, directly
  below src, directly above src in one array), dstlonger (separate, (n mod 7)+1 bytes longer),
  scratch<L> (separate, L bytes long whatever n is: a reused scratch buffer),
  short (separate, one byte shorter: must take the documented panic).
-/
import Driver.Util
import Driver.C07
import GoMC.Spec.CFB8
import GoMC.Spec.AES
import GoMC.Model.CFB8
import GoMC.Model.ConnHist
namespace Driver.C10
open GoMC GoMC.Model.CFB8 Driver

structure Cipher where
  E : Bytes → Bytes
  bs : Nat

def cipherOf (name : String) (key : Bytes) : Option Cipher :=
  match name with
  | "aes" => (Spec.AES.blockFn key).map fun f => { E := f, bs := 16 }
  | "toy8" => if key.isEmpty then none else some { E := Spec.AES.toyBlock 8 key, bs := 8 }
  | "toy16" => if key.isEmpty then none else some { E := Spec.AES.toyBlock 16 key, bs := 16 }
  | "toy32" => if key.isEmpty then none else some { E := Spec.AES.toyBlock 32 key, bs := 32 }
  | _ => none

structure Call where
  mode : String
  n : Nat

def parseCalls (s : String) : Option (List Call) :=
  if s == "-" then some [] else
  (s.splitOn ",").mapM fun t =>
    match t.splitOn ":" with
    | [m, n] => n.toNat?.map fun k => { mode := m, n := k }
    | _ => none

def filler : Byte := 0xee

/-- the destination buffer the harness hands to the call, per mode -/
def dstOf (c : Call) : Alias × Nat :=
  match c.mode with
  | "inplace" => (.inPlace, c.n)
  | "dstlonger" => (.disjoint, c.n + c.n % 7 + 1)
  | "short" => (.disjoint, c.n - 1)
  | m =>
    -- "scratch<L>": a separate destination of L bytes, whatever the source length
    if m.startsWith "scratch" then
      match (m.drop 7).toString.toNat? with
      | some L => (.disjoint, L)
      | none => (.disjoint, c.n)
    else (.disjoint, c.n)

/-- fold the model over a call history; `none` = some call panicked.  Result: concatenated outputs,
whether a byte beyond `len(src)` of some destination changed, final state. -/
def runModel (c : Cipher) (de : Bool) : St → List Call → Bytes → Option (Bytes × Bool × St)
  | st, [], _ => some ([], false, st)
  | st, call :: rest, msg =>
    let src := msg.take call.n
    let (mode, dlen) := dstOf call
    let dst := if mode == .inPlace then src else List.replicate dlen filler
    match XORKeyStream c.E c.bs de st mode dst src with
    | .ok (d, st1) =>
      let touched := (d.drop src.length).any (· != filler) || d.length != dlen
      match runModel c de st1 rest (msg.drop call.n) with
      | some (out, t, st2) => some (d.take src.length ++ out, touched || t, st2)
      | none => none
    | _ => none

/-- some call of the history hands over a destination shorter than its (non-empty) source -/
def anyShort : List Call → Bytes → Bool
  | [], _ => false
  | call :: rest, msg =>
    let n := (msg.take call.n).length
    (n ≥ 1 && (dstOf call).2 < n) || anyShort rest (msg.drop call.n)

def showRun (r : Option (Bytes × Bool × St)) : String :=
  match r with
  | none => "panic"
  | some (out, touched, st) =>
    s!"ok {hexOfBytes out}{if touched then " tailmod" else ""} pos={st.ivPos} iv={hexOfBytes st.iv}"

def bad (why : String) : Verdict := { model := "bad-arg " ++ why }

def cfb8 (args : List String) (obs : String) : Verdict :=
  match kv args "cipher", (kv args "key").bind parseHex, (kv args "iv").bind parseHex,
        kv args "de", (kv args "calls").bind parseCalls, (kv args "msg").bind parseHex with
  | some cn, some key, some iv, some de, some calls, some msg =>
    match cipherOf cn key with
    | none => bad "cipher"
    | some c =>
      let de := de == "1"
      let model := showRun (runModel c de (newCFB8 iv) calls msg)
      -- spec: the byte-at-a-time definition of the mode over the same block function, on the whole message
      let hasShort := anyShort calls msg
      let spec : Option String :=
        if hasShort then none          -- the property says nothing about a too-short destination
        else if iv.length != c.bs then none   -- nor about an IV that is not one block long
        else
          let want := (Spec.CFB8.run c.E de iv msg).1
          match obs.splitOn " " with
          | "ok" :: out :: rest =>
            if out != hexOfBytes want then some s!"CFB8 output differs from the mode's definition: expected {hexOfBytes want}"
            else if rest.contains "tailmod" then some "bytes of dst beyond len(src) were modified"
            else none
          | _ => some s!"expected ok {hexOfBytes want}"
      { model, spec }
  | _, _, _, _, _, _ => bad "cfb8"

def roundTrip (args : List String) (obs : String) : Verdict :=
  match kv args "cipher", (kv args "key").bind parseHex, (kv args "iv").bind parseHex,
        (kv args "enc").bind parseCalls, (kv args "dec").bind parseCalls, (kv args "msg").bind parseHex with
  | some cn, some key, some iv, some ecalls, some dcalls, some msg =>
    match cipherOf cn key with
    | none => bad "cipher"
    | some c =>
      let model :=
        match runModel c false (newCFB8 iv) ecalls msg with
        | none => "panic"
        | some (ct, _, _) =>
          match runModel c true (newCFB8 iv) dcalls ct with
          | none => "panic"
          | some (pt, _, _) => s!"ok ct={hexOfBytes ct} pt={hexOfBytes pt}"
      let want := s!"ok ct={hexOfBytes (Spec.CFB8.enc c.E iv msg)} pt={hexOfBytes msg}"
      { model, spec := if obs == want then none else some s!"decrypt(encrypt(m)) must return m: expected {want.take 200}" }
  | _, _, _, _, _, _ => bad "cfb8.rt"

def splitBy : List Nat → Bytes → List Bytes
  | [], _ => []
  | n :: ns, b => b.take n :: splitBy ns (b.drop n)

def parseNats (s : String) : Option (List Nat) :=
  if s == "-" then some [] else (s.splitOn ",").mapM String.toNat?

/-- what `cipher.StreamWriter` hands to the socket for a sequence of `Write` calls -/
def connWire (args : List String) (obs : String) : Verdict :=
  match kv args "cipher", (kv args "key").bind parseHex, (kv args "iv").bind parseHex,
        (kv args "writes").bind parseNats, (kv args "plain").bind parseHex with
  | some cn, some key, some iv, some writes, some plain =>
    match cipherOf cn key with
    | none => bad "cipher"
    | some c =>
      let model := match streamWriter c.E c.bs (newCFB8 iv) (splitBy writes plain) with
        | .ok (w, _) => "ok " ++ hexOfBytes w
        | .err => "err"
        | .panic => "panic"
      let want := "ok " ++ hexOfBytes (Spec.CFB8.enc c.E iv (splitBy writes plain).flatten)
      { model, spec := if obs == want then none else some "bytes on the wire are not the CFB8 encryption of the frames" }
  | _, _, _, _, _ => bad "conn.wire"

def parsePkt (s : String) : Option Model.ConnHist.Pkt :=
  match s.splitOn ":" with
  | [i, h] => do
    let id ← i.toInt?
    let d ← Driver.C07.parseBx h     -- hex, or a compact description such as g<seed>.<len> (harness/c07.go)
    pure (id, d)
  | _ => none

def showPkts (l : List Model.ConnHist.Pkt) : String :=
  if l.isEmpty then "-" else ";".intercalate (l.map fun (i, d) => s!"{i}:{Driver.C07.dig d}")

def parseStep (st : String) : Option Model.ConnHist.Step :=
  match st.toList with
  | who :: '>' :: rest => (parsePkt (String.ofList rest)).map fun p => .send (who == 'a') p
  | [who, '<'] => some (.recv (who == 'a'))
  | [who, '<', '='] => some (.recv (who == 'a'))
  | [_, 'C'] => some .other
  | _ => none

/-- the packet-level session model folded over the script; `err step=k` when a read finds nothing in flight -/
def runSess : Model.ConnHist.Sess → Nat → List Model.ConnHist.Step → String
  | s, _, [] => s!"ok a={showPkts s.gotA} b={showPkts s.gotB} keybuf=same"
  | s, k, x :: xs =>
    match Model.ConnHist.step s x with
    | none => s!"err step={k}"
    | some s' => runSess s' (k + 1) xs

/-- two encrypted `Conn`s over a duplex pipe: the receiver must see exactly the packets sent, in order -/
def conn (args : List String) (obs : String) : Verdict :=
  match kv args "pkts" with
  | some pkts =>
    -- model: the packet-level session (all packets written by one end, all read by the other, kept to the end)
    let ps := if pkts == "-" then some [] else (pkts.splitOn ";").mapM parsePkt
    -- oracle: exactly the packets sent, in order (payloads printed as digests on both sides)
    let want := "ok " ++ (match ps with | some l => showPkts l | none => pkts)
    let model := match ps with
      | some l => runSess {} 0 (l.map (Model.ConnHist.Step.send true) ++ l.map fun _ => Model.ConnHist.Step.recv false)
      | none => "bad-arg pkts"
    let model := match ps, model.splitOn " " with
      | some _, ["ok", _, b, _] => "ok " ++ (b.drop 2).toString
      | _, _ => model
    let why := if (obs.splitOn " ").any (·.startsWith "changed-was:")
      then "a packet changed after it was delivered (later traffic wrote into it)"
      else "packets received differ from packets sent"
    { model, spec := if obs == want then none else some why }
  | none => bad "conn"

/-! ### one or two streams built from one caller-owned IV slice (`cfb8.pair`) -/

structure Sched where
  stream : Nat
  call : Call

def parseSched (s : String) : Option (List Sched) :=
  if s == "-" then some [] else
  (s.splitOn ",").mapM fun t =>
    match t.splitOn ":" with
    | [k, m, n] =>
      match k.toNat?, n.toNat? with
      | some k, some n => some { stream := k, call := { mode := m, n := n } }
      | _, _ => none
    | _ => none

def spareFill : Byte := 0xa7

/-- the constructor copies the IV (`make` + `copy`): the streams are independent of each other and of the
caller's slice, whatever its capacity; so the model runs each stream on its own calls, and the caller's
backing array (`iv ++ spare bytes`) is what it was -/
def pair (args : List String) (obs : String) : Verdict :=
  match kv args "cipher", (kv args "key").bind parseHex, (kv args "iv").bind parseHex,
        (kv args "spare").bind String.toNat?, kv args "kinds", (kv args "sched").bind parseSched,
        (kv args "msg0").bind parseHex, (kv args "msg1").bind parseHex with
  | some cn, some key, some iv, some spare, some kinds, some sched, some msg0, some msg1 =>
    match cipherOf cn key with
    | none => bad "cipher"
    | some c =>
      let de (k : Nat) : Bool := (kinds.toList.getD k 'e') == 'd'
      let callsOf (k : Nat) : List Call := (sched.filter (·.stream == k)).map (·.call)
      let r0 := runModel c (de 0) (newCFB8 iv) (callsOf 0) msg0
      let r1 := runModel c (de 1) (newCFB8 iv) (callsOf 1) msg1
      let back := hexOfBytes (iv ++ List.replicate spare spareFill)
      let model :=
        match r0, r1 with
        | some (o0, t0, _), some (o1, t1, _) =>
          s!"ok out0={hexOfBytes o0} out1={hexOfBytes o1}{if t0 || t1 then " tailmod" else ""} back={back}"
        | _, _ => "panic"
      -- spec: each stream's output is the mode's definition on its own message, from the IV
      let w0 := hexOfBytes (Spec.CFB8.run c.E (de 0) iv msg0).1
      let w1 := hexOfBytes (Spec.CFB8.run c.E (de 1) iv msg1).1
      let toks := obs.splitOn " "
      let spec : Option String :=
        if iv.length != c.bs then none
        else if toks.head? != some "ok" then some "expected ok"
        else if kv toks "out0" != some w0 then some s!"stream 0 differs from the mode's definition: expected {w0}"
        else if kv toks "out1" != some w1 then some s!"stream 1 differs from the mode's definition: expected {w1}"
        else if toks.contains "tailmod" || toks.contains "srcmod" then some "bytes outside dst[:len(src)] were modified"
        else none     -- a changed `back` is a model disagreement (D), not by itself a violation of the statement
      { model, spec }
  | _, _, _, _, _, _, _, _ => bad "cfb8.pair"

/-! ### scripted sessions with the cipher switched on in mid-stream (`conn.sess`) -/

/-- what each end must have received: the packets the other end sent, in order, as many as it read -/
def sess (args : List String) (obs : String) : Verdict :=
  match kv args "script" with
  | none => bad "conn.sess"
  | some sc =>
    let steps := if sc == "-" then [] else sc.splitOn ","
    match steps.mapM parseStep with
    | none => bad "script"
    | some st =>
      -- oracle, from the script alone: the packets the other end wrote, as many as this end read
      let sentBy (fromA : Bool) : List Model.ConnHist.Pkt :=
        st.filterMap fun x => match x with
          | .send f p => if f == fromA then some p else none
          | _ => none
      let readsOf (atA : Bool) : Nat :=
        (st.filter fun x => match x with | .recv f => f == atA | _ => false).length
      let a := showPkts ((sentBy false).take (readsOf true))
      let b := showPkts ((sentBy true).take (readsOf false))
      let toks := obs.splitOn " "
      let spec : Option String :=
        if toks.head? != some "ok" then some "a packet was lost, damaged or refused"
        else if toks.any (·.startsWith "changed-was:") then some "a packet changed after it was delivered (later traffic wrote into it)"
        else if kv toks "a" != some a || kv toks "b" != some b then some "packets received differ from packets sent"
        else none
      { model := runSess {} 0 st, spec }

def handle (op : String) (args : List String) (obs : String) : Option Verdict :=
  match op with
  | "aes.selftest" =>
    some { model := match Spec.AES.selfTest with | none => "ok" | some w => "fail " ++ w }
  | "aes.block" =>
    some (match (kv args "key").bind parseHex, (kv args "in").bind parseHex with
      | some key, some inp =>
        match Spec.AES.blockFn key with
        | some f => { model := hexOfBytes (f inp) }
        | none => bad "key"
      | _, _ => bad "aes.block")
  | "toy.block" =>
    some (match (kv args "bs").bind String.toNat?, (kv args "key").bind parseHex, (kv args "in").bind parseHex with
      | some bs, some key, some inp => { model := hexOfBytes (Spec.AES.toyBlock bs key inp) }
      | _, _, _ => bad "toy.block")
  | "cfb8" => some (cfb8 args obs)
  | "cfb8.rt" => some (roundTrip args obs)
  | "conn.wire" => some (connWire args obs)
  | "conn" => some (conn args obs)
  | "cfb8.pair" => some (pair args obs)
  | "conn.sess" => some (sess args obs)
  | _ => none

end Driver.C10
