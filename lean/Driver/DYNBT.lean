import Driver.Util
import GoMC.Model.DynBT
import GoMC.Spec.NBT
/-!
  Driver for the `dynbt.Value` carrier (parts of C02, C03, C09).

  `dynbt.dec <net|file> <reader> <hex input>`
      reader: `br` (bytes.Reader), `one` (one byte per Read), `dataerr` (last chunk together with EOF),
              `chunks:a,b,…` (Read sizes, cyclic), `fail@k` (injected error after k bytes), `eof@k` (EOF after k bytes)
      observation: `ok tag=<dec> n=<bytes consumed> out=<hex MarshalNBT>|encerr enc=same|diff` | `err n=<consumed>` | `panic` | `hang`
  `dynbt.pos <any|field|map|slice|reuse> <hex tag+payload>`   (the harness wraps and unwraps)
      observation: `ok tag=<dec> out=<hex>` | `err` | `panic` | `hang`
-/
namespace Driver.DYNBT
open GoMC GoMC.Spec GoMC.Model.DynBT Driver

def splitChunks (sizes : List Nat) : Nat → List Nat → Bytes → List Bytes
  | 0, _, _ => []
  | _, _, [] => []
  | fuel + 1, [], bs => splitChunks sizes fuel sizes bs
  | fuel + 1, k :: ks, bs =>
    let k := if k = 0 then 1 else k
    (bs.take k) :: splitChunks sizes fuel ks (bs.drop k)

/-- the stream a reader kind delivers: (content, stream) -/
def mkStream (rd : String) (input : Bytes) : Option (Bytes × Stream) :=
  if rd == "br" || rd == "dataerr" then some (input, Stream.ofBytes input)
  else if rd == "one" then some (input, { chunks := input.map fun b => [b] })
  else if rd.startsWith "chunks:" then
    let sizes := ((rd.drop 7).toString.splitOn ",").filterMap String.toNat?
    if sizes.isEmpty then none
    else some (input, { chunks := splitChunks sizes (2 * input.length + 2) sizes input })
  else if rd.startsWith "fail@" then
    ((rd.drop 5).toString.toNat?).map fun k => (input.take k, { chunks := (input.take k).map fun b => [b], failing := true })
  else if rd.startsWith "eof@" then
    ((rd.drop 4).toString.toNat?).map fun k => (input.take k, Stream.ofBytes (input.take k))
  else none

mutual
  /-- every string and key shorter than 2^15 (Go reads the 16-bit length as a signed number) -/
  def small : NBT → Bool
    | .string s => s.length < 2 ^ 15
    | .list _ xs => smallList xs
    | .compound kvs => smallKvs kvs
    | _ => true
  def smallList : List NBT → Bool
    | [] => true
    | x :: xs => small x && smallList xs
  def smallKvs : List (Bytes × NBT) → Bool
    | [] => true
    | (k, v) :: kvs => k.length < 2 ^ 15 && small v && smallKvs kvs
end

def showDec (content : Bytes) (r : Res (Byte × Bytes × Val)) (s' : Stream) : String :=
  let n := content.length - s'.flat.length
  match r with
  | .ok (t, _, v) =>
    match marshal v with
    | .ok out => s!"ok tag={t.toNat} n={n} out={hexOfBytes out} enc=same"
    | _ => s!"ok tag={t.toNat} n={n} encerr"
  | .err => s!"err n={n}"
  | .panic => "panic"

def dec (fmt rd arg obs : String) : Verdict :=
  match parseHex arg, (if fmt == "net" then some false else if fmt == "file" then some true else none) with
  | some input, some file =>
    match mkStream rd input with
    | none => { model := "bad-reader" }
    | some (content, s) =>
      let (r, s') := decodeDoc file s
      let model := showDec content r s'
      -- spec oracle (independent reader of Spec/NBT on the bytes the source really delivers)
      let toks := obs.splitOn " "
      let cls := toks.headD ""
      let spec : Option String :=
        if cls == "panic" then some "decoder panicked"
        else if cls == "hang" then some "decoder did not return (watchdog)"
        else
          let p := parseDoc (if file then .file else .network) content
          if cls == "ok" then
            if content.head? == some 0 then none     -- a lone End tag: outside the property
            else match p with
              | none => some "accepted a malformed or truncated document"
              | some (_, t, rest) =>
                let n := content.length - rest.length
                if kv toks "n" != some (toString n) then some s!"document is {n} bytes long, decoder reports another count"
                else if kv toks "tag" != some (toString t.tag.toNat) then some "wrong tag"
                else if kv toks "out" != some (hexOfBytes (encPayload t)) then some s!"re-encoding is not byte-exact: expected {hexOfBytes (encPayload t)}"
                else if kv toks "enc" != some "same" then some "Encoder.Encode of the carrier differs from tag+name+MarshalNBT"
                else none
          else if cls == "err" then
            match p with
            | some (name, t, _) =>
              if small t && name.length < 2 ^ 15 then some "rejected a well-formed document" else none
            | none => none
          else some "unparseable observation"
      { model, spec }
  | _, _ => { model := "bad-arg" }

def pos (arg obs : String) : Verdict :=
  match parseHex arg with
  | some (tag :: payload) =>
    let (r, s') := unmarshal tag (Stream.ofBytes payload)
    let model :=
      match r with
      | .ok v =>
        if s'.flat.isEmpty then
          match marshal v with
          | .ok out => s!"ok tag={v.tag.toNat} out={hexOfBytes out}"
          | _ => "ok encerr"
        else "err"
      | .err => "err"
      | .panic => "panic"
    let cls := (obs.splitOn " ").headD ""
    let spec : Option String :=
      if cls == "panic" then some "panicked"
      else if cls == "hang" then some "did not return (watchdog)"
      else match parsePayload (payload.length + 2) tag payload with
        | some (t, []) =>
          if small t then
            let want := s!"ok tag={t.tag.toNat} out={hexOfBytes (encPayload t)}"
            if obs == want then none else some s!"carrier is not byte-exact: expected {want}"
          else none
        | _ => none
    { model, spec }
  | _ => { model := "bad-arg" }

def handle (op : String) (args : List String) (obs : String) : Option Verdict :=
  match op, args with
  | "dynbt.dec", [fmt, rd, a] => some (dec fmt rd a obs)
  | "dynbt.pos", [_, a] => some (pos a obs)
  | _, _ => none

end Driver.DYNBT
