/-
  Driver utilities: the line protocol (DESIGN Appendix E).
  One case per line:   <op> <arg> <arg> ... => <implementation's observation>
  Byte strings are lower-case hex, "-" for the empty string.
-/
import GoMC.Basic.Core
namespace Driver
open GoMC

def hexDigit (n : Nat) : Char :=
  if n < 10 then Char.ofNat (48 + n) else Char.ofNat (87 + n)

def hexOfBytes (bs : Bytes) : String :=
  if bs.isEmpty then "-" else
  String.ofList (bs.foldr (fun b acc => hexDigit (b.toNat / 16) :: hexDigit (b.toNat % 16) :: acc) [])

def hexVal (c : Char) : Option Nat :=
  if '0' ≤ c ∧ c ≤ '9' then some (c.toNat - 48)
  else if 'a' ≤ c ∧ c ≤ 'f' then some (c.toNat - 87)
  else if 'A' ≤ c ∧ c ≤ 'F' then some (c.toNat - 55)
  else none

partial def parseHexChars : List Char → Bytes → Option Bytes
  | [], acc => some acc.reverse
  | [_], _ => none
  | a :: b :: rest, acc =>
    match hexVal a, hexVal b with
    | some x, some y => parseHexChars rest (BitVec.ofNat 8 (16 * x + y) :: acc)
    | _, _ => none

def parseHex (s : String) : Option Bytes :=
  if s == "-" then some [] else parseHexChars s.toList []

/-- big-endian hex of a `w`-bit value, `w/4` digits -/
def hexOfNat (digits : Nat) (n : Nat) : String :=
  String.ofList ((List.range digits).reverse.map fun i => hexDigit (n / 16 ^ i % 16))

def parseHexNat (s : String) : Option Nat :=
  s.toList.foldl (fun acc c => match acc, hexVal c with
    | some a, some d => some (16 * a + d)
    | _, _ => none) (some 0)

/-- key=value lookup among whitespace-separated tokens -/
def kv (toks : List String) (key : String) : Option String :=
  toks.findSome? fun t => if t.startsWith (key ++ "=") then some (t.drop (key.length + 1)).toString else none

def resTag {α} : Res α → String
  | .ok _ => "ok"
  | .err => "err"
  | .panic => "panic"

/-- What a handler returns for one case. -/
structure Verdict where
  model : String                 -- the model's observation, printed like the implementation's
  spec : Option String := none   -- `some reason`: the implementation's observation violates the property here
  markers : List String := []    -- deviation markers the model evaluation passed through
deriving Inhabited

def Verdict.render (v : Verdict) (obs : String) : String :=
  match v.spec with
  | some why =>
    if v.model == obs && !v.markers.isEmpty then "K " ++ " ".intercalate v.markers
    else "V " ++ why ++ (if v.model == obs then "" else " | model=" ++ v.model)
  | none => if v.model == obs then "A" else "D model=" ++ v.model

end Driver
