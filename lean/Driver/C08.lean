/-
  Driver for C08 (peer-controlled input never crashes a bot or server: decoders return errors).

  The driver side of the decoder REGISTRY (harness side: harness/c08.go, `c08Decoders`).

    c08.dec <decoder> <params> <hex> => ok … | err … | panic | hang
        `decoders`: one entry per MODELLED decoder: how to run the Lean model on (params, input) and how an
        independent reader of the wire format classifies the input (`Shape`).  Oracle: never `panic`, never
        `hang`; an input whose length prefix is negative, or larger than what the input holds, must give `err`.
        The models of the palette container (C12), section / chunk / block entity (C13), the JSON text component
        (C17, on the JSON tree the harness reports: encoding/json's text layer is a parameter), the typed nbt decoder
        behind `pk.NBT` / `NBTField` (C02/C03) and the registries over it are the OWNING properties' models, run and
        printed with the owning drivers' functions.
    c08.raw <decoder> <params> <hex> => ok used=<k> | err used=<k> | panic | hang
        `rawDecoders`: ORACLE-ONLY lines (props/C08.json, `oracle_only_decoders`): the part of the `palette` / `section` / `chunk`
        stream the harness does not send through the model (inputs over 1200 bytes are sampled with probability inversely
        proportional to the model's cost, which is quadratic in the input length: harness/c08.go `c08SampleOp`).
        Only the oracle "never panic / never hang" is applied; the model column echoes the observation (it is NOT
        evidence of correspondence).  Every decoder of the list has a model; `chat.nbt` and `chat.type` use C17 stage 2's
        (`Model/ChatNBT.lean`: `readFrom`, and `typeDec` over it), printed as Driver.C17 prints them.
    c08.spin <hex> => ok … | err … | hang        the known finding `C08.ary-zero-width-spin`
  The decoders owned by other properties keep their own operations and handlers (`frame.unpack` → Driver.C07,
  `cmd.exec` → Driver.CMD, `dynbt.dec` → Driver.DYNBT); `Main` dispatches them.

  Adding a decoder: one entry in `decoders` (model + shape) or `rawDecoders` (known-finding classes, possibly none).
-/
import Driver.Util
import Driver.C06
import Driver.C11
import Driver.C12
import Driver.C13
import Driver.C17
import Driver.C02
import GoMC.Model.ChatWire
import GoMC.Model.NBTField
import GoMC.Model.Combinators
import GoMC.Model.BitStorage
import GoMC.Model.Registry
import GoMC.Model.DynBT
import GoMC.Spec.Wire
import GoMC.Spec.Packing
namespace Driver.C08
open GoMC GoMC.Model GoMC.Spec Driver

/-! ### the independent reader: a tiny walker monad over the input -/

inductive WRes (α : Type) where
  | ok (a : α) (rest : Bytes)
  | bad (why : String)       -- the wire format is violated in a way the property names: the decoder must return an error
  | unknown                  -- the format description does not say; nothing is demanded

abbrev W (α : Type) := Bytes → WRes α

def W.bind {α β} (p : W α) (f : α → W β) : W β := fun bs =>
  match p bs with
  | .ok a r => f a r
  | .bad w => .bad w
  | .unknown => .unknown
instance : Monad W where
  pure a := fun bs => .ok a bs
  bind := W.bind

def wBad {α} (why : String) : W α := fun _ => .bad why
def wUnknown {α} : W α := fun _ => .unknown

/-- exactly `n` bytes -/
def wSkip (n : Nat) : W Unit := fun bs =>
  if bs.length < n then .bad "the input ends inside a value" else .ok () (bs.drop n)

def wByte : W Nat := fun bs =>
  match bs with
  | [] => .bad "the input ends inside a value"
  | b :: r => .ok b.toNat r

/-- a VarInt / VarLong: at most `maxLen` bytes; the value as a signed `width`-bit number.  A final byte carrying
bits beyond the width is outside the format description: `unknown` when `strict`, otherwise the bits are dropped
(what the code does; used only to decide whether an input belongs to a known-finding class). -/
def wVar (maxLen width : Nat) (strict : Bool := true) : W Int := fun bs =>
  let rec go : Nat → Nat → Nat → Bytes → WRes Int
    | 0, _, _, _ => .bad "VarInt/VarLong longer than the format allows"
    | fuel + 1, i, acc, bs =>
      match bs with
      | [] => .bad "the input ends inside a VarInt/VarLong"
      | b :: r =>
        let acc := acc + (b.toNat % 128) * 2 ^ (7 * i)
        if b.toNat < 128 then
          if acc < 2 ^ width || !strict then
            let acc := acc % 2 ^ width
            .ok (if acc < 2 ^ (width - 1) then (acc : Int) else (acc : Int) - 2 ^ width) r
          else .unknown
        else go fuel (i + 1) acc r
  go maxLen 0 0 bs

def wVarInt : W Int := wVar 5 32
def wVarLong : W Int := wVar 10 64
/-- the VarInt as the code reads it (classification of known findings only) -/
def wVarIntCode : W Int := wVar 5 32 false

/-- `k` big-endian bytes, signed or unsigned -/
def wBE (k : Nat) (signed : Bool) : W Int := fun bs =>
  if bs.length < k then .bad "the input ends inside a length prefix" else
  let n := unbe (bs.take k)
  .ok (if signed && n ≥ 2 ^ (8 * k - 1) then (n : Int) - 2 ^ (8 * k) else (n : Int)) (bs.drop k)

def wLenKind : LenKind → W Int
  | .varint => wVarInt
  | .varlong => wVarLong
  | .byte => wBE 1 true
  | .ubyte => wBE 1 false
  | .short => wBE 2 true
  | .ushort => wBE 2 false
  | .int => wBE 4 true
  | .long => wBE 8 true

/-- a count: negative is the error the property names -/
def wCount (p : W Int) (what : String) : W Nat := do
  let n ← p
  if n < 0 then wBad s!"negative {what} ({n})" else pure n.toNat

/-- `n` bytes announced by a length prefix -/
def wPayload (n : Nat) (what : String) : W Unit := fun bs =>
  if bs.length < n then .bad s!"{what} {n} exceeds the {bs.length} bytes that follow" else .ok () (bs.drop n)

/-- `n` repetitions of `p`; stops as soon as `p` turns out to take no bytes (zero-width elements) -/
def wRepeat (p : W Unit) : Nat → W Unit
  | 0 => pure ()
  | n + 1 => fun bs =>
    match p bs with
    | .ok _ r => if r.length == bs.length then .ok () r else wRepeat p n r
    | .bad w => .bad w
    | .unknown => .unknown

/-- the field types of the protocol (wiki.vg "Data types") -/
def wTy : Ty → W Unit
  | .bool | .byte | .ubyte | .angle => wSkip 1
  | .short | .ushort => wSkip 2
  | .int | .float => wSkip 4
  | .long | .double | .position => wSkip 8
  | .uuid => wSkip 16
  | .varint => do let _ ← wVarInt; pure ()
  | .varlong => do let _ ← wVarLong; pure ()
  | .string | .bytearray => do let n ← wCount wVarInt "length"; wPayload n "declared length"
  | .bitset => do let n ← wCount wVarInt "bit set length"; wPayload (8 * n) "bit set of declared length"
  | .pluginmsg => fun _ => .ok () []
  | .fixedbits n => wSkip n
  | .unit => pure ()
  | .pair a b => do wTy a; wTy b
  | .option t => do
    let b ← wByte
    if b == 0 then pure () else if b == 1 then wTy t else wUnknown
  | .opt1 t => wTy t
  | .opt0 _ => pure ()
  | .ary l t => do let n ← wCount (wLenKind l) "array length"; wRepeat (wTy t) n

/-- the data array of a bit storage / paletted container: count, then that many longs -/
def wLongArray : W Unit := do
  let n ← wCount wVarInt "data array length"
  wPayload (8 * n) "data array of declared length"

/-! ### NBT as far as the walkers need it (binary format description; big-endian lengths) -/

inductive NScan where
  | negArray                 -- a byte / int / long array, a list or a string with a negative length comes first
  | stop                     -- malformed or truncated in another way
  | done (rest : Bytes)

def be32s (bs : Bytes) : Option (Int × Bytes) :=
  if bs.length < 4 then none else
  let n := unbe (bs.take 4)
  some (if n ≥ 2 ^ 31 then (n : Int) - 2 ^ 32 else (n : Int), bs.drop 4)

def be16s (bs : Bytes) : Option (Int × Bytes) :=
  if bs.length < 2 then none else
  let n := unbe (bs.take 2)
  some (if n ≥ 2 ^ 15 then (n : Int) - 2 ^ 16 else (n : Int), bs.drop 2)

def nTake (n : Nat) (bs : Bytes) : NScan := if bs.length < n then .stop else .done (bs.drop n)

mutual
/-- skip one payload of the given tag -/
def nSkip : Nat → Nat → Bytes → NScan
  | 0, _, _ => .stop
  | fuel + 1, tag, bs =>
    match tag with
    | 1 => nTake 1 bs
    | 2 => nTake 2 bs
    | 3 | 5 => nTake 4 bs
    | 4 | 6 => nTake 8 bs
    | 7 => match be32s bs with
      | some (n, r) => if n < 0 then .negArray else nTake n.toNat r
      | none => .stop
    | 8 => match be16s bs with
      | some (n, r) => if n < 0 then .negArray else nTake n.toNat r
      | none => .stop
    | 11 => match be32s bs with
      | some (n, r) => if n < 0 then .negArray else nTake (4 * n.toNat) r
      | none => .stop
    | 12 => match be32s bs with
      | some (n, r) => if n < 0 then .negArray else nTake (8 * n.toNat) r
      | none => .stop
    | 9 => match bs with
      | [] => .stop
      | et :: r => match be32s r with
        | some (n, r2) =>
          if n < 0 then (if et.toNat ≤ 12 then .negArray else .stop)
          else if et.toNat == 0 then (if n == 0 then .done r2 else .stop) else nSkipList fuel et.toNat n.toNat r2
        | none => .stop
    | 10 => nSkipEntries fuel fuel bs
    | _ => .stop
def nSkipList : Nat → Nat → Nat → Bytes → NScan
  | 0, _, _, _ => .stop
  | _, _, 0, bs => .done bs
  | fuel + 1, et, n + 1, bs =>
    match nSkip fuel et bs with
    | .done r => nSkipList fuel et n r
    | x => x
def nSkipEntries : Nat → Nat → Bytes → NScan
  | 0, _, _ => .stop
  | _, 0, _ => .stop
  | fuel + 1, w + 1, bs =>
    match bs with
    | [] => .stop
    | t :: r =>
      if t.toNat == 0 then .done r else
      match be16s r with
      | some (n, r2) =>
        if n < 0 then .negArray else
        if r2.length < n.toNat then .stop else
        match nSkip fuel t.toNat (r2.drop n.toNat) with
        | .done r3 => nSkipEntries fuel w r3
        | x => x
      | none => .stop
end

/-- a network-format document: tag id, payload -/
def nDoc (bs : Bytes) : NScan :=
  match bs with
  | [] => .stop
  | t :: r => if t.toNat == 0 then .done r else nSkip (bs.length + 2) t.toNat r

/-- top-level entries of a root compound that are LongArrays or Lists: (name, element count) -/
def nArrayEntries : Nat → Bytes → List (Bytes × Nat)
  | 0, _ => []
  | fuel + 1, bs =>
    match bs with
    | [] => []
    | t :: r =>
      if t.toNat == 0 then [] else
      match be16s r with
      | some (n, r2) =>
        if n < 0 ∨ r2.length < n.toNat then [] else
        let name := r2.take n.toNat
        let body := r2.drop n.toNat
        let here : List (Bytes × Nat) :=
          if t.toNat == 12 then
            (match be32s body with
              | some (k, _) => if k ≥ 0 then [(name, k.toNat)] else []
              | none => [])
          else if t.toNat == 9 then
            (match body with
              | _ :: b2 => (match be32s b2 with
                | some (k, _) => if k ≥ 0 then [(name, k.toNat)] else []
                | none => [])
              | [] => [])
          else []
        match nSkip (bs.length + 2) t.toNat body with
        | .done r3 => here ++ nArrayEntries fuel r3
        | _ => here
      | none => []

/-! ### running the models -/

def used (input : Bytes) (s : Stream) : Nat := input.length - s.flat.length

def natArg (s : String) : Nat := s.toNat?.getD 0

def showVar (w : Nat) (input : Bytes) (r : Res (Nat × Nat) × Stream) : String :=
  match r with
  | (.ok (v, n), s) => s!"ok n={n} used={used input s} v={hexOfNat (w / 4) v}"
  | (.err, s) => s!"err used={used input s}"
  | (.panic, _) => "panic"

def runVarInt (_ : String) (input : Bytes) (_ : String) : Option String :=
  let (r, s) := varIntRead (Stream.ofBytes input)
  some (showVar 32 input (r.map fun (v, n) => (v.toNat, n), s))

def runVarLong (_ : String) (input : Bytes) (_ : String) : Option String :=
  let (r, s) := varLongRead (Stream.ofBytes input)
  some (showVar 64 input (r.map fun (v, n) => (v.toNat, n), s))

/-- fld params: `<type>/<mode>/<variant>` -/
def fldTy (params : String) : Option (Ty × Nat) :=
  match params.splitOn "/" with
  | t :: m :: _ => (C06.tyOfString t).map fun ty => (ty, natArg m)
  | _ => none

def runFld (params : String) (input : Bytes) (_ : String) : Option String :=
  (fldTy params).map fun (t, mode) =>
    match (codec t).dec (prior mode t (codec t).zero) (Stream.ofBytes input) with
    | (.ok (d, n), s) => s!"ok n={n} used={used input s} v={C06.showAbs t (abs t d)}"
    | (.err, s) => s!"err used={used input s}"
    | (.panic, _) => "panic"

def shapeFld (params : String) (input : Bytes) : WRes Unit :=
  match fldTy params with
  | some (t, _) => wTy t input
  | none => .unknown

def runScan (params : String) (input : Bytes) (_ : String) : Option String :=
  (fldTy (params ++ "/0")).map fun (t, mode) =>
    match scan t (prior mode t (codec t).zero) input with
    | .ok d => s!"ok v={C06.showAbs t (abs t d)}"
    | .err => "err"
    | .panic => "panic"

/-- bits params: `<bits>/<n>/<init>/<fixbits>` -/
def runBits (params : String) (input : Bytes) (_ : String) : Option String :=
  match params.splitOn "/" with
  | [b, n, init, fb] =>
    match b.toInt?, n.toInt?, C11.parseInit init, fb.toInt? with
    | some bits, some len, some ini, some fixb =>
      match newBitStorage bits len ini with
      | .ok st0 =>
        -- the harness hands over a slice with two spare cells when it passes data
        let st0 := if ini.isSome then { st0 with spare := [0#64, 0#64] } else st0
        let (r, st1, s) := st0.readFrom (Stream.ofBytes input)
        some (match r with
          | .ok k =>
            let (f, st2) := st1.fix fixb
            s!"ok n={k} used={used input s} fix={resTag f} raw={C11.hexOfLongs st2.raw}"
          | .err => s!"err used={used input s}"
          | .panic => "panic")
      | _ => some "ctor-panic"
    | _, _, _, _ => none
  | _ => none

def shapeBits (_ : String) (input : Bytes) : WRes Unit := wLongArray input

/-- extra demand on a bit-storage line: `Fix` with a width the palette configurations can produce never panics -/
def specBits (params obs : String) : Option String :=
  match params.splitOn "/" with
  | [_, _, _, fb] =>
    match fb.toInt? with
    | some w => if 0 ≤ w && w ≤ 64 && (obs.splitOn " ").contains "fix=panic" then some s!"Fix({w}) panicked after ReadFrom" else none
    | none => none
  | _ => none

def bytesLt : Bytes → Bytes → Bool
  | [], [] => false
  | [], _ :: _ => true
  | _ :: _, [] => false
  | a :: as, b :: bs => a.toNat < b.toNat || (a == b && bytesLt as bs)

def showDynEntry (es : List (Bytes × DynBT.Val)) (i : Nat) (e : Bytes × DynBT.Val) : String :=
  let k := if Registry.keysOf es e.1 == some i then hexOfBytes e.1 else "?"
  let enc := match DynBT.marshal e.2 with
    | .ok out => hexOfBytes out
    | _ => "encerr"
  s!"{k}:{e.2.tag.toNat}:{enc}"

def runRegistryDyn (_ : String) (input : Bytes) (_ : String) : Option String :=
  match Registry.readFrom Registry.nbtFieldDyn (Stream.ofBytes input) with
  | (.ok (es, n), s) =>
    let parts := es.zipIdx.map fun (e, i) => showDynEntry es i e
    some s!"ok n={n} used={used input s} v={if parts.isEmpty then "-" else ",".intercalate parts}"
  | (.err, s) => some s!"err used={used input s}"
  | (.panic, _) => some "panic"

/-- count, then per entry: identifier, Boolean, and if true an NBT document -/
def shapeRegistry (_ : String) (input : Bytes) : WRes Unit :=
  (do
    let n ← wCount wVarInt "registry length"
    wRepeat (do
      wTy .string
      let b ← wByte
      if b == 0 then pure () else if b != 1 then wUnknown else
      fun bs => match nDoc bs with
        | .done r => .ok () r
        | _ => .unknown) n) input

/-- the `tags` map an association list denotes, sorted by tag -/
def tagTable (tags : List (Bytes × List Nat)) : List (Bytes × List Nat) :=
  let dedup := tags.foldl (fun acc e => (acc.filter fun x => x.1 != e.1) ++ [e]) []
  dedup.mergeSort fun a b => !(bytesLt b.1 a.1)

def runTags (params : String) (input : Bytes) (_ : String) : Option String :=
  match params.splitOn "/" with
  | nv :: _ =>
    match Registry.readTagsFrom (natArg nv) [] (Stream.ofBytes input) with
    | (.ok (tags, n), s) =>
      let parts := (tagTable tags).map fun (t, ids) => s!"{hexOfBytes t}:{".".intercalate (ids.map toString)}"
      some s!"ok n={n} used={used input s} v={if parts.isEmpty then "-" else ",".intercalate parts}"
    | (.err, s) => some s!"err used={used input s}"
    | (.panic, _) => some "panic"
  | _ => none

/-- count of groups; per group: identifier, count of ids, ids -/
def shapeTags (_ : String) (input : Bytes) : WRes Unit :=
  (do
    let n ← wCount wVarInt "tag count"
    wRepeat (do
      wTy .string
      let k ← wCount wVarInt "tag length"
      wRepeat (do let _ ← wVarInt; pure ()) k) n) input


/-! ### decoders whose models other properties own -/

def decObs {α} (input : Bytes) (r : Res (α × Nat) × Stream) (sh : α → Option String) : String :=
  match r with
  | (.ok (v, n), s) => s!"ok n={n} used={used input s} v={(sh v).getD "panic"}"
  | (.err, s) => s!"err used={used input s}"
  | (.panic, _) => "panic"

/-- every position of a container as `Get` reports it, in C12's rendering; `none`: a `Get` panics -/
def contObs (c : Container) (n : Nat) : Option String := (C13.M.allOf c n).map C12.showAll

/-- palette params: `<states|biomes>/<registry width>` -/
def palCfgOf (params : String) : Option (PalCfg × Nat) :=
  match params.splitOn "/" with
  | [k, gb] =>
    match gb.toInt? with
    | some g => if k == "states" then some (⟨.blocks, g⟩, 4096) else if k == "biomes" then some (⟨.biomes, g⟩, 64) else none
    | none => none
  | _ => none

def runPalette (params : String) (input : Bytes) (_ : String) : Option String :=
  (palCfgOf params).map fun (cfg, n) =>
    match (Container.new cfg n 0).readFrom (Stream.ofBytes input) with
    | (.ok k, d, s) => s!"ok n={k} used={used input s} v={(contObs d n).getD "panic"}"
    | (.err, _, s) => s!"err used={used input s}"
    | (.panic, _, _) => "panic"

open GoMC.Model.Chunk in
def secObs (s : WSec) : Option String := do
  let st ← contObs s.states 4096
  let bi ← contObs s.biomes 64
  pure s!"{s.count.toInt}.{st}.{bi}.{(BitVec.ofInt 8 s.states.bits).toNat}.{(BitVec.ofInt 8 s.biomes.bits).toNat}"

def ctxOf (gbS gbB : String) : Option C13.M.Ctx :=
  match gbS.toInt?, gbB.toInt? with
  | some a, some b => some { gbS := a, gbB := b, reg := 0, nb := 0, air := [] }
  | _, _ => none

open GoMC.Model.Chunk in
def runSection (params : String) (input : Bytes) (_ : String) : Option String :=
  match params.splitOn "/" with
  | [a, b] =>
    (ctxOf a b).bind fun x =>
      match C13.M.build x 1 [] with
      | .ok d =>
        match d.secs with
        | sec :: _ => some (decObs input (Section.readFrom x.gbS x.gbB sec (Stream.ofBytes input)) secObs)
        | [] => none
      | _ => some "panic"
  | _ => none

open GoMC.Model.Chunk in
def chunkObs (c : C13.M.MChunk) : Option String := do
  let parts ← c.secs.mapM secObs
  pure s!"{"/".intercalate parts},{GoMC.Spec.Chunk.digestLongs c.hm.motionBlocking.data},{GoMC.Spec.Chunk.digestLongs c.hm.worldSurface.data},{C13.M.entsObs c.ents}"

open GoMC.Model.Chunk in
def runChunk (params : String) (input : Bytes) (_ : String) : Option String :=
  match params.splitOn "/" with
  | [n, a, b] =>
    (ctxOf a b).bind fun x =>
      match C13.M.build x (natArg n) [] with
      | .ok d => some (decObs input (Model.Chunk.Chunk.readFrom x.gbS x.gbB d (Stream.ofBytes input)) chunkObs)
      | _ => some "panic"
  | _ => none

open GoMC.Model.Chunk in
def runBlockEntity (_ : String) (input : Bytes) (_ : String) : Option String :=
  some (decObs input (BlockEntity.readFrom (0#8, 0, 0#32, ⟨0#8, []⟩) (Stream.ofBytes input))
    fun e => some (C13.M.entsObs ⟨[e], []⟩))

/-- `JsonMessage.ReadFrom`: the String frame is modelled byte for byte; the JSON text inside is read by encoding/json,
whose result (a tree, or "not a JSON text") the harness reports in `tree=` — the model's `parse` parameter -/
def runChatJSON (_ : String) (input : Bytes) (obs : String) : Option String :=
  let toks := obs.splitOn " "
  let treeTok := (kv toks "tree").getD "-"
  let tree : Option (Option JSON) :=
    if treeTok == "!" || treeTok == "-" then some none else (C17.parseTreeTok treeTok).map some
  tree.map fun t =>
    match Chat.jsonMessageRead (fun _ => t) Msg.zero (Stream.ofBytes input) with
    | (.ok (m, n), s) =>
      -- duplicate keys / non-canonical numbers: encoding/json's tree is not the one the token shows (C17)
      let inexact := match t with | some j => C17.hasDupKeys j || !C17.contentsNumbersCanonical j | none => false
      if inexact && (obs.splitOn " ").headD "" == "ok" then obs
      else s!"ok n={n} used={used input s} tree={treeTok} v={C17.showMsg m}"
    | (.err, s) => s!"err used={used input s} tree={treeTok}"
    | (.panic, _) => "panic"

/-- `(*chat.Message).ReadFrom` into a fresh message (C17 stage 2: `ChatNBT.readFrom`); a decoded value whose hover
contents cannot be printed as a JSON tree (`ofGo = none`) is echoed, as Driver.C17 does -/
def runChatNBT (_ : String) (input : Bytes) (obs : String) : Option String :=
  some (match ChatNBT.readFrom (Stream.ofBytes input) with
    | (.ok (v, n), s) =>
      (match ChatNBT.ofGo v with
        | some m => s!"ok n={n} used={used input s} v={C17.showMsg m}"
        | none => if (obs.splitOn " ").headD "" == "ok" then obs else s!"ok n={n} used={used input s} v=?")
    | (.err, s) => s!"err used={used input s}"
    | (.panic, _) => "panic")

/-- `(*chat.Type).ReadFrom` into a fresh `Type`: `Chat.typeDec` over the exact codec of the two names -/
def runChatType (_ : String) (input : Bytes) (obs : String) : Option String :=
  some (match Chat.typeDec C17.goCodec ⟨0, ChatNBT.messageTy.zero, none⟩ (Stream.ofBytes input) with
    | (.ok (r, n), s) =>
      (match ChatNBT.ofGo r.sender, (match r.target with | some x => (ChatNBT.ofGo x).map some | none => some none) with
        | some s', some t' => s!"ok n={n} used={used input s} v={C17.showType ⟨r.id, s', t'⟩}"
        | _, _ => if (obs.splitOn " ").headD "" == "ok" then obs else s!"ok n={n} used={used input s} v=?")
    | (.err, s) => s!"err used={used input s}"
    | (.panic, _) => "panic")

/-- nbt params: `<key>:<allow unknown fields>:<type description>`: `pk.NBTField{V: &v, AllowUnknownFields: a}.ReadFrom` -/
def runNbt (params : String) (input : Bytes) (_ : String) : Option String :=
  match params.splitOn ":" with
  | [_, a, d] =>
    match GoText.parseType d.toList with
    | some (t, []) =>
      some (decObs input (Model.Go.fieldRead C02.cx (a == "1") t t.zero (Stream.ofBytes input)) fun v => some (GoText.showVal v))
    | _ => none
  | _ => none

/-- registry params: `<key>:<element type description>`: the registry loop over `NBTField{V: &data, AllowUnknownFields: true}` -/
def runRegistryTyped (params : String) (input : Bytes) (_ : String) : Option String :=
  match params.splitOn ":" with
  | [_, d] =>
    match GoText.parseType d.toList with
    | some (t, []) =>
      some (decObs input (Registry.readFrom (Model.Go.fieldRead C02.cx true t t.zero) (Stream.ofBytes input)) fun es =>
        let parts := es.zipIdx.map fun (e, i) =>
          (if Registry.keysOf es e.1 == some i then hexOfBytes e.1 else "?") ++ "=" ++ GoText.showVal e.2
        some (if parts.isEmpty then "-" else "#".intercalate parts))
    | _ => none
  | _ => none

/-! ### the independent reader for these decoders -/

/-- a paletted container: bits byte, palette (single value / list with a count / nothing), data array -/
def wPalette (states : Bool) : W Unit := do
  let b ← wByte
  if b == 0 then do let _ ← wVarInt; wLongArray
  else if (states && b ≤ 8) || (!states && b ≤ 3) then do
    let n ← wCount wVarInt "palette size"
    -- an indirect palette indexes its entries with `b` bits (block states: at least 4): more entries cannot be addressed
    let width := if states && b < 4 then 4 else b
    if n > 2 ^ width then wBad s!"palette size {n} exceeds the 2^{width} entries the index width can address" else
    wRepeat (do let _ ← wVarInt; pure ()) n
    wLongArray
  else wLongArray

def wSection : W Unit := do wSkip 2; wPalette true; wPalette false

/-- a network-format NBT document: a negative array / list / string length is the error the property names;
anything else ill-formed is left to the decoder (`unknown`) -/
def wNbt : W Unit := fun bs =>
  match nDoc bs with
  | .done r => .ok () r
  | .negArray => .bad "negative NBT array, list or string length"
  | .stop => .unknown

def wBlockEntity : W Unit := do wSkip 3; let _ ← wVarInt; wNbt

def asciiUpper (bs : Bytes) : Bytes := bs.map fun b => if 97 ≤ b.toNat && b.toNat ≤ 122 then BitVec.ofNat 8 (b.toNat - 32) else b

def motionBlocking : Bytes := "MOTION_BLOCKING".toUTF8.toList.map fun b => BitVec.ofNat 8 b.toNat
def worldSurface : Bytes := "WORLD_SURFACE".toUTF8.toList.map fun b => BitVec.ofNat 8 b.toNat

/-- `bits.Len(16*secs + 1)` -/
def bitsLen (n : Nat) : Nat := if n == 0 then 0 else Nat.log2 n + 1

/-- the height maps of a chunk packet: a well-formed compound in which exactly one entry is named (up to ASCII case)
like the field and is a long array / list of another length than 256 heights of the chunk's width need -/
def wHeightMaps (secs : Nat) : W Unit := fun bs =>
  match wNbt bs with
  | .ok _ rest =>
    let want := size (bitsLen (16 * secs + 1)) 256
    let bad : Bool := match bs with
      | t :: r =>
        t.toNat == 10 &&
        [motionBlocking, worldSurface].any fun name =>
          match (nArrayEntries (bs.length + 2) r).filter (fun e => asciiUpper e.1 == name) with
          | [e] => e.2 != want
          | _ => false
      | [] => false
    if bad then .bad s!"a height map that does not hold {want} longs" else .ok () rest
  | x => x

def wLight : W Unit := do
  wTy .bitset; wTy .bitset; wTy .bitset; wTy .bitset
  wTy (.ary .varint .bytearray); wTy (.ary .varint .bytearray)

def wChunk (secs : Nat) : W Unit := do
  wHeightMaps secs
  let n ← wCount wVarInt "data length"
  fun bs =>
    if bs.length < n then .bad s!"declared data length {n} exceeds the {bs.length} bytes that follow" else
    -- the sections are decoded from the data array; what follows the last one is ignored
    match wRepeat wSection secs (bs.take n) with
    | .bad why => .bad why
    | .unknown => .unknown
    | .ok _ _ =>
      (do let k ← wCount wVarInt "block entity count"
          wRepeat wBlockEntity k
          wLight) (bs.drop n)

/-- id, sender component, Boolean, target component iff the Boolean is set -/
def wChatType : W Unit := do
  let _ ← wVarInt
  wNbt
  let b ← wByte
  if b == 0 then pure () else wNbt

def shapeRegistryTyped (_ : String) (input : Bytes) : WRes Unit :=
  (do
    let n ← wCount wVarInt "registry length"
    wRepeat (do
      wTy .string
      let b ← wByte
      if b == 0 then pure () else if b != 1 then wUnknown else wNbt) n) input

/-! ### the registry of modelled decoders -/

structure Dec where
  name : String
  run : String → Bytes → String → Option String -- the model's observation (params, input, the implementation's observation:
                                                -- only `chat.json` reads it, for the JSON tree that encoding/json produced)
  shape : String → Bytes → WRes Unit            -- the independent reader's classification of the input
  extra : String → String → Option String := fun _ _ => none   -- further demands on (params, observation)

def decoders : List Dec := [
  { name := "varint", run := runVarInt, shape := fun _ bs => match wVarInt bs with | .ok _ r => .ok () r | .bad w => .bad w | .unknown => .unknown },
  { name := "varlong", run := runVarLong, shape := fun _ bs => match wVarLong bs with | .ok _ r => .ok () r | .bad w => .bad w | .unknown => .unknown },
  { name := "fld", run := runFld, shape := shapeFld },
  { name := "scan", run := runScan, shape := fun p bs => shapeFld (p ++ "/0") bs },
  { name := "bits", run := runBits, shape := shapeBits, extra := specBits },
  { name := "registry.dynbt", run := runRegistryDyn, shape := shapeRegistry },
  { name := "registry.tags", run := runTags, shape := shapeTags },
  { name := "palette", run := runPalette, shape := fun p bs => wPalette (p.startsWith "states") bs },
  { name := "section", run := runSection, shape := fun _ bs => wSection bs },
  { name := "chunk", run := runChunk, shape := fun p bs => wChunk (natArg ((p.splitOn "/").headD "")) bs },
  { name := "blockentity", run := runBlockEntity, shape := fun _ bs => wBlockEntity bs },
  { name := "chat.json", run := runChatJSON, shape := fun _ bs => wTy .string bs },
  { name := "chat.nbt", run := runChatNBT, shape := fun _ bs => wNbt bs },
  { name := "chat.type", run := runChatType, shape := fun _ bs => wChatType bs },
  { name := "nbt", run := runNbt, shape := fun _ bs => wNbt bs },
  { name := "registry", run := runRegistryTyped, shape := shapeRegistryTyped } ]

def specCommon (cls : String) : Option String :=
  if cls == "panic" then some "decoder panicked on peer-controlled bytes"
  else if cls == "hang" then some "decoder did not return (watchdog)"
  else if cls == "ok" || cls == "err" then none
  else some "unparseable observation"

def dec (name params hex obs : String) : Verdict :=
  match decoders.find? (fun d => d.name == name), parseHex hex with
  | some d, some input =>
    match d.run params input obs with
    | none => { model := "bad-params" }
    | some model =>
      let cls := (obs.splitOn " ").headD ""
      let spec : Option String :=
        (specCommon cls) <|>
        (match d.shape params input with
          | .bad why => if cls == "err" then none else some s!"{why}: not reported as an error"
          | _ => none) <|>
        (d.extra params obs)
      { model, spec }
  | none, _ => { model := "unknown-decoder" }
  | _, none => { model := "bad-arg" }

/-! ### oracle-only lines -/

structure RawDec where
  name : String
  /-- known-finding classes this input falls in (markers of `known_findings.json`); none at present -/
  known : String → Bytes → List String := fun _ _ => []

def rawDecoders : List RawDec := [
  { name := "palette" },
  { name := "section" },    -- the long inputs the harness does not send through the model
  { name := "chunk" } ]

def raw (name params hex obs : String) : Verdict :=
  match rawDecoders.find? (fun d => d.name == name) with
  | some d =>
    let cls := (obs.splitOn " ").headD ""
    let spec := specCommon cls
    -- no model: the observation is echoed; a panic inside a listed known-finding class is reported as K
    -- (the input is only looked at in that case)
    let markers := if cls == "panic" then (match parseHex hex with | some input => d.known params input | none => []) else []
    { model := obs, spec, markers }
  | none => { model := "unknown-decoder" }

/-! ### length prefixes with the high bits set -/

/-- `c08.big`: an input whose length / count prefix is between 2^27 and 2^31 (or the like for the other prefix widths),
followed by at most ~100 bytes.  The Lean model is NOT executed on these lines (it would materialise the declared
list); what the model does there is what `C08_neg_*` / `C08_large_*` prove: an error.  The oracle is the decoder's own
independent reader: never `panic`, never `hang`, and a negative or unsatisfiable prefix must give `err`. -/
def big (name params hex obs : String) : Verdict :=
  match decoders.find? (fun d => d.name == name), parseHex hex with
  | some d, some input =>
    let cls := (obs.splitOn " ").headD ""
    let spec : Option String :=
      (specCommon cls) <|>
      (match d.shape params input with
        | .bad why => if cls == "err" then none else some s!"{why}: not reported as an error"
        | _ => none)
    { model := obs, spec }
  | none, _ => { model := "unknown-decoder" }
  | _, none => { model := "bad-arg" }

/-! ### the known finding `C08.ary-zero-width-spin` -/

/-- `Ary[VarInt]` of a zero-size element type: the loop runs `Len` times on an input of at most five bytes.  The
harness watches it for 1.5 s; counts above 2^26 (≥ 1 s of iterations on any machine this runs on) are reported by
the model as `hang` under the marker, counts up to 2^20 finish. -/
def spin (hex obs : String) : Verdict :=
  match parseHex hex with
  | some input =>
    match lenDec .varint (Stream.ofBytes input) with
    | (.ok (len, n), s) =>
      if len < 0 then { model := s!"err used={used input s}", spec := if obs.startsWith "err" then none else some "negative array length accepted" }
      else if len ≤ 2 ^ 20 then
        { model := s!"ok n={n} used={used input s} len={len}", spec := specCommon ((obs.splitOn " ").headD "") }
      else if len ≥ 2 ^ 26 then
        { model := "hang", spec := if obs == "hang" then some s!"Ary.ReadFrom iterates {len} times on a {input.length}-byte input" else none,
          markers := ["C08.ary-zero-width-spin"] }
      else { model := obs }
    | (.err, s) => { model := s!"err used={used input s}", spec := specCommon ((obs.splitOn " ").headD "") }
    | (.panic, _) => { model := "panic", spec := some "panic" }
  | none => { model := "bad-arg" }

def handle (op : String) (args : List String) (obs : String) : Option Verdict :=
  match op, args with
  | "c08.dec", [n, p, h] => some (dec n p h obs)
  | "c08.raw", [n, p, h] => some (raw n p h obs)
  | "c08.big", [n, p, h] => some (big n p h obs)
  | "c08.spin", [h] => some (spin h obs)
  | _, _ => none

end Driver.C08
