import Driver.Util
import GoMC.Model.RCON
import GoMC.Spec.RCON
namespace Driver.C16
open GoMC Driver
open GoMC.Model.RCON (Conn Op Net Step Ev Sess)


def h8 (v : BitVec 32) : String := hexOfNat 8 v.toNat
def p8 (s : String) : Option (BitVec 32) := (parseHexNat s).map (BitVec.ofNat 32)

def stream (input : Bytes) (kind : String) : Stream :=
  -- the model is fragmentation invariant; the chunking only has to be *some* delivery of the bytes
  if kind == "k1" then { chunks := input.map fun b => [b] } else Stream.ofBytes input

def validSize (p : Bytes) : Bool := p.length + 10 ≤ 4096

def specFrame (id typ : BitVec 32) (p : Bytes) : Bytes := GoMC.Spec.RCON.frame { id := id.toNat, typ := typ.toNat, payload := p }

/-- rcon.write id type payload wmode => ok out= | err out= -/
def write (a : List String) (obs : String) : Verdict :=
  match a with
  | [ids, ts, ps, wm] =>
    match p8 ids, p8 ts, parseHex ps with
    | some id, some typ, some p =>
      let (r, c) := GoMC.Model.RCON.writePacket id typ p { inp := Stream.ofBytes [], wfail := wm == "fail" }
      let model := s!"{resTag r} out={hexOfBytes c.out}"
      let spec : Option String :=
        if obs == "panic" || obs == "hang" then some ("WritePacket " ++ obs)
        else if wm == "ok" && validSize p then
          let want := s!"ok out={hexOfBytes (specFrame id typ p)}"
          if obs == want then none else some s!"layout: expected {want.take 120}"
        else none
      { model, spec }
    | _, _, _ => { model := "bad-arg" }
  | _ => { model := "bad-arg" }

def showRead (r : Res GoMC.Model.RCON.Pkt) (rest : Bytes) : String :=
  match r with
  | .ok p => s!"ok id={h8 p.id} type={h8 p.typ} p={hexOfBytes p.payload} rest={hexOfBytes rest}"
  | .err => s!"err rest={hexOfBytes rest}"
  | .panic => "panic"

def showSpecPkt (p : GoMC.Spec.RCON.Pkt) (rest : Bytes) : String :=
  s!"ok id={hexOfNat 8 p.id} type={hexOfNat 8 p.typ} p={hexOfBytes p.payload} rest={hexOfBytes rest}"

/-- the declared size of a stream that holds at least the size word -/
def declared : Bytes → Option Int
  | a :: b :: c :: d :: _ => some (GoMC.Spec.RCON.signed32 (GoMC.Spec.RCON.unle32 a b c d))
  | _ => none

/-- rcon.read stream kind => ok id= type= p= rest= | err rest= -/
def read (a : List String) (obs : String) : Verdict :=
  match a with
  | [ins, kind] =>
    match parseHex ins with
    | some input =>
      let (r, s) := GoMC.Model.RCON.readPacketRd (stream input kind)
      let model := showRead r s.flat
      let spec : Option String :=
        if obs == "panic" || obs == "hang" then some ("ReadPacket " ++ obs)
        else match GoMC.Spec.RCON.parse input with
          | some (p, rest) =>
            let want := showSpecPkt p rest
            if obs == want then none else some s!"round trip: expected {want.take 160}"
          | none =>
            match declared input with
            | some L => if (L < 10 || L > 4096) && !obs.startsWith "err" then some s!"declared length {L} accepted" else none
            | none => none
      { model, spec }
    | none => { model := "bad-arg" }
  | _ => { model := "bad-arg" }

structure P where
  id : BitVec 32
  typ : BitVec 32
  p : Bytes

def parsePkts (s : String) : Option (List P) :=
  if s == "-" then some [] else
  (s.splitOn ",").mapM fun part =>
    match part.splitOn ":" with
    | [a, b, c] => do
      let id ← p8 a; let typ ← p8 b; let p ← parseHex c
      pure { id, typ, p }
    | _ => none

def showPkts (ps : List (BitVec 32 × BitVec 32 × Bytes)) : String :=
  if ps.isEmpty then "-" else ",".intercalate (ps.map fun (i, t, p) => s!"{h8 i}:{h8 t}:{hexOfBytes p}")

/-- a payload string the library returned earlier no longer holds what it held when it was returned -/
def changedWhy (obs : String) : Option String :=
  match (obs.splitOn " ").find? (·.startsWith "changed-was:") with
  | some t => some s!"a payload returned earlier changed when a later frame was read on the same connection ({t.take 80})"
  | none => none

/-- rcon.concat kind pkts trail => stream= n= pkts= rest= [changed-was:p<i>=<hex> …] -/
def concat (a : List String) (obs : String) : Verdict :=
  match a with
  | [kind, pss, ts] =>
    match parsePkts pss, parseHex ts with
    | some ps, some trail =>
      let st := ps.foldl (fun acc p => acc ++ GoMC.Model.RCON.packetBytes p.id p.typ p.p) [] ++ trail
      let fuel := ps.length + trail.length / 14 + 3
      let (r, s) := GoMC.Model.RCON.readMany fuel (stream st kind)
      let model := match r with
        | .ok got => s!"stream={hexOfBytes st} n={got.length} pkts={showPkts (got.map fun q => (q.id, q.typ, q.payload))} rest={hexOfBytes s.flat}"
        | .err => "err"
        | .panic => "panic"
      let spec : Option String :=
        if obs == "panic" || obs == "hang" then some ("concat " ++ obs)
        else if (changedWhy obs).isSome then changedWhy obs
        else if ps.all (fun p => validSize p.p) then
          -- written stream = the frames of the protocol description; the reference reader splits it the same way
          let want := ps.foldl (fun acc p => acc ++ specFrame p.id p.typ p.p) [] ++ trail
          let (got, _) := GoMC.Spec.RCON.parseMany fuel want
          let wantPk := showPkts (got.map fun q => (BitVec.ofNat 32 q.id, BitVec.ofNat 32 q.typ, q.payload))
          let toks := obs.splitOn " "
          if kv toks "stream" != some (hexOfBytes want) then some "written frames differ from the protocol layout"
          else if got.length < ps.length then some "spec-internal: reference reader lost a frame"
          else if kv toks "n" != some (toString got.length) || kv toks "pkts" != some wantPk then
            some s!"frames not read back as written: expected n={got.length} pkts={wantPk.take 120}"
          else none
        else none
      { model, spec }
    | _, _ => { model := "bad-arg" }
  | _ => { model := "bad-arg" }

def showOp {α} (r : Res α) (val : α → String) (c : Conn) : String :=
  match r with
  | .ok v => s!"ok{val v} req={h8 c.reqID} out={hexOfBytes c.out} rest={hexOfBytes c.inp.flat}"
  | .err => s!"err req={h8 c.reqID} out={hexOfBytes c.out} rest={hexOfBytes c.inp.flat}"
  | .panic => "panic"

/-- rcon.op name req arg input kind wmode => ok|err [val=] req= out= rest= -/
def op (a : List String) (obs : String) : Verdict :=
  match a with
  | [name, rs, as, ins, kind, wm] =>
    match p8 rs, parseHex as, parseHex ins with
    | some req, some arg, some input =>
      let c0 : Conn := { inp := stream input kind, wfail := wm == "fail", reqID := req }
      let noVal : Unit → String := fun _ => ""
      let hexVal : Bytes → String := fun v => s!" val={hexOfBytes v}"
      let model :=
        if name == "cmd" then let (r, c) := GoMC.Model.RCON.cmd arg c0; showOp r noVal c
        else if name == "respcmd" then let (r, c) := GoMC.Model.RCON.respCmd arg c0; showOp r noVal c
        else if name == "resp" then let (r, c) := GoMC.Model.RCON.resp c0; showOp r hexVal c
        else if name == "acceptcmd" then let (r, c) := GoMC.Model.RCON.acceptCmd c0; showOp r hexVal c
        else if name == "acceptlogin" then let (r, c) := GoMC.Model.RCON.acceptLogin arg c0; showOp r noVal c
        else if name == "clientlogin" then let (r, c) := GoMC.Model.RCON.clientLogin arg c0; showOp r noVal c
        else "bad-op"
      let toks := obs.splitOn " "
      let isOk := toks.head? == some "ok"
      let out := kv toks "out"
      let wok := wm == "ok"
      let spec : Option String :=
        if obs == "panic" || obs == "hang" then some (name ++ " " ++ obs)
        else if name == "cmd" then
          if wok && validSize arg && !(isOk && out == some (hexOfBytes (specFrame req 2#32 arg))) then some "command not sent verbatim as a type-2 packet under ReqID" else none
        else if name == "respcmd" then
          if wok && validSize arg && !(isOk && out == some (hexOfBytes (specFrame req 0#32 arg))) then some "response not sent verbatim as a type-0 packet under ReqID" else none
        else match GoMC.Spec.RCON.parse input with
          | none => none
          | some (p, _) =>
            if name == "resp" then
              let should := p.id == req.toNat && p.typ == 0
              if should != isOk then some s!"response id={hexOfNat 8 p.id} type={p.typ} under ReqID {h8 req}: accepted={isOk}"
              else if isOk && kv toks "val" != some (hexOfBytes p.payload) then some "response text altered"
              else none
            else if name == "acceptcmd" then
              if p.typ == 2 && !(isOk && kv toks "val" == some (hexOfBytes p.payload)) then some "command did not reach the server verbatim"
              else none
            else if name == "acceptlogin" then
              if p.typ == 3 then
                let should := p.payload == arg
                if wok && should != isOk then some s!"password match={should} but AcceptLogin ok={isOk}"
                else if !should && isOk then some "wrong password accepted"
                else if wok && out != some (hexOfBytes (specFrame (if should then BitVec.ofNat 32 p.id else -1#32) 2#32 [])) then
                  some "auth response is not the (id | -1, type 2, empty) packet"
                else none
              else none
            else if name == "clientlogin" then
              if !wok then none
              else if validSize arg && out != some (hexOfBytes (specFrame req 3#32 arg)) then some "login packet is not (ReqID, 3, password)"
              else if validSize arg && req != -1#32 && (p.id == req.toNat) != isOk then
                some s!"auth response id={hexOfNat 8 p.id} under ReqID {h8 req}: login ok={isOk}"
              else none
            else none
      { model, spec }
    | _, _, _ => { model := "bad-arg" }
  | _ => { model := "bad-arg" }

def parseStep (s : String) : Option Step :=
  match s.splitOn ":" with
  | [ct, cmd, fg, resp, k] => do
    let (ct, newID) ← match ct.splitOn "@" with
      | [a] => some (a, none)
      | [a, b] => (p8 b).map fun i => (a, some i)
      | _ => none
    let ctype ← if ct == "c" then some none else (p8 ct).map some
    let cmd ← parseHex cmd
    let forged ← if fg == "r" then some none else
      match fg.splitOn "/" with
      | [a, b] => do let x ← p8 a; let y ← p8 b; pure (some (x, y))
      | _ => none
    let resp ← parseHex resp
    pure { newID, ctype, cmd, forged, resp, keep := k == "1" }
  | _ => none

def parseSteps (s : String) : Option (List Step) :=
  if s == "-" then some [] else (s.splitOn ",").mapM parseStep

def tagU (k : String) : Res Unit → String
  | .ok _ => k ++ "+"
  | .err => k ++ "-"
  | .panic => "!"
def tagB (k : String) : Res Bytes → String
  | .ok v => k ++ "+" ++ hexOfBytes v
  | .err => k ++ "-"
  | .panic => "!"

def showEv : Ev → String
  | .login r => tagU "L" r
  | .send r => tagU "S" r
  | .resp r => tagB "R" r
  | .accept r => tagB "A" r
  | .reply r => tagU "W" r

def showLog (l : List Ev) : String := ",".intercalate (l.map showEv)

/-- What the property demands of a session, written from the protocol: login decided by password
equality; then, as long as both sides follow the protocol, commands arrive verbatim and responses are
accepted; a response through `WritePacket` is accepted exactly under the request id in use and type 0. -/
def sessExpect (r : BitVec 32) (cpw spw : Bytes) (steps : List Step) : Option (List String × List String) :=
  if r.toInt < 0 || !validSize cpw then none else
  if cpw != spw then some (["L-"], ["L-"]) else
  let rec go (steps : List Step) (cur : BitVec 32) (cl sl : List String) : List String × List String :=
    match steps with
    | [] => (cl, sl)
    | st :: more =>
      if st.ctype.isSome || !validSize st.cmd || !validSize st.resp then (cl, sl) else
      let cur := st.newID.getD cur       -- the request id in use for this command
      let sl' := sl ++ ["A+" ++ hexOfBytes st.cmd, "W+"]
      match st.forged with
      | none => go more cur (cl ++ ["S+", "R+" ++ hexOfBytes st.resp]) sl'
      | some (id, t) =>
        if id == cur && t == 0#32 then go more cur (cl ++ ["S+", "R+" ++ hexOfBytes st.resp]) sl'
        else (cl ++ ["S+", "R-"], sl')   -- no demand beyond the refused response
  some (go steps r ["L+"] ["L+"])

def isPrefixOf (a b : List String) : Bool := a.length ≤ b.length && b.take a.length == a

/-- rcon.sess r cpw spw steps => c=<events> s=<events> creq= sreq= -/
def sess (a : List String) (obs : String) : Verdict :=
  match a with
  | [rs, cs, ss, sts] =>
    match p8 rs, parseHex cs, parseHex ss, parseSteps sts with
    | some r, some cpw, some spw, some steps =>
      let s := GoMC.Model.RCON.session r cpw spw steps
      let model := s!"c={showLog s.clog} s={showLog s.slog} creq={h8 s.net.creq} sreq={h8 s.net.sreq}"
      let toks := obs.splitOn " "
      let spec : Option String :=
        if obs == "hang" then some "session hangs"
        else if (changedWhy obs).isSome then changedWhy obs
        else match kv toks "c", kv toks "s" with
          | some cl, some sl =>
            let cl := cl.splitOn ","
            let sl := sl.splitOn ","
            if cl.contains "!" || sl.contains "!" then some "a party panicked"
            else match sessExpect r cpw spw steps with
              | none => none
              | some (wc, ws) =>
                if !isPrefixOf wc cl then some s!"client: expected {",".intercalate wc |>.take 120}"
                else if !isPrefixOf ws sl then some s!"server: expected {",".intercalate ws |>.take 120}"
                else none
          | _, _ => some "unparseable observation"
      { model, spec }
    | _, _, _, _ => { model := "bad-arg" }
  | _ => { model := "bad-arg" }

/-- rcon.tcp cpw spw cmd resp => dial= accept= got= reply= resp=   (real DialRCON/ListenRCON; the request
id is drawn by the implementation and — being non-negative — does not influence the outcome) -/
def tcp (a : List String) (obs : String) : Verdict :=
  match a with
  | [cs, ss, cm, rp] =>
    match parseHex cs, parseHex ss, parseHex cm, parseHex rp with
    | some cpw, some spw, some cmd, some resp =>
      let s := GoMC.Model.RCON.session 1#32 cpw spw [{ cmd, resp }]
      let okS (b : Bool) := if b then "ok" else "err"
      let dial := match s.clog.head? with | some (.login (.ok _)) => true | _ => false
      let acc := match s.slog.head? with | some (.login (.ok _)) => true | _ => false
      let got := match s.slog[1]? with | some (.accept (.ok v)) => "ok:" ++ hexOfBytes v | some _ => "err" | none => "-"
      let wr := match s.slog[2]? with | some (.reply (.ok _)) => "ok" | some _ => "err" | none => "-"
      let rs := match s.clog[2]? with | some (.resp (.ok v)) => "ok:" ++ hexOfBytes v | some _ => "err" | none => "-"
      let model := s!"dial={okS dial} accept={okS acc} got={got} reply={wr} resp={rs}"
      let spec : Option String :=
        if obs == "hang" then some "tcp session hangs"
        else if !validSize cpw || !validSize cmd || !validSize resp then none
        else
          let want := if cpw == spw then s!"dial=ok accept=ok got=ok:{hexOfBytes cmd} reply=ok resp=ok:{hexOfBytes resp}"
                      else "dial=err accept=err got=- reply=- resp=-"
          if obs == want then none else some s!"expected {want.take 160}"
      { model, spec }
    | _, _, _, _ => { model := "bad-arg" }
  | _ => { model := "bad-arg" }

/-! ### rcon.dial — the real DialRCON against a scripted peer -/

/-- the id a script item stands for, relative to the request id `R` of the login frame (as in the harness) -/
def resolveID (mode : String) (R : BitVec 32) : Option (BitVec 32) :=
  if mode == "same" then some R
  else if mode == "neg1" then some (-1#32)
  else if mode.startsWith "add" then (mode.drop 3).toString.toNat?.map fun k => R + BitVec.ofNat 32 k
  else if mode.startsWith "abs" then (p8 (mode.drop 3).toString).map fun v => if v != -1#32 && v == R then v + 1#32 else v
  else none

/-- the bytes the scripted server sends; frames laid out from the protocol description (`specFrame`) -/
def scriptBytes (script : String) (R : BitVec 32) : Option Bytes :=
  if script == "-" then some [] else
  (script.splitOn ",").foldlM (fun acc it =>
    match it.splitOn "/" with
    | ["f", m, t, pl] => do
      let id ← resolveID m R; let typ ← p8 t; let p ← parseHex pl
      pure (acc ++ specFrame id typ p)
    | ["t", m, t, pl, cut] => do
      let id ← resolveID m R; let typ ← p8 t; let p ← parseHex pl; let n ← cut.toNat?
      pure (acc ++ (specFrame id typ p).take n)
    | ["raw", h] => do let b ← parseHex h; pure (acc ++ b)
    | _ => none) []

/-- model of one dial under a concrete request id: the client's login flow on the server's bytes -/
def dialUnder (R : BitVec 32) (pw : Bytes) (script : String) : Option (Bool × String) :=
  if script.startsWith "x" then
    let (r, _) := GoMC.Model.RCON.clientLogin pw { inp := Stream.ofBytes [], reqID := R }
    some (resTag r == "ok", s!"dial={resTag r} seen=none rsign=?")
  else
    -- what the server sees: the login frame the model writes, split by the reference reader
    let (_, c1) := GoMC.Model.RCON.clientLoginSend pw { inp := Stream.ofBytes [], reqID := R }
    match GoMC.Spec.RCON.parse c1.out with
    | some (lp, _) =>
      (scriptBytes script R).map fun sb =>
        let (r, _) := GoMC.Model.RCON.clientLogin pw { inp := Stream.ofBytes sb, reqID := R }
        (resTag r == "ok", s!"dial={resTag r} seen={hexOfNat 8 lp.typ}:{hexOfBytes lp.payload} rsign=+")
    | none =>
      -- an oversize password: the server refuses the size word and closes without an answer
      let (r, _) := GoMC.Model.RCON.clientLogin pw { inp := Stream.ofBytes [], reqID := R }
      some (resTag r == "ok", s!"dial={resTag r} seen=big rsign=?")

/-- rcon.dial pw script => dial=ok|err seen=<type>:<payload>|big|none rsign=+|-|?
The request id is drawn by the implementation (`rand.Int31`), so the model is evaluated under two unrelated
request ids; ids given relative to it (`same`, `add<k>`) behave identically under both, and raw bytes can hit at
most one of them by accident, in which case the refusing evaluation is the generic one. -/
def dial (a : List String) (obs : String) : Verdict :=
  match a with
  | [ps, script] =>
    match parseHex ps with
    | some pw =>
      match dialUnder 0x5A17C3E9#32 pw script, dialUnder 0x2B7E1516#32 pw script with
      | some (ok1, m1), some (ok2, m2) =>
        let model := if ok1 == ok2 then m1 else if ok1 then m2 else m1
        -- property: an authenticated client only for a legal first frame under the client's own request id;
        -- decided by the reference reader on the reference layout, independent of the model
        let R := 0x5A17C3E9#32
        let want : Option Bool :=
          if script.startsWith "x" || !validSize pw then some false else
          match scriptBytes script R, scriptBytes script 0x2B7E1516#32 with
          | some sb, some sb2 =>
            let acc (bs : Bytes) (R : BitVec 32) : Bool := match GoMC.Spec.RCON.parse bs with
              | some (p, _) => p.id == R.toNat
              | none => false
            some (acc sb R && acc sb2 0x2B7E1516#32)
          | _, _ => none
        let toks := obs.splitOn " "
        let spec : Option String :=
          if obs == "hang" || obs == "panic" then some ("DialRCON " ++ obs)
          else match want, kv toks "dial" with
            | some w, some d =>
              if d == "ok" && !w then some "DialRCON returned an authenticated client although the login response is not a legal frame under the request id it sent"
              else if d == "err" && w then some "DialRCON refused a login response carrying its own request id"
              else if kv toks "rsign" == some "-" then some "DialRCON drew a negative request id"
              else none
            | _, _ => none
        { model, spec }
      | _, _ => { model := "bad-arg" }
    | none => { model := "bad-arg" }
  | _ => { model := "bad-arg" }

/-! ### rcon.hist — a history of reading methods on one connection -/

/-- rcon.hist kind req calls pkts => log=<per call> req= rest= [changed-was:h<i>=<hex> …] -/
def hist (a : List String) (obs : String) : Verdict :=
  match a with
  | [kind, rs, calls, pss] =>
    match p8 rs, parsePkts pss with
    | some req, some ps =>
      let calls := if calls == "-" then [] else calls.toList
      let st := ps.foldl (fun acc p => acc ++ GoMC.Model.RCON.packetBytes p.id p.typ p.p) []
      let c0 : Conn := { inp := stream st kind, reqID := req }
      let (log, c) := calls.foldl (fun (acc : List String × Conn) call =>
        let (log, c) := acc
        if call == 'p' then
          let (r, c') := GoMC.Model.RCON.readPacket c
          (log ++ [match r with | .ok q => s!"p+{h8 q.id}:{h8 q.typ}:{hexOfBytes q.payload}" | .err => "p-" | .panic => "!"], c')
        else if call == 'a' then
          let (r, c') := GoMC.Model.RCON.acceptCmd c
          (log ++ [tagB "a" r], c')
        else
          let (r, c') := GoMC.Model.RCON.resp c
          (log ++ [tagB "r" r], c')) ([], c0)
      let model := s!"log={",".intercalate log} req={h8 c.reqID} rest={hexOfBytes c.inp.flat}"
      -- the property, from the protocol description: call i meets frame i, whatever is read before or after
      let spec : Option String :=
        if obs == "panic" || obs == "hang" then some ("hist " ++ obs)
        else if (changedWhy obs).isSome then changedWhy obs
        else if !ps.all (fun p => validSize p.p) then none
        else
          let rec go (calls : List Char) (ps : List P) (cur : BitVec 32) (acc : List String) : List String × BitVec 32 :=
            match calls, ps with
            | call :: calls', q :: ps' =>
              if call == 'p' then go calls' ps' cur (acc ++ [s!"p+{h8 q.id}:{h8 q.typ}:{hexOfBytes q.p}"])
              else if call == 'a' then go calls' ps' q.id (acc ++ [if q.typ == 2#32 then "a+" ++ hexOfBytes q.p else "a-"])
              else go calls' ps' cur (acc ++ [if q.id == cur && q.typ == 0#32 then "r+" ++ hexOfBytes q.p else "r-"])
            | call :: calls', [] => go calls' [] cur (acc ++ [String.singleton call ++ "-"])
            | [], _ => (acc, cur)
          let (want, cur) := go calls ps req []
          let toks := obs.splitOn " "
          let wantLog := ",".intercalate want
          if kv toks "log" != some wantLog then some s!"call i does not return frame i: expected log={wantLog.take 160}"
          else if kv toks "req" != some (h8 cur) then some s!"request id in use: expected {h8 cur}"
          else none
      { model, spec }
    | _, _ => { model := "bad-arg" }
  | _ => { model := "bad-arg" }

def handle (opn : String) (args : List String) (obs : String) : Option Verdict :=
  match opn with
  | "rcon.write" => some (write args obs)
  | "rcon.read" => some (read args obs)
  | "rcon.concat" => some (concat args obs)
  | "rcon.op" => some (op args obs)
  | "rcon.sess" => some (sess args obs)
  | "rcon.tcp" => some (tcp args obs)
  | "rcon.dial" => some (dial args obs)
  | "rcon.hist" => some (hist args obs)
  | _ => none

end Driver.C16
