/-
  Driver for C20 (concurrency).  Schedules of the real code are not reproducible, so the oracle is
  schedule-independent:

  * `q.run …  => ok h=<history>`: the recorded history (goroutine, op, value, result, start, end) is checked
      SPEC:  linearizable w.r.t. `Spec.FifoClose` (Wing–Gong search) + exactly-once accounting + termination;
      MODEL: the transition system `Model.Queue` is driven along the linearization found (threads that were
             invoked early are first run into `cond.Wait`, Signal wakes the waiter that is served next) and
             must return, operation by operation, the results the implementation returned — i.e. the
             observed behaviour is one of the model's behaviours.
    `hang …` (watchdog, confirmed by re-runs) violates the property (no lost wake-up / no deadlock).
  * `q.seq …`: deterministic scripts (one caller + at most one parked consumer) compared exactly with the model.
  * `pool.run …`: per goroutine `i:<digest of sequential results>=<digest of concurrent results>`.
  * `pl.run …`, `pl.seq …`, `playerlist.locks`: player list.
  * `race.detector`, `race.report`: supporting evidence from a `-race` build (never a V).
-/
import Driver.Util
import GoMC.Model.Queue
import GoMC.Model.PlayerList
import GoMC.Spec.FifoClose
import GoMC.Model.TypeCache
namespace Driver.C20
open GoMC Driver
open GoMC.Spec.FifoClose
open GoMC.Model

def natArg (toks : List String) (key : String) : Option Nat := (kv toks key).bind String.toNat?

/-! ### histories -/

def parseEv (s : String) : Option Ev :=
  match s.splitOn ":" with
  | [g, k, v, r, st, en] => do
    let g ← g.toNat?
    let v ← v.toNat?
    let r ← r.toNat?
    let st ← st.toNat?
    let en ← en.toNat?
    let call ← match k with
      | "u" => some (Call.push v (r == 1))
      | "l" => some (Call.pull (if r == 1 then some v else none))
      | "c" => some Call.close
      | _ => none
    if st < en then some { tid := g, call, st, en } else none
  | _ => none

def parseHist (s : String) : Option (Array Ev) :=
  if s == "-" then some #[] else
  (s.splitOn ",").foldl (fun acc t => match acc, parseEv t with
    | some a, some e => some (a.push e)
    | _, _ => none) (some #[])

/-- exactly-once accounting, independent of the search: every value pulled was pushed (accepted) exactly once and
is pulled exactly once; if some pull reported closure, every accepted value has been pulled by the end of the run
(all runs end with every consumer having seen the closure) -/
def accounting (h : Array Ev) : Option String :=
  let pushedOk := h.toList.filterMap fun e => match e.call with | .push v true => some v | _ => none
  let pulled := h.toList.filterMap fun e => match e.call with | .pull (some v) => some v | _ => none
  let sawClosed := h.toList.any fun e => e.call == .pull none
  match pulled.find? (fun v => pulled.count v > 1) with
  | some v => some s!"value {v} delivered more than once"
  | none =>
  match pulled.find? (fun v => pushedOk.count v != 1) with
  | some v => some s!"value {v} delivered but pushed {pushedOk.count v} times"
  | none =>
  if sawClosed then
    match pushedOk.find? (fun v => !pulled.contains v) with
    | some v => some s!"value {v} was accepted but never delivered although the consumers saw the closure"
    | none => none
  else none

/-- per-producer order: two values pushed by one goroutine (one after the other) are not pulled in the opposite
real-time order -/
def producerOrder (h : Array Ev) : Option String :=
  let evs := h.toList
  let pullOf (v : Nat) : Option Ev := evs.find? fun e => e.call == .pull (some v)
  let bad := evs.findSome? fun a => match a.call with
    | .push va true => evs.findSome? fun b => match b.call with
      | .push vb true =>
        if a.tid == b.tid && a.en < b.st then
          match pullOf va, pullOf vb with
          | some pa, some pb => if pb.en < pa.st then some s!"producer {a.tid}: {vb} delivered strictly before {va}" else none
          | none, some _ => some s!"producer {a.tid}: {vb} delivered but the earlier {va} never"
          | _, _ => none
        else none
      | _ => none
    | _ => none
  bad

/-! ### driving the LinkedListQueue model along a linearization -/

def callOp : Call → Queue.Op
  | .push v _ => .push v
  | .pull _ => .pull
  | .close => .close

def retMatches : Call → Queue.Ret → Bool
  | .push _ ok, .pushed ok' => ok == ok'
  | .pull (some v), .got v' => v == v'
  | .pull none, .closed => true
  | .close, .done => true
  | _, _ => false

def isIdle : Queue.Pc → Bool
  | .idle _ => true
  | _ => false

/-- Signal's choice: the waiter that comes first in `rank` -/
def pickWaiter (rank : Nat → Nat) (s : Queue.State) : Nat :=
  let idx := (List.range s.waiting.length).foldl (fun (best : Nat × Nat) i =>
    let r := rank (s.waiting.getD i 0)
    if r < best.2 then (i, r) else best) (0, rank (s.waiting.getD 0 0))
  idx.1

/-- run thread `t` until it is idle again (`true`) or not enabled (`false`) -/
def runThread (rank : Nat → Nat) : Nat → Queue.State → Nat → Queue.State × Bool
  | 0, s, _ => (s, false)
  | fuel + 1, s, t =>
    match Queue.step s (.run t (pickWaiter rank s)) with
    | none => (s, isIdle (s.pc t))
    | some s' => if isIdle (s'.pc t) then (s', true) else runThread rank fuel s' t

def linkedAlong (h : Array Ev) (enrich : Bool) : List Nat → Nat → Queue.State → Option String
  | [], _, s =>
    if s.pushed == s.pulled ++ s.items then none else some "model ghost state inconsistent"
  | i :: rest, mask, s =>
    let e := h[i]!
    -- position of a thread's next call in the remaining linearization (for Signal's choice)
    let rank := fun (t : Nat) => (rest.findIdx? fun j => h[j]!.tid == t).getD 1000000
    -- calls already invoked in real time, whose thread the model can run into cond.Wait without changing the queue
    let s := if enrich then
        (candidates h mask).foldl (fun (s : Queue.State) j =>
          let f := h[j]!
          if j != i && (match f.call with | .pull _ => true | _ => false) && isIdle (s.pc f.tid)
              && s.items.isEmpty && !s.closed && s.owner.isNone then
            match Queue.step s (.start f.tid .pull) with
            | some s1 => (runThread rank 8 s1 f.tid).1
            | none => s
          else s) s
      else s
    let s1 := if isIdle (s.pc e.tid) then Queue.step s (.start e.tid (callOp e.call)) else some s
    match s1 with
    | none => some s!"thread {e.tid} cannot start"
    | some s1 =>
      let (s2, done) := runThread rank 16 s1 e.tid
      if !done then some s!"thread {e.tid} is stuck (call {i})"
      else match s2.pc e.tid with
        | .idle (some r) =>
          if retMatches e.call r then linkedAlong h enrich rest (mask ||| (1 <<< i)) s2
          else some s!"call {i} of thread {e.tid} returns a different result in the model"
        | _ => some "internal"

def chanAlong (h : Array Ev) : List Nat → Queue.CState → Option String
  | [], s => if s.pushed == s.pulled ++ s.buf then none else some "model ghost state inconsistent"
  | i :: rest, s =>
    let e := h[i]!
    match Queue.cstep s (.start e.tid (callOp e.call)) with
    | none => some s!"thread {e.tid} cannot start"
    | some s1 =>
      match Queue.cstep s1 (.run e.tid 0) with
      | none => some s!"thread {e.tid} blocks"
      | some s2 =>
        match s2.pc e.tid with
        | .idle (some r) => if retMatches e.call r then chanAlong h rest s2 else some s!"call {i}: different result in the model"
        | _ => some s!"call {i} does not return in the model"

def qRun (args : List String) (obs : String) : Verdict :=
  let kind := (kv args "kind").getD "linked"
  let cap : Option Nat := if kind == "chan" then natArg args "cap" else none
  if obs.startsWith "hang-unconfirmed" then
    -- the watchdog fired once and 100 re-runs of the configuration terminated: correspondence question, not a verdict
    { model := "ok (every run terminates)" }
  else if obs.startsWith "hang" then
    { model := "ok (every run terminates)",
      spec := some "the run did not terminate: a consumer sleeps although the close (or an item) arrived — lost wake-up / deadlock" }
  else if obs.startsWith "panic" then
    { model := "ok (no panic inside the domain)", spec := some "panic although every push happens-before Close" }
  else
  match (kv (obs.splitOn " ") "h").bind parseHist with
  | none => { model := "unparseable history" , spec := some "unparseable observation" }
  | some h =>
    if h.size > 64 then { model := "history too long" } else
    match accounting h with
    | some why => { model := "ok", spec := some why }
    | none =>
    match producerOrder h with
    | some why => { model := "ok", spec := some why }
    | none =>
    match linearize cap h with
    | .notLin => { model := "ok", spec := some "history is not linearizable w.r.t. the FIFO queue with Close" }
    | .undecided => { model := "linearizability undecided (search budget)" }
    | .lin order =>
      if !validWitness cap h order then { model := "internal: invalid witness" } else
      let m : Option String :=
        if kind == "chan" then chanAlong h order (Queue.cinit (cap.getD 0))
        else match linkedAlong h true order 0 Queue.init with
          | none => none
          | some _ => linkedAlong h false order 0 Queue.init
      match m with
      | none => { model := obs }
      | some why => { model := "model cannot produce this history: " ++ why }

/-! ### deterministic scripts -/

inductive SOp where
  | push (v : Nat) | pull | apull | close
deriving Inhabited

def parseSOp (s : String) : Option SOp :=
  if s == "l" then some .pull else if s == "L" then some .apull else if s == "c" then some .close
  else if s.startsWith "u" then (s.drop 1).toString.toNat?.map .push else none

def showRet : Queue.Ret → String
  | .pushed true => "t"
  | .pushed false => "f"
  | .got v => s!"v{v}"
  | .closed => "x"
  | .done => "d"

/-- generic script runner over a transition system given by `start`/`run`/`ret`/`dead` -/
structure Sys (σ : Type) where
  start : σ → Nat → Queue.Op → Option σ
  run : σ → Nat → Option σ
  ret : σ → Nat → Option Queue.Ret      -- `some r` when the thread is idle again
  dead : σ → Nat → Bool                 -- the thread panicked

def Sys.runUntil {σ} (S : Sys σ) : Nat → σ → Nat → σ
  | 0, s, _ => s
  | fuel + 1, s, t =>
    if (S.ret s t).isSome || S.dead s t then s else
    match S.run s t with
    | none => s
    | some s' => S.runUntil fuel s' t

def Sys.script {σ} (S : Sys σ) (ops : List SOp) (s0 : σ) : String :=
  -- thread id = position of the op
  let rec go (k : Nat) (ops : List SOp) (s : σ) (pending : List Nat) (sync : List (Nat × String)) : σ × List Nat × List (Nat × String) :=
    match ops with
    | [] => (s, pending, sync)
    | op :: rest =>
      let qop : Queue.Op := match op with | .push v => .push v | .pull => .pull | .apull => .pull | .close => .close
      match S.start s k qop with
      | none => (s, pending, sync)
      | some s1 =>
        let s2 := S.runUntil 32 s1 k
        -- let parked threads that were woken run
        let s3 := pending.foldl (fun s a => S.runUntil 32 s a) s2
        match op with
        | .apull => go (k + 1) rest s3 (pending ++ [k]) sync
        | _ =>
          if S.dead s3 k then go (k + 1) rest s3 pending (sync ++ [(k, "P")])
          else match S.ret s3 k with
            | some r => go (k + 1) rest s3 pending (sync ++ [(k, showRet r)])
            | none => (s3, pending, sync ++ [(k, "B")])     -- the caller blocks: the script stops here
  let (s, pending, sync) := go 0 ops s0 [] []
  let s := pending.foldl (fun s a => S.runUntil 32 s a) s
  let all := sync ++ pending.map fun a => (a, match S.ret s a with | some r => showRet r | none => "B")
  let n := all.foldl (fun m p => max m (p.1 + 1)) 0
  ",".intercalate ((List.range n).map fun k => match all.find? (fun p => p.1 == k) with | some p => p.2 | none => "?")

def linkedSys : Sys Queue.State where
  start s t op := Queue.step s (.start t op)
  run s t := Queue.step s (.run t 0)
  ret s t := match s.pc t with | .idle (some r) => some r | _ => none
  dead s t := s.pc t == .panicked

def chanSys : Sys Queue.CState where
  start s t op := Queue.cstep s (.start t op)
  run s t := Queue.cstep s (.run t 0)
  ret s t := match s.pc t with | .idle (some r) => some r | _ => none
  dead s t := s.pc t == .panicked

def qSeq (args : List String) (obs : String) : Verdict :=
  let kind := (kv args "kind").getD "linked"
  let opsS := (kv args "ops").getD ""
  let ops := (opsS.splitOn ",").filterMap parseSOp
  if ops.length != (opsS.splitOn ",").length then { model := "bad-arg" } else
  let model := if kind == "chan" then chanSys.script ops (Queue.cinit ((natArg args "cap").getD 0)) else linkedSys.script ops Queue.init
  -- spec on a script (independent of the model): inside the domain (no push after Close, no second Close, the
  -- caller never blocks) the results are determined by the sequential FIFO queue; a parked pull `L` is served
  -- by the next push, or by Close
  let cap : Option Nat := if kind == "chan" then natArg args "cap" else none
  let expected : Option (List (Nat × String)) :=
    let rec go (k : Nat) (q : Q) (parked : Option Nat) (acc : List (Nat × String)) : List SOp → Option (List (Nat × String))
      | [] => some (match parked with | some p => acc ++ [(p, "B")] | none => acc)
      | .push v :: r =>
        if q.closed then none else
        match parked with
        | some p => if q.items.isEmpty then go (k + 1) q none (acc ++ [(p, s!"v{v}"), (k, "t")]) r else none
        | none =>
          match apply cap q (.push v true) with
          | some q' => go (k + 1) q' none (acc ++ [(k, "t")]) r
          | none => match apply cap q (.push v false) with
            | some q' => go (k + 1) q' none (acc ++ [(k, "f")]) r
            | none => none
      | .close :: r =>
        if q.closed then none else
        go (k + 1) { q with closed := true } none (acc ++ [(k, "d")] ++ (match parked with | some p => [(p, "x")] | none => [])) r
      | .pull :: r =>
        if parked.isSome then none else
        (match q.items with
         | x :: rest => go (k + 1) { q with items := rest } none (acc ++ [(k, s!"v{x}")]) r
         | [] => if q.closed then go (k + 1) q none (acc ++ [(k, "x")]) r else none)
      | .apull :: r =>
        if parked.isSome then none else
        (match q.items with
         | x :: rest => go (k + 1) { q with items := rest } none (acc ++ [(k, s!"v{x}")]) r
         | [] => if q.closed then go (k + 1) q none (acc ++ [(k, "x")]) r
                 else if cap == some 0 then none else go (k + 1) q (some k) acc r)
    go 0 {} none [] ops
  let spec : Option String :=
    match expected with
    | none => none
    | some ex =>
      let want := ",".intercalate ((List.range ops.length).map fun k => match ex.find? (fun p => p.1 == k) with | some p => p.2 | none => "?")
      if obs == want then none
      else if (obs.splitOn ",").contains "B" && !(want.splitOn ",").contains "B" then
        some s!"a call blocks although the sequential FIFO queue returns (lost wake-up, or a push that blocks instead of refusing): expected {want}"
      else some s!"not the results of the sequential FIFO queue with Close: expected {want}"
  { model, spec }

/-! ### pools -/

def poolRun (obs : String) : Verdict :=
  match obs.splitOn " " with
  | "ok" :: rt :: pairs =>
    let parsed := pairs.map fun p => match p.splitOn ":" with
      | [g, d] => match d.splitOn "=" with
        | [a, b] => some (g, a, b)
        | _ => none
      | _ => none
    let rts : Option (Nat × Nat) := match (rt.drop 3).toString.splitOn "/" with
      | [a, b] => if rt.startsWith "rt=" then do let a ← a.toNat?; let b ← b.toNat?; some (a, b) else none
      | _ => none
    match rts with
    | none => { model := "bad-obs", spec := some "unparseable observation" }
    | some (seqRt, concRt) =>
    if parsed.any Option.isNone || pairs.isEmpty then { model := "bad-obs", spec := some "unparseable observation" } else
    let ps := parsed.filterMap id
    -- the isolation model: what a goroutine computes through the shared pools is what it computes alone
    let model := s!"ok rt={seqRt}/{seqRt} " ++ " ".intercalate (ps.map fun (g, a, _) => s!"{g}:{a}={a}")
    let bad := ps.find? fun (_, a, b) => a != b
    let spec := match bad with
      | some (g, _, _) => some s!"goroutine {g}: result under concurrency differs from its sequential result (bytes of another stream?)"
      | none => if concRt > seqRt then some s!"{concRt} packets/values came back different from what was sent under concurrency ({seqRt} sequentially)" else none
    { model, spec }
  | _ => { model := "ok", spec := some ("pool run failed: " ++ obs) }

/-! ### player list -/

def parsePOp (s : String) : Option PlayerList.Op :=
  if s == "k" then some .check else if s == "n" then some .len
  else if s.startsWith "j" then (s.drop 1).toString.toNat?.map .join
  else if s.startsWith "e" then (s.drop 1).toString.toNat?.map .left
  else none

def showPRet : PlayerList.Ret → String
  | .joined => "J"
  | .full => "F"
  | .ok => "K"
  | .unit => "-"
  | .size n => toString n

def parseInt (s : String) : Option Int :=
  if s.startsWith "-" then (s.drop 1).toString.toNat?.map fun n => -(n : Int) else s.toNat?.map fun n => (n : Int)

def plSeq (args : List String) (obs : String) : Verdict :=
  match (kv args "cap").bind parseInt with
  | none => { model := "bad-arg" }
  | some cap =>
    let opsS := (kv args "ops").getD ""
    let ops := (opsS.splitOn ",").filterMap parsePOp
    if ops.length != (opsS.splitOn ",").length then { model := "bad-arg" } else
    let model := ",".intercalate ((PlayerList.runOps (PlayerList.init cap) ops).map showPRet)
    -- spec: no reported size exceeds the capacity
    let sizes := (obs.splitOn ",").filterMap String.toNat?
    let spec := if sizes.any (fun n => (n : Int) > max cap 0) then some "size above capacity" else none
    { model, spec }

def plRun (args : List String) (obs : String) : Verdict :=
  match (kv args "cap").bind parseInt with
  | none => { model := "bad-arg" }
  | some cap =>
    let toks := obs.splitOn " "
    match natArg toks "max", natArg toks "final", natArg toks "acc", natArg toks "left", natArg toks "samples" with
    | some mx, some fin, some acc, some left, some smp =>
      let capN := cap.toNat
      -- model: every state reachable by atomic join/left steps has size ≤ cap, and the size is #joined − #left
      let modelOk := mx ≤ capN && fin ≤ capN && fin + left == acc && smp ≤ 10
      let spec := if mx > capN || fin > capN then some s!"player list held {max mx fin} players, capacity {capN}" else none
      { model := if modelOk then obs else "model: size ≤ cap, final = accepted − left, samples ≤ 10", spec }
    | _, _, _, _, _ => { model := "bad-obs", spec := some ("player list run failed: " ++ obs) }

def handle (op : String) (args : List String) (obs : String) : Option Verdict :=
  match op with
  | "q.run" => some (qRun args obs)
  | "q.seq" => some (qSeq args obs)
  | "pool.run" | "pool.fail" => some (poolRun obs)
  | "pl.run" => some (plRun args obs)
  | "pl.seq" => some (plSeq args obs)
  | "playerlist.locks" =>
    some { model := "ok", spec := if obs == "ok" then none
                                  else some ("a PlayerList method touches `players` without Lock(); defer Unlock(): " ++ obs) }
  | "queue.signals" =>
    some { model := "ok", spec := if obs == "ok" then none
                                  else some ("LinkedListQueue does not signal unconditionally after the append / broadcast on Close / wait in a loop (the model's pushSignal, closeBroadcast, pullWait steps assume it): " ++ obs) }
  | "typeinfo.cache" =>
    -- `unknown:` (the cache was restructured beyond what the syntactic check understands) is a correspondence question
    some { model := "ok", spec := if obs.startsWith "bad:" then
        some ("the nbt per-type cache is written without the exclusive lock, or a cached field table is written after it was published: " ++ obs) else none }
  | "conn.drain" =>
    -- model: n pushes by the receiving goroutine, Close, then pulls — `Model.Queue` driven as a script
    some (match natArg args "n" with
      | none => { model := "bad-arg" }
      | some n =>
        let kind := (kv args "kind").getD "linked"
        let ops : List SOp := (List.range n).map (fun i => SOp.push i) ++ [SOp.close] ++ (List.replicate (n + 1) SOp.pull)
        let res := if kind == "chan" then chanSys.script ops (Queue.cinit 64) else linkedSys.script ops Queue.init
        let pulls := (res.splitOn ",").drop (n + 1)
        let gotM := (pulls.filter fun r => r.startsWith "v").length
        let orderM := if pulls.take n == (List.range n).map (fun i => s!"v{i}") then "ok" else "bad"
        let endM := if pulls.getLast? == some "x" then "err" else "none"
        let toks := obs.splitOn " "
        let spec : Option String :=
          match natArg toks "got", kv toks "order", kv toks "end" with
          | some g, some o, some e =>
            if g < n then some s!"closure reported after {g} of {n} received packets: the remaining queued packets were not handed out first"
            else if o != "ok" then some "packets delivered out of order"
            else if e != "err" then some "no error reported after the peer closed"
            else none
          | _, _, _ => some ("connection run failed: " ++ obs)
        { model := s!"got={gotM} order={orderM} end={endM}", spec })
  | "cache.find" =>
    -- the model's lookup (exact spelling first, otherwise the first case-insensitive match; the table is not changed)
    some (match kv args "fields", kv args "name" with
      | some fs, some tn =>
        let fields := fs.splitOn ","
        let want := match TypeCache.findField fields tn with | some i => toString i | none => "none"
        -- spec: exact names always win; a name that matches no field in any capitalisation is not stored anywhere
        let spec : Option String :=
          if obs == "panic" then some "decoder panicked" else
          if obs.startsWith "unstable" then some "the same document decoded differently the second time (a lookup changed the shared table)" else
          match fields.findIdx? (· == tn) with
          | some i => if obs == toString i then none else some s!"exact field name {tn} must select field {i}"
          | none => if !(fields.any fun f => TypeCache.equalFold f tn) && obs != "none" then some "a name that matches no field was stored" else none
        { model := want, spec }
      | _, _ => { model := "bad-arg" })
  | "cache.run" | "cache.fold" | "cache.nil" =>
    let toks := obs.splitOn " "
    some (match toks.head?, kv toks "seq", kv toks "conc" with
      | some "ok", some a, some b =>
        { model := s!"ok seq={a} conc={a}",
          spec := if a == b then none else some "NBT results under concurrent use of the shared type cache differ from the sequential results" }
      | _, _, _ =>
        { model := "ok", spec := some ("concurrent use of the shared nbt type cache crashed the process: " ++ obs) })
  | "race.detector" => some { model := "enabled" }
  | "race.report" => some { model := "none" }
  | _ => none

end Driver.C20
