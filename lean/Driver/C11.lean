import Driver.Util
import GoMC.Model.BitStorage
import GoMC.Spec.Packing
import GoMC.Spec.LEB128
namespace Driver.C11
open GoMC GoMC.Model GoMC.Spec Driver

/-! ## line formats

`bits.hist <bits> <length> <init> <ops> => <obs>`
  init: `nil` | `-` (empty, non-nil) | hex of the longs (16 digits each)
  ops (comma separated): `get:i` `set:i:v` `swap:i:v` `len` `raw` `wt` `rf:<hex bytes>` `rf:<kind>:<hex bytes>` `fix:<bits>`
    (`kind` names the io.Reader the harness wraps the bytes in: bytes.Reader, bytes.Buffer, bufio.Reader, plain
    readers with various chunkings, data+EOF, (0,nil) reads, iotest.DataErrReader, `L<N>.<kind>` = io.LimitedReader
    with limit N.  The model reads the flat byte content and ignores the kind: `BitStorage.readFrom` is
    fragmentation invariant — theorem `C09_frag_bits` / `Lemmas.C09.fragInv_bitsRead`: same result, same
    consumed count and same residual for any two deliveries of the same bytes.  A LimitedReader is the source
    whose content is the first N bytes; what lies behind the limit is unread by definition.)
  obs (comma separated): first the constructor (`ok` | `panic`; after `panic` nothing follows), then one per op:
    get/swap: the integer | `panic`;  set: `ok` | `panic`;  len: integer;  raw: hex longs;
    wt: `<hex bytes>:<n>`;  rf: `ok:<n>:<unread>` | `err:<unread>` | `panic` (`unread` = bytes of the
    underlying source not taken by the storage);  fix: `ok` | `err` | `panic`
`bits.size <bits> <length> => <int> | panic`          (calcBitStorageSize through the verif hook)
`bits.bpv <bits> <length> => <longs> <bpv> | panic`    (calcBitsPerValue(length, calcBitStorageSize(bits, length)))
`bits.bpv2 <length> <longs> => <int> | panic`         (calcBitsPerValue on arbitrary arguments)
`bits.index <bits> <length> <n> => <c> <o> | panic`    (calcIndex of NewBitStorage(bits, length, nil))
`bits.nil => <raw> <wt>`                               (Raw and WriteTo of a nil *BitStorage)
-/

inductive Op where
  | get (i : Int) | set (i v : Int) | swap (i v : Int) | len | raw | wt | rf (bs : Bytes) (behind : Nat) | fix (b : Int)

def parseOp (s : String) : Option Op :=
  match s.splitOn ":" with
  | ["get", i] => i.toInt?.map Op.get
  | ["set", i, v] => do let i ← i.toInt?; let v ← v.toInt?; pure (Op.set i v)
  | ["swap", i, v] => do let i ← i.toInt?; let v ← v.toInt?; pure (Op.swap i v)
  | ["len"] => some Op.len
  | ["raw"] => some Op.raw
  | ["wt"] => some Op.wt
  | ["rf", h] => (parseHex h).map fun bs => Op.rf bs 0
  | ["rf", kind, h] => (parseHex h).map fun bs =>
    -- `L<N>.<inner>`: only the first N bytes are the source's content, the rest stays behind the limit
    if kind.startsWith "L" then
      match ((kind.drop 1).toString.splitOn ".").head?.bind String.toNat? with
      | some lim => Op.rf (bs.take lim) (bs.length - min lim bs.length)
      | none => Op.rf bs 0
    else Op.rf bs 0
  | ["fix", b] => b.toInt?.map Op.fix
  | _ => none

def parseOps (s : String) : Option (List Op) :=
  if s == "-" then some [] else (s.splitOn ",").mapM parseOp

/-- 8 bytes → one long (independent of the model's `be64`: plain positional big-endian) -/
def longOfBytes (bs : Bytes) : BitVec 64 :=
  BitVec.ofNat 64 (bs.foldl (fun acc b => 256 * acc + b.toNat) 0)

partial def longsOfBytes (bs : Bytes) (acc : List (BitVec 64)) : Option (List (BitVec 64)) :=
  if bs.isEmpty then some acc.reverse
  else if bs.length < 8 then none
  else longsOfBytes (bs.drop 8) (longOfBytes (bs.take 8) :: acc)

def parseLongs (s : String) : Option (List (BitVec 64)) :=
  (parseHex s).bind fun bs => longsOfBytes bs []

def hexOfLongs (ls : List (BitVec 64)) : String :=
  if ls.isEmpty then "-" else String.join (ls.map fun l => hexOfNat 16 l.toNat)

def showInt (r : Res Int) : String :=
  match r with
  | .ok v => toString v
  | .err => "err"
  | .panic => "panic"

def showUnit (r : Res Unit) : String :=
  match r with
  | .ok _ => "ok"
  | .err => "err"
  | .panic => "panic"

/-! ### the model side -/

def stepModel (st : BitStorage) : Op → String × BitStorage
  | .get i => (showInt (st.get i), st)
  | .set i v => let r := st.set i v; (showUnit r.1, r.2)
  | .swap i v => let r := st.swap i v; (showInt r.1, r.2)
  | .len => (toString st.len, st)
  | .raw => (hexOfLongs st.raw, st)
  | .wt => let bs := st.writeTo; (s!"{hexOfBytes bs}:{bs.length}", st)
  | .rf bs behind =>
    let r := st.readFrom (Stream.ofBytes bs)
    let unread := r.2.2.flat.length + behind
    (match r.1 with
      | .ok n => s!"ok:{n}:{unread}"
      | .err => s!"err:{unread}"
      | .panic => "panic", r.2.1)
  | .fix b => let r := st.fix b; (showUnit r.1, r.2)

def runModel (st : BitStorage) (ops : List Op) : List String :=
  match ops with
  | [] => []
  | op :: rest => let r := stepModel st op; r.1 :: runModel r.2 rest

/-! ### the spec side: a plain array of `n` numbers, written from the property statement

`known = some xs`: the storage must behave as the array `xs` of `bits`-bit numbers.  `none`: the property
says nothing about the present state (bits outside 0..32, negative length, after a failed or not yet fixed
`ReadFrom`, …) — then nothing is demanded. -/

structure Ref where
  n : Int
  bits : Int
  known : Option (List Nat) := none
  clean : Bool := false                      -- padding and unused entries of the raw longs are zero
  pending : Option (List (BitVec 64)) := none  -- longs delivered by ReadFrom, not yet interpreted by Fix
  rawLen : Option Nat := none                  -- number of longs held, when determined

def inWidth (b : Int) : Bool := decide (1 ≤ b) && decide (b ≤ 32)

def isPrefix : Bytes → Bytes → Bool
  | [], _ => true
  | _ :: _, [] => false
  | a :: as, b :: bs => a == b && isPrefix as bs

/-- check raw longs against the reference array -/
def checkRaw (r : Ref) (ls : List (BitVec 64)) (what : String) : Option String :=
  match r.known with
  | none =>
    -- between a successful ReadFrom and the next Fix the storage holds exactly the longs that were on the wire
    match r.pending with
    | some want => if ls != want then some s!"{what}: not the longs delivered by ReadFrom" else none
    | none => none
  | some xs =>
    let b := r.bits.toNat
    let n := r.n.toNat
    if r.bits == 0 then
      if r.clean && !ls.isEmpty then some s!"{what}: zero-bit storage holds longs" else none
    else if ls.length != size b n then some s!"{what}: {ls.length} longs, the packing needs {size b n}"
    else if unpack b n ls != xs then some s!"{what}: the longs do not decode to the stored values"
    else if r.clean && ls != pack b xs then some s!"{what}: longs differ from the packing of the stored values"
    else none

def specStep (r : Ref) (op : Op) (obs : String) : Option String × Ref :=
  let b := r.bits.toNat
  let n := r.n.toNat
  match op with
  | .len => (if r.n ≥ 0 && obs != toString r.n then some s!"Len: expected {r.n}" else none, r)
  | .get i =>
    match r.known with
    | none => (none, r)
    | some xs =>
      if r.bits == 0 then (if obs != "0" then some "Get on a zero-bit storage is not 0" else none, r)
      else if 0 ≤ i && i < r.n then
        let want := toString (xs.getD i.toNat 0)
        (if obs != want then some s!"Get({i}): expected {want}" else none, r)
      else (if obs != "panic" then some s!"Get({i}): index out of range must panic" else none, r)
  | .set i v =>
    match r.known with
    | none => (none, { r with pending := none, rawLen := r.rawLen })
    | some xs =>
      if r.bits == 0 then (if obs != "ok" then some "Set on a zero-bit storage must do nothing" else none, r)
      else if 0 ≤ i && i < r.n && 0 ≤ v && v < (2 : Int) ^ b then
        (if obs != "ok" then some s!"Set({i},{v}): valid call refused" else none,
         { r with known := some (xs.set i.toNat v.toNat) })
      else (if obs != "panic" then some s!"Set({i},{v}): out of range must panic" else none, r)
  | .swap i v =>
    match r.known with
    | none => (none, { r with pending := none })
    | some xs =>
      if r.bits == 0 then (if obs != "0" then some "Swap on a zero-bit storage must return 0" else none, r)
      else if 0 ≤ i && i < r.n && 0 ≤ v && v < (2 : Int) ^ b then
        let want := toString (xs.getD i.toNat 0)
        (if obs != want then some s!"Swap({i},{v}): expected previous value {want}" else none,
         { r with known := some (xs.set i.toNat v.toNat) })
      else (if obs != "panic" then some s!"Swap({i},{v}): out of range must panic" else none, r)
  | .raw =>
    match parseLongs obs with
    | none => (some "Raw: unparseable observation", r)
    | some ls => (checkRaw r ls "Raw", r)
  | .wt =>
    match obs.splitOn ":" with
    | [h, cnt] =>
      match parseHex h with
      | none => (some "WriteTo: unparseable observation", r)
      | some bs =>
        if toString bs.length != cnt then (some "WriteTo: returned count is not the number of bytes written", r)
        else match unleb bs with
          | none => (some "WriteTo: no VarInt count", r)
          | some (k, rest) =>
            if !(isPrefix (leb k) bs) then (some "WriteTo: count is not a minimal VarInt", r)
            else if rest.length != 8 * k then (some s!"WriteTo: count {k} but {rest.length} bytes of longs", r)
            else match longsOfBytes rest [] with
              | none => (some "WriteTo: longs", r)
              | some ls => (checkRaw r ls "WriteTo", r)
    | _ => (some "WriteTo: unparseable observation", r)
  | .rf bs behind =>
    -- the wire form: minimal VarInt count k (0 ≤ k < 2^31), then k big-endian longs; for every kind of source
    -- exactly prefix + 8·k bytes are taken, what follows stays unread, and the storage holds those k longs
    let unknown : Ref := { r with known := none, pending := none, rawLen := none, clean := false }
    -- the only panics the property allows are the range checks of Get/Set/Swap: a decoder fed bytes returns
    if obs == "panic" then (some "ReadFrom panicked on wire input", unknown) else
    match unleb bs with
    | some (k, rest) =>
      if k < 2 ^ 31 && isPrefix (leb k) bs then
        if 8 * k ≤ rest.length then
          let want := s!"ok:{(leb k).length + 8 * k}:{rest.length - 8 * k + behind}"
          match longsOfBytes (rest.take (8 * k)) [] with
          | some ls =>
            (if obs != want then some s!"ReadFrom of a well-formed array: expected {want}" else none,
             { unknown with pending := some ls, rawLen := some k })
          | none => (none, unknown)
        else
          (if obs.startsWith "ok" then some "ReadFrom accepted a truncated array" else none, unknown)
      else (none, unknown)
    | none => (if obs.startsWith "ok" then some "ReadFrom accepted a truncated count" else none, unknown)
  | .fix b' =>
    if b' == 0 then
      let r' : Ref := { r with bits := 0, pending := none,
                               known := if r.n ≥ 0 then some (List.replicate n 0) else none,
                               clean := r.rawLen == some 0 }
      (if r.rawLen == some 0 && obs != "ok" then some "Fix(0) on an empty array must succeed" else none,
       if obs == "ok" then r' else { r' with known := none })
    else if inWidth b' && r.n ≥ 0 then
      let need := size b'.toNat n
      let verdict : Option String :=
        match r.rawLen with
        | some l =>
          if l == need then (if obs != "ok" then some s!"Fix({b'}): {l} longs is the right size but it was refused" else none)
          else (if obs != "err" then some s!"Fix({b'}): {l} longs accepted or panicked, the packing needs {need}" else none)
        | none => none
      if obs == "ok" then
        match r.pending with
        | some ls =>
          let xs := unpack b'.toNat n ls
          (verdict, { r with bits := b', known := some xs, clean := ls == pack b'.toNat xs, pending := none })
        | none =>
          if b' == r.bits then (verdict, r) else (verdict, { r with bits := b', known := none })
      else (verdict, { r with bits := b', known := none })
    else (none, { r with bits := b', known := none, pending := none })

def specRun (r : Ref) : List Op → List String → Option String
  | [], _ => none
  | _ :: _, [] => none
  | op :: ops, o :: obs =>
    match specStep r op o with
    | (some why, _) => some why
    | (none, r') => specRun r' ops obs

/-- the constructor as the property sees it -/
def specNew (bits length : Int) (init : Option (List (BitVec 64))) (obs : String) : Option String × Ref :=
  let r0 : Ref := { n := length, bits := bits }
  if length < 0 then (none, r0) else
  let n := length.toNat
  if bits == 0 then
    match init with
    | none => (if obs != "ok" then some "NewBitStorage(0, n, nil) must succeed" else none,
               { r0 with known := some (List.replicate n 0), clean := true, rawLen := some 0 })
    | some _ => (none, if obs == "ok" then { r0 with known := some (List.replicate n 0), clean := true, rawLen := some 0 } else r0)
  else if inWidth bits then
    let b := bits.toNat
    match init with
    | none => (if obs != "ok" then some "NewBitStorage(b, n, nil) must succeed" else none,
               { r0 with known := some (List.replicate n 0), clean := true, rawLen := some (size b n) })
    | some d =>
      if d.length == size b n then
        let xs := unpack b n d
        (if obs != "ok" then some "raw longs of the right length refused" else none,
         { r0 with known := some xs, clean := d == pack b xs, rawLen := some d.length })
      else (if obs != "panic" then some s!"raw array of {d.length} longs accepted, the packing needs {size b n}" else none, r0)
  else (none, r0)

def parseInit (s : String) : Option (Option (List (BitVec 64))) :=
  if s == "nil" then some none else (parseLongs s).map some

def hist (bitsS lenS initS opsS obs : String) : Verdict :=
  match bitsS.toInt?, lenS.toInt?, parseInit initS, parseOps opsS with
  | some bits, some length, some init, some ops =>
    let model : String :=
      match newBitStorage bits length init with
      | .ok st => ",".intercalate ("ok" :: runModel st ops)
      | _ => "panic"
    let toks := obs.splitOn ","
    let spec : Option String :=
      match toks with
      | [] => some "empty observation"
      | o :: rest =>
        match specNew bits length init o with
        | (some why, _) => some why
        | (none, r) => if o == "ok" then specRun r ops rest else none
    { model, spec }
  | _, _, _, _ => { model := "bad-arg" }

def showPair (r : Res (Int × Int)) : String :=
  match r with
  | .ok (a, b) => s!"{a} {b}"
  | .err => "err"
  | .panic => "panic"

/-- the size rule of the format, from the description: ⌈n / ⌊64/b⌋⌉ -/
def sizeV (bS nS obs : String) : Verdict :=
  match bS.toInt?, nS.toInt? with
  | some b, some n =>
    let model := showInt (calcBitStorageSize b n)
    let spec : Option String :=
      if 0 ≤ b && b ≤ 64 && 0 ≤ n then
        let want := toString (size b.toNat n.toNat)
        if obs != want then some s!"size rule: expected {want}" else none
      else none
    { model, spec }
  | _, _ => { model := "bad-arg" }

/-- the inference is sound exactly when `n > 0` and `⌊64/(b+1)⌋ · size < n` (theorem `C11_size_rules`) -/
def bpvV (bS nS obs : String) : Verdict :=
  match bS.toInt?, nS.toInt? with
  | some b, some n =>
    let model : String :=
      match calcBitStorageSize b n with
      | .ok l => (match calcBitsPerValue n l with
                  | .ok v => s!"{l} {v}"
                  | _ => "panic")
      | _ => "panic"
    let spec : Option String :=
      if 1 ≤ b && b ≤ 32 && 0 ≤ n then
        let l := size b.toNat n.toNat
        match obs.splitOn " " with
        | [lo, vo] =>
          if lo != toString l then some s!"size rule: expected {l} longs"
          else if 0 < n && (64 / (b.toNat + 1)) * l < n.toNat && vo != toString b then
            some s!"bits per value of {n} values in {l} longs must be {b}"
          else none
        | _ => some "panic or unparseable"
      else none
    { model, spec }
  | _, _ => { model := "bad-arg" }

def bpv2V (nS lS obs : String) : Verdict :=
  match nS.toInt?, lS.toInt? with
  | some n, some l => { model := showInt (calcBitsPerValue n l), spec := if obs == "" then some "empty" else none }
  | _, _ => { model := "bad-arg" }

def indexV (bS nS iS obs : String) : Verdict :=
  match bS.toInt?, nS.toInt?, iS.toInt? with
  | some b, some n, some i =>
    let model : String :=
      match newBitStorage b n none with
      | .ok st => showPair (calcIndex st.vpl st.bits i)
      | _ => "panic"
    let spec : Option String :=
      if 1 ≤ b && b ≤ 32 && 0 ≤ n && 0 ≤ i then
        let v := vpl b.toNat
        let want := s!"{i.toNat / v} {i.toNat % v * b.toNat}"
        if obs != want then some s!"entry {i} lives in long/offset {want}" else none
      else none
    { model, spec }
  | _, _, _ => { model := "bad-arg" }

def handle (op : String) (args : List String) (obs : String) : Option Verdict :=
  match op, args with
  | "bits.hist", [b, n, init, ops] => some (hist b n init ops obs)
  | "bits.size", [b, n] => some (sizeV b n obs)
  | "bits.bpv", [b, n] => some (bpvV b n obs)
  | "bits.bpv2", [n, l] => some (bpv2V n l obs)
  | "bits.index", [b, n, i] => some (indexV b n i obs)
  | "bits.nil", _ =>
    some { model := "- 00:1", spec := if obs != "- 00:1" then some "nil storage: Raw is empty and WriteTo emits the count 0" else none }
  | _, _ => none

end Driver.C11
