import Driver.Util
import GoMC.Model.Chat
import GoMC.Model.ChatNBT
import GoMC.Spec.TextComponent
import GoMC.Spec.NBT
/-!
  Driver for C17 (text components), stage 1.  Token syntax and operations: see harness/c17.go.

  Model side: `Model/Chat.lean` (JSON tree codec, renderers, chat.Type).  The NBT form has no model of its own in
  this stage: the implementation's bytes are judged by the independent NBT reader of `Spec/NBT.lean` and the
  independent reading of text components of `Spec/TextComponent.lean`; the model observation for those fields
  is what the property demands (`norm m`).
-/
namespace Driver.C17
open GoMC GoMC.Spec GoMC.Model GoMC.Model.Chat GoMC.Model.ChatNBT GoMC.Model.Go Driver

/-! ### tokens -/

def hexRaw (bs : Bytes) : String :=
  String.ofList (bs.foldr (fun b acc => hexDigit (b.toNat / 16) :: hexDigit (b.toNat % 16) :: acc) [])

/-- hex digits up to the next '.' -/
partial def pHex (cs : List Char) (acc : Bytes) : Option (Bytes × List Char) :=
  match cs with
  | '.' :: r => some (acc.reverse, r)
  | a :: b :: r =>
    match hexVal a, hexVal b with
    | some x, some y => pHex r (BitVec.ofNat 8 (16 * x + y) :: acc)
    | _, _ => none
  | _ => none

mutual
  partial def pTree (cs : List Char) : Option (JSON × List Char) :=
    match cs with
    | 'z' :: r => some (.null, r)
    | 't' :: r => some (.bool true, r)
    | 'f' :: r => some (.bool false, r)
    | 'n' :: r => (pHex r []).map fun (b, r') => (.num b, r')
    | 's' :: r => (pHex r []).map fun (b, r') => (.str b, r')
    | '[' :: r => (pTreeList r []).map fun (xs, r') => (.arr xs, r')
    | '{' :: r => (pTreeKvs r []).map fun (kvs, r') => (.obj kvs, r')
    | _ => none
  partial def pTreeList (cs : List Char) (acc : List JSON) : Option (List JSON × List Char) :=
    match cs with
    | ']' :: r => some (acc.reverse, r)
    | _ => match pTree cs with
      | some (x, r) => pTreeList r (x :: acc)
      | none => none
  partial def pTreeKvs (cs : List Char) (acc : List (Bytes × JSON)) : Option (List (Bytes × JSON) × List Char) :=
    match cs with
    | '}' :: r => some (acc.reverse, r)
    | _ => match pHex cs [] with
      | some (k, r) =>
        match pTree r with
        | some (v, r') => pTreeKvs r' ((k, v) :: acc)
        | none => none
      | none => none
end

def pBit : Char → Option Bool
  | '0' => some false
  | '1' => some true
  | _ => none

mutual
  partial def pMsg (cs : List Char) : Option (Msg × List Char) :=
    match cs with
    | 'M' :: r0 => do
      let (text, r1) ← pHex r0 []
      match r1 with
      | f1 :: f2 :: f3 :: f4 :: f5 :: '.' :: r2 =>
        let b1 ← pBit f1; let b2 ← pBit f2; let b3 ← pBit f3; let b4 ← pBit f4; let b5 ← pBit f5
        let (font, r3) ← pHex r2 []
        let (color, r4) ← pHex r3 []
        let (ins, r5) ← pHex r4 []
        let (click, r6) ← (match r5 with
          | '-' :: r => some (none, r)
          | 'C' :: r => do
            let (a, r') ← pHex r []
            let (v, r'') ← pHex r' []
            pure (some (⟨a, v⟩ : Click), r'')
          | _ => none : Option (Option Click × List Char))
        let (hover, r7) ← (match r6 with
          | '-' :: r => some (none, r)
          | 'H' :: r => do
            let (a, r') ← pHex r []
            let (c, r'') ← pTree r'
            let (v, r''') ← pMsg r''
            pure (some (a, c, v), r''')
          | _ => none : Option (Option (Bytes × JSON × Msg) × List Char))
        let (tr, r8) ← pHex r7 []
        match r8 with
        | '(' :: r9 =>
          let (args, r10) ← pArgs r9 []
          match r10 with
          | '(' :: r11 =>
            let (extra, r12) ← pMsgs r11 []
            pure (⟨text, b1, b2, b3, b4, b5, font, color, ins, click, hover, tr, args, extra⟩, r12)
          | _ => none
        | _ => none
      | _ => none
    | _ => none
  partial def pArgs (cs : List Char) (acc : List (Msg ⊕ Bytes)) : Option (List (Msg ⊕ Bytes) × List Char) :=
    match cs with
    | ')' :: r => some (acc.reverse, r)
    | 'S' :: r => match pHex r [] with
      | some (s, r') => pArgs r' (.inr s :: acc)
      | none => none
    | _ => match pMsg cs with
      | some (m, r) => pArgs r (.inl m :: acc)
      | none => none
  partial def pMsgs (cs : List Char) (acc : List Msg) : Option (List Msg × List Char) :=
    match cs with
    | ')' :: r => some (acc.reverse, r)
    | _ => match pMsg cs with
      | some (m, r) => pMsgs r (m :: acc)
      | none => none
end

def parseMsgTok (s : String) : Option Msg :=
  match pMsg s.toList with
  | some (m, []) => some m
  | _ => none

def parseTreeTok (s : String) : Option JSON :=
  match pTree s.toList with
  | some (t, []) => some t
  | _ => none

mutual
  partial def showTree : JSON → String
    | .null => "z"
    | .bool true => "t"
    | .bool false => "f"
    | .num b => "n" ++ hexRaw b ++ "."
    | .str b => "s" ++ hexRaw b ++ "."
    | .arr xs => "[" ++ String.join (xs.map showTree) ++ "]"
    | .obj kvs => "{" ++ String.join (kvs.map fun (k, v) => hexRaw k ++ "." ++ showTree v) ++ "}"
end

def bit (b : Bool) : String := if b then "1" else "0"

partial def showMsg : Msg → String
  | ⟨text, b1, b2, b3, b4, b5, font, color, ins, click, hover, tr, args, extra⟩ =>
    "M" ++ hexRaw text ++ "." ++ bit b1 ++ bit b2 ++ bit b3 ++ bit b4 ++ bit b5 ++ "."
    ++ hexRaw font ++ "." ++ hexRaw color ++ "." ++ hexRaw ins ++ "."
    ++ (match click with
        | none => "-"
        | some c => "C" ++ hexRaw c.action ++ "." ++ hexRaw c.value ++ ".")
    ++ (match hover with
        | none => "-"
        | some (a, c, v) => "H" ++ hexRaw a ++ "." ++ showTree c ++ showMsg v)
    ++ hexRaw tr ++ "."
    ++ "(" ++ String.join (args.map fun
        | .inl m => showMsg m
        | .inr s => "S" ++ hexRaw s ++ ".") ++ ")"
    ++ "(" ++ String.join (extra.map showMsg) ++ ")"

/-! ### helpers for the oracles -/

/-- hover contents are compared only when absent or a plain ASCII string (json.Marshal, which prints them for the
harness, rewrites other bytes) -/
partial def simplify : Msg → Msg
  | ⟨text, b1, b2, b3, b4, b5, font, color, ins, click, hover, tr, args, extra⟩ =>
    ⟨text, b1, b2, b3, b4, b5, font, color, ins, click,
     hover.map (fun (a, c, v) => (a, (match c with
        | .str s => if s.all (fun b => b.toNat < 0x80) then JSON.str s else JSON.null
        | _ => JSON.null), simplify v)),
     tr, args.map (fun | .inl m => .inl (simplify m) | .inr s => .inr s), extra.map simplify⟩

/-- some argument list holds both components and strings -/
partial def hasMixedArgs : Msg → Bool
  | ⟨_, _, _, _, _, _, _, _, _, _, hover, _, args, extra⟩ =>
    (args.any (fun | .inl _ => true | .inr _ => false) && args.any (fun | .inl _ => false | .inr _ => true))
    || args.any (fun | .inl m => hasMixedArgs m | .inr _ => false)
    || extra.any hasMixedArgs
    || (match hover with | some (_, _, v) => hasMixedArgs v | none => false)

def hasDup : List Bytes → Bool
  | [] => false
  | k :: r => r.contains k || hasDup r

/-- an object somewhere repeats a key (after encoding/json's folding) -/
partial def hasDupKeys : JSON → Bool
  | .arr xs => xs.any hasDupKeys
  | .obj kvs => hasDup (kvs.map fun (k, _) => foldKey k) || kvs.any fun (_, v) => hasDupKeys v
  | _ => false

/-- number texts that Go's float64 prints back unchanged: `-?(0|[1-9][0-9]{0,14})`, not `-0` -/
def canonNumber (t : Bytes) : Bool :=
  let ds := match t with
    | 0x2d#8 :: r => r
    | r => r
  !ds.isEmpty && ds.length ≤ 15 && ds.all isDigit
  && (ds.head? != some 0x30#8 || (ds.length == 1 && t.length == 1))

partial def numbersCanonical : JSON → Bool
  | .num t => canonNumber t
  | .arr xs => xs.all numbersCanonical
  | .obj kvs => kvs.all fun (_, v) => numbersCanonical v
  | _ => true

/-- numbers matter only inside hover `contents` (the one `any` destination) -/
partial def contentsNumbersCanonical : JSON → Bool
  | .arr xs => xs.all contentsNumbersCanonical
  | .obj kvs => kvs.all fun (k, v) =>
      if foldKey k = foldKey kContents then numbersCanonical v else contentsNumbersCanonical v
  | _ => true

mutual
  partial def smallN : NBT → Bool
    | .string s => s.length < 2 ^ 15
    | .list _ xs => xs.all smallN
    | .compound kvs => kvs.all fun (k, v) => k.length < 2 ^ 15 && smallN v
    | _ => true
end

def clsOf (obs : String) : String := (obs.splitOn " ").headD ""

def parseLang (s : String) : List (Bytes × Bytes) :=
  if s == "-" then [] else
  (s.splitOn ",").filterMap fun kv =>
    match kv.splitOn ":" with
    | [k, v] =>
      match parseHexChars k.toList [], parseHexChars v.toList [] with
      | some kb, some vb => some (kb, vb)
      | _, _ => none
    | _ => none

def sanJ : Bytes → Bytes := utf8Sanitize

/-! ### operations -/

def badPanic (cls : String) : Option String :=
  if cls == "panic" then some "panicked" else if cls == "hang" then some "did not return (watchdog)" else none

def opJSON (ms obs : String) : Verdict :=
  match parseMsgTok ms with
  | none => { model := "bad-arg" }
  | some m =>
    let tree := marshalJSON sanJ m
    let back := unmarshalJSON tree
    let want := norm sanJ m
    let model := "ok tree=" ++ showTree tree ++ " back=" ++ (match back with | .ok b => showMsg b | _ => "err")
    let toks := obs.splitOn " "
    let spec : Option String :=
      match badPanic (clsOf obs) with
      | some w => some w
      | none =>
        if clsOf obs != "ok" then some "a component could not be encoded to JSON" else
        match (kv toks "tree").bind parseTreeTok, (kv toks "back") with
        | some t, some b =>
          match jsonToMsg t with
          | some m' =>
            if !(Msg.beq (simplify m') (simplify want)) then some "the JSON form does not denote the component"
            else match parseMsgTok b with
              | some mb => if Msg.beq mb want then none else some "the component changed in the JSON round trip"
              | none => some "the JSON form written by the library was refused by its own decoder"
          | none => some "the JSON form is outside the text-component grammar"
        | _, _ => some "unparseable observation"
    { model, spec }

def opJSONDec (treeTok obs : String) : Verdict :=
  let cls := clsOf obs
  let toks := obs.splitOn " "
  let direct := (kv toks "direct").getD "?"
  if treeTok == "!" then
    -- not a JSON text: json.Unmarshal must refuse it; the direct call is outside the model (bytes.TrimSpace
    -- accepts more white space than JSON)
    { model := "err direct=" ++ direct,
      spec := match badPanic cls with
        | some w => some w
        | none => if direct == "panic" then some "UnmarshalJSON panicked" else none }
  else
  match parseTreeTok treeTok with
  | none => { model := "bad-arg" }
  | some t =>
    let r := unmarshalJSON t
    let inexact := hasDupKeys t || !contentsNumbersCanonical t
    let model :=
      match r with
      | .ok m => if inexact && cls == "ok" then obs else "ok " ++ showMsg m ++ " direct=ok"
      | _ => "err direct=err"
    let spec : Option String :=
      match badPanic cls with
      | some w => some w
      | none =>
        if direct == "panic" then some "UnmarshalJSON panicked" else
        match jsonToMsg t with
        | some want =>
          if cls != "ok" then some "a well-formed text component (string / object / list) was refused"
          else match (toks.getD 1 "") |> parseMsgTok with
            | some got => if Msg.beq (simplify got) (simplify want) then none else some "decoded to a different component"
            | none => some "unparseable observation"
        | none => none
    { model, spec }

def opJSONMsg (ms obs : String) : Verdict :=
  match parseMsgTok ms with
  | none => { model := "bad-arg" }
  | some m =>
    let toks := obs.splitOn " "
    let want := norm sanJ m
    let text := ((kv toks "text").bind parseHex).getD []
    let back := unmarshalJSON (marshalJSON sanJ m)
    let (bytes, n) := stringEnc text
    let model := s!"ok bytes={hexOfBytes bytes} text={hexOfBytes text} back={match back with | .ok b => showMsg b | _ => "err"} n={n}"
    let spec : Option String :=
      match badPanic (clsOf obs) with
      | some w => some w
      | none =>
        if clsOf obs != "ok" then some "a component could not be written as a JSON packet field" else
        match (kv toks "back").bind parseMsgTok with
        | some mb => if Msg.beq mb want then none else some "the component changed in the JsonMessage round trip"
        | none => some "JsonMessage.ReadFrom refused what JsonMessage.WriteTo wrote"
    { model, spec }

/-- the JSON form read through the packet field `JsonMessage.ReadFrom`: the text framed as a protocol String
(C06 model), then exactly `Message.UnmarshalJSON` — top-level string, list and object shapes alike -/
def opJSONMsgRd (hexTok treeTok obs : String) : Verdict :=
  let cls := clsOf obs
  let toks := obs.splitOn " "
  let direct := (kv toks "direct").getD "?"
  match parseHex hexTok with
  | none => { model := "bad-arg" }
  | some text =>
  let n := (stringEnc text).2
  if treeTok == "!" then
    { model := s!"err n={n} direct={direct}",
      spec := match badPanic cls with
        | some w => some w
        | none => if direct == "panic" then some "UnmarshalJSON panicked" else none }
  else
  match parseTreeTok treeTok with
  | none => { model := "bad-arg" }
  | some t =>
    let r := unmarshalJSON t
    let inexact := hasDupKeys t || !contentsNumbersCanonical t
    let model :=
      match r with
      | .ok m => if inexact && cls == "ok" && direct == "ok" && kv toks "n" == some (toString n) then obs
                 else s!"ok {showMsg m} n={n} direct=ok"
      | _ => s!"err n={n} direct=err"
    let spec : Option String :=
      match badPanic cls with
      | some w => some w
      | none =>
        if direct == "panic" then some "UnmarshalJSON panicked" else
        if direct == "differs" then some "JsonMessage.ReadFrom and Message.UnmarshalJSON decode one text to different components" else
        if (cls == "ok") != (direct == "ok") then some "JsonMessage.ReadFrom and Message.UnmarshalJSON disagree on accepting a text" else
        match jsonToMsg t with
        | some want =>
          if cls != "ok" then some "a well-formed text component (string / object / list) was refused by JsonMessage.ReadFrom"
          else match (toks.getD 1 "") |> parseMsgTok with
            | some got => if Msg.beq (simplify got) (simplify want) then none else some "decoded to a different component"
            | none => some "unparseable observation"
        | none => none
    { model, spec }

def opJSONMsgDec (arg obs : String) : Verdict :=
  match parseHex arg with
  | none => { model := "bad-arg" }
  | some input =>
    let cls := clsOf obs
    -- the String frame is the C06 model; the JSON text inside is not parsed here
    let (r, _) := stringDec [] (Stream.ofBytes input)
    let model := match r with
      | .ok _ => obs
      | _ => if cls == "err" then obs else "err"
    { model, spec := badPanic cls }

mutual
  /-- compounds as maps: entries sorted by key (Go writes a map in arbitrary order) -/
  partial def canonN : NBT → NBT
    | .list e xs => .list e (xs.map canonN)
    | .compound kvs =>
      .compound ((kvs.map fun (k, v) => (k, canonN v)).toArray.qsort (fun a b => Chat.bytesLt a.1 b.1)).toList
    | t => t
end

/-- two network-format documents that are the same tree -/
def sameDoc (a b : Bytes) : Bool :=
  a == b ||
  match parseDoc .network a, parseDoc .network b with
  | some (_, ta, []), some (_, tb, []) => ta.tag == tb.tag && encPayload (canonN ta) == encPayload (canonN tb)
  | _, _ => false

/-- hover contents inside the domain of the Go-value model (`anyVal`) -/
partial def contentsModelled : Msg → Bool
  | ⟨_, _, _, _, _, _, _, _, _, _, hover, _, args, extra⟩ =>
    (match hover with | some (_, c, v) => numbersModelled c && contentsModelled v | none => true)
    && args.all (fun | .inl m => contentsModelled m | .inr _ => true) && extra.all contentsModelled

/-- `(*Message).ReadFrom` on `input`: the printed observation, `none` when the decoded hover contents cannot be printed -/
def showRead (input : Bytes) : String × Option String :=
  match readFrom (Stream.ofBytes input) with
  | (.ok (v, n), _) =>
    match ofGo v with
    | some m => ("ok", some s!"{showMsg m} n={n}")
    | none => ("ok", none)
  | (.err, _) => ("err", some "")
  | (.panic, _) => ("panic", some "")

def opNBT (ms obs : String) : Verdict :=
  match parseMsgTok ms with
  | none => { model := "bad-arg" }
  | some m =>
    let toks := obs.splitOn " "
    let cls := clsOf obs
    let want := norm id m
    let bytes := ((kv toks "bytes").bind parseHex).getD []
    -- the model: Message.WriteTo, then (*Message).ReadFrom on what it wrote
    let model :=
      match writeTo m with
      | .ok (mb, _) =>
        if !contentsModelled m then (if cls == "ok" then obs else "ok") else
        let shown := if sameDoc mb bytes then bytes else mb
        let back := match readFrom (Stream.ofBytes mb) with
          | (.ok (v, _), _) => (match ofGo v with | some b => showMsg b | none => "?")
          | _ => "err"
        s!"ok bytes={hexOfBytes shown} back={back} n={mb.length}"
      | .err => "err"
      | .panic => "panic"
    let spec : Option String :=
      match badPanic cls with
      | some w => some w
      | none =>
        if cls != "ok" then some "a component could not be encoded to NBT" else
        match parseDoc .network bytes with
        | some (_, t, []) =>
          match t with
          | .compound _ =>
            match nbtToMsg t with
            | some m' =>
              if !(Msg.beq (simplify m') (simplify want)) then some "the NBT form does not denote the component"
              else match (kv toks "back").bind parseMsgTok with
                | some mb =>
                  if !(Msg.beq mb want) then some "the component changed in the NBT round trip"
                  else if kv toks "n" != some (toString bytes.length) then some "ReadFrom reports a wrong byte count"
                  else none
                | none => some "the NBT form written by the library was refused by its own decoder"
            | none => some "the NBT form is outside the text-component schema (keys / value kinds)"
          | _ => some "the NBT form is not a compound"
        | some (_, _, _ :: _) => some "bytes follow the NBT value"
        | none => some "the NBT form is not one well-formed network-format value"
    { model, spec }

/-- stage-1 stand-in for `Message.ReadFrom`: the independent NBT reader followed by the independent reading
of a component; fails (no demand) outside what the two specs cover -/
def specMsgDec : Rd (Msg × Nat) := fun s =>
  match parseDoc .network s.flat with
  | some (_, t, rest) =>
    let n := s.flat.length - rest.length
    if smallN t then
      match nbtToMsg t with
      | some m => (.ok (simplify m, n), s.drop n)
      | none => (.err, s)
    else (.err, s)
  | none => (.err, s)

def specMsgC : Codec Msg := ⟨fun _ => ([], 0), fun _ => specMsgDec, Msg.zero⟩

def opNBTDec (arg obs : String) : Verdict :=
  match parseHex arg with
  | none => { model := "bad-arg" }
  | some input =>
    let cls := clsOf obs
    let toks := obs.splitOn " "
    let spec : Option String :=
      match badPanic cls with
      | some w => some w
      | none =>
        match specMsgDec (Stream.ofBytes input) with
        | (.ok (want, n), _) =>
          if cls != "ok" then some "a well-formed NBT text component (string / compound / list) was refused"
          else match parseMsgTok (toks.getD 1 "") with
            | some got =>
              if !(Msg.beq (simplify got) want) then some "decoded to a different component"
              else if kv toks "n" != some (toString n) then some s!"the value is {n} bytes long, ReadFrom reports another count"
              else none
            | none => some "unparseable observation"
        | _ => none
    -- the model: (*Message).ReadFrom (the byte count of a failed read is not part of the model)
    let model :=
      match showRead input with
      | ("ok", some r) => "ok " ++ r
      | ("ok", none) => if cls == "ok" then obs else "ok"
      | ("err", _) => if cls == "err" then obs else "err"
      | (c, _) => c
    { model, spec }

def showType (t : ChatType) : String :=
  s!"{t.id.toInt},{showMsg t.sender},{match t.target with | some m => showMsg m | none => "-"}"

/-- the exact codec of the two names: Go values, `Message.WriteTo` on the component they stand for -/
def goCodec : Codec GoVal :=
  ⟨fun v => match (ofGo v).map writeTo with
     | some (.ok r) => r
     | _ => ([], 0),
   fun old => readFromInto old, messageTy.zero⟩

def opType (reuse : Bool) (ids ss ts obs : String) : Verdict :=
  match ids.toInt?, parseMsgTok ss, (if ts == "-" then some none else (parseMsgTok ts).map some) with
  | some idv, some sender, some target =>
    let toks := obs.splitOn " "
    let cls := clsOf obs
    let obsBytes := ((kv toks "bytes").bind parseHex).getD []
    let want : ChatType := ⟨BitVec.ofInt 32 idv, norm id sender, target.map (norm id)⟩
    let okW (m : Msg) : Bool := match writeTo m with | .ok _ => true | _ => false
    let model :=
      if !(okW sender && (match target with | some m => okW m | none => true)) then "err" else
      if !(contentsModelled sender && (match target with | some m => contentsModelled m | none => true)) then
        (if cls == "ok" then obs else "ok") else
      let t : ChatTypeOf GoVal := ⟨BitVec.ofInt 32 idv, goOf sender, target.map goOf⟩
      let (bytes, n) := typeEnc goCodec t
      let sb := (goCodec.enc (goOf sender)).1
      let tb := match target with | some m => (goCodec.enc (goOf m)).1 | none => []
      -- the destination: fresh, or one that went through a header with a target (its sender reset by the harness)
      let old : ChatTypeOf GoVal :=
        if reuse then ⟨7, messageTy.zero, some (goOf (Msg.ofText [0x6f#8, 0x6c#8, 0x64#8, 0x20#8, 0x74#8, 0x61#8, 0x72#8, 0x67#8, 0x65#8, 0x74#8]))⟩
        else ⟨0, messageTy.zero, none⟩
      let back := match typeDec goCodec old (Stream.ofBytes bytes) with
        | (.ok (r, k), _) =>
          (match ofGo r.sender, (match r.target with | some x => (ofGo x).map some | none => some none) with
           | some s', some t' => s!"{showType ⟨r.id, s', t'⟩} n={n},{k}"
           | _, _ => "? n=?")
        | _ => s!"err n={n},0"
      s!"ok bytes={hexOfBytes bytes} sb={hexOfBytes sb} tb={hexOfBytes tb} back={back}"
    let spec : Option String :=
      match badPanic cls with
      | some w => some w
      | none =>
        if cls != "ok" then some "a chat-type header could not be written" else
        if kv toks "back" != some (showType want) then some "the chat-type header did not round-trip"
        else if kv toks "n" != some s!"{obsBytes.length},{obsBytes.length}" then some "WriteTo / ReadFrom report a wrong byte count"
        else
          -- layout: VarInt id, sender, Boolean, target — judged on the bytes with the C05/C06 models and the spec reader
          let sb := ((kv toks "sb").bind parseHex).getD []
          let tb := ((kv toks "tb").bind parseHex).getD []
          let lay := (varIntEnc (BitVec.ofInt 32 idv)).1 ++ sb ++ (boolEnc target.isSome).1 ++ tb
          if lay != obsBytes then some "the header is not id, sender, has-target, target" else none
    { model, spec }
  | _, _, _ => { model := "bad-arg" }

def opTypeDec (arg obs : String) : Verdict :=
  match parseHex arg with
  | none => { model := "bad-arg" }
  | some input =>
    let cls := clsOf obs
    let toks := obs.splitOn " "
    let spec : Option String :=
      match badPanic cls with
      | some w => some w
      | none =>
        match typeDec specMsgC ⟨0, Msg.zero, none⟩ (Stream.ofBytes input) with
        | (.ok (want, n), _) =>
          if cls != "ok" then some "a well-formed chat-type header was refused" else
          -- compare modulo hover contents
          match (toks.getD 1 "").splitOn "," with
          | [i, s, t] =>
            match parseMsgTok s, (if t == "-" then some none else (parseMsgTok t).map some) with
            | some gs, some gt =>
              let got : ChatType := ⟨BitVec.ofInt 32 (i.toInt?.getD 0), simplify gs, gt.map simplify⟩
              if showType got != showType want then some "the header decoded to other values"
              else if kv toks "n" != some (toString n) then some "ReadFrom reports a wrong byte count"
              else none
            | _, _ => some "unparseable observation"
          | _ => some "unparseable observation"
        | _ => none
    let model :=
      match typeDec goCodec ⟨0, messageTy.zero, none⟩ (Stream.ofBytes input) with
      | (.ok (r, k), _) =>
        (match ofGo r.sender, (match r.target with | some x => (ofGo x).map some | none => some none) with
         | some s', some t' => s!"ok {showType ⟨r.id, s', t'⟩} n={k}"
         | _, _ => if cls == "ok" then obs else "ok")
      | (.err, _) => if cls == "err" then obs else "err"
      | (.panic, _) => "panic"
    { model, spec }

def opRender (langs ms obs : String) : Verdict :=
  match parseMsgTok ms with
  | none => { model := "bad-arg" }
  | some m =>
    let table := parseLang langs
    let lang : Bytes → Bytes := fun k => (lookupKey k table).getD []
    let cls := clsOf obs
    let toks := obs.splitOn " "
    let model :=
      match clearString lang m, ansiString lang m with
      | .ok (p, e1), .ok (a, e2) =>
        if e1 && e2 then s!"ok plain={hexOfBytes p} ansi={hexOfBytes a}"
        else if cls == "ok" then obs else "ok"
      | _, _ => "panic"
    let spec : Option String :=
      match badPanic cls with
      | some w => some w
      | none =>
        match plainOf (fun k => lookupKey k table) m with
        | some want =>
          if kv toks "plain" == some (hexOfBytes want) then none
          else some s!"plain text differs from the stripped, substituted text {hexOfBytes want}"
        | none => none
    { model, spec }

/-- a history of `SetLanguage` calls, then rendering: the model folds `setLanguage` over the steps (the table
`E…` is `en_us.Map`, given by its entries for the keys in use); the spec renders under the LAST step alone and
wants `en_us.Map` unchanged -/
def opLang (stepsTok msTok obs : String) : Verdict :=
  let stepToks := stepsTok.splitOn ";"
  let tables := stepToks.map fun t => parseLang (if t.startsWith "E" then (t.drop 1).toString else t)
  match (msTok.splitOn ";").mapM parseMsgTok with
  | none => { model := "bad-arg" }
  | some ms =>
    let fnOf (table : List (Bytes × Bytes)) : Bytes → Bytes := fun k => (lookupKey k table).getD []
    let lang := languageAfter (fun _ => []) (tables.map fnOf)
    let cls := clsOf obs
    let toks := obs.splitOn " "
    let rs := ms.map fun m =>
      match clearString lang m, ansiString lang m with
      | .ok (p, e1), .ok (a, e2) => if e1 && e2 then some s!"{hexRaw p}/{hexRaw a}" else none
      | _, _ => some "panic"
    let model :=
      if rs.all Option.isSome then "ok r=" ++ ";".intercalate (rs.map fun r => r.getD "") ++ " en=same"
      else if cls == "ok" && kv toks "en" == some "same" then obs else "ok"
    let spec : Option String :=
      match badPanic cls with
      | some w => some w
      | none =>
        if kv toks "en" != some "same" then some "SetLanguage changed the contents of en_us.Map" else
        let last := tables.getLast?.getD []
        let got := ((kv toks "r").getD "").splitOn ";" |>.map fun r => (r.splitOn "/").headD ""
        let bad := (ms.zip got).find? fun (m, g) =>
          match plainOf (fun k => lookupKey k last) m with
          | some want => g != hexRaw want
          | none => false
        match bad with
        | some (m, _) => some s!"rendering does not use exactly the last language set: {showMsg m}"
        | none => none
    { model, spec }

/-- the component put together with the model's constructors, the way the harness builds it -/
partial def rebuild (m : Msg) : Msg :=
  let msgArgs : Option (List Msg) := m.args.mapM fun a => match a with | .inl x => some (rebuild x) | .inr _ => none
  let base : Msg :=
    match m.translate != [] && !m.args.isEmpty, msgArgs with
    | true, some as => { translateMsg m.translate as with text := m.text }
    | _, _ => { Chat.text m.text with translate := m.translate, args := m.args }
  let base := { base with bold := m.bold, italic := m.italic, underlined := m.underlined, strikethrough := m.strikethrough,
                          obfuscated := m.obfuscated, font := m.font, insertion := m.insertion, click := m.click,
                          hover := m.hover.map fun (a, c, v) => (a, c, rebuild v) }
  let base := if m.color != [] then setColor base m.color else base
  if m.extra.isEmpty then base else Chat.append base (m.extra.map rebuild)

def opBuild (langs ms obs : String) : Verdict :=
  match parseMsgTok ms with
  | none => { model := "bad-arg" }
  | some m =>
    let cls := clsOf obs
    let toks := obs.splitOn " "
    let table := parseLang langs
    let lang : Bytes → Bytes := fun k => (lookupKey k table).getD []
    -- outside the modelled formats (`%d`, `%v` … of a component) fmt prints the struct, pointer fields as addresses:
    -- the two renderings may then differ, and are not compared
    let exact := match clearString lang m, ansiString lang m with
      | .ok (_, e1), .ok (_, e2) => e1 && e2
      | _, _ => false
    let toks := if exact then toks else toks.map fun t => if t.startsWith "plain=" then "plain=1" else if t.startsWith "ansi=" then "ansi=1" else t
    let model :=
      if exact then s!"ok tok={showMsg (rebuild m)} deep=1 json=1 nbt=1 plain=1 ansi=1"
      else s!"ok tok={showMsg (rebuild m)} deep=1 json=1 nbt=1 plain={(kv (obs.splitOn " ") "plain").getD "?"} ansi={(kv (obs.splitOn " ") "ansi").getD "?"}"
    let spec : Option String :=
      match badPanic cls with
      | some w => some w
      | none =>
        match (kv toks "tok").bind parseMsgTok with
        | none => some "a component built with the public constructors holds something other than components and strings as arguments"
        | some b =>
          if !(Msg.beq b m) || kv toks "deep" != some "1" then some "a component built with the public constructors is not the component written as a literal"
          else if kv toks "plain" != some "1" then some "ClearString differs between the constructor-built component and the literal"
          else if kv toks "ansi" != some "1" then some "String differs between the constructor-built component and the literal"
          else if kv toks "json" != some "1" then some "the JSON form differs between the constructor-built component and the literal"
          else if kv toks "nbt" != some "1" then some "the NBT form differs between the constructor-built component and the literal"
          else none
    { model, spec }

def opDecorate (keys ps sts ss ts cs obs : String) : Verdict :=
  let key := if keys == "-" then some [] else parseHexChars keys.toList []
  let params : Option (List Bytes) :=
    if ps == "-" then some [] else (ps.splitOn ",").mapM fun p => parseHexChars p.toList []
  match key, params, parseMsgTok sts, parseMsgTok ss, (if ts == "-" then some none else (parseMsgTok ts).map some), parseMsgTok cs with
  | some key, some params, some style, some sender, some target, some content =>
    let m := decorate ⟨0, sender, target⟩ content key params style
    { model := "ok " ++ showMsg m, spec := badPanic (clsOf obs) }
  | _, _, _, _, _, _ => { model := "bad-arg" }

def handle (op : String) (args : List String) (obs : String) : Option Verdict :=
  match op, args with
  | "chat.json", [m] => some (opJSON m obs)
  | "chat.json.dec", [_, t] => some (opJSONDec t obs)
  | "chat.jsonmsg", [m] => some (opJSONMsg m obs)
  | "chat.jsonmsg.dec", [a] => some (opJSONMsgDec a obs)
  | "chat.jsonmsg.rd", [h, t] => some (opJSONMsgRd h t obs)
  | "chat.nbt", [m] => some (opNBT m obs)
  | "chat.nbt.dec", [a] => some (opNBTDec a obs)
  | "chat.render", [l, m] => some (opRender l m obs)
  | "chat.build", [l, m] => some (opBuild l m obs)
  | "chat.lang", [st, ms] => some (opLang st ms obs)
  | "chat.type", [i, s, t] => some (opType false i s t obs)
  | "chat.type.reuse", [i, s, t] => some (opType true i s t obs)
  | "chat.type.dec", [a] => some (opTypeDec a obs)
  | "chat.decorate", [k, p, st, s, t, c] => some (opDecorate k p st s t c obs)
  | _, _ => none

end Driver.C17
