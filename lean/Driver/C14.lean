/-
  Driver for C14 (`region.hist`) and C15 (`region.crash`): folds the model `GoMC.Model.Region` over the
  history, prints its observations in the harness's format (harness/c14.go), and evaluates the
  property on the implementation's observations with an oracle that knows only the history
  (abstract map (x,z) ↦ last written payload) and the Anvil format (`GoMC.Spec.Anvil`).
-/
import Driver.Util
import GoMC.Model.Region
import GoMC.Spec.Anvil
namespace Driver.C14
open GoMC GoMC.Model.Region Driver

/-! payloads and digests, mirrored from harness/c14.go -/

def payload (seed : UInt64) (n : Nat) : ByteArray := Id.run do
  let mut b := ByteArray.emptyWithCapacity n
  let mut x : UInt64 := (seed + 1) * 0x9E3779B97F4A7C15
  for _ in [0:n] do
    b := b.push ((x >>> 56).toUInt8 ^^^ (x >>> 24).toUInt8)
    x := x + 0xD1B54A32D192ED03
  return b

def fnv64 (b : ByteArray) : UInt64 :=
  b.foldl (fun h c => (h ^^^ c.toUInt64) * 1099511628211) 14695981039346656037

def hex64 (h : UInt64) : String := hexOfNat 16 h.toNat

inductive Op where
  | w (x z : Int) (seed : Nat) (len : Nat)
  | r (x z : Int)
  | e (x z : Int)
  | p | l | c | a
  | bad

def parseOp (s : String) : Op :=
  match s.splitOn ":" with
  | ["w", x, z, sd, n] =>
    match x.toInt?, z.toInt?, (sd.drop 1).toString.toNat?, n.toNat? with
    | some x, some z, some sd, some n => .w x z sd n
    | _, _, _, _ => .bad
  | ["r", x, z] => match x.toInt?, z.toInt? with
    | some x, some z => .r x z
    | _, _ => .bad
  | ["e", x, z] => match x.toInt?, z.toInt? with
    | some x, some z => .e x z
    | _, _ => .bad
  | ["p"] => .p
  | ["l"] => .l
  | ["c"] => .c
  | ["a"] => .a
  | _ => .bad

/-! formatting shared by model and oracle -/

def joinOr (sep : String) (xs : List String) : String := if xs.isEmpty then "-" else sep.intercalate xs

def rangesOf (keys : Array Nat) : String :=
  let ks := keys.qsort (· < ·)
  let rec go (i : Nat) (start prev : Nat) (acc : List String) (fuel : Nat) : List String :=
    match fuel with
    | 0 => acc
    | fuel + 1 =>
      if h : i < ks.size then
        let k := ks[i]
        if k == prev + 1 then go (i + 1) start k acc fuel
        else go (i + 1) k k (s!"{start}-{prev}" :: acc) fuel
      else (s!"{start}-{prev}" :: acc)
  if h : 0 < ks.size then joinOr ";" (go 1 ks[0] ks[0] [] (ks.size + 1)).reverse else "-"

def occKeys (m : Occ) : Array Nat := m.fold (fun acc k v => if v then acc.push k else acc) #[]

def readObs (r : Res ByteArray) : String :=
  match r with
  | .ok d => s!"ok:{d.size}:{hex64 (fnv64 d)}"
  | .err => "err"
  | .panic => "panic"

/-- the independent parse of a file image, printed like `anvilParse` of the harness -/
def anvilItems (f : ByteArray) : String :=
  if f.size < 8192 then "!header" else
  let items := (List.range 1024).filterMap fun k =>
    if Spec.Anvil.present f k then
      let sec := Spec.Anvil.sector f k
      let cnt := Spec.Anvil.count f k
      let off := 4096 * sec
      if off + 4 > f.size then some s!"{k}:{sec}:{cnt}:!short"
      else
        let l := Spec.Anvil.chunkLen f k
        if off + 4 + l > f.size then some s!"{k}:{sec}:{cnt}:{l}:!trunc"
        else match Spec.Anvil.chunk f k with
          | some d => some s!"{k}:{sec}:{cnt}:{l}:{hex64 (fnv64 d)}"
          | none => none
    else none
  joinOr ";" items

def tblEq (a b : Tbl) : Bool := (List.range 1024).all fun k => a.get k == b.get k

def checkpoint (st : Region) : String :=
  let h := joinOr ";" ((List.range 1024).filterMap fun k =>
    let v := st.offsets.get k
    if v != 0#32 then some s!"{k}:{hexOfNat 8 v.toNat}" else none)
  let occS := rangesOf (occKeys st.occ)
  let flags := match load st.file with
    | .ok fr =>
      let b (x : Bool) := if x then "1" else "0"
      b (tblEq fr.timestamps st.timestamps) ++ b (tblEq fr.offsets st.offsets) ++ b (rangesOf (occKeys fr.occ) == occS)
    | _ => "???"
  s!"h={h}|t={flags}|o={occS}|f={st.file.size}|a={anvilItems st.file}"

/-! crash images (C15), mirrored from harness/c14.go -/

def cutSet (n j maxCuts : Nat) : List Nat :=
  if n ≤ 1 then [] else
  if n ≤ 8 then (List.range (n - 1)).map (· + 1) else
  let cnt := (n - 1) / 512
  let a := if maxCuts == 0 || cnt ≤ maxCuts then (List.range cnt).map fun i => 512 * (i + 1)
           else (List.range maxCuts).map fun i => 512 * (1 + i * cnt / maxCuts)
  a ++ (List.range 3).map fun t => 1 + (n * 2654435761 + j * 40503 + t * 977) % (n - 1)

def resEq : Res ByteArray → Res ByteArray → Bool
  | .ok a, .ok b => a.data == b.data
  | .err, .err => true
  | .panic, .panic => true
  | _, _ => false

def coordOf (k : Nat) : Int × Int := (((k % 32 : Nat) : Int), ((k / 32 : Nat) : Int))

def isOkRes : Res ByteArray → Bool
  | .ok _ => true
  | _ => false

def allEq : List (Res ByteArray) → List (Res ByteArray) → Bool
  | [], [] => true
  | a :: as, b :: bs => resEq a b && allEq as bs
  | _, _ => false

/-- One crash image, examined like `crashCheck` of the harness: the image is re-opened and read in two orders on
    the same Region (`runReads` threads the receiver): the chunk being written first and then every other
    coordinate; and every other coordinate, the written chunk, every other coordinate again.
    `expected` = what the other coordinates read before the write.  Returns (all others as before, written read ok). -/
def imageCheck (expected : List (Res ByteArray)) (oc wc : List (Int × Int)) (img : ByteArray) : Bool × Bool :=
  match load img with
  | .ok st =>
    let r1 := (runReads st (wc ++ oc)).1
    let w1 := (r1.take wc.length).all isOkRes && !wc.isEmpty
    let g1 := allEq (r1.drop wc.length) expected
    let r2 := (runReads st (oc ++ wc ++ oc)).1
    let n := oc.length
    let g2 := allEq (r2.take n) expected && allEq (r2.drop (n + wc.length)) expected &&
      (((r2.drop n).take wc.length).all isOkRes && !wc.isEmpty) == w1
    (g1 && g2, w1)
  | _ => (false, false)

def crashCount (pre : Region) (idx : Option Nat) (ws : List (Nat × ByteArray)) (maxCuts : Nat) : Nat × Nat × Nat := Id.run do
  let others := (List.range 1024).filter (fun k => some k != idx)
  let oc := others.map coordOf
  let wc := match idx with
    | some k => [coordOf k]
    | none => []
  let expected := (runReads pre oc).1
  let mut cur := pre.file
  let mut points := 0
  let mut bad := 0
  let mut wok := 0
  let mut j := 0
  let tally (r : Bool × Bool) (pbw : Nat × Nat × Nat) : Nat × Nat × Nat :=
    (pbw.1 + 1, pbw.2.1 + (if r.1 then 0 else 1), pbw.2.2 + (if r.2 then 1 else 0))
  let mut acc : Nat × Nat × Nat := tally (imageCheck expected oc wc cur) (0, 0, 0)
  for w in ws do
    for c in cutSet w.2.size j maxCuts do
      acc := tally (imageCheck expected oc wc (put cur w.1 (w.2.extract 0 c))) acc
    cur := put cur w.1 w.2
    acc := tally (imageCheck expected oc wc cur) acc
    j := j + 1
  points := acc.1; bad := acc.2.1; wok := acc.2.2
  return (points, bad, wok)

/-! the oracle's state: what the history says each chunk holds -/

structure Truth where
  len : Nat
  digest : String   -- expected ReadSector observation for len ≥ 1

structure OState where
  truth : Array (Option Truth) := Array.replicate 1024 none
  why : Option String := none

def OState.fail (o : OState) (msg : String) : OState :=
  match o.why with
  | some _ => o
  | none => { o with why := some msg }

def maxLen : Nat := 1044476   -- largest payload that fits 255 sectors: 255*4096 - 4

/-- property checks on a checkpoint reported by the implementation -/
def checkCheckpoint (o : OState) (i : Nat) (obs : String) : OState := Id.run do
  let parts := obs.splitOn "|"
  let fld (key : String) : Option String := kv parts key
  let mut o := o
  match fld "t" with
  | some "111" => pure ()
  | some t => o := o.fail s!"op {i}: a fresh Load disagrees with the in-memory state (timestamps/offsets/occupancy flags {t})"
  | none => o := o.fail s!"op {i}: unreadable checkpoint"
  match fld "a" with
  | none => o := o.fail s!"op {i}: unreadable checkpoint"
  | some "!header" => o := o.fail s!"op {i}: file shorter than the header"
  | some a =>
    let items := if a == "-" then [] else a.splitOn ";"
    let mut seen : Array Bool := Array.replicate 1024 false
    let mut runs : List (Nat × Nat × Nat) := []
    for it in items do
      match it.splitOn ":" with
      | [k, sec, cnt, l, dg] =>
        match k.toNat?, sec.toNat?, cnt.toNat?, l.toNat? with
        | some k, some sec, some cnt, some l =>
          if dg == "!trunc" then o := o.fail s!"op {i}: chunk {k} data runs past the end of the file"
          else
            seen := seen.setIfInBounds k true
            runs := (k, sec, cnt) :: runs
            if sec < 2 then o := o.fail s!"op {i}: chunk {k} placed in the header sectors"
            if l + 4 > 4096 * cnt then o := o.fail s!"op {i}: chunk {k} length {l} exceeds its {cnt} sectors"
            match o.truth.getD k none with
            | none => o := o.fail s!"op {i}: chunk {k} never written but present in the file"
            | some t =>
              if t.len ≥ 1 && s!"ok:{l}:{dg}" != t.digest then
                o := o.fail s!"op {i}: file holds {l}:{dg} for chunk {k}, last written {t.digest}"
        | _, _, _, _ => o := o.fail s!"op {i}: unreadable checkpoint item {it}"
      | [k, _, _, _] => o := o.fail s!"op {i}: chunk {k} points past the end of the file"
      | _ => o := o.fail s!"op {i}: unreadable checkpoint item {it}"
    for k in [0:1024] do
      match o.truth.getD k none with
      | some t => if t.len ≥ 1 && !(seen.getD k false) then o := o.fail s!"op {i}: chunk {k} written but absent from the file"
      | none => pure ()
    -- pairwise disjoint runs
    let rs := runs.toArray.qsort (fun a b => a.2.1 < b.2.1)
    for j in [1:rs.size] do
      let a := rs[j-1]!
      let b := rs[j]!
      if a.2.1 + a.2.2 > b.2.1 then o := o.fail s!"op {i}: chunks {a.1} and {b.1} share sector {b.2.1}"
  return o

/-- one step of the oracle on the implementation's observation of op number `i`; `res` is the part of a
    `w` observation before the first ';' -/
def oracleStep (o : OState) (i : Nat) (op : Op) (obs : String) (pl : Option (ByteArray × String)) : OState :=
  if obs == "dead" || obs == "hang" then o.fail s!"op {i}: {obs}" else
  match op with
  | .w x z _ len =>
    match idx? x z with
    | none => o
    | some k =>
      if len > maxLen then
        if obs == "err" then o else o.fail s!"op {i}: write of {len} bytes (over the limit) not refused: {obs}"
      else if obs == "ok" then
        { o with truth := o.truth.setIfInBounds k (some { len, digest := match pl with | some (_, d) => d | none => "" }) }
      else o.fail s!"op {i}: write of {len} bytes within the limit gave {obs}"
  | .r x z =>
    match idx? x z with
    | none => o
    | some k =>
      match o.truth.getD k none with
      | none => if obs == "err" then o else o.fail s!"op {i}: chunk never written reads {obs}"
      | some t => if t.len == 0 || obs == t.digest then o else o.fail s!"op {i}: read {obs}, last written {t.digest}"
  | .e x z =>
    match idx? x z with
    | none => o
    | some k =>
      match o.truth.getD k none with
      | none => if obs == "0" then o else o.fail s!"op {i}: chunk never written exists: {obs}"
      | some t => if t.len == 0 || obs == "1" then o else o.fail s!"op {i}: written chunk does not exist: {obs}"
  | .p =>
    match obs.splitOn ":" with
    | ["ok", n] => match n.toNat? with
      | some n => if n % 4096 == 0 then o else o.fail s!"op {i}: size {n} after padding"
      | none => o.fail s!"op {i}: pad gave {obs}"
    | _ => o.fail s!"op {i}: pad gave {obs}"
  | .l => if obs == "ok" then o else o.fail s!"op {i}: re-opening gave {obs}"
  | .a => if obs == "ok" then o else o.fail s!"op {i}: re-opening the aged file gave {obs}"
  | .c => checkCheckpoint o i obs
  | .bad => o

/-- C15 footprint on the implementation's own journal of physical operations (independent of the model): during
    `WriteSector(x,z,data)` the only operations allowed are writes inside the header slot of (x,z), inside its timestamp
    slot, or inside ONE run of `need(len)` sectors after the two header sectors; no other kind of operation (Truncate),
    and nothing at all when the write is refused or panics. -/
def footprintViolation (op : Op) (res : String) (journal : String) : Option String :=
  match op with
  | .w x z _ len =>
    let items := if journal == "-" then [] else journal.splitOn "/"
    if res != "ok" then
      if items.isEmpty then none else some s!"a write that returned {res} issued physical operations {journal}"
    else
    match idx? x z with
    | none => if items.isEmpty then none else some s!"physical operations {journal} for out-of-range coordinates"
    | some k =>
      let need := (len + 4 + 4095) / 4096
      let step (acc : Option Nat × Option String) (it : String) : Option Nat × Option String :=
        match acc.2 with
        | some _ => acc
        | none =>
          match it.splitOn ":" with
          | ["t", sz] => (acc.1, some s!"Truncate({sz}) issued inside WriteSector: a physical operation outside the footprint")
          | [a, b] =>
            match a.toNat?, b.toNat? with
            | some off, some n =>
              if 4 * k ≤ off && off + n ≤ 4 * k + 4 then acc
              else if 4096 + 4 * k ≤ off && off + n ≤ 4096 + 4 * k + 4 then acc
              else if off < 8192 then (acc.1, some s!"write {it} inside the header, outside the slots of chunk {k}")
              else
                let s0 := match acc.1 with
                  | some s0 => s0
                  | none => off / 4096
                if 4096 * s0 ≤ off && off + n ≤ 4096 * (s0 + need) then (some s0, none)
                else (some s0, some s!"write {it} outside the run of {need} sectors at sector {s0}")
            | _, _ => (acc.1, some s!"unreadable journal item {it}")
          | _ => (acc.1, some s!"unreadable journal item {it}")
      (items.foldl step (none, none)).2
  | _ => none

def showRes : Res Unit → String
  | .ok _ => "ok"
  | .err => "err"
  | .panic => "panic"

/-- run model and oracle over the history. `crash = some maxCuts` for region.crash -/
def runHist (crash : Option Nat) (ops : List String) (obsL : List String) : Verdict := Id.run do
  let mut st : Option Region := some createWriter.1
  let mut out : Array String := #[]
  let mut o : OState := {}
  let mut i := 0
  let mut obsRest := obsL
  for s in ops do
    let op := parseOp s
    let obs := obsRest.headD ""
    obsRest := obsRest.drop 1
    -- payload of a write (shared by model and oracle)
    let pl : Option (ByteArray × String) := match op with
      | .w _ _ seed len =>
        let d := payload seed.toUInt64 len
        some (d, s!"ok:{len}:{hex64 (fnv64 d)}")
      | _ => none
    -- model
    let mobs : String ← match st with
      | none => pure "dead"
      | some r =>
        match op with
        | .w x z _ _ =>
          let d := match pl with | some (d, _) => d | none => ByteArray.empty
          let (res, r', ws) := writeSector r x z d (BitVec.ofNat 32 (1600000000 + i))
          st := some r'
          match crash with
          | none => pure (showRes res)
          | some mc =>
            let (points, bad, wok) := crashCount r (idx? x z) ws mc
            let w := joinOr "/" (ws.map fun w => s!"{w.1}:{w.2.size}")
            pure s!"{showRes res};W={w};C={points}:{bad}:{wok}"
        | .r x z =>
          let (res, r') := readSectorS r x z   -- the method's effect on the receiver (none) is part of the model
          st := some r'
          pure (readObs res)
        | .e x z => pure (match existSector r x z with
            | .ok true => "1" | .ok false => "0" | .err => "err" | .panic => "panic")
        | .p =>
          let r' := padToFullSector r
          st := some r'
          pure s!"ok:{r'.file.size}"
        | .l =>
          match load r.file with
          | .ok r' => st := some r'; pure "ok"
          | _ => st := none; pure "err"
        | .a =>
          if r.file.size < 8192 then st := none; pure "err" else
          match load (ageFile r.file) with
          | .ok r' => st := some r'; pure "ok"
          | _ => st := none; pure "err"
        | .c => pure (checkpoint r)
        | .bad => pure "bad-op"
    out := out.push mobs
    -- oracle on the implementation's observation
    match crash, op with
    | some _, .w .. =>
      match obs.splitOn ";" with
      | [res, wj, c] =>
        o := oracleStep o i op res pl
        match (c.drop 2).toString.splitOn ":" with
        | [_, "0", _] => pure ()
        | [pts, bad, _] => o := o.fail s!"op {i}: {bad} of {pts} crash images damage another chunk (read in either order); journal {wj}"
        | _ => o := o.fail s!"op {i}: unreadable observation"
        match footprintViolation op res ((wj.drop 2).toString) with
        | some why => o := o.fail s!"op {i}: {why}"
        | none => pure ()
      | _ => o := o.fail s!"op {i}: unreadable observation {obs}"
    | _, _ => o := oracleStep o i op obs pl
    i := i + 1
  return { model := ",".intercalate out.toList, spec := o.why }

def handle (op : String) (args : List String) (obs : String) : Option Verdict :=
  match op, args with
  | "region.hist", [_, ops] =>
    some (runHist none ((ops.drop 4).toString.splitOn ",") (obs.splitOn ","))
  | "region.crash", [cuts, ops] =>
    let mc := match (((cuts.drop 5).toString.splitOn ":").headD "").toNat? with
      | some n => n
      | none => 0
    some (runHist (some mc) ((ops.drop 4).toString.splitOn ",") (obs.splitOn ","))
  | _, _ => none

end Driver.C14
