/-
  Text forms of the Go types and values of `GoMC.Model.GoVal` (the syntax is described in harness/c02.go):
  parsers (type; value directed by its type) and printers that produce exactly what the harness prints.
  Also the `SnbtCarrier` the drivers plug into the typed models: the SNBT work package's models of
  `StringifiedMessage.TagType / MarshalNBT / UnmarshalNBT`, with float oracles that know no float (the NBT
  harnesses keep floats out of StringifiedMessage values).
-/
import Driver.Util
import GoMC.Model.NBTTyped
import GoMC.Model.SNBTParse
import GoMC.Model.SNBTWrite
namespace Driver.GoText
open GoMC GoMC.Model.Go Driver

abbrev P (α : Type) := List Char → Option (α × List Char)

def takeWhileC (p : Char → Bool) : List Char → List Char × List Char
  | [] => ([], [])
  | c :: cs => if p c then let (a, b) := takeWhileC p cs; (c :: a, b) else ([], c :: cs)

def isHexC (c : Char) : Bool := c.isDigit || ('a' ≤ c && c ≤ 'f')
def isWordC (c : Char) : Bool := c.isDigit || ('a' ≤ c && c ≤ 'z')

def expect (s : String) (cs : List Char) : Option (List Char) :=
  let p := s.toList
  if cs.take p.length == p then some (cs.drop p.length) else none

def hexTok (cs : List Char) : Option (Bytes × List Char) :=
  let (h, rest) := takeWhileC isHexC cs
  (parseHexChars h []).map fun b => (b, rest)

def decNat (cs : List Char) : Option (Nat × List Char) :=
  let (d, rest) := takeWhileC Char.isDigit cs
  if d.isEmpty then none else some (d.foldl (fun a c => 10 * a + (c.toNat - 48)) 0, rest)

def fixedHex (digits : Nat) (cs : List Char) : Option (Nat × List Char) :=
  if cs.length < digits then none else
  (parseHexNat (String.ofList (cs.take digits))).map fun n => (n, cs.drop digits)

mutual
  partial def parseType : P GoType := fun cs =>
    let (w, rest) := takeWhileC isWordC cs
    match String.ofList w with
    | "bool" => some (.bool, rest)
    | "i8" => some (.int .i8, rest) | "i16" => some (.int .i16, rest) | "i32" => some (.int .i32, rest)
    | "i64" => some (.int .i64, rest) | "int" => some (.int .int, rest)
    | "u8" => some (.int .u8, rest) | "u16" => some (.int .u16, rest) | "u32" => some (.int .u32, rest)
    | "u64" => some (.int .u64, rest) | "uint" => some (.int .uint, rest)
    | "f32" => some (.f32, rest) | "f64" => some (.f64, rest) | "str" => some (.str, rest)
    | "any" => some (.iface, rest) | "raw" => some (.raw, rest) | "snbt" => some (.snbt, rest)
    | "dyn" => some (.dyn, rest)
    | "sl" => do let r ← expect "<" rest; let (t, r) ← parseType r; let r ← expect ">" r; pure (.slice t, r)
    | "ptr" => do let r ← expect "<" rest; let (t, r) ← parseType r; let r ← expect ">" r; pure (.ptr t, r)
    | "map" => do let r ← expect "<" rest; let (t, r) ← parseType r; let r ← expect ">" r; pure (.map t, r)
    | "ar" => do
      let r ← expect "<" rest
      let (n, r) ← decNat r
      let r ← expect ";" r
      let (t, r) ← parseType r
      let r ← expect ">" r
      pure (.array n t, r)
    | "st" => do
      let r ← expect "<" rest
      let (name, r) ← hexTok r
      let r ← expect ">{" r
      let (fs, r) ← parseFields r
      let r ← expect "}" r
      pure (.struct name fs, r)
    | _ => none
  partial def parseFields : P (List (FieldInfo × GoType)) := fun cs =>
    match cs with
    | '}' :: _ => some ([], cs)
    | _ => do
      let (name, r) ← hexTok cs
      let r ← expect "/" r
      let (flags, r) := takeWhileC (fun c => c == 'a' || c == 'e') r
      let r ← expect "/" r
      let (nbt, r) ← hexTok r
      let r ← expect "/" r
      let (key, r) ← hexTok r
      let r ← expect "/" r
      let (typ, r) ← hexTok r
      let r ← expect "/" r
      let (t, r) ← parseType r
      let info : FieldInfo := { name, anonymous := flags.contains 'a', exported := flags.contains 'e',
                                nbt, nbtkey := key, nbtType := typ }
      match r with
      | '|' :: r' => do let (fs, r'') ← parseFields r'; pure ((info, t) :: fs, r'')
      | _ => pure ([(info, t)], r)
end

/-- two's complement value of `n` read as a `bits`-wide integer of kind `k` -/
def intOfBits (k : IK) (n : Nat) : Int :=
  if k.signed && n ≥ 2 ^ (k.bits - 1) then (n : Int) - 2 ^ k.bits else n

mutual
  partial def parseVal : GoType → P GoVal := fun t cs =>
    match t with
    | .bool => match cs with
      | '1' :: r => some (.bool true, r)
      | '0' :: r => some (.bool false, r)
      | _ => none
    | .int k => (fixedHex (k.bits / 4) cs).map fun (n, r) => (.int k (intOfBits k n), r)
    | .f32 => (fixedHex 8 cs).map fun (n, r) => (.f32 (BitVec.ofNat 32 n), r)
    | .f64 => (fixedHex 16 cs).map fun (n, r) => (.f64 (BitVec.ofNat 64 n), r)
    | .str => do let r ← expect "'" cs; let (b, r) ← hexTok r; pure (.str b, r)
    | .snbt => do let r ← expect "'" cs; let (b, r) ← hexTok r; pure (.snbt b, r)
    | .raw => do
      let (tag, r) ← fixedHex 2 cs
      let r ← expect ":" r
      let (b, r) ← hexTok r
      pure (.raw (BitVec.ofNat 8 tag) b, r)
    | .dyn => do
      let (tag, r) ← fixedHex 2 cs
      let r ← expect ":" r
      let (b, r) ← hexTok r
      match (Model.DynBT.unm (b.length + 2) (BitVec.ofNat 8 tag) (Stream.ofBytes b)).1 with
      | .ok d => pure (.dyn d, r)
      | _ => none
    | .slice e => match cs with
      | '~' :: r => some (.slice e true [], r)
      | _ => do
        let r ← expect "[" cs
        let (xs, r) ← parseVals e ']' r
        let r ← expect "]" r
        pure (.slice e false xs, r)
    | .array _ e => do
      let r ← expect "[" cs
      let (xs, r) ← parseVals e ']' r
      let r ← expect "]" r
      pure (.array e xs, r)
    | .map e => match cs with
      | '~' :: r => some (.map e true [], r)
      | _ => do
        let r ← expect "{" cs
        let (kvs, r) ← parseKvs e r
        let r ← expect "}" r
        pure (.map e false kvs, r)
    | .struct n fields => do
      let r ← expect "(" cs
      let (fs, r) ← parseFieldVals fields r
      let r ← expect ")" r
      pure (.struct n fields fs, r)
    | .ptr e => match cs with
      | '~' :: r => some (.ptr e none, r)
      | _ => do
        let r ← expect "&" cs
        let (v, r) ← parseVal e r
        pure (.ptr e (some v), r)
    | .iface => match cs with
      | '~' :: r => some (.iface none, r)
      | _ => do
        let r ← expect "!" cs
        let (dt, r) ← parseType r
        let r ← expect "!" r
        let (v, r) ← parseVal dt r
        pure (.iface (some v), r)
  partial def parseVals (e : GoType) (close : Char) : P (List GoVal) := fun cs =>
    match cs with
    | c :: _ => if c == close then some ([], cs) else do
      let (v, r) ← parseVal e cs
      match r with
      | ',' :: r' => do let (vs, r'') ← parseVals e close r'; pure (v :: vs, r'')
      | _ => pure ([v], r)
    | [] => none
  partial def parseKvs (e : GoType) : P (List (Bytes × GoVal)) := fun cs =>
    match cs with
    | '}' :: _ => some ([], cs)
    | _ => do
      let (k, r) ← hexTok cs
      let r ← expect ":" r
      let (v, r) ← parseVal e r
      match r with
      | ',' :: r' => do let (kvs, r'') ← parseKvs e r'; pure ((k, v) :: kvs, r'')
      | _ => pure ([(k, v)], r)
  partial def parseFieldVals : List (FieldInfo × GoType) → P (List GoVal)
    | [], cs => some ([], cs)
    | (_, t) :: fs, cs => do
      let (v, r) ← parseVal t cs
      match fs, r with
      | [], _ => pure ([v], r)
      | _, ';' :: r' => do let (vs, r'') ← parseFieldVals fs r'; pure (v :: vs, r'')
      | _, _ => none
end

def hexPlain (bs : Bytes) : String :=
  String.ofList (bs.foldr (fun b acc => hexDigit (b.toNat / 16) :: hexDigit (b.toNat % 16) :: acc) [])

def ikName : IK → String
  | .i8 => "i8" | .i16 => "i16" | .i32 => "i32" | .i64 => "i64" | .int => "int"
  | .u8 => "u8" | .u16 => "u16" | .u32 => "u32" | .u64 => "u64" | .uint => "uint"

partial def showType : GoType → String
  | .bool => "bool" | .int k => ikName k | .f32 => "f32" | .f64 => "f64" | .str => "str"
  | .iface => "any" | .raw => "raw" | .snbt => "snbt" | .dyn => "dyn"
  | .slice e => "sl<" ++ showType e ++ ">"
  | .array n e => "ar<" ++ toString n ++ ";" ++ showType e ++ ">"
  | .map e => "map<" ++ showType e ++ ">"
  | .ptr e => "ptr<" ++ showType e ++ ">"
  | .struct n fs => "st<" ++ hexPlain n ++ ">{" ++ "|".intercalate (fs.map fun (i, t) =>
      hexPlain i.name ++ "/" ++ (if i.anonymous then "a" else "") ++ (if i.exported then "e" else "") ++ "/"
        ++ hexPlain i.nbt ++ "/" ++ hexPlain i.nbtkey ++ "/" ++ hexPlain i.nbtType ++ "/" ++ showType t) ++ "}"

def bitsOfInt (k : IK) (v : Int) : Nat := (v % (2 ^ k.bits : Int)).toNat

def sortKvs {α} (kvs : List (Bytes × α)) : List (Bytes × α) :=
  kvs.mergeSort (fun a b => !bytesLt b.1 a.1)

partial def showVal : GoVal → String
  | .bool b => if b then "1" else "0"
  | .int k v => hexOfNat (k.bits / 4) (bitsOfInt k v)
  | .f32 b => hexOfNat 8 b.toNat
  | .f64 b => hexOfNat 16 b.toNat
  | .str s => "'" ++ hexPlain s
  | .snbt s => "'" ++ hexPlain s
  | .raw t d => hexOfNat 2 t.toNat ++ ":" ++ hexPlain d
  | .dyn d => hexOfNat 2 d.tag.toNat ++ ":" ++ (match Model.DynBT.marshal d with | .ok b => hexPlain b | _ => "!err")
  | .slice _ true _ => "~"
  | .slice _ false xs => "[" ++ ",".intercalate (xs.map showVal) ++ "]"
  | .array _ xs => "[" ++ ",".intercalate (xs.map showVal) ++ "]"
  | .map _ true _ => "~"
  | .map _ false kvs => "{" ++ ",".intercalate ((sortKvs kvs).map fun (k, v) => hexPlain k ++ ":" ++ showVal v) ++ "}"
  | .struct _ _ fs => "(" ++ ";".intercalate (fs.map showVal) ++ ")"
  | .ptr _ none => "~"
  | .ptr _ (some v) => "&" ++ showVal v
  | .iface none => "~"
  | .iface (some v) => "!" ++ showType v.typeOf ++ "!" ++ showVal v

/-- `cachedTypeFields(t)` as the verif hook renders it -/
def showFields (fs : List Fld) : String :=
  if fs.isEmpty then "-" else
  ";".intercalate (fs.map fun f =>
    hexPlain f.name ++ ":" ++ ".".intercalate (f.index.map toString) ++ ":"
      ++ (if f.omitEmpty then "o" else "") ++ (if f.asList then "l" else "") ++ (if f.tagged then "t" else ""))

/-! ### the StringifiedMessage carrier -/

def noFloats : Model.SNBT.FloatOracle := { pf32 := fun _ => none, pf64 := fun _ => none }
def noFmt : Model.SNBT.FmtOracle := { ff32 := fun _ => [63], ff64 := fun _ => [63] }

def snbtCarrier : SnbtCarrier where
  tagType := fun text => match Model.SNBT.tagType noFloats text with
    | .ok t => t
    | _ => 0
  marshal := fun text => match Model.SNBT.marshal noFloats text with
    | .ok b => .ok b
    | .err => .err
    | .panic => .panic
    | .fuel => .err
  unmarshal := fun tag => Model.SNBT.unmarshalNBT noFmt tag

end Driver.GoText
