/-
  Driver for C04 (SNBT ⇄ NBT).  Two operations (see harness/c04.go):

    snbt.parse <text> <pf-oracle>              => ok tt=<n> bytes=<hex> | err tt=<n> | panic tt=<n> | hang tt=<n>
    snbt.rt <tag> <data> <ff-oracle> <pf-oracle> => ok n=<k> text=<hex> str=<same|invalid|hex> back=<ok|err|panic> tt=<n> [bytes=<hex>]
                                                  | err n=<k> str=<…> | panic | hang

  `strconv.ParseFloat/FormatFloat` are parameters of the model and of the spec reader; the harness prints their
  values for exactly the texts / bit patterns that occur (oracle tables in the line).
  Three-way comparison: implementation = model (string equality of the observation), and the implementation's
  observation is judged by the independent spec (`Spec/SNBT.lean` reader, `Spec/NBT.lean` reader and encoder).
-/
import Driver.Util
import GoMC.Model.SNBTParse
import GoMC.Model.SNBTWrite
import GoMC.Model.SNBTWriteFast
import GoMC.Spec.SNBT
namespace Driver.C04
open GoMC GoMC.Model.SNBT GoMC.Spec Driver

structure PfEntry where
  text : Bytes
  r32 : Option (BitVec 32)
  r64 : Option (BitVec 64)

def parsePfEntry (s : String) : Option PfEntry :=
  match s.splitOn ":" with
  | [t, a, b] =>
    match parseHex t with
    | none => none
    | some text =>
      let r32 := if a == "e" then none else (parseHexNat a).map (BitVec.ofNat 32)
      let r64 := if b == "e" then none else (parseHexNat b).map (BitVec.ofNat 64)
      some { text, r32, r64 }
  | _ => none

def parsePfTable (s : String) : List PfEntry :=
  if s == "-" then [] else (s.splitOn ",").filterMap parsePfEntry

def pfLookup (tab : List PfEntry) (t : Bytes) : Option PfEntry := tab.find? (fun e => e.text == t)

def mkFloatOracle (tab : List PfEntry) : FloatOracle :=
  { pf32 := fun t => (pfLookup tab t).bind (·.r32), pf64 := fun t => (pfLookup tab t).bind (·.r64) }

def mkFloatSem (tab : List PfEntry) : SNBT.FloatSem :=
  { f32 := fun t => (pfLookup tab t).bind (·.r32), f64 := fun t => (pfLookup tab t).bind (·.r64) }

/-- ff-oracle entries: `s<bits8>:<texthex>` / `d<bits16>:<texthex>` -/
def parseFfTable (s : String) : List (Bool × Nat × Bytes) :=
  if s == "-" then [] else
  (s.splitOn ",").filterMap fun e =>
    match e.splitOn ":" with
    | [k, t] =>
      let isD := k.startsWith "d"
      match parseHexNat (k.drop 1).toString, parseHex t with
      | some bits, some text => some (isD, bits, text)
      | _, _ => none
    | _ => none

def mkFmtOracle (tab : List (Bool × Nat × Bytes)) : FmtOracle :=
  { ff32 := fun b => match tab.find? (fun e => !e.1 && e.2.1 == b.toNat) with
      | some e => e.2.2 | none => [63]       -- '?': missing oracle entry
    ff64 := fun b => match tab.find? (fun e => e.1 && e.2.1 == b.toNat) with
      | some e => e.2.2 | none => [63] }

def ttString (fo : FloatOracle) (text : Bytes) : String :=
  match tagType fo text with
  | .ok t => s!"tt={t.toNat}"
  | _ => "tt=panic"

/-- model observation of MarshalNBT + TagType on a text -/
def parseObs (fo : FloatOracle) (text : Bytes) : String × String :=
  let tt := ttString fo text
  match marshal fo text with
  | .ok bs => ("ok", s!"{tt} bytes={hexOfBytes bs}")
  | .err => ("err", tt)
  | .panic => ("panic", tt)
  | .fuel => ("hang", tt)

/-- every string and every compound name is shorter than 2^15 bytes: what the library's own reader accepts
(`readString` takes the length as a signed int16); `C04_parse_wellformed` proves it of everything the parser model
writes (`S15`) -/
def s15ok : NBT → Bool
  | .string s => s.length < 32768
  | .list _ xs => s15List xs
  | .compound kvs => s15Kvs kvs
  | _ => true
where
  s15List : List NBT → Bool
    | [] => true
    | x :: xs => s15ok x && s15List xs
  s15Kvs : List (Bytes × NBT) → Bool
    | [] => true
    | (k, v) :: kvs => k.length < 32768 && s15ok v && s15Kvs kvs

/-- spec judgement of an observation of `snbt.parse` -/
def judgeParse (fs : SNBT.FloatSem) (text : Bytes) (obs : String) : Option String :=
  let toks := obs.splitOn " "
  let cls := toks.head!
  if cls == "panic" || cls == "hang" then some ("parser " ++ cls) else
  if (kv toks "tt") == some "panic" then some "TagType panicked" else
  if cls == "err" then none else
  if cls != "ok" then some "unparseable observation" else
  match (kv toks "tt").bind (·.toNat?), (kv toks "bytes").bind parseHex with
  | some tt, some bytes =>
    match SNBT.read fs text with
    | .malformed => some "malformed text accepted"
    | .ok t =>
      if bytes != encPayload t then some s!"content differs from the grammar's reading: expected {hexOfBytes (encPayload t)}"
      else if tt != t.tag.toNat then some s!"TagType {tt} but the document has tag {t.tag.toNat}"
      else if !s15ok t then some "accepted text produced a string or name over 32767 bytes: a document the library cannot read back"
      else none
    | .unspecified =>
      -- only well-formedness of the produced document under the announced tag
      match parsePayload (bytes.length + 2) (BitVec.ofNat 8 tt) bytes with
      | some (t', []) =>
        if s15ok t' then none
        else some "accepted text produced a string or name over 32767 bytes: a document the library cannot read back"
      | _ => some s!"accepted text produced an ill-formed document for tag {tt}"
  | _, _ => some "unparseable observation"

def handleParse (textHex pfor obs : String) : Verdict :=
  match parseHex textHex with
  | none => { model := "bad-arg" }
  | some text =>
    let tab := parsePfTable pfor
    let (cls, rest) := parseObs (mkFloatOracle tab) text
    { model := cls ++ " " ++ rest, spec := judgeParse (mkFloatSem tab) text obs }

def finite32 (b : BitVec 32) : Bool := (b.toNat / 2 ^ 23) % 256 != 255
def finite64 (b : BitVec 64) : Bool := (b.toNat / 2 ^ 52) % 2048 != 2047

def allFinite : NBT → Bool
  | .float b => finite32 b
  | .double b => finite64 b
  | .list _ xs => finList xs
  | .compound kvs => finKvs kvs
  | _ => true
where
  finList : List NBT → Bool
    | [] => true
    | x :: xs => allFinite x && finList xs
  finKvs : List (Bytes × NBT) → Bool
    | [] => true
    | (_, v) :: kvs => allFinite v && finKvs kvs

/-- drop the ` n=<k>` token of an `err` observation (bytes consumed before a failure are not compared) -/
def normErr (obs : String) : String :=
  if obs.startsWith "err" then " ".intercalate ((obs.splitOn " ").filter fun t => !t.startsWith "n=") else obs

def handleRt (tagHex dataHex ffor pfor obs : String) : Verdict :=
  match parseHexNat tagHex, parseHex dataHex with
  | some tagN, some data =>
    let tag : Byte := BitVec.ofNat 8 tagN
    let fmt := mkFmtOracle (parseFfTable ffor)
    let tab := parsePfTable pfor
    let fo := mkFloatOracle tab
    -- `unmarshalNBTB` / `rawStringB` are the model's `unmarshalNBT` / `rawString` on an in-memory source
    -- (`C04_driver_walker` in Props/C04.lean), written so that large documents take linear time
    let (r, rest') := unmarshalNBTB fmt tag data
    let n := data.length - rest'.length
    let strOf (okText : Option Bytes) : String :=
      match rawStringB fmt tag data with
      | .ok (some t) => if okText == some t then "same" else hexOfBytes t
      | .ok none => "invalid"
      | _ => "panic"
    let model : String :=
      match r with
      | .panic => "panic"
      | .err => s!"err str={strOf none}"
      | .ok text =>
        let (cls, rest) := parseObs fo text
        s!"ok n={n} text={hexOfBytes text} str={strOf (some text)} back={cls} {rest}"
    -- spec
    let toks := obs.splitOn " "
    let cls := toks.head!
    let spec : Option String :=
      if cls == "panic" || cls == "hang" then some ("walker " ++ cls) else
      match (if tag == 0 then none else parsePayload (data.length + 2) tag data) with
      | none => if cls == "err" then none else some "not a well-formed payload (negative length, unknown tag or truncated) but no error"
      | some (t, rest) =>
        if cls != "ok" then some "a well-formed document was refused" else
        let k := data.length - rest.length
        if (kv toks "n") != some (toString k) then some s!"consumed {(kv toks "n").getD "?"} bytes, the document has {k}"
        else if (kv toks "str") != some "same" then some "RawMessage.String() differs from UnmarshalNBT"
        else if !allFinite t then
          (if (kv toks "back") == some "panic" then some "parser panicked on the writer's text" else none)
        else
          let doc := encPayload (SNBT.canon t)    -- an empty list's element type has no text form
          if (kv toks "back") != some "ok" then some "the writer's text is refused by the parser"
          else if (kv toks "bytes").bind parseHex != some doc then some "round trip changed the document"
          else if (kv toks "tt") != some (toString tag.toNat) then some "TagType of the writer's text differs from the tag"
          else
            -- the writer's text read by the grammar gives the same tree
            match (kv toks "text").bind parseHex with
            | none => some "unparseable observation"
            | some text =>
              match SNBT.read (mkFloatSem tab) text with
              | .ok t' => if encPayload t' == doc && t'.tag == tag then none
                          else some "the grammar's reading of the writer's text is another document"
              | .malformed => some "the writer's text is not in the grammar"
              | .unspecified => some "the writer's text uses a form the grammar leaves unspecified"
    { model, spec := spec }
  | _, _ => { model := "bad-arg" }

def handle (op : String) (args : List String) (obs : String) : Option Verdict :=
  match op, args with
  | "snbt.parse", [t, pf] => some (handleParse t pf obs)
  | "snbt.rt", [tag, d, ff, pf] =>
    let v := handleRt tag d ff pf obs
    -- an `err` observation is compared without its byte count
    some { v with model := if normErr obs == v.model then obs else v.model }
  | "snbt.conc", _ =>
    -- no model: the model's functions are pure, a pure function has no schedule; the oracle compares the
    -- conversions made side by side on several goroutines with the sequential baseline of the same run
    let toks := obs.splitOn " "
    let spec : Option String :=
      if toks.head! != "ok" then some "unparseable observation"
      else if (kv toks "seq") == none || (kv toks "seq") != (kv toks "conc") then
        some "concurrent conversions differ from the sequential baseline (digest)"
      else if (kv toks "bad") != some "0" then some "concurrent conversions differ from the sequential baseline"
      else none
    some { model := obs, spec := spec }
  | _, _ => none

end Driver.C04
