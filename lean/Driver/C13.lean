import Driver.Util
import GoMC.Model.Chunk
import GoMC.Spec.Chunk
import GoMC.Spec.NBT
import GoMC.Spec.Packing
namespace Driver.C13
open GoMC GoMC.Spec GoMC.Spec.Chunk Driver

/-! ## line formats (STAGE 1 — see props/C13.json: the wire-level model comparison arrives in stage 2)

All arguments are `key=value` tokens.  Histories (`hist=`, `dhist=`) are comma separated, fields colon separated:
  `sb:s:i:v` `fb:s:start:cnt:v0:step` `bi:s:i:v` `fbi:s:start:cnt:v0:step` `hm:k:i:v` `fhm:k:start:cnt:v0:step`
  `sl:s:len:a:m` `bl:s:len:a:m` `be:<xz hex2>:y:type:tag:<payload hex>` `st:<hex>`      (`-` = empty history)

`chunk.wire secs= dmode=<empty|hist|wire|self> extra=<hex> reg= nb= air=<id.id.id> hist= dhist=`
   `=> ok n= len= rn= left= W=<sec/sec/…> Wmb= Wws= R=<sec/sec/…> Rmb= Rws= E=<ent;ent;…>`
   section = `count.nonair.statesDigest.biomesDigest`; W = the source before writing, R = the destination after reading.
`chunk.save secs= ypos= via=<mem|nbt> reg= nb= air= hist=`
   `=> ok W=<sec…> Y=<y.y.…> SH=<six raw-long digests> Sst=<hex> R=<sec…> RH=<six> Rst=<hex>`
   W section = `count.nonair.statesDigest.biomesDigest.statesBits.biomesBits`, R section = `count.nonair.sd.bd.sky.blk`.
`light.rt used= extra= sky=<hex longs> blk= sl=<len:a:m;…> bl=` `=> ok n= len= rn= left= sky= blk= sl= bl=`
`save.hm secs= k= longs= => ok | err`   (ChunkFromSave of an empty chunk whose height map k has that many longs; -1 = key absent)
`be.pack <x> <z> => ok <hex2> | no <hex2>`        `be.unpack <hex2> => <x> <z>`
`registry.bijection n=` / `registry.viasave n=` / `registry.biomes n=`  `=> ok | fail …`
`chunk.rd secs= used= <hex>` `section.rd used= <hex>` `be.rd used= <hex>` `light.rd used= <hex>`
   `=> ok left=<k> | err | panic at=<dir/file> | hang`

In stage 1 the driver's "model" of the two round trips is the array semantics of `Spec/Chunk.lean` applied to the
history (what was written = what must be read back); the byte counts `n`/`len`/`rn` are taken from the observation
and only checked for consistency (`n = len = rn`, `left = |extra|`).
-/

def parseNat (s : String) : Option Nat := s.toNat?

def parseByteHex (s : String) : Option Nat :=
  if s.length == 2 then parseHexNat s else none

def parseOp (s : String) : Option Op :=
  match s.splitOn ":" with
  | ["sb", a, b, c] => do pure (Op.sb (← a.toNat?) (← b.toNat?) (← c.toNat?))
  | ["fb", a, b, c, d, e] => do pure (Op.fb (← a.toNat?) (← b.toNat?) (← c.toNat?) (← d.toNat?) (← e.toNat?))
  | ["bi", a, b, c] => do pure (Op.bi (← a.toNat?) (← b.toNat?) (← c.toNat?))
  | ["fbi", a, b, c, d, e] => do pure (Op.fbi (← a.toNat?) (← b.toNat?) (← c.toNat?) (← d.toNat?) (← e.toNat?))
  | ["hm", a, b, c] => do pure (Op.hm (← a.toNat?) (← b.toNat?) (← c.toNat?))
  | ["fhm", a, b, c, d, e] => do pure (Op.fhm (← a.toNat?) (← b.toNat?) (← c.toNat?) (← d.toNat?) (← e.toNat?))
  | ["sl", a, b, c, d] => do pure (Op.sl (← a.toNat?) (← b.toInt?) (← c.toNat?) (← d.toNat?))
  | ["bl", a, b, c, d] => do pure (Op.bl (← a.toNat?) (← b.toInt?) (← c.toNat?) (← d.toNat?))
  | ["be", xz, y, t, tag, h] => do
    pure (Op.be { xz := ← parseByteHex xz, y := ← y.toInt?, typ := ← t.toInt?, tag := ← tag.toNat?, data := ← parseHex h })
  | ["st", h] => (parseHex h).map Op.st
  | _ => none

def parseHist (s : String) : Option (List Op) :=
  if s == "-" || s == "" then some [] else (s.splitOn ",").mapM parseOp

def parseAir (s : String) : Option (List Nat) :=
  if s == "-" || s == "" then some [] else (s.splitOn ".").mapM String.toNat?

/-- the block-entity NBT must be something the format can carry: no data (tag 0, empty payload) or a payload that
the independent NBT reader accepts completely -/
def entOk (e : Ent) : Bool :=
  if e.tag == 0 then e.data.isEmpty
  else match GoMC.Spec.parsePayload (e.data.length + 2) (BitVec.ofNat 8 e.tag) e.data with
    | some (_, []) => true
    | _ => false

def entInRange (e : Ent) : Bool :=
  decide (-32768 ≤ e.y) && decide (e.y ≤ 32767) && decide (-2147483648 ≤ e.typ) && decide (e.typ ≤ 2147483647) && e.xz < 256

def entObs (e : Ent) : String :=
  s!"{hexOfNat 2 e.xz}.{e.y}.{e.typ}.{e.tag}.{hexOfBytes e.data}"

def entsObs (es : Array Ent) : String :=
  if es.isEmpty then "-" else ";".intercalate (es.toList.map entObs)

def secBase (air : List Nat) (s : Sec) : String :=
  let n := nonAirCount air s.states
  s!"{n}.{n}.{digestNats s.states}.{digestNats s.biomes}"

def joinSecs (xs : List String) : String := if xs.isEmpty then "-" else "/".intercalate xs

def hmAll (c : Chunk) : String :=
  ".".intercalate ((List.range 6).map fun k => digestLongs (hmRaw c k))

/-- first token on which two space-separated observations differ -/
def firstDiff (want got : String) : String :=
  let rec go : List String → List String → String
    | w :: ws, g :: gs => if w == g then go ws gs else s!"expected {w.take 120} got {g.take 120}"
    | w :: _, [] => s!"missing {w.take 60}"
    | [], g :: _ => s!"unexpected {g.take 60}"
    | [], [] => "?"
  go (want.splitOn " ") (got.splitOn " ")

structure Common where
  env : Env
  air : List Nat
  secs : Nat
  src : Chunk

def common (args : List String) : Option Common := do
  let secs ← (← kv args "secs").toNat?
  let reg ← (← kv args "reg").toNat?
  let nb ← (← kv args "nb").toNat?
  let air ← parseAir (← kv args "air")
  let hist ← parseHist (← kv args "hist")
  let env : Env := { reg, nb }
  let src ← run env (empty secs) hist
  if src.ents.all (fun e => entOk e && entInRange e) then pure { env, air, secs, src } else none

/-! ### chunk.wire -/

def wireV (args : List String) (obs : String) : Verdict :=
  match common args, (kv args "extra").bind parseHex, (kv args "dhist").bind parseHist with
  | some cm, some extra, some _dhist =>
    let toks := obs.splitOn " "
    -- the number of bytes written cannot be recomputed without the palette model (stage 2): take the observed one
    let nObs := (kv toks "len").getD "?"
    let w := joinSecs (cm.src.secs.toList.map (secBase cm.air))
    let mb := digestLongs (hmRaw cm.src 4)
    let ws := digestLongs (hmRaw cm.src 1)
    let want := s!"ok n={nObs} len={nObs} rn={nObs} left={extra.length} W={w} Wmb={mb} Wws={ws} R={w} Rmb={mb} Rws={ws} E={entsObs cm.src.ents}"
    { model := want, spec := if obs == want then none else some ("wire round trip: " ++ firstDiff want obs) }
  | _, _, _ => { model := "bad-arg" }

/-! ### chunk.save -/

def toInt8 (v : Int) : Int := (v + 128) % 256 - 128

/-- the width inference of the save loader is sound for width `b` and `n` entries iff `⌊64/(b+1)⌋·size b n < n`
(theorem `C11_size_rules`); zero bits carries no data and is always read right -/
def widthUnsound (b n : Nat) : Bool := b != 0 && !decide ((64 / (b + 1)) * size b n < n)

/-- storage width of a container whose wire form announces `b` bits per entry (protocol description of the paletted
container: blocks 0 / 1–4 → 4 / 5–8 / direct; biomes 0 / 1–3 / direct; direct = bits needed for the registry) -/
def storageBits (biomes : Bool) (registry b : Nat) : Nat :=
  if b == 0 then 0
  else if biomes then (if b ≤ 3 then b else bitLen registry)
  else if b ≤ 4 then 4 else if b ≤ 8 then b else bitLen registry

def saveMarker : String := "C13.save-width-from-data-length"

def saveV (args : List String) (obs : String) : Verdict :=
  match common args, (kv args "ypos").bind String.toInt? with
  | some cm, some ypos =>
    let toks := obs.splitOn " "
    let c := cm.src
    -- container widths as the implementation reports them (first byte of each container's wire form)
    let wObs : List (List String) := ((kv toks "W").getD "").splitOn "/" |>.map (·.splitOn ".")
    let bitsOf (i k : Nat) : Nat := (((wObs.getD i []).getD k "0").toNat?).getD 0
    let wWant := joinSecs ((List.range c.secs.size).map fun i =>
      s!"{secBase cm.air (c.secs.getD i default)}.{bitsOf i 4}.{bitsOf i 5}")
    let yWant := if c.secs.isEmpty then "-" else ".".intercalate ((List.range c.secs.size).map fun (i : Nat) => toString (toInt8 (ypos + (i : Int))))
    let sh := hmAll c
    let sst := hexOfBytes c.status
    let head := s!"W={wWant} Y={yWant} SH={sh} Sst={sst}"
    let unsS (i : Nat) : Bool := widthUnsound (storageBits false cm.env.reg (bitsOf i 4)) 4096
    let unsB (i : Nat) : Bool := widthUnsound (storageBits true cm.env.nb (bitsOf i 5)) 64
    let anyUnsS := (List.range c.secs.size).any unsS
    if obs.startsWith "panic" then
      -- a misread direct palette yields ids outside the registry; counting the non-air blocks then indexes out of range
      let want := s!"panic_at=block/utilfuncs.go@fromsave {head}"
      if anyUnsS then
        { model := want, spec := some "ChunkFromSave panicked on a chunk written by ChunkToSave", markers := [saveMarker] }
      else { model := s!"ok {head} …", spec := some "ChunkFromSave panicked on a chunk written by ChunkToSave" }
    else
      let rObs : List (List String) := ((kv toks "R").getD "").splitOn "/" |>.map (·.splitOn ".")
      let fld (i k : Nat) : String := (rObs.getD i []).getD k "?"
      let secWant (i : Nat) : List String :=
        let s := c.secs.getD i default
        let n := toString (nonAirCount cm.air s.states)
        [n, n, digestNats s.states, digestNats s.biomes, digestBytes s.sky, digestBytes s.blk]
      -- fields the known width defect may have changed are taken from the observation; everything else is demanded
      let excused (i k : Nat) : Bool := (unsS i && k ≤ 2) || (unsB i && k == 3)
      let secModel (i : Nat) : String :=
        ".".intercalate ((List.range 6).map fun k => if excused i k then fld i k else (secWant i).getD k "?")
      let hit := (List.range c.secs.size).any fun i => (List.range 6).any fun k => excused i k && fld i k != (secWant i).getD k "?"
      let rModel := joinSecs ((List.range c.secs.size).map secModel)
      let rWant := joinSecs ((List.range c.secs.size).map fun i => ".".intercalate (secWant i))
      let model := s!"ok {head} R={rModel} RH={sh} Rst={sst}"
      let want := s!"ok {head} R={rWant} RH={sh} Rst={sst}"
      if obs == want then { model := want }
      else if hit then { model, spec := some ("save round trip: " ++ firstDiff want obs), markers := [saveMarker] }
      else { model := want, spec := some ("save round trip: " ++ firstDiff want obs) }
  | _, _ => { model := "bad-arg" }

/-! ### save.hm: a saved height map of the wrong length is an error, never a panic -/

def saveHmV (args : List String) (obs : String) : Verdict :=
  match (kv args "secs").bind String.toNat?, (kv args "longs").bind String.toInt? with
  | some secs, some longs =>
    let want := if longs < 0 || longs == (size (hmBits secs) 256 : Int) then "ok" else "err"
    { model := want, spec := if obs == want then none else some s!"ChunkFromSave with a height map of {longs} longs: expected {want}" }
  | _, _ => { model := "bad-arg" }

/-! ### light.rt -/

def arraysObs (s : String) : Option String :=
  if s == "-" || s == "" then some "-" else do
    let parts ← (s.splitOn ";").mapM fun p =>
      match p.splitOn ":" with
      | [l, a, m] => do
        let l ← l.toInt?; let a ← a.toNat?; let m ← m.toNat?
        pure (if l ≤ 0 then "0" else digestBytes (lightBytes l a m))
      | _ => none
    pure (";".intercalate parts)

def lightV (args : List String) (obs : String) : Verdict :=
  match (kv args "extra").bind parseHex, kv args "sky", kv args "blk", (kv args "sl").bind arraysObs, (kv args "bl").bind arraysObs with
  | some extra, some sky, some blk, some sl, some bl =>
    let toks := obs.splitOn " "
    let nObs := (kv toks "len").getD "?"
    let want := s!"ok n={nObs} len={nObs} rn={nObs} left={extra.length} sky={sky} blk={blk} sl={sl} bl={bl}"
    { model := want, spec := if obs == want then none else some ("light block round trip: " ++ firstDiff want obs) }
  | _, _, _, _, _ => { model := "bad-arg" }

/-! ### PackXZ / UnpackXZ -/

def packV (xS zS obs : String) : Verdict :=
  match xS.toInt?, zS.toInt? with
  | some x, some z =>
    let r := Model.Chunk.packXZ 0xa5#8 (BitVec.ofInt 64 x) (BitVec.ofInt 64 z)
    let model := (if r.1 then "ok " else "no ") ++ hexOfNat 2 r.2.toNat
    -- the property: coordinates 0..15 pack to 16·X + Z, anything else is refused and nothing is stored
    let want := if 0 ≤ x && x ≤ 15 && 0 ≤ z && z ≤ 15 then "ok " ++ hexOfNat 2 (16 * x.toNat + z.toNat) else "no a5"
    { model, spec := if obs == want then none else some s!"PackXZ({x},{z}): expected {want}" }
  | _, _ => { model := "bad-arg" }

def unpackV (h obs : String) : Verdict :=
  match parseByteHex h with
  | some v =>
    let r := Model.Chunk.unpackXZ (BitVec.ofNat 8 v)
    let model := s!"{r.1.toNat} {r.2.toNat}"
    let want := s!"{v / 16} {v % 16}"
    { model, spec := if obs == want then none else some s!"UnpackXZ: expected {want}" }
  | none => { model := "bad-arg" }

/-! ### malformed input: outcome class only (the clause is C08's; the stream lives here) -/

def rdV (obs : String) : Verdict :=
  if obs == "err" || obs.startsWith "ok left=" then { model := obs }
  else if obs.startsWith "panic at=nbt/" then
    { model := obs, spec := some "panic on peer-controlled input inside package nbt", markers := ["C13.panic-in-nbt-decoder"] }
  else if obs == "panic at=level/palette.go" then
    { model := obs, spec := some "panic on peer-controlled input inside level/palette.go", markers := ["C13.panic-in-palette-reader"] }
  else { model := "ok|err", spec := some ("a decoder of level/chunk.go must return on peer-controlled input: " ++ obs.take 60) }

def okV (what obs : String) : Verdict :=
  { model := "ok", spec := if obs == "ok" then none else some (what ++ ": " ++ obs.take 120) }

def handle (op : String) (args : List String) (obs : String) : Option Verdict :=
  match op, args with
  | "chunk.wire", _ => some (wireV args obs)
  | "chunk.save", _ => some (saveV args obs)
  | "light.rt", _ => some (lightV args obs)
  | "save.hm", _ => some (saveHmV args obs)
  | "be.pack", [x, z] => some (packV x z obs)
  | "be.unpack", [h] => some (unpackV h obs)
  | "registry.bijection", _ => some (okV "block-state <-> (name, properties) is not a bijection over the registry" obs)
  | "registry.viasave", _ => some (okV "a registry state does not survive ChunkToSave/ChunkFromSave" obs)
  | "registry.biomes", _ => some (okV "biome id <-> name is not a bijection" obs)
  | "chunk.rd", _ => some (rdV obs)
  | "section.rd", _ => some (rdV obs)
  | "be.rd", _ => some (rdV obs)
  | "light.rd", _ => some (rdV obs)
  | _, _ => none

end Driver.C13
