import Driver.Util
import GoMC.Model.Chunk
import GoMC.Model.ChunkWire
import GoMC.Model.ChunkSave
import GoMC.Spec.Chunk
import GoMC.Spec.NBT
import GoMC.Spec.Packing
namespace Driver.C13
open GoMC GoMC.Spec GoMC.Spec.Chunk Driver

/-! ## line formats

All arguments are `key=value` tokens.  Histories (`hist=`, `dhist=`) are comma separated, fields colon separated:
  `sb:s:i:v` `fb:s:start:cnt:v0:step` `bi:s:i:v` `fbi:s:start:cnt:v0:step` `hm:k:i:v` `fhm:k:start:cnt:v0:step`
  `sl:s:len:a:m` `bl:s:len:a:m` `be:<xz hex2>:y:type:tag:<payload hex>` `st:<hex>`      (`-` = empty history)

`chunk.wire secs= dmode=<empty|hist|wire|self> extra=<hex> reg= nb= air=<id.id.id> hist= dhist=`
   `=> ok n= len= wd=<digest of the bytes written> rn= left= W=<sec/sec/…> Wmb= Wws= R=<sec/sec/…> Rmb= Rws= E=<ent;ent;…>`
   section = `count.nonair.statesDigest.biomesDigest`; W = the source before writing, R = the destination after reading.
`chunk.save secs= ypos= via=<mem|nbt> psecs=<n|-> phist=<history> reg= nb= air= hist=`   (psecs/phist: the destination `save.Chunk` was filled before by that chunk)
   `=> ok W=<sec…> Y=<y.y.…> SP=<per section: |states palette|.digest(data).|biomes palette|.digest(data)> SH=<six raw-long digests> Sst=<hex> R=<sec…> RH=<six> Rst=<hex>`
   W section = `count.nonair.statesDigest.biomesDigest.statesBits.biomesBits`, R section = `count.nonair.sd.bd.sky.blk`.
`chunk.life secs= ypos= mdl= from=<hist|hand> hist= rounds= | S=<sections> post=` `=> ok L= P= n= len= wd= rn= left= Q= T=`
   (a chunk loaded from the save form — the library's own, once or twice, or a hand-built one with one-entry palettes
   and no data —, its sections L, after the `post` history P, read back from the wire Q, saved and loaded again T)
`chunk.reread secs= reads=<k> mdl= h1= … hk= post=` `=> ok R= P= n= len= wd= rn= left= Q=`
   (the same destination receives k chunks one after the other; R: its sections after the last read; P: after the `post`
   edits; Q: written and read into a fresh chunk)
`light.rt used= extra= sky=<hex longs> blk= sl=<len:a:m;…> bl=` `=> ok n= len= rn= left= sky= blk= sl= bl=`
`save.hm secs= k= longs= => ok | err`   (ChunkFromSave of an empty chunk whose height map k has that many longs; -1 = key absent)
`be.pack <x> <z> => ok <hex2> | no <hex2>`        `be.unpack <hex2> => <x> <z>`
`registry.bijection n=` / `registry.viasave n=` / `registry.biomes n=`  `=> ok | fail …`
`chunk.rd secs= used= <hex>` `section.rd used= <hex>` `be.rd used= <hex>` `light.rd used= <hex>`
   `=> ok left=<k> | err | panic at=<dir/file> | hang`

MODEL side: the history is replayed on the byte-level model (`Model/ChunkWire.lean` on top of the palette container,
BitStorage, field and NBT models): `EmptyChunk`, `SetBlock`, `Set`, `WriteTo` produce the wire bytes, `ReadFrom` runs on
them in the destination the line names, and the observation is printed from the model's state.
SPEC side (independent of the model): the array semantics of `Spec/Chunk.lean` folded over the history — what was
written must be read back, `n = len = rn`, `left = |extra|`.
-/

def parseNat (s : String) : Option Nat := s.toNat?

def parseByteHex (s : String) : Option Nat :=
  if s.length == 2 then parseHexNat s else none

def parseOp (s : String) : Option Op :=
  match s.splitOn ":" with
  | ["sb", a, b, c] => do pure (Op.sb (← a.toNat?) (← b.toNat?) (← c.toNat?))
  | ["fb", a, b, c, d, e] => do pure (Op.fb (← a.toNat?) (← b.toNat?) (← c.toNat?) (← d.toNat?) (← e.toNat?))
  | ["bi", a, b, c] => do pure (Op.bi (← a.toNat?) (← b.toNat?) (← c.toNat?))
  | ["fbi", a, b, c, d, e] => do pure (Op.fbi (← a.toNat?) (← b.toNat?) (← c.toNat?) (← d.toNat?) (← e.toNat?))
  | ["hm", a, b, c] => do pure (Op.hm (← a.toNat?) (← b.toNat?) (← c.toNat?))
  | ["fhm", a, b, c, d, e] => do pure (Op.fhm (← a.toNat?) (← b.toNat?) (← c.toNat?) (← d.toNat?) (← e.toNat?))
  | ["sl", a, b, c, d] => do pure (Op.sl (← a.toNat?) (← b.toInt?) (← c.toNat?) (← d.toNat?))
  | ["bl", a, b, c, d] => do pure (Op.bl (← a.toNat?) (← b.toInt?) (← c.toNat?) (← d.toNat?))
  | ["be", xz, y, t, tag, h] => do
    pure (Op.be { xz := ← parseByteHex xz, y := ← y.toInt?, typ := ← t.toInt?, tag := ← tag.toNat?, data := ← parseHex h })
  | ["st", h] => (parseHex h).map Op.st
  | _ => none

def parseHist (s : String) : Option (List Op) :=
  if s == "-" || s == "" then some [] else (s.splitOn ",").mapM parseOp

def parseAir (s : String) : Option (List Nat) :=
  if s == "-" || s == "" then some [] else (s.splitOn ".").mapM String.toNat?

/-- the block-entity NBT must be something the format can carry: no data (tag 0, empty payload) or a payload that
the independent NBT reader accepts completely -/
def entOk (e : Ent) : Bool :=
  if e.tag == 0 then e.data.isEmpty
  else match GoMC.Spec.parsePayload (e.data.length + 2) (BitVec.ofNat 8 e.tag) e.data with
    | some (_, []) => true
    | _ => false

def entInRange (e : Ent) : Bool :=
  decide (-32768 ≤ e.y) && decide (e.y ≤ 32767) && decide (-2147483648 ≤ e.typ) && decide (e.typ ≤ 2147483647) && e.xz < 256

def entObs (e : Ent) : String :=
  s!"{hexOfNat 2 e.xz}.{e.y}.{e.typ}.{e.tag}.{hexOfBytes e.data}"

def entsObs (es : Array Ent) : String :=
  if es.isEmpty then "-" else ";".intercalate (es.toList.map entObs)

def secBase (air : List Nat) (s : Sec) : String :=
  let n := nonAirCount air s.states
  s!"{n}.{n}.{digestNats s.states}.{digestNats s.biomes}"

def joinSecs (xs : List String) : String := if xs.isEmpty then "-" else "/".intercalate xs

def hmAll (c : Chunk) : String :=
  ".".intercalate ((List.range 6).map fun k => digestLongs (hmRaw c k))

/-- first token on which two space-separated observations differ -/
def firstDiff (want got : String) : String :=
  let rec go : List String → List String → String
    | w :: ws, g :: gs => if w == g then go ws gs else s!"expected {w.take 120} got {g.take 120}"
    | w :: _, [] => s!"missing {w.take 60}"
    | [], g :: _ => s!"unexpected {g.take 60}"
    | [], [] => "?"
  go (want.splitOn " ") (got.splitOn " ")

structure Common where
  env : Env
  air : List Nat
  secs : Nat
  src : Chunk

def common (args : List String) : Option Common := do
  let secs ← (← kv args "secs").toNat?
  let reg ← (← kv args "reg").toNat?
  let nb ← (← kv args "nb").toNat?
  let air ← parseAir (← kv args "air")
  let hist ← parseHist (← kv args "hist")
  let env : Env := { reg, nb }
  let src ← run env (empty secs) hist
  if src.ents.all (fun e => entOk e && entInRange e) then pure { env, air, secs, src } else none

/-! ### the model side: histories replayed on the byte-level model -/

namespace M
open GoMC.Model GoMC.Model.Chunk

abbrev MChunk := GoMC.Model.Chunk.Chunk

structure Ctx where
  gbS : Int
  gbB : Int
  reg : Nat
  nb : Nat
  air : List Nat

def Ctx.isAir (x : Ctx) (v : Int) : Bool := x.air.contains v.toNat

def modSec (c : MChunk) (i : Nat) (f : WSec → Res WSec) : Res MChunk :=
  match c.secs[i]? with
  | some s => match f s with
    | .ok s' => .ok { c with secs := c.secs.set i s' }
    | .err => .err
    | .panic => .panic
  | none => .panic

def loopM {α} (n : Nat) (f : Nat → α → Res α) (a : α) : Res α :=
  (List.range n).foldl (fun acc k => match acc with | .ok x => f k x | e => e) (.ok a)

def getHM (h : HeightMaps) : Nat → BitStorage
  | 0 => h.worldSurfaceWG | 1 => h.worldSurface | 2 => h.oceanFloorWG | 3 => h.oceanFloor
  | 4 => h.motionBlocking | _ => h.motionBlockingNoLeaves
def setHM (h : HeightMaps) (k : Nat) (b : BitStorage) : HeightMaps :=
  match k with
  | 0 => { h with worldSurfaceWG := b } | 1 => { h with worldSurface := b } | 2 => { h with oceanFloorWG := b }
  | 3 => { h with oceanFloor := b } | 4 => { h with motionBlocking := b } | _ => { h with motionBlockingNoLeaves := b }

def lightOpt (len : Int) (a m : Nat) : Option Bytes :=
  if len < 0 then none else some ((List.range len.toNat).map fun k => BitVec.ofNat 8 (a + k * m))

def setBlock (x : Ctx) (s : WSec) (i v : Nat) : Res WSec :=
  match s.setBlock x.isAir (i : Int) (v : Int) with
  | (.ok _, s') => .ok s'
  | _ => .panic

def setBiome (s : WSec) (i v : Nat) : Res WSec :=
  match s.biomes.set (i : Int) (v : Int) with
  | (.ok _, b) => .ok { s with biomes := b }
  | _ => .panic

def setHeight (c : MChunk) (k i v : Nat) : Res MChunk :=
  match (getHM c.hm k).set (i : Int) (v : Int) with
  | (.ok _, b) => .ok { c with hm := setHM c.hm k b }
  | _ => .panic

def entRep (e : Spec.Chunk.Ent) : EntRep :=
  (BitVec.ofNat 8 e.xz, BitVec.ofInt 16 e.y, BitVec.ofInt 32 e.typ, ⟨BitVec.ofNat 8 e.tag, e.data⟩)

def apply (x : Ctx) (c : MChunk) : Op → Res MChunk
  | .sb s i v => modSec c s fun sec => setBlock x sec i v
  | .fb s start cnt v0 step => modSec c s fun sec =>
      loopM cnt (fun k sec => setBlock x sec ((start + k) % 4096) ((v0 + k * step) % x.reg)) sec
  | .bi s i v => modSec c s fun sec => setBiome sec i v
  | .fbi s start cnt v0 step => modSec c s fun sec =>
      loopM cnt (fun k sec => setBiome sec ((start + k) % 64) ((v0 + k * step) % x.nb)) sec
  | .hm k i v => setHeight c k i v
  | .fhm k start cnt v0 step =>
      loopM cnt (fun j c => setHeight c k ((start + j) % 256) ((v0 + j * step) % 2 ^ (hmBitsOf c.secs.length).toNat)) c
  | .sl s len a m => modSec c s fun sec => .ok { sec with sky := lightOpt len a m }
  | .bl s len a m => modSec c s fun sec => .ok { sec with blk := lightOpt len a m }
  | .be e => .ok { c with ents := { elems := c.ents.elems ++ [entRep e], spare := [] } }
  | .st st => .ok { c with status := st }

def run (x : Ctx) (c : MChunk) (ops : List Op) : Res MChunk :=
  ops.foldl (fun acc op => match acc with | .ok c => apply x c op | e => e) (.ok c)

def build (x : Ctx) (secs : Nat) (ops : List Op) : Res MChunk :=
  match emptyChunk x.gbS x.gbB secs with
  | .ok c => run x c ops
  | _ => .panic

/-- every position of a container as `Get` reports it (`none`: some `Get` panics) -/
def allOf (c : PCont) (n : Nat) : Option (List Int) :=
  let slow : Option (List Int) := (List.range n).mapM fun (k : Nat) =>
    match c.get (k : Int) with
    | .ok v => some v
    | _ => none
  match c.pal with
  | .single v => if c.data.vpl = 0 then some (List.replicate n v) else slow
  | _ => slow

def digestInts (xs : List Int) : String :=
  hex16 (xs.foldl (fun h v => fnvStep h (UInt64.ofNat (v % 18446744073709551616).toNat)) fnvOff)

def secObs (x : Ctx) (s : WSec) (bits light : Bool) : Option String := do
  let st ← allOf s.states 4096
  let bi ← allOf s.biomes 64
  let nonAir := (st.filter fun v => !x.isAir v).length
  let base := s!"{s.count.toInt}.{nonAir}.{digestInts st}.{digestInts bi}"
  let base := if bits then
      s!"{base}.{(BitVec.ofInt 8 s.states.bits).toNat}.{(BitVec.ofInt 8 s.biomes.bits).toNat}" else base
  let lightObs (o : Option Bytes) : String := match o with
    | none => "-"
    | some bs => digestBytes (bs.toArray.map BitVec.toNat)
  pure (if light then s!"{base}.{lightObs s.sky}.{lightObs s.blk}" else base)

def secsObs (x : Ctx) (c : MChunk) (bits light : Bool) : Option String := do
  let parts ← c.secs.mapM fun s => secObs x s bits light
  pure (if parts.isEmpty then "-" else "/".intercalate parts)

def entsObs (es : Slice EntRep) : String :=
  if es.elems.isEmpty then "-" else
  ";".intercalate (es.elems.map fun e =>
    s!"{hexOfNat 2 e.1.toNat}.{e.2.1.toInt}.{e.2.2.1.toInt}.{e.2.2.2.tag.toNat}.{hexOfBytes e.2.2.2.data}")

def ctxOf (args : List String) : Option Ctx := do
  let reg ← (← kv args "reg").toNat?
  let nb ← (← kv args "nb").toNat?
  let air ← if (kv args "air").isSome then parseAir ((kv args "air").getD "-") else some []
  pure { gbS := (GoMC.Model.bitLen reg : Nat), gbB := (GoMC.Model.bitLen nb : Nat), reg, nb, air }

/-- the model's observation for a `chunk.wire` line -/
def wire (args : List String) : Option String := do
  let x ← ctxOf args
  let secs ← (← kv args "secs").toNat?
  let hist ← parseHist (← kv args "hist")
  let dhist ← parseHist ((kv args "dhist").getD "-")
  let extra ← parseHex (← kv args "extra")
  let dmode ← kv args "dmode"
  match build x secs hist with
  | .ok src =>
    let w := src.writeTo x.gbS x.gbB
    let dst0 : Option (Res MChunk) :=
      if dmode == "empty" then some (build x secs [])
      else if dmode == "hist" then some (build x secs dhist)
      else if dmode == "self" then some (.ok src)
      else if dmode == "wire" then
        match build x secs [], build x secs dhist with
        | .ok d, .ok other =>
          match Model.Chunk.Chunk.readFrom x.gbS x.gbB d (Stream.ofBytes (other.writeTo x.gbS x.gbB).1) with
          | (.ok (d', _), _) => some (.ok d')
          | (.err, _) => some .err
          | (.panic, _) => some .panic
        | _, _ => some .panic
      else none
    match ← dst0 with
    | .ok dst =>
      let wObs ← secsObs x src false false
      match Model.Chunk.Chunk.readFrom x.gbS x.gbB dst (Stream.ofBytes (w.1 ++ extra)) with
      | (.ok (d', rn), s') =>
        let rObs ← secsObs x d' false false
        pure s!"ok n={w.2} len={w.1.length} wd={digestBytes (w.1.toArray.map BitVec.toNat)} rn={rn} left={s'.flat.length} W={wObs} Wmb={digestLongs src.hm.motionBlocking.data} Wws={digestLongs src.hm.worldSurface.data} R={rObs} Rmb={digestLongs d'.hm.motionBlocking.data} Rws={digestLongs d'.hm.worldSurface.data} E={entsObs d'.ents}"
      | (.err, s') => pure s!"err left={s'.flat.length}"
      | (.panic, _) => pure "panic"
    | .err => pure "err@first"
    | .panic => pure "panic"
  | _ => pure "panic"

/-- the registries as the driver sees them: ids describe themselves (that the real description mapping is a
bijection is what `registry.bijection` establishes on the real tables) -/
def idReg (x : Ctx) : Registry Int Int :=
  { descS := fun v => if 0 ≤ v ∧ v < (x.reg : Int) then .ok v else .panic,
    stateOf := fun d => if 0 ≤ d ∧ d < (x.reg : Int) then some d else none,
    descB := fun v => if 0 ≤ v ∧ v < (x.nb : Int) then .ok v else .err,
    biomeOf := fun d => if 0 ≤ d ∧ d < (x.nb : Int) then some d else none,
    isAir := x.isAir }

def hmSix (h : HeightMaps) : String :=
  ".".intercalate ((List.range 6).map fun k => digestLongs (getHM h k).data)

def saveHmSix (h : SaveHM) : String :=
  ".".intercalate ([h.worldSurfaceWG, h.worldSurface, h.oceanFloorWG, h.oceanFloor, h.motionBlocking, h.motionBlockingNoLeaves].map
    fun o => digestLongs (o.getD []))

/-- the model's observation for a `chunk.save` line -/
def save (args : List String) : Option String := do
  let x ← ctxOf args
  let secs ← (← kv args "secs").toNat?
  let hist ← parseHist (← kv args "hist")
  let ypos ← (← kv args "ypos").toInt?
  -- the prior content of the destination
  let fresh : SaveChunk Int Int := SaveChunk.fresh (BitVec.ofInt 32 ypos)
  let dst0 : Option (Res (SaveChunk Int Int)) :=
    match kv args "psecs" with
    | none => some (.ok fresh)
    | some "-" => some (.ok fresh)
    | some ps => do
      let pn ← ps.toNat?
      let phist ← parseHist ((kv args "phist").getD "-")
      match build x pn phist with
      | .ok prior =>
        match chunkToSave (idReg x) x.gbS x.gbB fresh prior with
        | .ok sv0 => pure (.ok { sv0 with otherHM := [("WORLD_SURFACE_IGNORE_SNOW".toUTF8.toList.map (fun b => BitVec.ofNat 8 b.toNat), [1#64, 2#64, 3#64])],
                                           untouched := "7.-3.3953.99".toUTF8.toList.map (fun b => BitVec.ofNat 8 b.toNat) })
        | .err => pure .err
        | .panic => pure .panic
      | _ => pure .panic
  match build x secs hist, ← dst0 with
  | _, .err => pure "err@prior"
  | _, .panic => pure "panic"
  | .ok src, .ok d0 =>
    let w ← secsObs x src true false
    match chunkToSave (idReg x) x.gbS x.gbB d0 src with
    | .ok sv =>
      let ys := if sv.secs.isEmpty then "-" else ".".intercalate (sv.secs.map fun s => toString s.y.toInt)
      let sp := if sv.secs.isEmpty then "-" else "/".intercalate (sv.secs.map fun s =>
        s!"{s.states.palette.length}.{digestLongs (s.states.data.getD [])}.{s.biomes.palette.length}.{digestLongs (s.biomes.data.getD [])}")
      let keepS := if sv.untouched.isEmpty then "0.0.0.0" else String.ofList (sv.untouched.map fun b => Char.ofNat b.toNat)
      let otherS := match sv.otherHM with
        | [] => "-"
        | (_, ls) :: _ => digestLongs ls
      let keep := s!"{keepS}.{otherS}.{sv.ypos.toInt}.0.{6 + sv.otherHM.length}"
      let head := s!"W={w} Y={ys} SP={sp} SH={saveHmSix sv.hm} Sst={hexOfBytes sv.status} K={keep}"
      match chunkFromSave (idReg x) x.gbS x.gbB sv with
      | .ok dst =>
        let r ← secsObs x dst false true
        pure s!"ok {head} R={r} RH={hmSix dst.hm} Rst={hexOfBytes dst.status}"
      | .err => pure s!"err@fromsave {head}"
      | .panic => pure s!"panic@fromsave {head}"
    | .err => pure s!"err@tosave W={w}"
    | .panic => pure "panic"
  | _, _ => pure "panic"

/-- the destination `c13UsedChunk(secs)` of the malformed-input stream -/
def usedChunk (x : Ctx) (secs : Nat) : Res MChunk :=
  let ops : List Op := (List.range secs).flatMap fun s =>
    ((List.range 10).map fun k => Op.sb s (k * 7) (1 + k * 3 + s)) ++ ((List.range 5).map fun k => Op.bi s k (k + 1))
  match build x secs ops with
  | .ok c =>
    .ok { c with ents := { elems := [(0x11#8, BitVec.ofNat 16 3, BitVec.ofNat 32 2, ⟨10#8, [0#8]⟩),
                                     (0x22#8, BitVec.ofNat 16 4, BitVec.ofNat 32 5, ⟨0#8, []⟩)], spare := [] } }
  | e => e

def usedLight : LightData :=
  { skyMask := ⟨[1#64, 2#64, 3#64], []⟩, blkMask := ⟨[BitVec.ofInt 64 (-1)], []⟩,
    sky := ⟨[⟨[1#8, 2#8, 3#8], []⟩, ⟨[4#8], []⟩], []⟩, blk := ⟨[⟨List.replicate 2048 0#8, []⟩], []⟩ }

def outcome {α} (r : Res α × Stream) : String :=
  match r with
  | (.ok _, s) => s!"ok left={s.flat.length}"
  | (.err, _) => "err"
  | (.panic, _) => "panic"

/-- the model's outcome for a line of the malformed-input stream -/
def rd (op : String) (args : List String) : Option String := do
  let input ← parseHex (← args.getLast?)
  let used := (kv args "used") == some "1"
  let x : Ctx := { gbS := 15, gbB := 6, reg := 26684, nb := 63, air := [0] }
  let x := (ctxOf args).getD x
  let s := Stream.ofBytes input
  match op with
  | "chunk.rd" =>
    let secs ← (← kv args "secs").toNat?
    match (if used then usedChunk x secs else build x secs []) with
    | .ok d => pure (outcome (Model.Chunk.Chunk.readFrom x.gbS x.gbB d s))
    | _ => pure "panic"
  | "section.rd" =>
    match (if used then usedChunk x 1 else build x 1 []) with
    | .ok d => match d.secs with
      | sec :: _ => pure (outcome (Section.readFrom x.gbS x.gbB sec s))
      | [] => none
    | _ => pure "panic"
  | "be.rd" =>
    let d : EntRep := if used then (0x33#8, BitVec.ofNat 16 9, BitVec.ofNat 32 7, ⟨10#8, [8#8, 0#8, 1#8, 0x61#8, 0#8, 2#8, 0x68#8, 0x69#8, 0#8]⟩)
                      else (0#8, 0, 0#32, ⟨0#8, []⟩)
    pure (outcome (BlockEntity.readFrom d s))
  | "light.rd" => pure (outcome (lightC.dec (if used then usedLight else freshLight) s))
  | _ => none

def parseLongsHex (h : String) : Option (List (BitVec 64)) := do
  let bs ← parseHex h
  let rec go (bs : Bytes) (fuel : Nat) (acc : List (BitVec 64)) : Option (List (BitVec 64)) :=
    match fuel with
    | 0 => none
    | fuel + 1 =>
      if bs.isEmpty then some acc.reverse
      else if bs.length < 8 then none
      else go (bs.drop 8) fuel (BitVec.ofNat 64 ((bs.take 8).foldl (fun a b => 256 * a + b.toNat) 0) :: acc)
  go bs (bs.length + 1) []

def hexLongs (ls : List (BitVec 64)) : String :=
  if ls.isEmpty then "-" else String.join (ls.map fun l => hexOfNat 16 l.toNat)

def parseArrays (s : String) : Option (List (Slice Byte)) :=
  if s == "-" || s == "" then some [] else
  (s.splitOn ";").mapM fun p =>
    match p.splitOn ":" with
    | [l, a, m] => do
      let l ← l.toInt?; let a ← a.toNat?; let m ← m.toNat?
      pure ⟨(lightOpt l a m).getD [], []⟩
    | _ => none

def arraysObsM (as : Slice (Slice Byte)) : String :=
  if as.elems.isEmpty then "-" else
  ";".intercalate (as.elems.map fun a => if a.elems.isEmpty then "0" else digestBytes (a.elems.toArray.map BitVec.toNat))

/-- the model's observation for a `light.rt` line -/
def lightRT (args : List String) : Option String := do
  let extra ← parseHex (← kv args "extra")
  let sky ← parseLongsHex (← kv args "sky")
  let blk ← parseLongsHex (← kv args "blk")
  let sl ← parseArrays (← kv args "sl")
  let bl ← parseArrays (← kv args "bl")
  let src : LightData := { skyMask := ⟨sky, []⟩, blkMask := ⟨blk, []⟩, sky := ⟨sl, []⟩, blk := ⟨bl, []⟩ }
  let w := lightC.enc src
  let dst := if (kv args "used") == some "1" then usedLight else freshLight
  match lightC.dec dst (Stream.ofBytes (w.1 ++ extra)) with
  | (.ok (d, rn), s') =>
    pure s!"ok n={w.2} len={w.1.length} wd={digestBytes (w.1.toArray.map BitVec.toNat)} rn={rn} left={s'.flat.length} sky={hexLongs d.skyMask.elems} blk={hexLongs d.blkMask.elems} sl={arraysObsM d.sky} bl={arraysObsM d.blk}"
  | (.err, s') => pure s!"err left={s'.flat.length}"
  | (.panic, _) => pure "panic"

/-- `save.hm`: an empty chunk of `secs` sections, one saved height map replaced -/
def saveHm (args : List String) : Option String := do
  let secs ← (← kv args "secs").toNat?
  let k ← (← kv args "k").toNat?
  let longs ← (← kv args "longs").toInt?
  let x : Ctx := { gbS := 15, gbB := 6, reg := 26684, nb := 63, air := [0] }
  match build x secs [] with
  | .ok c =>
    match chunkToSave (idReg x) x.gbS x.gbB (SaveChunk.fresh 0#32) c with
    | .ok sv =>
      let v : Option Longs := if longs < 0 then none else some (List.replicate longs.toNat 0#64)
      let h := sv.hm
      let h' : SaveHM := match k with
        | 0 => { h with worldSurfaceWG := v } | 1 => { h with worldSurface := v } | 2 => { h with oceanFloorWG := v }
        | 3 => { h with oceanFloor := v } | 4 => { h with motionBlocking := v } | _ => { h with motionBlockingNoLeaves := v }
      match chunkFromSave (idReg x) x.gbS x.gbB { sv with hm := h' } with
      | .ok _ => pure "ok"
      | .err => pure "err"
      | .panic => pure "panic"
    | _ => pure "err@tosave"
  | _ => pure "panic"

/-- a hand-built section of a save form: `<ids>|<a>.<m>|<biome ids>|<a>.<m>` (`-` for `a.m`: no data array) -/
def parseHandPal (pal am : String) (cells minBits : Nat) : Option (List Int × Option (List (BitVec 64)) × Array Nat) := do
  let ids ← (pal.splitOn ".").mapM String.toNat?
  let n := ids.length
  if n == 0 then none else
  let first := ids.headD 0
  if am == "-" || n == 1 then
    pure (ids.map Int.ofNat, none, Array.replicate cells first)
  else
    match am.splitOn "." with
    | [a, m] => do
      let a ← a.toNat?; let m ← m.toNat?
      let idx := (List.range cells).map fun k => (a + k * m) % n
      let w := max minBits (GoMC.Model.bitLen (n - 1))
      pure (ids.map Int.ofNat, some (Spec.pack w idx), (idx.map fun i => ids.getD i 0).toArray)
    | _ => none

structure Hand where
  sv : SaveChunk Int Int
  arrays : List (Array Nat × Array Nat)     -- what the sections hold, for the oracle

def parseHand (ypos : Int) (sSpec : String) : Option Hand := do
  let parts := sSpec.splitOn "/"
  let secs ← (List.range parts.length).mapM fun i => do
    match (parts.getD i "").splitOn "|" with
    | [sp, sam, bp, bam] =>
      let (spal, sdata, sarr) ← parseHandPal sp sam 4096 4
      let (bpal, bdata, barr) ← parseHandPal bp bam 64 0
      let sec : SaveSec Int Int := { y := BitVec.setWidth 8 (BitVec.ofNat 32 i + BitVec.ofInt 32 ypos),
                                     states := ⟨spal, sdata⟩, biomes := ⟨bpal, bdata⟩, sky := none, blk := none }
      pure (sec, sarr, barr)
    | _ => none
  let fresh : SaveChunk Int Int := SaveChunk.fresh (BitVec.ofInt 32 ypos)
  pure { sv := { fresh with secs := secs.map (·.1), status := "hand".toUTF8.toList.map fun b => BitVec.ofNat 8 b.toNat },
         arrays := secs.map fun t => (t.2.1, t.2.2) }

/-- the model's observation for a `chunk.life` line -/
def life (args : List String) : Option String := do
  let x ← ctxOf args
  let secs ← (← kv args "secs").toNat?
  let ypos ← (← kv args "ypos").toInt?
  let post ← parseHist ((kv args "post").getD "-")
  let R := idReg x
  let fresh : SaveChunk Int Int := SaveChunk.fresh (BitVec.ofInt 32 ypos)
  let saveLoad (c : MChunk) : Res MChunk :=
    match chunkToSave R x.gbS x.gbB fresh c with
    | .ok sv => chunkFromSave R x.gbS x.gbB sv
    | .err => .err
    | .panic => .panic
  let loaded : Option (Res MChunk) :=
    if (kv args "from") == some "hand" then do
      let h ← parseHand ypos (← kv args "S")
      pure (chunkFromSave R x.gbS x.gbB h.sv)
    else do
      let hist ← parseHist ((kv args "hist").getD "-")
      let rounds ← ((kv args "rounds").getD "1").toNat?
      pure ((List.range rounds).foldl (fun acc _ => match acc with | .ok c => saveLoad c | e => e) (build x secs hist))
  match ← loaded with
  | .ok cur =>
    let l ← secsObs x cur false false
    match run x cur post with
    | .ok cur2 =>
      let p ← secsObs x cur2 false false
      let w := cur2.writeTo x.gbS x.gbB
      match build x secs [] with
      | .ok d =>
        match Model.Chunk.Chunk.readFrom x.gbS x.gbB d (Stream.ofBytes w.1) with
        | (.ok (d', rn), s') =>
          let q ← secsObs x d' false false
          match saveLoad cur2 with
          | .ok again =>
            let t ← secsObs x again false false
            pure s!"ok L={l} P={p} n={w.2} len={w.1.length} wd={digestBytes (w.1.toArray.map BitVec.toNat)} rn={rn} left={s'.flat.length} Q={q} T={t}"
          | .err => pure "err@save2"
          | .panic => pure "panic"
        | (.err, s') => pure s!"ok L={l} P={p} rerr left={s'.flat.length}"
        | (.panic, _) => pure "panic"
      | _ => pure "panic"
    | _ => pure "panic"
  | .err => pure "err@fromsave"
  | .panic => pure "panic"

/-- the model's observation for a `chunk.reread` line -/
def reread (args : List String) : Option String := do
  let x ← ctxOf args
  let secs ← (← kv args "secs").toNat?
  let reads ← (← kv args "reads").toNat?
  let post ← parseHist ((kv args "post").getD "-")
  let hists ← (List.range reads).mapM fun k => parseHist ((kv args s!"h{k + 1}").getD "-")
  let step (acc : Res MChunk) (h : List Op) : Res MChunk :=
    match acc, build x secs h with
    | .ok d, .ok src =>
      match Model.Chunk.Chunk.readFrom x.gbS x.gbB d (Stream.ofBytes (src.writeTo x.gbS x.gbB).1) with
      | (.ok (d', _), s') => if s'.flat.isEmpty then .ok d' else .err
      | (.err, _) => .err
      | (.panic, _) => .panic
    | .ok _, _ => .panic
    | e, _ => e
  match hists.foldl step (build x secs []) with
  | .ok dst =>
    let rObs ← secsObs x dst false false
    match run x dst post with
    | .ok d2 =>
      let p ← secsObs x d2 false false
      let w := d2.writeTo x.gbS x.gbB
      match build x secs [] with
      | .ok fresh =>
        match Model.Chunk.Chunk.readFrom x.gbS x.gbB fresh (Stream.ofBytes w.1) with
        | (.ok (d3, rn), s') =>
          let q ← secsObs x d3 false false
          pure s!"ok R={rObs} P={p} n={w.2} len={w.1.length} wd={digestBytes (w.1.toArray.map BitVec.toNat)} rn={rn} left={s'.flat.length} Q={q}"
        | (.err, s') => pure s!"ok R={rObs} P={p} rerr left={s'.flat.length}"
        | (.panic, _) => pure "panic"
      | _ => pure "panic"
    | _ => pure "panic"
  | .err => pure "err@read"
  | .panic => pure "panic"

end M

/-! ### chunk.wire -/

def wireV (args : List String) (obs : String) : Verdict :=
  -- `mdl=0`: the line is judged by the independent oracle only (the byte-level model costs time quadratic in the
  -- size of the wire form); `mdl=1` (default): the byte-level model must reproduce the whole observation
  let withModel := (kv args "mdl") != some "0"
  match common args, (kv args "extra").bind parseHex, (if withModel then M.wire args else some "") with
  | some cm, some extra, some model0 =>
    let toks := obs.splitOn " "
    -- SPEC: the array semantics of the history; the byte counts only have to be consistent
    let nObs := (kv toks "len").getD "?"
    let wdObs := (kv toks "wd").getD "?"
    let w := joinSecs (cm.src.secs.toList.map (secBase cm.air))
    let mb := digestLongs (hmRaw cm.src 4)
    let ws := digestLongs (hmRaw cm.src 1)
    let want := s!"ok n={nObs} len={nObs} wd={wdObs} rn={nObs} left={extra.length} W={w} Wmb={mb} Wws={ws} R={w} Rmb={mb} Rws={ws} E={entsObs cm.src.ents}"
    { model := if withModel then model0 else want, spec := if obs == want then none else some ("wire round trip: " ++ firstDiff want obs) }
  | _, _, _ => { model := "bad-arg" }

/-! ### chunk.save -/

def toInt8 (v : Int) : Int := (v + 128) % 256 - 128

def saveV (args : List String) (obs : String) : Verdict :=
  let withModel := (kv args "mdl") != some "0"
  match common args, (kv args "ypos").bind String.toInt?, (if withModel then M.save args else some "") with
  | some cm, some ypos, some model0 =>
    let toks := obs.splitOn " "
    let c := cm.src
    -- SPEC: array semantics. The containers' announced widths are representation detail: taken from the observation.
    let wObs : List (List String) := ((kv toks "W").getD "").splitOn "/" |>.map (·.splitOn ".")
    let bitsOf (i k : Nat) : String := (wObs.getD i []).getD k "?"
    let wWant := joinSecs ((List.range c.secs.size).map fun i =>
      s!"{secBase cm.air (c.secs.getD i default)}.{bitsOf i 4}.{bitsOf i 5}")
    let yWant := if c.secs.isEmpty then "-" else ".".intercalate ((List.range c.secs.size).map fun (i : Nat) => toString (toInt8 (ypos + (i : Int))))
    let sh := hmAll c
    let sst := hexOfBytes c.status
    let rWant := joinSecs (c.secs.toList.map fun s =>
      s!"{secBase cm.air s}.{digestBytes s.sky}.{digestBytes s.blk}")
    -- palette sizes and packed indices of the save form are representation detail: taken from the observation
    let spObs := (kv toks "SP").getD "?"
    -- the prior content of the destination must not show anywhere except in the fields ChunkToSave does not own
    let hasPrior := match kv args "psecs" with | none => false | some "-" => false | some _ => true
    let keepWant := if hasPrior then s!"7.-3.3953.99.3:{hex16 (([1, 2, 3] : List Nat).foldl (fun h v => fnvStep h (UInt64.ofNat v)) fnvOff)}.{ypos}.0.7" else s!"0.0.0.0.-.{ypos}.0.6"
    let want := s!"ok W={wWant} Y={yWant} SP={spObs} SH={sh} Sst={sst} K={keepWant} R={rWant} RH={sh} Rst={sst}"
    { model := if withModel then model0 else want, spec := if obs == want then none else some ("save round trip: " ++ firstDiff want obs) }
  | _, _, _ => { model := "bad-arg" }

/-! ### chunk.life: a chunk that came out of the save form keeps exact counters through SetBlock, the wire and the save form -/

def lifeV (args : List String) (obs : String) : Verdict :=
  let withModel := (kv args "mdl") != some "0"
  let toks := obs.splitOn " "
  let specChunk : Option (Spec.Chunk.Chunk × List Nat) := do
    let secs ← (← kv args "secs").toNat?
    let reg ← (← kv args "reg").toNat?
    let nb ← (← kv args "nb").toNat?
    let air ← parseAir (← kv args "air")
    let ypos ← (← kv args "ypos").toInt?
    let env : Env := { reg, nb }
    let post ← parseHist ((kv args "post").getD "-")
    let c0 : Spec.Chunk.Chunk ←
      if (kv args "from") == some "hand" then do
        let h ← M.parseHand ypos (← kv args "S")
        pure { (empty secs) with secs := (h.arrays.map fun a => ({ states := a.1, biomes := a.2 } : Sec)).toArray }
      else do
        let hist ← parseHist ((kv args "hist").getD "-")
        run env (empty secs) hist
    let c1 ← run env c0 post
    -- the oracle needs both stages: pack them into one chunk (sections of the loaded chunk, then those after `post`)
    pure ({ c1 with secs := c0.secs ++ c1.secs }, air)
  match specChunk, (if withModel then M.life args else some "") with
  | some (cc, air), some model0 =>
    let n := cc.secs.size / 2
    let l := joinSecs ((cc.secs.toList.take n).map (secBase air))
    let p := joinSecs ((cc.secs.toList.drop n).map (secBase air))
    let nObs := (kv toks "len").getD "?"
    let wdObs := (kv toks "wd").getD "?"
    let want := s!"ok L={l} P={p} n={nObs} len={nObs} wd={wdObs} rn={nObs} left=0 Q={p} T={p}"
    { model := if withModel then model0 else want,
      spec := if obs == want then none else some ("a loaded chunk's counters / contents: " ++ firstDiff want obs) }
  | _, _ => { model := "bad-arg" }

/-! ### chunk.reread: a destination that is read into repeatedly holds exactly the last content and can be edited -/

def rereadV (args : List String) (obs : String) : Verdict :=
  let withModel := (kv args "mdl") != some "0"
  let toks := obs.splitOn " "
  let spec : Option (String × String) := do
    let secs ← (← kv args "secs").toNat?
    let reg ← (← kv args "reg").toNat?
    let nb ← (← kv args "nb").toNat?
    let air ← parseAir (← kv args "air")
    let reads ← (← kv args "reads").toNat?
    let env : Env := { reg, nb }
    -- whatever the destination received before, it holds the LAST content
    let last ← parseHist ((kv args s!"h{reads}").getD "-")
    let post ← parseHist ((kv args "post").getD "-")
    let c0 ← run env (empty secs) last
    let c1 ← run env c0 post
    pure (joinSecs (c0.secs.toList.map (secBase air)), joinSecs (c1.secs.toList.map (secBase air)))
  match spec, (if withModel then M.reread args else some "") with
  | some (r, p), some model0 =>
    let nObs := (kv toks "len").getD "?"
    let wdObs := (kv toks "wd").getD "?"
    let want := s!"ok R={r} P={p} n={nObs} len={nObs} wd={wdObs} rn={nObs} left=0 Q={p}"
    { model := if withModel then model0 else want,
      spec := if obs == want then none else some ("a chunk read into repeatedly, then edited: " ++ firstDiff want obs) }
  | _, _ => { model := "bad-arg" }

/-! ### save.hm: a saved height map of the wrong length is an error, never a panic -/

def saveHmV (args : List String) (obs : String) : Verdict :=
  match (kv args "secs").bind String.toNat?, (kv args "longs").bind String.toInt? with
  | some secs, some longs =>
    let want := if longs < 0 || longs == (size (hmBits secs) 256 : Int) then "ok" else "err"
    { model := (M.saveHm args).getD "bad-arg", spec := if obs == want then none else some s!"ChunkFromSave with a height map of {longs} longs: expected {want}" }
  | _, _ => { model := "bad-arg" }

/-! ### light.rt -/

def arraysObs (s : String) : Option String :=
  if s == "-" || s == "" then some "-" else do
    let parts ← (s.splitOn ";").mapM fun p =>
      match p.splitOn ":" with
      | [l, a, m] => do
        let l ← l.toInt?; let a ← a.toNat?; let m ← m.toNat?
        pure (if l ≤ 0 then "0" else digestBytes (lightBytes l a m))
      | _ => none
    pure (";".intercalate parts)

def lightV (args : List String) (obs : String) : Verdict :=
  match (kv args "extra").bind parseHex, kv args "sky", kv args "blk", (kv args "sl").bind arraysObs, (kv args "bl").bind arraysObs with
  | some extra, some sky, some blk, some sl, some bl =>
    let toks := obs.splitOn " "
    let nObs := (kv toks "len").getD "?"
    let wdObs := (kv toks "wd").getD "?"
    let want := s!"ok n={nObs} len={nObs} wd={wdObs} rn={nObs} left={extra.length} sky={sky} blk={blk} sl={sl} bl={bl}"
    { model := (M.lightRT args).getD "bad-arg", spec := if obs == want then none else some ("light block round trip: " ++ firstDiff want obs) }
  | _, _, _, _, _ => { model := "bad-arg" }

/-! ### PackXZ / UnpackXZ -/

def packV (xS zS obs : String) : Verdict :=
  match xS.toInt?, zS.toInt? with
  | some x, some z =>
    let r := Model.Chunk.packXZ 0xa5#8 (BitVec.ofInt 64 x) (BitVec.ofInt 64 z)
    let model := (if r.1 then "ok " else "no ") ++ hexOfNat 2 r.2.toNat
    -- the property: coordinates 0..15 pack to 16·X + Z, anything else is refused and nothing is stored
    let want := if 0 ≤ x && x ≤ 15 && 0 ≤ z && z ≤ 15 then "ok " ++ hexOfNat 2 (16 * x.toNat + z.toNat) else "no a5"
    { model, spec := if obs == want then none else some s!"PackXZ({x},{z}): expected {want}" }
  | _, _ => { model := "bad-arg" }

def unpackV (h obs : String) : Verdict :=
  match parseByteHex h with
  | some v =>
    let r := Model.Chunk.unpackXZ (BitVec.ofNat 8 v)
    let model := s!"{r.1.toNat} {r.2.toNat}"
    let want := s!"{v / 16} {v % 16}"
    { model, spec := if obs == want then none else some s!"UnpackXZ: expected {want}" }
  | none => { model := "bad-arg" }

/-! ### malformed input: outcome class only (the clause is C08's; the stream lives here) -/

def rdV (op : String) (args : List String) (obs : String) : Verdict :=
  -- MODEL: the byte-level decoder models on the same bytes, outcome class and bytes left.
  -- SPEC (C08's clause, checked here because the stream lives here): a decoder fed bytes returns.
  let model := (M.rd op args).getD "bad-arg"
  let cls := (obs.splitOn " ").headD ""
  { model := if obs.startsWith "panic" && model == "panic" then obs else model,
    spec := if cls == "ok" || cls == "err" then none
            else some ("a decoder of level/chunk.go must return on peer-controlled input: " ++ obs.take 60) }

def okV (what obs : String) : Verdict :=
  { model := "ok", spec := if obs == "ok" then none else some (what ++ ": " ++ obs.take 120) }

def handle (op : String) (args : List String) (obs : String) : Option Verdict :=
  match op, args with
  | "chunk.wire", _ => some (wireV args obs)
  | "chunk.save", _ => some (saveV args obs)
  | "chunk.life", _ => some (lifeV args obs)
  | "chunk.reread", _ => some (rereadV args obs)
  | "light.rt", _ => some (lightV args obs)
  | "save.hm", _ => some (saveHmV args obs)
  | "be.pack", [x, z] => some (packV x z obs)
  | "be.unpack", [h] => some (unpackV h obs)
  | "registry.bijection", _ => some (okV "block-state <-> (name, properties) is not a bijection over the registry" obs)
  | "registry.viasave", _ => some (okV "a registry state does not survive ChunkToSave/ChunkFromSave" obs)
  | "registry.biomes", _ => some (okV "biome id <-> name is not a bijection" obs)
  | "chunk.rd", _ => some (rdV op args obs)
  | "section.rd", _ => some (rdV op args obs)
  | "be.rd", _ => some (rdV op args obs)
  | "light.rd", _ => some (rdV op args obs)
  | _, _ => none

end Driver.C13
