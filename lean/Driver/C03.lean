/-
  C03 driver: `c03.dec` — the decoding entry points on the malformed stream. Same models and the same
  oracle as C01 (`Driver.NBTCommon`): never `panic`/`hang`; `ok` only for a well-formed document, with the
  value and the consumption the format assigns.
-/
import Driver.NBTCommon
namespace Driver.C03
open GoMC Driver

def handle (op : String) (args : List String) (obs : String) : Option Verdict :=
  match op with
  | "c03.dec" => Driver.NBT.handleDec "C03" args obs
  | _ => none

end Driver.C03
