/-
  C01 driver: `c01.dec` (decoding entry points on well-formed documents, see Driver.NBTCommon) and
  `c01.enc <file|net> <hex root name> <value> => ok <hex document> | err | panic` (the encoder).

  Value syntax (no spaces): `i8:ff i16:.. i32:.. i64:.. u8:.. u16:.. u32:.. u64:.. int:<16 hex> uint:<16 hex>
  bool:0|1 f32:<8 hex bits> f64:<16 hex bits> str:<hex> nil raw:<tag hex>:<payload hex> unit st1(<raw>)
  sl<T>(v,v,…) map{<hex key>=v,…}` with element types `T ::= i8 | … | str | any | raw | map | unit | sl<T>`.

  Oracle for the encoder (independent of the model): the documented tree of the value (`docTree`), compared
  with what the spec reader `Spec.parseDoc` makes of the emitted bytes — as trees, compounds by key.
-/
import Driver.NBTCommon
import Driver.GoValText
namespace Driver.C01
open GoMC GoMC.Spec GoMC.Model.Go Driver Driver.NBT

/-! ### parsing value descriptions (the tree-level syntax of harness/c01enc.go) into the Go value universe -/

abbrev P (α : Type) := List Char → Option (α × List Char)

def takeWhileC (p : Char → Bool) : List Char → List Char × List Char
  | [] => ([], [])
  | c :: cs => if p c then let (a, b) := takeWhileC p cs; (c :: a, b) else ([], c :: cs)

def isHexC (c : Char) : Bool := c.isDigit || ('a' ≤ c && c ≤ 'f')
def isAlnum (c : Char) : Bool := c.isAlphanum

def expect (s : String) (cs : List Char) : Option (List Char) :=
  let p := s.toList
  if cs.take p.length == p then some (cs.drop p.length) else none

def st1Type : GoType :=
  .struct [110, 98, 116, 83, 116, 49] [({ name := [82], anonymous := false, exported := true, nbt := [114] }, .raw)]

partial def parseType : P GoType := fun cs =>
  let (w, rest) := takeWhileC isAlnum cs
  match String.ofList w with
  | "bool" => some (.bool, rest) | "i8" => some (.int .i8, rest) | "i16" => some (.int .i16, rest)
  | "i32" => some (.int .i32, rest) | "i64" => some (.int .i64, rest) | "u8" => some (.int .u8, rest)
  | "u16" => some (.int .u16, rest) | "u32" => some (.int .u32, rest) | "u64" => some (.int .u64, rest)
  | "int" => some (.int .int, rest) | "uint" => some (.int .uint, rest) | "f32" => some (.f32, rest)
  | "f64" => some (.f64, rest) | "str" => some (.str, rest) | "any" => some (.iface, rest)
  | "raw" => some (.raw, rest) | "map" => some (.map .iface, rest) | "unit" => some (.struct [] [], rest)
  | "st1" => some (st1Type, rest)
  | "sl" => do
    let r ← expect "<" rest
    let (t, r) ← parseType r
    let r ← expect ">" r
    pure (.slice t, r)
  | _ => none

def hexField (cs : List Char) : Option (Bytes × List Char) :=
  let (h, rest) := takeWhileC isHexC cs
  (parseHexChars h []).map fun b => (b, rest)

def natField (cs : List Char) : Option (Nat × List Char) :=
  let (h, rest) := takeWhileC isHexC cs
  (parseHexNat (String.ofList h)).map fun n => (n, rest)

def mkInt (k : IK) (n : Nat) : GoVal := .int k (GoText.intOfBits k (n % 2 ^ k.bits))

/-- an element of a slice of static type `e`: elements of a `[]any` sit in interfaces -/
def boxFor (e : GoType) (v : GoVal) : GoVal :=
  match e, v with
  | .iface, .iface none => .iface none
  | .iface, v => .iface (some v)
  | _, v => v

mutual
  partial def parseVal : P GoVal := fun cs =>
    let (w, rest) := takeWhileC isAlnum cs
    let num (k : IK) : Option (GoVal × List Char) := do
      let r ← expect ":" rest
      let (n, r) ← natField r
      pure (mkInt k n, r)
    match String.ofList w with
    | "nil" => some (.iface none, rest)
    | "unit" => some (.struct [] [] [], rest)
    | "bool" => do let r ← expect ":" rest; let (n, r) ← natField r; pure (.bool (n != 0), r)
    | "i8" => num .i8 | "i16" => num .i16 | "i32" => num .i32 | "i64" => num .i64
    | "u8" => num .u8 | "u16" => num .u16 | "u32" => num .u32 | "u64" => num .u64
    | "int" => num .int | "uint" => num .uint
    | "f32" => do let r ← expect ":" rest; let (n, r) ← natField r; pure (.f32 (BitVec.ofNat 32 n), r)
    | "f64" => do let r ← expect ":" rest; let (n, r) ← natField r; pure (.f64 (BitVec.ofNat 64 n), r)
    | "str" => do let r ← expect ":" rest; let (b, r) ← hexField r; pure (.str b, r)
    | "raw" => do
      let r ← expect ":" rest
      let (t, r) ← natField r
      let r ← expect ":" r
      let (b, r) ← hexField r
      pure (.raw (BitVec.ofNat 8 t) b, r)
    | "st1" => do
      let r ← expect "(" rest
      let (v, r) ← parseVal r
      let r ← expect ")" r
      match st1Type with
      | .struct n fields => pure (.struct n fields [v], r)
      | _ => none
    | "sl" => do
      let r ← expect "<" rest
      let (t, r) ← parseType r
      let r ← expect ">(" r
      let (xs, r) ← parseVals r
      let r ← expect ")" r
      pure (.slice t false (xs.map (boxFor t)), r)
    | "map" => do
      let r ← expect "{" rest
      let (kvs, r) ← parseKvs r
      let r ← expect "}" r
      pure (.map .iface false (kvs.map fun (k, v) => (k, boxFor .iface v)), r)
    | _ => none
  partial def parseVals : P (List GoVal) := fun cs =>
    match cs with
    | ')' :: _ => some ([], cs)
    | _ => do
      let (v, r) ← parseVal cs
      match r with
      | ',' :: r' => do let (vs, r'') ← parseVals r'; pure (v :: vs, r'')
      | _ => pure ([v], r)
  partial def parseKvs : P (List (Bytes × GoVal)) := fun cs =>
    match cs with
    | '}' :: _ => some ([], cs)
    | _ => do
      let (k, r) ← hexField cs
      let r ← expect "=" r
      let (v, r) ← parseVal r
      match r with
      | ',' :: r' => do let (kvs, r'') ← parseKvs r'; pure ((k, v) :: kvs, r'')
      | _ => pure ([(k, v)], r)
end

/-! ### the documented tree of a value (README / doc comments of `Encode`), independent of the model -/

inductive Doc where
  | tree (t : NBT)      -- the document must hold this tree
  | refuse              -- not encodable: `Encode` must return an error
  | free                -- the documentation does not say (mixed integer kinds behind `[]any`, …): well-formed if accepted
  | unk                 -- nil pointers, zero carriers (RawMessage{} …): no demand at all
deriving Inhabited

def docTag : NBT → Nat := fun t => t.tag.toNat

def allSome {α} : List (Option α) → Option (List α)
  | [] => some []
  | none :: _ => none
  | some x :: xs => (allSome xs).map (x :: ·)

/-- the value inside an interface -/
def unbox : GoVal → GoVal
  | .iface (some v) => v
  | v => v

def isIntLike (v : GoVal) : Bool :=
  match unbox v with
  | .bool _ | .int _ _ => true
  | _ => false

def isRawV (v : GoVal) : Bool :=
  match unbox v with
  | .raw _ _ | .dyn _ | .snbt _ => true
  | .ptr _ (some (.raw _ _)) | .ptr _ (some (.dyn _)) => true
  | _ => false

def bv (w : Nat) (v : Int) : BitVec w := BitVec.ofInt w v

/-- json's notion of an empty field, which `omitempty` is documented to follow -/
def isZeroField : GoVal → Bool
  | .bool b => !b
  | .int _ v => v == 0
  | .f32 b => b.toNat % 2 ^ 31 == 0
  | .f64 b => b.toNat % 2 ^ 63 == 0
  | .str s | .snbt s => s.isEmpty
  | .slice _ _ xs | .array _ xs => xs.isEmpty
  | .map _ _ kvs => kvs.isEmpty
  | .ptr _ p | .iface p => p.isNone
  | _ => false

mutual
  partial def docTree (v : GoVal) : Doc :=
    match v with
    | .iface (some x) => docTree x
    | .iface none => .refuse
    | .bool b => .tree (.byte (if b then 1 else 0))
    | .int .i8 x | .int .u8 x => .tree (.byte (bv 8 x))
    | .int .i16 x | .int .u16 x => .tree (.short (bv 16 x))
    | .int .i32 x | .int .u32 x => .tree (.int (bv 32 x))
    | .int .i64 x | .int .u64 x => .tree (.long (bv 64 x))
    | .int _ _ => .refuse
    | .f32 b => .tree (.float b)
    | .f64 b => .tree (.double b)
    | .str s => if s.length > 32767 then .refuse else .tree (.string s)
    | .raw t d =>
      if t == 0 then .unk else
      match parsePayload (d.length + 2) t d with
      | some (tr, []) => .tree tr
      | _ => .free                                       -- the carrier's content is the caller's business
    | .struct n fields fs =>
      -- the fields of the table (the model's `typeFields`, tied to the real one by `c02.tf`), in table order;
      -- omitempty drops a field that IS the zero value (false, 0, "", nil pointer / interface, empty container)
      let es := (typeFields (.struct n fields)).map fun fld =>
        match walkEnc fld.index (.struct n fields fs) with
        | none => none                                     -- behind a nil embedded pointer
        | some fv =>
          if fld.omitEmpty && isZeroField fv then none else
          let d := docTree fv
          let d := if fld.asList then (match d with
            | .tree (.byteArray xs) => if isRawV fv then Doc.refuse else .tree (.list 1 (xs.map .byte))
            | .tree (.intArray xs) => if isRawV fv then Doc.refuse else .tree (.list 3 (xs.map .int))
            | .tree (.longArray xs) => if isRawV fv then Doc.refuse else .tree (.list 4 (xs.map .long))
            | .tree _ => .refuse
            | d => d) else d
          some (fld.name, if fld.name.length > 32767 then Doc.refuse else d)
      let ds := es.filterMap id
      if ds.any (fun d => match d.2 with | .unk => true | _ => false) then .unk
      else if ds.any (fun d => match d.2 with | .refuse => true | _ => false) then .refuse
      else if ds.any (fun d => match d.2 with | .free => true | _ => false) then .free
      else .tree (.compound (ds.filterMap fun (k, d) => match d with | .tree t => some (k, t) | _ => none))
    | .array elem xs => docSlice elem xs
    | .ptr _ none => .unk                                -- what a nil pointer encodes to is not documented
    | .ptr _ (some x) => docTree x
    | .dyn d =>
      if d.tag == 0 then .unk else
      match Model.DynBT.marshal d with
      | .ok bs => (match parsePayload (bs.length + 2) d.tag bs with
        | some (tr, []) => .tree tr
        | _ => .free)
      | _ => .free
    | .map _ _ kvs =>
      let ds := kvs.map fun (k, v) => (k, docTree v)
      if ds.any (fun d => match d.2 with | .unk => true | _ => false) then .unk else
      if ds.any (fun d => match d.2 with | .refuse => true | _ => false) || kvs.any (fun kv => kv.1.length > 32767) then .refuse
      else if ds.any (fun d => match d.2 with | .free => true | _ => false) then .free
      else .tree (.compound (ds.filterMap fun (k, d) => match d with | .tree t => some (k, t) | _ => none))
    | .slice elem _ xs => docSlice elem xs
    | _ => .free
  partial def docSlice (elem : GoType) (xs : List GoVal) : Doc :=
    -- byte / int / long slices are typed arrays
    let bytesOf := xs.filterMap fun x => match unbox x with
      | .bool b => some (if b then (1 : Byte) else 0) | .int .i8 v | .int .u8 v => some (bv 8 v) | _ => none
    let intsOf := xs.filterMap fun x => match unbox x with | .int .i32 v | .int .u32 v => some (bv 32 v) | _ => none
    let longsOf := xs.filterMap fun x => match unbox x with | .int .i64 v | .int .u64 v => some (bv 64 v) | _ => none
    match elem with
    | .bool | .int .i8 | .int .u8 => .tree (.byteArray bytesOf)
    | .int .i32 | .int .u32 => .tree (.intArray intsOf)
    | .int .i64 | .int .u64 => .tree (.longArray longsOf)
    | _ =>
      match xs with
      | [] => .tree (.list 0 [])                          -- an empty list; its element tag is not compared
      | x0 :: _ =>
        let ds := xs.map docTree
        if ds.any (fun d => match d with | .unk => true | _ => false) then .unk else
        -- pointer elements: slices of pointers are not in the documented mapping
        if xs.any (fun x => match unbox x with | .ptr _ _ => true | _ => false) then .free else
        if ds.any (fun d => match d with | .free => true | _ => false) then .free else
        let anyRaw := xs.any isRawV
        let allRaw := xs.all isRawV
        if anyRaw && !allRaw then .free else                  -- carriers mixed with plain values: only well-formedness is demanded
        match allSome (ds.map fun d => match d with | .tree t => some t | _ => none) with
        | none =>
          -- some element is not encodable: an error, unless the slice is (mis)typed as an array of integers
          if (match elem with | .iface => true | _ => false) && isIntLike x0
             && !(match unbox x0 with | .int .int _ | .int .uint _ => true | _ => false)
             && xs.all isIntLike then .free else .refuse
        | some ts =>
          match ts with
          | [] => .tree (.list 0 [])
          | t0 :: _ =>
            let same := ts.all fun t => docTag t == docTag t0
            if allRaw then (if same then .tree (.list t0.tag ts) else .refuse)
            else if same then
              match docTag t0 with
              | 1 => .tree (.byteArray bytesOf)
              | 3 => .tree (.intArray intsOf)
              | 4 => .tree (.longArray longsOf)
              | _ => .tree (.list t0.tag ts)
            else if isIntLike x0 && (docTag t0 == 1 || docTag t0 == 3 || docTag t0 == 4) && xs.all isIntLike then .free
            else .refuse
end

/-- the handler -/
def enc (fmtS nameHex desc obs : String) : Verdict :=
  match parseHex nameHex, parseVal desc.toList with
  | some name, some (v, []) =>
    let network := fmtS == "net"
    let fmt : Format := if network then .network else .file
    let r := encode GoText.snbtCarrier network name (match v with | .iface none => none | x => some x)
    let modelStr := match r with
      | .ok bs => "ok " ++ hexOfBytes bs
      | .err => "err"
      | .panic => "panic"
    -- the implementation's document, read by the spec reader
    let implBytes : Option Bytes := if obs.startsWith "ok " then parseHex (obs.drop 3).toString else none
    let implDoc : Option (Bytes × NBT) :=
      match implBytes with
      | some bs => match parseDoc fmt bs with
        | some (n, t, []) => some (n, t)
        | _ => none
      | none => none
    -- model vs implementation: as trees (map order is arbitrary), same root tag, same number of bytes
    let model :=
      match r, implDoc, implBytes with
      | .ok bs, some (n, t), some ib =>
        match parseDoc fmt bs with
        | some (n', t', []) =>
          if n == n' && specAny t == specAny t' && t.tag == t'.tag && bs.length == ib.length then obs else modelStr
        | _ => if bs == ib then obs else modelStr
      | .ok bs, none, some ib => if bs == ib then obs else modelStr
      | _, _, _ => modelStr
    -- the property, on the implementation's observation
    let nameTooLong := !network && name.length > 32767
    let spec : Option String :=
      if obs == "panic" then some "encoder panicked"
      else match (if nameTooLong then Doc.refuse else docTree v) with
        | .unk => none
        | .free => if obs.startsWith "ok " && implDoc.isNone then some "emitted bytes are not a well-formed document" else none
        | .refuse => if obs.startsWith "ok " then some "value outside the documented mapping accepted (nil error)" else none
        | .tree want =>
          match implDoc with
          | none => some (if obs.startsWith "ok " then "emitted bytes are not a well-formed document" else "encodable value refused")
          | some (n, t) =>
            if n != (if network then [] else name) then some "root name differs"
            else if specAny t != specAny want then some ("document tree differs: expected " ++ ((specAny want).take 120).toString)
            else if t.tag != want.tag then some "root tag differs"
            else none
    { model, spec }
  | _, _ => { model := "bad-arg" }

/-- a `[]any` / `[N]any` whose first element is byte-, int- or long-sized stands, by the documented mapping, for a typed
array — not for the list it was decoded from (the design decision reported as `C02.any-slice-array`): such a
decoded value is not compared with the document here -/
partial def anyArrayIn : GoVal → Bool
  | .slice .iface _ (x :: xs) | .array .iface (x :: xs) =>
    (match x with
      | .iface (some (.int .i8 _)) | .iface (some (.int .u8 _)) | .iface (some (.bool _))
      | .iface (some (.int .i32 _)) | .iface (some (.int .u32 _))
      | .iface (some (.int .i64 _)) | .iface (some (.int .u64 _)) => true
      | _ => false) || (x :: xs).any anyArrayIn
  | .ptr _ (some v) | .iface (some v) => anyArrayIn v
  | .slice _ _ xs | .array _ xs | .struct _ _ xs => xs.any anyArrayIn
  | .map _ _ kvs => kvs.any fun kv => anyArrayIn kv.2
  | _ => false

/-- `c01.rt <file|net> <val|ptr> <name> <T> <V>` (typed universe, same observation as `c02.rt`): the C01 clauses —
the encoder does not panic, what it emits is a well-formed document holding the documented tree of the value
under the given root name; what it cannot represent is an error; and what `Decode` stores from that document
into a fresh variable of the type stands for the document's tree again (floats by bit pattern). (Equality of the
Go values is C02's.) -/
def rtTyped (fmtS nameHex tdesc vdesc obs : String) : Verdict :=
  match parseHex nameHex, GoText.parseType tdesc.toList with
  | some name, some (t, []) =>
    match GoText.parseVal t vdesc.toList with
    | some (v, []) =>
      let network := fmtS == "net"
      let fmt : Format := if network then .network else .file
      let toks := obs.splitOn " "
      let encTok := (kv toks "enc").getD ""
      let implBytes : Option Bytes := if encTok.startsWith "ok:" then parseHex (encTok.drop 3).toString else none
      let implDoc : Option (Bytes × NBT) := implBytes.bind fun bs => match parseDoc fmt bs with
        | some (n, tr, []) => some (n, tr)
        | _ => none
      let r := encode GoText.snbtCarrier network name (some v)
      let sameAsModel (bs ib : Bytes) : Bool :=
        bs == ib || (match parseDoc fmt bs, implDoc with
          | some (n, tr, []), some (n', tr') => n == n' && specAny tr == specAny tr' && tr.tag == tr'.tag && bs.length == ib.length
          | none, none => bs.length == ib.length && (bs.map (·.toNat)).mergeSort == (ib.map (·.toNat)).mergeSort
          | _, _ => false)
      let encStr := match r, implBytes with
        | .ok bs, some ib => if sameAsModel bs ib then "enc=" ++ encTok else "enc=ok:" ++ hexOfBytes bs
        | .ok bs, none => "enc=ok:" ++ hexOfBytes bs
        | .err, _ => "enc=err"
        | .panic, _ => "enc=panic"
      let docForDec : Option Bytes := match r, implBytes with
        | .ok _, some ib => some ib
        | .ok bs, none => some bs
        | _, _ => none
      let model := match docForDec with
        | some doc =>
          let d := decodeTyped GoText.snbtCarrier network false t (Stream.ofBytes doc)
          encStr ++ " chg=0 " ++ (match d.1 with
            | .ok (v', nm) => s!"dec=ok:{GoText.showVal v'} name={hexOfBytes nm} left={d.2.flat.length}"
            | .err => "dec=err"
            | .panic => "dec=panic")
        | none => encStr ++ " chg=0"
      let nameTooLong := !network && name.length > 32767
      let spec : Option String :=
        if encTok == "panic" || encTok == "hang" then some "encoder panicked or hung"
        else match (if nameTooLong then Doc.refuse else docTree v) with
          | .unk => none
          | .free => if encTok.startsWith "ok:" && implDoc.isNone then some "emitted bytes are not a well-formed document" else none
          | .refuse => if encTok.startsWith "ok:" then some "value outside the documented mapping accepted (nil error)" else none
          | .tree want =>
            match implDoc with
            | none => some (if encTok.startsWith "ok:" then "emitted bytes are not a well-formed document" else "encodable value refused")
            | some (n, tr) =>
              if n != (if network then [] else name) then some "root name differs"
              else if specAny tr != specAny want then some ("document tree differs: expected " ++ ((specAny want).take 160).toString)
              else if tr.tag != want.tag then some "root tag differs"
              else
                -- the decoding half on typed targets: what `Decode` stored into a fresh variable of the type stands
                -- for the same tree (floats by bit pattern) — the values the format assigns to the document
                let decTok := (kv toks "dec").getD ""
                if decTok.startsWith "ok:" then
                  match GoText.parseVal t (decTok.drop 3).toString.toList with
                  | some (v', []) =>
                    (match (if anyArrayIn v' then Doc.unk else docTree v') with
                      | .tree got =>
                        if specAny got != specAny want || got.tag != want.tag then
                          some ("decoded value stands for another tree than the document: " ++ ((specAny got).take 120).toString)
                        else none
                      | _ => none)
                  | _ => none
                else none
      { model, spec }
    | _ => { model := "bad-value" }
  | _, _ => { model := "bad-arg" }

def handle (op : String) (args : List String) (obs : String) : Option Verdict :=
  match op, args with
  | "c01.dec", _ => Driver.NBT.handleDec "C01" args obs
  | "c01.enc", [f, n, d] => some (enc f n d obs)
  | "c01.rt", [f, _how, n, t, v] => some (rtTyped f n t v obs)
  | _, _ => none

end Driver.C01
