/-
  C01 driver: `c01.dec` (decoding entry points on well-formed documents, see Driver.NBTCommon) and
  `c01.enc <file|net> <hex root name> <value> => ok <hex document> | err | panic` (the encoder).

  Value syntax (no spaces): `i8:ff i16:.. i32:.. i64:.. u8:.. u16:.. u32:.. u64:.. int:<16 hex> uint:<16 hex>
  bool:0|1 f32:<8 hex bits> f64:<16 hex bits> str:<hex> nil raw:<tag hex>:<payload hex> unit st1(<raw>)
  sl<T>(v,v,…) map{<hex key>=v,…}` with element types `T ::= i8 | … | str | any | raw | map | unit | sl<T>`.

  Oracle for the encoder (independent of the model): the documented tree of the value (`docTree`), compared
  with what the spec reader `Spec.parseDoc` makes of the emitted bytes — as trees, compounds by key.
-/
import Driver.NBTCommon
import GoMC.Model.NBTEncode
namespace Driver.C01
open GoMC GoMC.Spec GoMC.Model.NBTEnc Driver Driver.NBT

/-! ### parsing value descriptions -/

abbrev P (α : Type) := List Char → Option (α × List Char)

def takeWhileC (p : Char → Bool) : List Char → List Char × List Char
  | [] => ([], [])
  | c :: cs => if p c then let (a, b) := takeWhileC p cs; (c :: a, b) else ([], c :: cs)

def isHexC (c : Char) : Bool := c.isDigit || ('a' ≤ c && c ≤ 'f')
def isAlnum (c : Char) : Bool := c.isAlphanum

def expect (s : String) (cs : List Char) : Option (List Char) :=
  let p := s.toList
  if cs.take p.length == p then some (cs.drop p.length) else none

partial def parseType : P GoType := fun cs =>
  let (w, rest) := takeWhileC isAlnum cs
  match String.ofList w with
  | "bool" => some (.bool, rest) | "i8" => some (.i8, rest) | "i16" => some (.i16, rest)
  | "i32" => some (.i32, rest) | "i64" => some (.i64, rest) | "u8" => some (.u8, rest)
  | "u16" => some (.u16, rest) | "u32" => some (.u32, rest) | "u64" => some (.u64, rest)
  | "int" => some (.int, rest) | "uint" => some (.uint, rest) | "f32" => some (.f32, rest)
  | "f64" => some (.f64, rest) | "str" => some (.str, rest) | "any" => some (.any, rest)
  | "raw" => some (.raw, rest) | "map" => some (.mapAny, rest) | "unit" => some (.unit, rest)
  | "st1" => some (.st1, rest)
  | "sl" => do
    let r ← expect "<" rest
    let (t, r) ← parseType r
    let r ← expect ">" r
    pure (.slice t, r)
  | _ => none

def hexField (cs : List Char) : Option (Bytes × List Char) :=
  let (h, rest) := takeWhileC isHexC cs
  (parseHexChars h []).map fun b => (b, rest)

def natField (cs : List Char) : Option (Nat × List Char) :=
  let (h, rest) := takeWhileC isHexC cs
  (parseHexNat (String.ofList h)).map fun n => (n, rest)

mutual
  partial def parseVal : P GoVal := fun cs =>
    let (w, rest) := takeWhileC isAlnum cs
    match String.ofList w with
    | "nil" => some (.nil, rest)
    | "unit" => some (.unit, rest)
    | "bool" => do let r ← expect ":" rest; let (n, r) ← natField r; pure (.bool (n != 0), r)
    | "i8" => do let r ← expect ":" rest; let (n, r) ← natField r; pure (.i8 (BitVec.ofNat 8 n), r)
    | "i16" => do let r ← expect ":" rest; let (n, r) ← natField r; pure (.i16 (BitVec.ofNat 16 n), r)
    | "i32" => do let r ← expect ":" rest; let (n, r) ← natField r; pure (.i32 (BitVec.ofNat 32 n), r)
    | "i64" => do let r ← expect ":" rest; let (n, r) ← natField r; pure (.i64 (BitVec.ofNat 64 n), r)
    | "u8" => do let r ← expect ":" rest; let (n, r) ← natField r; pure (.u8 (BitVec.ofNat 8 n), r)
    | "u16" => do let r ← expect ":" rest; let (n, r) ← natField r; pure (.u16 (BitVec.ofNat 16 n), r)
    | "u32" => do let r ← expect ":" rest; let (n, r) ← natField r; pure (.u32 (BitVec.ofNat 32 n), r)
    | "u64" => do let r ← expect ":" rest; let (n, r) ← natField r; pure (.u64 (BitVec.ofNat 64 n), r)
    | "int" => do let r ← expect ":" rest; let (n, r) ← natField r; pure (.int (BitVec.ofNat 64 n), r)
    | "uint" => do let r ← expect ":" rest; let (n, r) ← natField r; pure (.uint (BitVec.ofNat 64 n), r)
    | "f32" => do let r ← expect ":" rest; let (n, r) ← natField r; pure (.f32 (BitVec.ofNat 32 n), r)
    | "f64" => do let r ← expect ":" rest; let (n, r) ← natField r; pure (.f64 (BitVec.ofNat 64 n), r)
    | "str" => do let r ← expect ":" rest; let (b, r) ← hexField r; pure (.str b, r)
    | "raw" => do
      let r ← expect ":" rest
      let (t, r) ← natField r
      let r ← expect ":" r
      let (b, r) ← hexField r
      pure (.raw (BitVec.ofNat 8 t) b, r)
    | "st1" => do
      let r ← expect "(" rest
      let (v, r) ← parseVal r
      let r ← expect ")" r
      pure (.st1 v, r)
    | "sl" => do
      let r ← expect "<" rest
      let (t, r) ← parseType r
      let r ← expect ">(" r
      let (xs, r) ← parseVals r
      let r ← expect ")" r
      pure (.slice t xs, r)
    | "map" => do
      let r ← expect "{" rest
      let (kvs, r) ← parseKvs r
      let r ← expect "}" r
      pure (.map kvs, r)
    | _ => none
  partial def parseVals : P (List GoVal) := fun cs =>
    match cs with
    | ')' :: _ => some ([], cs)
    | _ => do
      let (v, r) ← parseVal cs
      match r with
      | ',' :: r' => do let (vs, r'') ← parseVals r'; pure (v :: vs, r'')
      | _ => pure ([v], r)
  partial def parseKvs : P (List (Bytes × GoVal)) := fun cs =>
    match cs with
    | '}' :: _ => some ([], cs)
    | _ => do
      let (k, r) ← hexField cs
      let r ← expect "=" r
      let (v, r) ← parseVal r
      match r with
      | ',' :: r' => do let (kvs, r'') ← parseKvs r'; pure ((k, v) :: kvs, r'')
      | _ => pure ([(k, v)], r)
end

/-! ### the documented tree of a value (README / doc comments of `Encode`), independent of the model -/

inductive Doc where
  | tree (t : NBT)      -- the document must hold this tree
  | refuse              -- not encodable: `Encode` must return an error
  | free                -- the documentation does not say (mixed integer kinds behind `[]any`, …): no demand
deriving Inhabited

def docTag : NBT → Nat := fun t => t.tag.toNat

def allSome {α} : List (Option α) → Option (List α)
  | [] => some []
  | none :: _ => none
  | some x :: xs => (allSome xs).map (x :: ·)

def isIntLike : GoVal → Bool
  | .bool _ | .i8 _ | .i16 _ | .i32 _ | .i64 _ | .u8 _ | .u16 _ | .u32 _ | .u64 _ | .int _ | .uint _ => true
  | _ => false

mutual
  partial def docTree : GoVal → Doc
    | .bool b => .tree (.byte (if b then 1 else 0))
    | .i8 v | .u8 v => .tree (.byte v)
    | .i16 v | .u16 v => .tree (.short v)
    | .i32 v | .u32 v => .tree (.int v)
    | .i64 v | .u64 v => .tree (.long v)
    | .f32 b => .tree (.float b)
    | .f64 b => .tree (.double b)
    | .str s => if s.length > 32767 then .refuse else .tree (.string s)
    | .int _ | .uint _ | .nil => .refuse
    | .raw t d =>
      match parsePayload (d.length + 2) t d with
      | some (tr, []) => .tree tr
      | _ => .free                                       -- the carrier's content is the caller's business
    | .unit => .tree (.compound [])
    | .st1 r =>
      match docTree r with
      | .tree t => .tree (.compound [([0x72], t)])
      | d => d
    | .map kvs =>
      let ds := kvs.map fun (k, v) => (k, docTree v)
      if ds.any (fun d => match d.2 with | .refuse => true | _ => false) || kvs.any (fun kv => kv.1.length > 32767) then .refuse
      else if ds.any (fun d => match d.2 with | .free => true | _ => false) then .free
      else .tree (.compound (ds.filterMap fun (k, d) => match d with | .tree t => some (k, t) | _ => none))
    | .slice elem xs => docSlice elem xs
  partial def docSlice (elem : GoType) (xs : List GoVal) : Doc :=
    -- byte / int / long slices are typed arrays
    let bytesOf := xs.filterMap fun x => match x with
      | .bool b => some (if b then (1 : Byte) else 0) | .i8 v | .u8 v => some v | _ => none
    let intsOf := xs.filterMap fun x => match x with | .i32 v | .u32 v => some v | _ => none
    let longsOf := xs.filterMap fun x => match x with | .i64 v | .u64 v => some v | _ => none
    match elem with
    | .bool | .i8 | .u8 => .tree (.byteArray bytesOf)
    | .i32 | .u32 => .tree (.intArray intsOf)
    | .i64 | .u64 => .tree (.longArray longsOf)
    | _ =>
      match xs with
      | [] => .tree (.list 0 [])                          -- an empty list; its element tag is not compared
      | x0 :: _ =>
        let ds := xs.map docTree
        if ds.any (fun d => match d with | .free => true | _ => false) then .free else
        let anyRaw := xs.any isRaw
        let allRaw := xs.all isRaw
        if anyRaw && !allRaw then .free else                  -- carriers mixed with plain values: only well-formedness is demanded
        match allSome (ds.map fun d => match d with | .tree t => some t | _ => none) with
        | none =>
          -- some element is not encodable: an error, unless the slice is (mis)typed as an array of integers
          if (match elem with | .any => true | _ => false) && isIntLike x0 && !(match x0 with | .int _ | .uint _ => true | _ => false)
             && xs.all isIntLike then .free else .refuse
        | some ts =>
          match ts with
          | [] => .tree (.list 0 [])
          | t0 :: _ =>
            let same := ts.all fun t => docTag t == docTag t0
            if allRaw then (if same then .tree (.list t0.tag ts) else .refuse)
            else if same then
              match docTag t0 with
              | 1 => .tree (.byteArray bytesOf)
              | 3 => .tree (.intArray intsOf)
              | 4 => .tree (.longArray longsOf)
              | _ => .tree (.list t0.tag ts)
            else if isIntLike x0 && (docTag t0 == 1 || docTag t0 == 3 || docTag t0 == 4) && xs.all isIntLike then .free
            else .refuse
end

/-- the handler -/
def enc (fmtS nameHex desc obs : String) : Verdict :=
  match parseHex nameHex, parseVal desc.toList with
  | some name, some (v, []) =>
    let network := fmtS == "net"
    let fmt : Format := if network then .network else .file
    let r := encode network name v
    let modelStr := match r with
      | .ok bs => "ok " ++ hexOfBytes bs
      | .err => "err"
      | .panic => "panic"
    -- the implementation's document, read by the spec reader
    let implBytes : Option Bytes := if obs.startsWith "ok " then parseHex (obs.drop 3).toString else none
    let implDoc : Option (Bytes × NBT) :=
      match implBytes with
      | some bs => match parseDoc fmt bs with
        | some (n, t, []) => some (n, t)
        | _ => none
      | none => none
    -- model vs implementation: as trees (map order is arbitrary), same root tag, same number of bytes
    let model :=
      match r, implDoc, implBytes with
      | .ok bs, some (n, t), some ib =>
        match parseDoc fmt bs with
        | some (n', t', []) =>
          if n == n' && specAny t == specAny t' && t.tag == t'.tag && bs.length == ib.length then obs else modelStr
        | _ => if bs == ib then obs else modelStr
      | .ok bs, none, some ib => if bs == ib then obs else modelStr
      | _, _, _ => modelStr
    -- the property, on the implementation's observation
    let nameTooLong := !network && name.length > 32767
    let spec : Option String :=
      if obs == "panic" then some "encoder panicked"
      else match (if nameTooLong then Doc.refuse else docTree v) with
        | .free => if obs.startsWith "ok " && implDoc.isNone then some "emitted bytes are not a well-formed document" else none
        | .refuse => if obs.startsWith "ok " then some "value outside the documented mapping accepted (nil error)" else none
        | .tree want =>
          match implDoc with
          | none => some (if obs.startsWith "ok " then "emitted bytes are not a well-formed document" else "encodable value refused")
          | some (n, t) =>
            if n != (if network then [] else name) then some "root name differs"
            else if specAny t != specAny want then some ("document tree differs: expected " ++ ((specAny want).take 120).toString)
            else if t.tag != want.tag then some "root tag differs"
            else none
    { model, spec }
  | _, _ => { model := "bad-arg" }

def handle (op : String) (args : List String) (obs : String) : Option Verdict :=
  match op, args with
  | "c01.dec", _ => Driver.NBT.handleDec "C01" args obs
  | "c01.enc", [f, n, d] => some (enc f n d obs)
  | _, _ => none

end Driver.C01
