import Driver.Util
import GoMC.Model.Dispatch
import GoMC.Model.Gate
namespace Driver.C19
open GoMC GoMC.Model Driver

/-! ## helpers -/

def splitList (s : String) (sep : String) : List String :=
  if s == "-" || s.isEmpty then [] else s.splitOn sep

def joinList (xs : List String) (sep : String := ",") : String :=
  if xs.isEmpty then "-" else sep.intercalate xs

def getKV (args : List String) (k : String) : String := (kv args k).getD ""
def getInt (args : List String) (k : String) : Int := ((kv args k).bind String.toInt?).getD 0
def getHex (args : List String) (k : String) : Bytes := ((kv args k).bind parseHex).getD []

/-- length of a Minecraft VarInt holding a 32-bit two's complement value -/
def varIntLen (v : Int) : Nat :=
  if v < 0 then 5 else if v < 128 then 1 else if v < 16384 then 2 else if v < 2097152 then 3 else if v < 268435456 then 4 else 5

def strLen (b : Bytes) : Nat := varIntLen b.length + b.length

/-! ## gate.join -/

/-- payload length of a gate message on the wire (field codecs: VarInt, String, UnsignedShort, UUID) -/
def dataLen : Gate.Msg → Option Nat
  | .handshake p h _ n => some (varIntLen p + strLen h + 2 + varIntLen n)
  | .loginHello n _ => some (strLen n + 16)
  | .loginAck => some 0
  | .finishAck => some 0
  | .finishConfig => some 0
  | .setCompression t => some (varIntLen t)
  | .loginSuccess _ n => some (16 + strLen n + 1)   -- uuid, name, empty property array
  | .loginDisconnect _ => none                      -- JSON text: length not compared
  | .statusRequest => some 0
  | .pingRequest _ => some 8
  | .pong _ => some 8
  | .pluginAnswer i => some (varIntLen i + 1)        -- message id, `false` (no handler registered)
  | .cookieResponse k => some (strLen k + 1)        -- key, `false` (no such cookie)
  | _ => none

def frameStr (z : Bool) (id : Int) (len : Option Nat) : String :=
  (if z then "z:" else "u:") ++ toString id ++ ":" ++ (match len with | some n => toString n | none => "*")

def gateFrameStr (f : Gate.Frame) : String := frameStr f.z f.msg.id (dataLen f.msg)

/-- play packet descriptor from the line: `id:len:seed:digest` -/
structure PP where
  id : Int
  len : Nat
  digest : String
deriving Inhabited

def parsePP (s : String) : Option PP :=
  match s.splitOn ":" with
  | [a, b, _, d] => do
    let id ← a.toInt?
    let len ← b.toNat?
    pure { id, len, digest := d }
  | _ => none

def PP.recv (p : PP) : String := s!"{p.id}:{p.len}:{p.digest}"

def zeros32 : String := String.ofList (List.replicate 32 '0')

/-- which of the bot's two queues bounds which direction (bot/client.go `warpConn`): what the bot has queued to SEND
    waits in `JoinOptions.QueueWrite`, what it has RECEIVED and not yet handled waits in `JoinOptions.QueueRead`.
    Capacity of a queue kind; `none` = unbounded (not given / LinkedQueue). -/
def queueCap (kind : String) : Option Nat :=
  if kind == "chan16" then some 16 else if kind == "chan4096" then some 4096 else none

/-- a burst of `n` packets plus the end marker fits the queue of its own direction -/
def burstFits (kind : String) (n : Nat) : Bool :=
  match queueCap kind with
  | some c => n + 1 ≤ c
  | none => true

def join (args : List String) (obs : String) : Verdict :=
  let name := getHex args "name"
  let host := getHex args "host"
  let port := (getInt args "port").toNat
  let ouuid := getHex args "ouuid"
  let t := getInt args "t"
  let chk := getKV args "chk"
  let reason := getHex args "reason"
  let c2s := (splitList (getKV args "c2s") ",").filterMap parsePP
  let s2c := (splitList (getKV args "s2c") ",").filterMap parsePP
  -- ---------------- model: the two-party run, then the play channels
  let cfg : Gate.Cfg := {
    threshold := t
    checker := if chk == "nil" then none else if chk == "acc" then some (fun _ _ _ => none) else some (fun _ _ _ => some reason)
    ouuid := fun _ => ouuid
    statusJson := fun _ => [] }
  let claimed := if getKV args "auth" == "-" || getKV args "auth" == "" then Gate.zeroUUID else getHex args "auth"
  let s := Gate.run cfg 32 (Gate.initJoin name claimed host port)
  let cRes := match s.client.phase with
    | .joined => "joined"
    | .failed (.disconnect r) => "disconnect:" ++ hexOfBytes r
    | .config => "err:config"
    | _ => "err:login"
  let joined := s.client.phase == .joined
  let (sRes, sName, sId, sProto) := match s.server.phase with
    | .play n id p => ("play", hexOfBytes n, hexOfBytes id, p)
    | _ => ("nologin", "-", "", 0)
  let sId := if sId == "" || sId == "-" then zeros32 else sId
  let cName := if joined then hexOfBytes s.client.name else "-"
  let cId := if joined then hexOfBytes s.client.uuid else zeros32
  -- what the checker was called with: the hello's name, its offline UUID, the handshake's protocol
  let chkSeen :=
    if chk == "nil" then "-" else
    match s.c2sLog with
    | ⟨_, .handshake p _ _ _⟩ :: ⟨_, .loginHello n _⟩ :: _ => s!"{hexOfBytes n}:{hexOfBytes (cfg.ouuid n)}:{p}"
    | _ => "-"
  let hUuid := match s.c2sLog with
    | _ :: ⟨_, .loginHello _ u⟩ :: _ => hexOfBytes u
    | _ => "-"
  let inPlay := joined && sRes == "play"
  let evs : List (Gate.PlayEv PP) :=
    if inPlay then c2s.map .cSend ++ s2c.map .sSend ++ c2s.map (fun _ => .sRead) ++ s2c.map (fun _ => .cRead) else []
  let pl := Gate.playRun ({ cthr := s.client.thr, sthr := s.server.thr } : Gate.Play PP) evs
  let playTrace (thr : Int) (ps : List PP) : List String :=
    if inPlay then ps.map fun p => frameStr (decide (thr ≥ 0)) p.id (some p.len) else []
  let cs := s.c2sLog.map gateFrameStr ++ playTrace s.client.thr c2s
  let sc := s.s2cLog.map gateFrameStr ++ playTrace s.server.thr s2c
  let model := s!"c={cRes} s={sRes} cname={cName} cuuid={cId} sname={sName} suuid={sId} sproto={sProto} chk={chkSeen} huuid={hUuid} " ++
    s!"cs={joinList cs} sc={joinList sc} rs={joinList (pl.sRecv.map PP.recv)} rc={joinList (pl.cRecv.map PP.recv)}"
  -- ---------------- spec oracle on the implementation's observation (from the property statement)
  let toks := obs.splitOn " "
  let o (k : String) : String := getKV toks k
  let want (k v : String) : Option String := if o k == v then none else some s!"{k}: expected {v}, observed {o k}"
  let schedule (tr : String) (zfrom : Nat) (ids : List Int) : Option String :=
    let fs := splitList tr ","
    if fs.contains "bad" then some "a recorded frame does not parse under the format its sender should have used"
    else
      let bad := (fs.zipIdx.zip ids).find? fun ((f, k), id) =>
        match f.splitOn ":" with
        | [z, i, _] => !(z == (if t ≥ 0 && k ≥ zfrom then "z" else "u") && i == toString id)
        | _ => true
      if fs.length != ids.length then some s!"frame count {fs.length}, expected {ids.length}"
      else bad.map fun ((f, k), _) => s!"frame {k} is {f}"
  let firstSome (xs : List (Option String)) : Option String := xs.findSome? id
  -- the login checker is consulted with the name, the OFFLINE uuid of the name (whatever the hello claimed) and the
  -- client's protocol number
  let chkWant : Option String :=
    if chk == "nil" then none else want "chk" s!"{hexOfBytes name}:{hexOfBytes ouuid}:{getKV args "cproto"}"
  -- queue options: delivery of a burst is demanded when it fits the queue of ITS OWN direction, whatever the other is
  let (qr, qw) := match (getKV args "q").splitOn "/" with
    | [a, b] => (a, b)
    | _ => ("", "")
  let queuesOk := burstFits qw c2s.length && burstFits qr s2c.length
  let spec : Option String :=
    if obs == "panic" || obs == "hang" then some ("join run: " ++ obs) else
    if !queuesOk then none else
    if chk == "ref" then
      firstSome [want "c" ("disconnect:" ++ hexOfBytes reason), want "s" "nologin", chkWant,
        schedule (o "sc") 1 ((if t ≥ 0 then [3] else []) ++ [0])]
    else
      firstSome [want "c" "joined", want "s" "play", chkWant,
        want "cname" (hexOfBytes name), want "sname" (hexOfBytes name),
        want "cuuid" (hexOfBytes ouuid), want "suuid" (hexOfBytes ouuid), want "sproto" (getKV args "cproto"),
        want "rs" (joinList (c2s.map PP.recv)), want "rc" (joinList (s2c.map PP.recv)),
        schedule (o "cs") 2 ([0, 0, 3, 3] ++ c2s.map (·.id)),
        schedule (o "sc") 1 ((if t ≥ 0 then [3] else []) ++ [2, 3] ++ s2c.map (·.id))]
  { model, spec }

/-! ## disp.run -/

abbrev Log := List String   -- newest first

def pktIndex (d : Bytes) : Int :=
  if d.length ≥ 4 then ((d.take 4).foldl (fun acc b => acc * 256 + b.toNat) 0 : Nat) else -1

def indexBytes (k : Nat) : Bytes :=
  [BitVec.ofNat 8 (k / 16777216), BitVec.ofNat 8 (k / 65536), BitVec.ofNat 8 (k / 256), BitVec.ofNat 8 k]

structure RegE where
  id : Int
  prio : Int
  hid : Nat
  fail : Nat
deriving Inhabited

def parseRegE (s : String) : Option RegE :=
  match s.splitOn "." with
  | [a, b, c, d] => do
    pure { id := ← a.toInt?, prio := ← b.toInt?, hid := ← c.toNat?, fail := ← d.toNat? }
  | _ => none

def mkHandler (e : RegE) : Dispatch.Handler Log Nat :=
  { id := e.id, prio := e.prio,
    f := fun p st =>
      let k := pktIndex p.data
      let st' := s!"{e.hid}@{k}" :: st
      if e.fail == 1 || (e.fail == 2 && k % 2 == 1) then (st', some e.hid) else (st', none) }

/-- one call: `L<e>+<e>…` or `G<e>+…` -/
def parseCall (s : String) : Bool × List RegE :=
  let body := (s.drop 1).toString
  (s.startsWith "G", (if body.isEmpty then [] else body.splitOn "+").filterMap parseRegE)

def renderDisp (log : Log) (e : String) : String := s!"log={joinList log.reverse} end={e}"

def endStr : Dispatch.End Nat → String
  | .handler id h => s!"handler:{h}:{id}"
  | .readErr => "eof"
  | .bundleLimit => "other"
  | .panic => "panic"

/-- the table length the model is instantiated with: `packetid.ClientboundPacketIDGuard`
    (`Props/C19` proves it equal to the regenerated constant) -/
def guardLen : Nat := Dispatch.guardLen

/-! independent oracle for the dispatch order: the registrations that concern a packet, sorted by
    `List.mergeSort` (a stable sort) on descending priority; bundles cut out of the packet list by `span`. -/

def oracleOrder (regs : List (Bool × RegE)) (id : Int) : List RegE :=
  let gen := (regs.filter (·.1)).map (·.2)
  let spec := (regs.filter fun (g, e) => !g && e.id == id).map (·.2)
  gen.mergeSort (fun a b => decide (a.prio ≥ b.prio)) ++ spec.mergeSort (fun a b => decide (a.prio ≥ b.prio))

/-- run the handlers of one packet; returns the log additions (oldest first) and the failing handler -/
def oracleOne (regs : List (Bool × RegE)) (id : Int) (k : Nat) : List String × Option Nat :=
  let rec go : List RegE → List String → List String × Option Nat
    | [], acc => (acc.reverse, none)
    | e :: es, acc =>
      let acc := s!"{e.hid}@{k}" :: acc
      if e.fail == 1 || (e.fail == 2 && k % 2 == 1) then (acc.reverse, some e.hid) else go es acc
  go (oracleOrder regs id) []

/-- result of one `HandleGame` call according to the oracle: the log so far, how the call ended, the packets the
    next call will see, and whether packets of a bundle were dropped after a failing handler (the property does not
    say what becomes of those, so later calls are then only weakly constrained) -/
structure OCall where
  log : List String
  fin : String
  rest : List (Int × Nat)
  dropped : Bool

/-- `none` = the property does not determine the outcome of this input -/
partial def oracleRun (regs : List (Bool × RegE)) : List (Int × Nat) → List String → Option OCall
  | [], acc => some ⟨acc, "eof", [], false⟩
  | (id, k) :: rest, acc =>
    if id == 0 then
      let (inner, after) := rest.span (fun p => p.1 != 0)
      match after with
      | [] => if inner.length ≥ 4096 then none else some ⟨acc, "eof", [], false⟩   -- never closed: nothing is handled
      | _ :: after' =>
        if inner.length > 4096 then some ⟨acc, "other", rest.drop 4096, false⟩
        else if inner.length == 4096 then none                          -- exactly at the limit: not fixed by the property
        else
          let rec many : List (Int × Nat) → List String → Option (List String × Option (String × Bool))
            | [], acc => some (acc, none)
            | (i, k') :: ps, acc =>
              match oracleOne regs i k' with
              | (l, some h) => some (acc ++ l, some (s!"handler:{h}:{i}", !ps.isEmpty))
              | (l, none) => many ps (acc ++ l)
          match many inner acc with
          | none => none
          | some (acc', some (e, dr)) => some ⟨acc', e, after', dr⟩
          | some (acc', none) => oracleRun regs after' acc'
    else
      -- "each received packet" goes to the generic handlers: also one whose id no specific handler can be registered
      -- for (`oracleOrder` then has no id-specific part, registrations with such ids being invalid)
      match oracleOne regs id k with
      | (l, some h) => some ⟨acc ++ l, s!"handler:{h}:{id}", rest, false⟩
      | (l, none) => oracleRun regs rest (acc ++ l)

/-- the caller's loop: up to `n` calls, again only after a handler's error. Returns the log, the ends of the calls the
    oracle determines, and whether it stopped early because bundle packets had been dropped (`weak`). -/
partial def oracleSession (regs : List (Bool × RegE)) : Nat → List (Int × Nat) → List String → List String →
    Option (List String × List String × Bool)
  | 0, _, acc, ends => some (acc, ends, false)
  | n + 1, ps, acc, ends =>
    match oracleRun regs ps acc with
    | none => none
    | some c =>
      let ends := ends ++ [c.fin]
      if !c.fin.startsWith "handler:" || n == 0 then some (c.log, ends, false)
      else if c.dropped then some (c.log, ends, true)
      else oracleSession regs n c.rest c.log ends

def isPrefixOf {α} [BEq α] : List α → List α → Bool
  | [], _ => true
  | _ :: _, [] => false
  | a :: as, b :: bs => a == b && isPrefixOf as bs

def entryIndex (e : String) : Int := ((e.splitOn "@").getLast?.bind String.toInt?).getD (-1)

def disp (args : List String) (obs : String) : Verdict :=
  let calls := (splitList (getKV args "regs") ";").map parseCall
  let ids := (splitList (getKV args "pkts") ",").filterMap String.toInt?
  let ncalls := max 1 (getInt args "calls").toNat
  let pkts : List Dispatch.Pkt := ids.zipIdx.map fun (id, k) => { id := id, data := indexBytes k }
  let regCalls : List (Dispatch.RegCall Log Nat) := calls.map fun (g, es) =>
    if g then .generic (es.map mkHandler) else .listener (es.map mkHandler)
  let model :=
    match Dispatch.register (Dispatch.newEvents guardLen) regCalls with
    | .ok ev =>
      let (log, es) := Dispatch.resume ev ncalls pkts []
      renderDisp log ("/".intercalate (es.map endStr))
    | _ => "panic-reg"
  let flat : List (Bool × RegE) := calls.flatMap fun (g, es) => es.map fun e => (g, e)
  let invalidReg := flat.any fun (g, e) => !g && (e.id < 0 || e.id ≥ 124)
  let otoks := obs.splitOn " "
  let oEnds := (getKV otoks "end").splitOn "/"
  let spec : Option String :=
    if obs == "hang" || obs == "nojoin" then some ("dispatch run: " ++ obs)
    else if invalidReg then none                -- AddListener documents a panic for an invalid id
    else if obs == "panic-reg" then some "registration panicked on valid ids"
    else if oEnds.contains "panic" then some "dispatch panicked on a received packet"
    else match oracleSession flat ncalls (ids.zipIdx) [] [] with
      | none => none
      | some (log, ends, false) =>
        let want := s!"log={joinList log} end={"/".intercalate ends}"
        if obs == want then none else some s!"dispatch order: expected {want}"
      | some (log, ends, true) =>
        -- packets of a bundle were dropped after a failing handler: the calls so far are determined; afterwards every
        -- dispatched packet must be a LATER one than the failing packet, in arrival order (nothing is handled twice)
        let oLog := splitList (getKV otoks "log") ","
        let kfail := (log.getLast?.map entryIndex).getD (-1)
        let later := (oLog.drop log.length).map entryIndex
        let sorted := (later.zip (later.drop 1)).all fun (a, b) => a ≤ b
        if !(isPrefixOf log oLog && isPrefixOf ends oEnds) then
          some s!"dispatch order: expected to start with log={joinList log} end={"/".intercalate ends}"
        else if later.any (· ≤ kfail) then some s!"a packet at or before the failing packet {kfail} was dispatched again after the error"
        else if !sorted then some "packets dispatched out of arrival order after a resumed HandleGame"
        else none
  { model, spec }

/-! ## gate.status -/

def status (args : List String) (obs : String) : Verdict :=
  let mode := getKV args "mode"
  let proto := getInt args "proto"
  let ns := getKV args "ns"
  let payload := (parseHexNat (getKV args "payload")).getD 0
  let payloadStr := hexOfNat 16 payload
  let canon (clientProto : Int) : String :=
    let p := if proto < 0 then clientProto else proto
    s!"L:{getKV args "name"}:{p}:{getKV args "max"}:{getKV args "online"}:{getKV args "desc"}:{getKV args "fav"}:{ns}/{ns}"
  let cfg : Gate.Cfg := { threshold := -1, checker := none, ouuid := fun _ => [], statusJson := fun p => (canon p).toUTF8.toList.map (BitVec.ofNat 8 ·.toNat) }
  let strOf (b : Bytes) : String := (String.fromUTF8? (ByteArray.mk (b.map (fun x => UInt8.ofNat x.toNat)).toArray)).getD "?"
  let showMsg : Gate.Msg → String
    | .statusResponse js => strOf js
    | .pong pl => "P:" ++ hexOfNat 16 pl.toNat
    | _ => "?"
  if mode.startsWith "tcp" then   -- tcp / tcpto / tcpctx / tcpdl: every public entry point, same expectation
    let s := Gate.run cfg 16 (Gate.initPing [] 0 (BitVec.ofNat 64 payload))
    let model := match s.client.phase with
      | .pinged js _ => s!"r={strOf js},P:echo"
      | _ => "r=err"
    let want := s!"r={canon (getInt args "cproto")},P:echo"
    { model, spec := if obs == want then none else some s!"status ping: expected {want}" }
  else
    let reqs : List Gate.Msg := (getKV args "seq").toList.map fun c => if c == 'L' then .statusRequest else .pingRequest (BitVec.ofNat 64 payload)
    -- the raw client of the harness: handshake (intention 1), then one request at a time
    let (sv, _) := Gate.serverOn cfg { phase := .handshake } (.handshake Gate.protocolVersion [] 0 1)
    let rec go (sv : Gate.Server) : List Gate.Msg → List String
      | [] => []
      | m :: ms =>
        if sv.phase == .closed then ["closed"] else
        let (sv', acts) := Gate.serverOn cfg sv m
        let outs := acts.filterMap fun a => match a with | .send x => some (showMsg x) | _ => none
        outs ++ go sv' ms
    let model := "r=" ++ joinList (go sv reqs)
    -- spec: the first two requests are answered, a list request with the handler's data, a ping with its payload
    let rs := splitList ((obs.drop 2).toString) ","
    let seq := (getKV args "seq").toList
    let bad := (seq.take 2).zipIdx.findSome? fun (c, i) =>
      let w := if c == 'L' then canon (getInt args "cproto") else "P:" ++ payloadStr
      if rs[i]? == some w then none else some s!"request {i}: expected {w}, observed {(rs[i]?).getD "nothing"}"
    { model, spec := if obs == "hang" || obs == "panic" then some obs else bad }

/-! ## gate.bot: the real bot against a scripted server -/

def asciiBytes (s : String) : Bytes := s.toUTF8.toList.map (BitVec.ofNat 8 ·.toNat)

def bot (args : List String) (obs : String) : Verdict :=
  let name := getHex args "name"
  let ouuid := getHex args "ouuid"
  let script := splitList (getKV args "script") ","
  -- what the scripted server does, in program order
  let acts : List Gate.Act := script.flatMap fun tok =>
    let n : Int := ((tok.drop 1).toString.toInt?).getD 0
    if tok.startsWith "P" then [.send (.pluginRequest n (asciiBytes "verif:ch"))]
    else if tok.startsWith "K" then [.send (.cookieRequest (asciiBytes "verif:key"))]
    else if tok.startsWith "C" then [.send (.setCompression n), .setThr n]
    else if tok.startsWith "S" then [.send (.loginSuccess ouuid name)]
    else if tok.startsWith "D" then [.send (.loginDisconnect (asciiBytes "bye"))]
    else if tok.startsWith "F" then [.send .finishConfig]
    else []
  let (_, frames) := Gate.applyActs (-1) acts
  let s0 := Gate.initJoin name Gate.zeroUUID (asciiBytes "localhost") 25565
  let s1 : Gate.Sys := { s0 with s2c := frames }
  let s := (List.range frames.length).foldl (fun st _ => Gate.deliverToClient st) s1
  let joined := s.client.phase == .joined
  let cRes := match s.client.phase with
    | .joined => "joined"
    | .failed (.disconnect r) => "disconnect:" ++ hexOfBytes r
    | .config => "err:config"
    | _ => "err:login"
  let cName := if joined then hexOfBytes s.client.name else "-"
  let cId := if joined then hexOfBytes s.client.uuid else zeros32
  let model := s!"c={cRes} cname={cName} cuuid={cId} cs={joinList (s.c2sLog.map gateFrameStr)}"
  -- spec: a script without a disconnect that ends with login success + finish must be joined under the sent identity
  let toks := obs.splitOn " "
  let spec : Option String :=
    if obs == "hang" || obs == "panic" then some ("bot run: " ++ obs)
    else if !script.contains "D" && script.drop (script.length - 2) == ["S", "F"] then
      if getKV toks "c" == "joined" && getKV toks "cname" == hexOfBytes name && getKV toks "cuuid" == hexOfBytes ouuid then none
      else some "the bot did not complete the join under the identity the server sent"
    else none
  { model, spec }

/-! ## gate.listen: (*Server).Listen with overlapping connections

  At message level the sessions are independent systems: each bot's join is a `Gate.run`, each play channel a
  `Gate.playRun`; a status ping in between is `Gate.initPing`. The expected observation is their juxtaposition. -/

def listen (args : List String) (obs : String) : Verdict :=
  let t := getInt args "t"
  let pings := (getInt args "pings").toNat
  let hasB := getKV args "b" == "1"
  let sa := (splitList (getKV args "sa") ",").filterMap parsePP
  let sb := (splitList (getKV args "sb") ",").filterMap parsePP
  let cfg : Gate.Cfg := { threshold := t, checker := none, ouuid := fun n => n, statusJson := fun _ => [1] }
  let session (name : String) (ps : List PP) : String × String :=
    let s := Gate.run cfg 32 (Gate.initJoin (asciiBytes name) Gate.zeroUUID [] 0)
    if s.client.phase == .joined then
      let pl := Gate.playRun ({ cthr := s.client.thr, sthr := s.server.thr } : Gate.Play PP) (ps.map .sSend ++ ps.map (fun _ => .cRead))
      ("joined", joinList (pl.cRecv.map PP.recv))
    else ("err:login", "-")
  let pingOk := (List.range pings).filter fun _ =>
    match (Gate.run cfg 16 (Gate.initPing [] 0 0)).client.phase with
    | .pinged _ _ => true
    | _ => false
  let (aRes, ra) := session "A" sa
  let (bRes, rb) := if hasB then session "B" sb else ("-", "-")
  let model := s!"a={aRes} pings={pingOk.length} b={bRes} ra={ra} rb={rb}"
  -- spec, from the property: every join completes, every ping succeeds, each player receives exactly its own packets
  let want := s!"a=joined pings={pings} b={if hasB then "joined" else "-"} ra={joinList (sa.map PP.recv)} rb={if hasB then joinList (sb.map PP.recv) else "-"}"
  { model, spec := if obs == want then none else some s!"overlapping sessions: expected {want}" }

def handle (op : String) (args : List String) (obs : String) : Option Verdict :=
  match op with
  | "gate.join" => some (join args obs)
  | "disp.run" => some (disp args obs)
  | "gate.status" => some (status args obs)
  | "gate.bot" => some (bot args obs)
  | "gate.listen" => some (listen args obs)
  | _ => none

end Driver.C19
