import Driver.Util
import GoMC.Model.VarInt
namespace Driver.C05
open GoMC GoMC.Model GoMC.Spec Driver

def isPrefix : Bytes → Bytes → Bool
  | [], _ => true
  | _ :: _, [] => false
  | a :: as, b :: bs => a == b && isPrefix as bs

/-- ops: varint.enc <hex8>, varlong.enc <hex16>; obs: `<bytes> len=<Len()> wn=<WriteTo n>` -/
def enc (w : Nat) (arg obs : String) : Verdict :=
  match parseHexNat arg with
  | none => { model := "bad-arg" }
  | some n =>
    let n := n % 2 ^ w
    let bytes := if w == 32 then varIntBytes (BitVec.ofNat 32 n) else varLongBytes (BitVec.ofNat 64 n)
    let model := s!"{hexOfBytes bytes} len={bytes.length} wn={bytes.length}"
    -- spec: the unique minimal LEB128 encoding; Len() and the count returned by WriteTo equal its length
    let want := leb n
    let specObs := s!"{hexOfBytes want} len={want.length} wn={want.length}"
    { model, spec := if obs == specObs then none else some s!"expected {specObs}" }

/-- ops: varint.nest <outer> <inner>, varlong.nest …: `outer.WriteTo(w)` where `w.Write` first writes `inner`
with the same encoder into the same buffer; obs: `<bytes> wn=<n>` -/
def nest (w : Nat) (a b obs : String) : Verdict :=
  match parseHexNat a, parseHexNat b with
  | some o, some i =>
    let o := o % 2 ^ w
    let i := i % 2 ^ w
    let e := fun (n : Nat) => if w == 32 then varIntBytes (BitVec.ofNat 32 n) else varLongBytes (BitVec.ofNat 64 n)
    let model := s!"{hexOfBytes (e i ++ e o)} wn={(e o).length}"
    -- spec: the two minimal encodings one after the other, the count is the outer one's length
    let specObs := s!"{hexOfBytes (leb i ++ leb o)} wn={(leb o).length}"
    { model, spec := if obs == specObs then none else some s!"expected {specObs}" }
  | _, _ => { model := "bad-arg" }

def showDec (w : Nat) (r : Res (Nat × Nat)) (rest : Bytes) : String :=
  match r with
  | .ok (v, n) => s!"ok v={hexOfNat (w / 4) v} n={n} rest={hexOfBytes rest}"
  | .err => s!"err rest={hexOfBytes rest}"
  | .panic => "panic"

/-- ops: varint.dec <hex input> <reader kind>, varlong.dec …; obs: `ok v= n= rest=` | `err rest=` | `panic` -/
def dec (w : Nat) (arg obs : String) : Verdict :=
  match parseHex arg with
  | none => { model := "bad-arg" }
  | some input =>
    let cap := if w == 32 then 5 else 10
    let (r, rest) : Res (Nat × Nat) × Bytes :=
      if w == 32 then
        let (r, s) := varIntRead (Stream.ofBytes input)
        (r.map fun (v, n) => (v.toNat, n), s.flat)
      else
        let (r, s) := varLongRead (Stream.ofBytes input)
        (r.map fun (v, n) => (v.toNat, n), s.flat)
    let model := showDec w r rest
    -- spec oracle on the implementation's observation
    let toks := obs.splitOn " "
    let implRest := (kv toks "rest").bind parseHex
    let spec : Option String :=
      if obs == "panic" then some "decoder panicked" else
      if toks.contains "extra-reads" then some "the decoder asked the source for more although it held a complete number" else
      match implRest with
      | none => some "unparseable observation"
      | some ir =>
        if ir.length > input.length || input.length - ir.length > cap then
          some s!"consumed more than {cap} bytes"
        else if input.length ≥ cap && (input.take cap).all (fun b => b.toNat ≥ 128) && toks.head? != some "err" then
          some s!"{cap} continuation bytes accepted"
        else match unleb input with
          | some (n, r') =>
            if n < 2 ^ w && isPrefix (leb n) input && (leb n).length + r'.length == input.length then
              let want := showDec w (.ok (n, (leb n).length)) r'
              if obs == want then none else some s!"minimal encoding: expected {want}"
            else none
          | none => none
    { model, spec }

/-- ops: varint.dec2 <hex input> <kind> <limit|-> <prior hex>: two decodes from one reader into one destination
holding `prior`; with a limit the reader is a LimitedReader. obs: `r1;r2; rest=<hex>` with ri = `ok:<v>:<n>` | `err` -/
def dec2 (w : Nat) (arg lim obs : String) : Verdict :=
  match parseHex arg with
  | none => { model := "bad-arg" }
  | some input =>
    let limit : Nat := if lim == "-" then input.length else (lim.toNat?).getD 0
    let vis := input.take limit
    let one (s : Stream) : String × Stream :=
      if w == 32 then
        let (r, s') := varIntRead s
        (match r with | .ok (v, n) => s!"ok:{hexOfNat 8 v.toNat}:{n};" | .err => "err;" | .panic => "panic;", s')
      else
        let (r, s') := varLongRead s
        (match r with | .ok (v, n) => s!"ok:{hexOfNat 16 v.toNat}:{n};" | .err => "err;" | .panic => "panic;", s')
    let (o1, s1) := one (Stream.ofBytes vis)
    let (o2, s2) := one s1
    let model := s!"{o1}{o2} rest={hexOfBytes (s2.flat ++ input.drop limit)}"
    -- spec: nothing past the limit is touched; two minimal encodings inside the limit come back as the two values
    let toks := obs.splitOn " "
    let implRest := (kv toks "rest").bind parseHex
    let spec : Option String :=
      if obs == "panic" then some "decoder panicked" else
      match implRest with
      | none => some "unparseable observation"
      | some ir =>
        if ir.length + limit < input.length then some "bytes behind the reader's limit were consumed" else
        match unleb vis with
        | some (a, r1) =>
          if a < 2 ^ w && isPrefix (leb a) vis && (leb a).length + r1.length == vis.length then
            match unleb r1 with
            | some (b, r2) =>
              if b < 2 ^ w && isPrefix (leb b) r1 && (leb b).length + r2.length == r1.length then
                let want := s!"ok:{hexOfNat (w / 4) a}:{(leb a).length};ok:{hexOfNat (w / 4) b}:{(leb b).length}; rest={hexOfBytes (r2 ++ input.drop limit)}"
                if obs == want then none else some s!"two minimal encodings: expected {want}"
              else none
            | none => none
          else none
        | none => none
    { model, spec }

def handle (op : String) (args : List String) (obs : String) : Option Verdict :=
  match op, args with
  | "varint.enc", [a] => some (enc 32 a obs)
  | "varlong.enc", [a] => some (enc 64 a obs)
  | "varint.encw", [a, _] => some (enc 32 a obs)
  | "varlong.encw", [a, _] => some (enc 64 a obs)
  | "varint.dec2", [a, _, l, _] => some (dec2 32 a l obs)
  | "varlong.dec2", [a, _, l, _] => some (dec2 64 a l obs)
  | "varint.nest", [a, b] => some (nest 32 a b obs)
  | "varlong.nest", [a, b] => some (nest 64 a b obs)
  | "varint.dec", [a, _] => some (dec 32 a obs)
  | "varlong.dec", [a, _] => some (dec 64 a obs)
  | _, _ => none

end Driver.C05
