/-
  C17 stage 2: the NBT-form decoder of text components never panics (for C08).

  The typed model's crash points are in the walk along a field's index path (`updField`: a struct value with fewer
  fields than its type, a non-struct where a struct is expected). `Lemmas/NBTTotal` excludes them for the plain
  typed decoder with the typing relation `Good`; the chat decoder keeps components where the struct types say
  `Message` (a placeholder type), so its values are typed by the relation `GoodC` below: `Good`, plus "a component
  sits at a `Message`-typed position", "a `TranslateArgs` holds components and strings", and "an `any` holds a value
  without structs and carriers". `safeC`: from a `GoodC` destination, `chatUm` never panics and leaves a `GoodC`
  destination — for every fuel, tag and source.
-/
import GoMC.Lemmas.ChatNBTTop
import GoMC.Lemmas.NBTTotal
set_option linter.unusedSimpArgs false
namespace GoMC.Lemmas.ChatNBT
open GoMC GoMC.Rd GoMC.Spec GoMC.Model GoMC.Model.NBT GoMC.Model.Go GoMC.Model.ChatNBT GoMC.Lemmas.NBTDecode GoMC.Lemmas.NBTTyped
open GoMC.Lemmas.NBTTotal

/-- types whose values hold no struct and no carrier (what an `any` may hold) -/
def noHook : GoType → Bool
  | .slice e | .map e | .ptr e => noHook e
  | .bool | .int _ | .f32 | .f64 | .str | .iface => true
  | _ => false

/-- the struct types of package chat -/
def Known (n : Bytes) (fields : List (FieldInfo × GoType)) : Prop :=
  (fields = rawFields ∧ (n = nMessage ∨ n = nRawMsgStruct)) ∨ (n = nClickEvent ∧ fields = clickFields)
  ∨ (n = nHoverEvent ∧ fields = hoverFields)

/-- the types the chat decoder meets -/
def TyOK : GoType → Prop
  | .bool | .int _ | .f32 | .f64 | .str | .iface | .raw => True
  | .slice .dyn => True
  | .slice e | .map e | .ptr e => TyOK e
  | .struct n fields => Known n fields
  | _ => False

mutual
  /-- `v` may sit in a destination of type `ty` -/
  def GoodC : GoType → GoVal → Prop
    | .bool, .bool _ => True
    | .int k, .int k' _ => k = k'
    | .f32, .f32 _ => True
    | .f64, .f64 _ => True
    | .str, .str _ => True
    | .slice e, .slice e' _ xs => e = e' ∧ GoodCList e xs
    | .map e, .map e' _ kvs => e = e' ∧ GoodCKvs e kvs
    | .struct n fields, .struct n' fields' fs => n = n' ∧ fields = fields' ∧ GoodCFields fields fs
    | .ptr e, .ptr e' none => e = e'
    | .ptr e, .ptr e' (some x) => e = e' ∧ GoodC e x
    | .iface, .iface none => True
    | .iface, .iface (some x) => GoodC x.typeOf x ∧ noHook x.typeOf = true
    | .raw, .raw _ _ => True
    | .raw, .struct n fields fs => n = nMessage ∧ fields = rawFields ∧ GoodCFields rawFields fs
    | .dyn, .iface (some (.str _)) => True
    | .dyn, .iface (some (.raw _ _)) => True
    | .dyn, .iface (some (.struct n fields fs)) => n = nMessage ∧ fields = rawFields ∧ GoodCFields rawFields fs
    | _, _ => False
  def GoodCList : GoType → List GoVal → Prop
    | _, [] => True
    | e, x :: xs => GoodC e x ∧ GoodCList e xs
  def GoodCKvs : GoType → List (Bytes × GoVal) → Prop
    | _, [] => True
    | e, (_, x) :: kvs => GoodC e x ∧ GoodCKvs e kvs
  def GoodCFields : List (FieldInfo × GoType) → List GoVal → Prop
    | [], [] => True
    | (_, t) :: fields, x :: xs => GoodC t x ∧ GoodCFields fields xs
    | _, _ => False
end

theorem goodCList_of_forall (e : GoType) : ∀ xs : List GoVal, (∀ x ∈ xs, GoodC e x) → GoodCList e xs
  | [], _ => by simp [GoodCList]
  | x :: xs, h => by
    simp only [GoodCList]
    exact ⟨h x (by simp), goodCList_of_forall e xs (fun y hy => h y (by simp [hy]))⟩

theorem goodCList_mem {e : GoType} : ∀ {xs : List GoVal}, GoodCList e xs → ∀ x ∈ xs, GoodC e x
  | [], _, x, hx => by cases hx
  | y :: ys, h, x, hx => by
    simp only [GoodCList] at h
    rcases List.mem_cons.mp hx with rfl | h'
    · exact h.1
    · exact goodCList_mem h.2 x h'

theorem goodCList_append {e : GoType} : ∀ {xs ys : List GoVal}, GoodCList e xs → GoodCList e ys → GoodCList e (xs ++ ys)
  | [], _, _, h => h
  | x :: xs, ys, h1, h2 => by
    simp only [GoodCList, List.cons_append] at h1 ⊢
    exact ⟨h1.1, goodCList_append h1.2 h2⟩

theorem goodCKvs_of_forall (e : GoType) : ∀ kvs : List (Bytes × GoVal), (∀ kv ∈ kvs, GoodC e kv.2) → GoodCKvs e kvs
  | [], _ => by simp [GoodCKvs]
  | (k, x) :: kvs, h => by
    simp only [GoodCKvs]
    exact ⟨h (k, x) (by simp), goodCKvs_of_forall e kvs (fun y hy => h y (by simp [hy]))⟩

theorem goodCKvs_mem {e : GoType} : ∀ {kvs : List (Bytes × GoVal)}, GoodCKvs e kvs → ∀ kv ∈ kvs, GoodC e kv.2
  | [], _, x, hx => by cases hx
  | (k, y) :: ys, h, x, hx => by
    simp only [GoodCKvs] at h
    rcases List.mem_cons.mp hx with rfl | h'
    · exact h.1
    · exact goodCKvs_mem h.2 x h'

theorem tyOK_slice (e : GoType) (h : TyOK e) : TyOK (.slice e) := by
  cases e <;> simp_all [TyOK]

theorem tyOK_slice_inv (e : GoType) (h : TyOK (.slice e)) (hd : e ≠ .dyn) : TyOK e := by
  cases e <;> simp_all [TyOK]

theorem noHook_tyOK : ∀ ty : GoType, noHook ty = true → TyOK ty
  | .slice e, h => tyOK_slice e (noHook_tyOK e (by simpa [noHook] using h))
  | .map e, h => by simp only [TyOK]; exact noHook_tyOK e (by simpa [noHook] using h)
  | .ptr e, h => by simp only [TyOK]; exact noHook_tyOK e (by simpa [noHook] using h)
  | .bool, _ | .int _, _ | .f32, _ | .f64, _ | .str, _ | .iface, _ => by simp [TyOK]
  | .array _ _, h | .struct _ _, h | .raw, h | .dyn, h | .snbt, h => by simp [noHook] at h

theorem goodC_zero_raw : GoodCFields rawFields (GoType.zeroFields rawFields) := by
  simp [rawFields, msgFields, GoType.zeroFields, GoType.zero, GoodCFields, GoodC, GoodCList, argsTy, msgPH, clickTy, hoverTy]
theorem goodC_zero_click : GoodCFields clickFields (GoType.zeroFields clickFields) := by
  simp [clickFields, GoType.zeroFields, GoType.zero, GoodCFields, GoodC]
theorem goodC_zero_hover : GoodCFields hoverFields (GoType.zeroFields hoverFields) := by
  simp [hoverFields, GoType.zeroFields, GoType.zero, GoodCFields, GoodC, msgPH]

theorem goodC_zero : ∀ ty : GoType, TyOK ty → GoodC ty ty.zero
  | .bool, _ | .int _, _ | .f32, _ | .f64, _ | .str, _ | .iface, _ | .raw, _ => by simp [GoType.zero, GoodC]
  | .slice e, _ => by simp [GoType.zero, GoodC, GoodCList]
  | .map e, _ => by simp [GoType.zero, GoodC, GoodCKvs]
  | .ptr e, _ => by simp [GoType.zero, GoodC]
  | .struct n fields, h => by
    simp only [TyOK, Known] at h
    simp only [GoType.zero, GoodC, true_and]
    rcases h with ⟨rfl, _⟩ | ⟨_, rfl⟩ | ⟨_, rfl⟩
    · exact goodC_zero_raw
    · exact goodC_zero_click
    · exact goodC_zero_hover
  | .array _ _, h | .dyn, h | .snbt, h => by simp [TyOK] at h

/-- a value that may sit at a position of type `τ` has a type of its own under which the decoder treats it, and
whatever replaces it under that type may sit at the position again -/
theorem goodC_self (τ : GoType) (v : GoVal) (hτ : TyOK τ) (h : GoodC τ v) :
    TyOK v.typeOf ∧ GoodC v.typeOf v ∧ ∀ r, GoodC v.typeOf r → GoodC τ r := by
  cases v with
  | struct n fields fs =>
    cases τ <;> simp only [GoodC] at h
    · obtain ⟨rfl, rfl, hf⟩ := h
      exact ⟨hτ, by simp [GoVal.typeOf, GoodC, hf], fun r hr => hr⟩
    · obtain ⟨rfl, rfl, hf⟩ := h
      refine ⟨by simp [GoVal.typeOf, TyOK, Known], by simp [GoVal.typeOf, GoodC, hf], fun r hr => ?_⟩
      cases r <;> simp only [GoVal.typeOf, GoodC] at hr
      obtain ⟨rfl, rfl, hf'⟩ := hr
      simp [GoodC, hf']
  | ptr e p =>
    cases p <;> cases τ <;> simp only [GoodC] at h
    · subst h; exact ⟨hτ, by simp [GoVal.typeOf, GoodC], fun r hr => hr⟩
    · obtain ⟨rfl, hx⟩ := h; exact ⟨hτ, by simp [GoVal.typeOf, GoodC, hx], fun r hr => hr⟩
  | iface p =>
    cases p with
    | none =>
      cases τ <;> simp only [GoodC] at h
      exact ⟨hτ, by simp [GoVal.typeOf, GoodC], fun r hr => hr⟩
    | some x =>
      cases τ with
      | dyn => simp [TyOK] at hτ
      | iface =>
        simp only [GoodC] at h
        exact ⟨hτ, by simp only [GoVal.typeOf, GoodC]; exact h, fun r hr => hr⟩
      | _ => simp only [GoodC] at h
  | bool _ => cases τ <;> simp only [GoodC] at h; exact ⟨hτ, by simp [GoVal.typeOf, GoodC], fun r hr => hr⟩
  | int k x => cases τ <;> simp only [GoodC] at h; subst h; exact ⟨hτ, by simp [GoVal.typeOf, GoodC], fun r hr => hr⟩
  | f32 _ => cases τ <;> simp only [GoodC] at h; exact ⟨hτ, by simp [GoVal.typeOf, GoodC], fun r hr => hr⟩
  | f64 _ => cases τ <;> simp only [GoodC] at h; exact ⟨hτ, by simp [GoVal.typeOf, GoodC], fun r hr => hr⟩
  | str _ => cases τ <;> simp only [GoodC] at h; exact ⟨hτ, by simp [GoVal.typeOf, GoodC], fun r hr => hr⟩
  | slice e nl xs =>
    cases τ <;> simp only [GoodC] at h
    obtain ⟨rfl, hl⟩ := h
    exact ⟨hτ, by simp [GoVal.typeOf, GoodC, hl], fun r hr => hr⟩
  | map e nl kvs =>
    cases τ <;> simp only [GoodC] at h
    obtain ⟨rfl, hl⟩ := h
    exact ⟨hτ, by simp [GoVal.typeOf, GoodC, hl], fun r hr => hr⟩
  | raw t d => cases τ <;> simp only [GoodC] at h; exact ⟨hτ, by simp [GoVal.typeOf, GoodC], fun r hr => hr⟩
  | array e xs => cases τ <;> simp only [GoodC] at h
  | snbt t => cases τ <;> simp only [GoodC] at h
  | dyn d => cases τ <;> simp only [GoodC] at h

mutual
  theorem goodC_ofAny : ∀ v : NBT.GoAny, GoodC (ofAny v).typeOf (ofAny v) ∧ noHook (ofAny v).typeOf = true
    | .nil => by simp [ofAny, GoVal.typeOf, GoodC, noHook]
    | .i8 _ => by simp [ofAny, GoVal.typeOf, GoodC, noHook]
    | .i16 _ => by simp [ofAny, GoVal.typeOf, GoodC, noHook]
    | .i32 _ => by simp [ofAny, GoVal.typeOf, GoodC, noHook]
    | .i64 _ => by simp [ofAny, GoVal.typeOf, GoodC, noHook]
    | .f32 _ => by simp [ofAny, GoVal.typeOf, GoodC, noHook]
    | .f64 _ => by simp [ofAny, GoVal.typeOf, GoodC, noHook]
    | .str _ => by simp [ofAny, GoVal.typeOf, GoodC, noHook]
    | .bytes xs => by
      simp only [ofAny, GoVal.typeOf, GoodC, noHook, true_and, and_true]
      exact goodCList_of_forall _ _ (fun x hx => by obtain ⟨b, _, rfl⟩ := List.mem_map.mp hx; simp [GoodC])
    | .ints xs => by
      simp only [ofAny, GoVal.typeOf, GoodC, noHook, true_and, and_true]
      exact goodCList_of_forall _ _ (fun x hx => by obtain ⟨b, _, rfl⟩ := List.mem_map.mp hx; simp [GoodC])
    | .longs xs => by
      simp only [ofAny, GoVal.typeOf, GoodC, noHook, true_and, and_true]
      exact goodCList_of_forall _ _ (fun x hx => by obtain ⟨b, _, rfl⟩ := List.mem_map.mp hx; simp [GoodC])
    | .list xs => by
      simp only [ofAny, GoVal.typeOf, GoodC, noHook, true_and, and_true]
      exact goodC_ofAnyList xs
    | .map kvs => by
      simp only [ofAny, GoVal.typeOf, GoodC, noHook, true_and, and_true]
      exact goodC_ofAnyKvs kvs
  theorem goodC_ofAnyList : ∀ xs : List NBT.GoAny, GoodCList .iface (ofAnyList xs)
    | [] => by simp [ofAnyList, GoodCList]
    | x :: xs => by
      simp only [ofAnyList, GoodCList, GoodC]
      exact ⟨goodC_ofAny x, goodC_ofAnyList xs⟩
  theorem goodC_ofAnyKvs : ∀ kvs : List (Bytes × NBT.GoAny), GoodCKvs .iface (ofAnyKvs kvs)
    | [] => by simp [ofAnyKvs, GoodCKvs]
    | (k, x) :: kvs => by
      simp only [ofAnyKvs, GoodCKvs, GoodC]
      exact ⟨goodC_ofAny x, goodC_ofAnyKvs kvs⟩
end

theorem goodCFields_get : ∀ {fields : List (FieldInfo × GoType)} {fs : List GoVal} {i : Nat} {info : FieldInfo} {ty : GoType},
    GoodCFields fields fs → fields[i]? = some (info, ty) → ∃ fv, fs[i]? = some fv ∧ GoodC ty fv
  | [], [], i, _, _, _, h => by simp at h
  | [], _ :: _, _, _, _, h, _ => by simp [GoodCFields] at h
  | _ :: _, [], _, _, _, h, _ => by simp [GoodCFields] at h
  | (j, t) :: fields, x :: xs, 0, info, ty, h, hi => by
    simp only [GoodCFields] at h
    simp only [List.getElem?_cons_zero, Option.some.injEq, Prod.mk.injEq] at hi
    obtain ⟨_, rfl⟩ := hi
    exact ⟨x, rfl, h.1⟩
  | (j, t) :: fields, x :: xs, i + 1, info, ty, h, hi => by
    simp only [GoodCFields] at h
    simp only [List.getElem?_cons_succ] at hi ⊢
    exact goodCFields_get h.2 hi

theorem goodCFields_set : ∀ {fields : List (FieldInfo × GoType)} {fs : List GoVal} {i : Nat} {info : FieldInfo} {ty : GoType}
    {r : GoVal}, GoodCFields fields fs → fields[i]? = some (info, ty) → GoodC ty r → GoodCFields fields (fs.set i r)
  | [], [], i, _, _, _, _, h, _ => by simp at h
  | [], _ :: _, _, _, _, _, h, _, _ => by simp [GoodCFields] at h
  | _ :: _, [], _, _, _, _, h, _, _ => by simp [GoodCFields] at h
  | (j, t) :: fields, x :: xs, 0, info, ty, r, h, hi, hr => by
    simp only [GoodCFields] at h
    simp only [List.getElem?_cons_zero, Option.some.injEq, Prod.mk.injEq] at hi
    obtain ⟨_, rfl⟩ := hi
    simp only [List.set_cons_zero, GoodCFields]
    exact ⟨hr, h.2⟩
  | (j, t) :: fields, x :: xs, i + 1, info, ty, r, h, hi, hr => by
    simp only [GoodCFields] at h
    simp only [List.getElem?_cons_succ] at hi
    simp only [List.set_cons_succ, GoodCFields]
    exact ⟨h.1, goodCFields_set h.2 hi hr⟩

/-- every entry of the table is a declared field itself -/
def flatTable : List Fld → List (FieldInfo × GoType) → Nat → Bool
  | [], _, _ => true
  | f :: r, fields, k => f.index == [k] && (fields[k]?).isSome && flatTable r fields (k + 1)

theorem flatTable_get : ∀ (flds : List Fld) (fields : List (FieldInfo × GoType)) (k : Nat), flatTable flds fields k = true →
    ∀ (i : Nat) (fld : Fld), flds[i]? = some fld → fld.index = [k + i] ∧ ∃ info ty, fields[k + i]? = some (info, ty)
  | [], _, _, _, i, fld, h => by simp at h
  | f :: r, fields, k, hf, 0, fld, h => by
    simp only [flatTable, Bool.and_eq_true, beq_iff_eq] at hf
    simp only [List.getElem?_cons_zero, Option.some.injEq] at h
    subst h
    obtain ⟨⟨h1, h2⟩, _⟩ := hf
    refine ⟨by simpa using h1, ?_⟩
    cases hx : fields[k]? with
    | none => simp [hx] at h2
    | some p => exact ⟨p.1, p.2, by simp [hx]⟩
  | f :: r, fields, k, hf, i + 1, fld, h => by
    simp only [flatTable, Bool.and_eq_true] at hf
    simp only [List.getElem?_cons_succ] at h
    have := flatTable_get r fields (k + 1) hf.2 i fld h
    have e : k + 1 + i = k + (i + 1) := by omega
    rw [e] at this
    exact this

theorem typeFields_message : typeFields (.struct nMessage rawFields) = msgFlds false := by rfl

theorem known_table (n : Bytes) (fields : List (FieldInfo × GoType)) (h : Known n fields) :
    ∀ (i : Nat) (fld : Fld), (typeFields (.struct n fields))[i]? = some fld →
      fld.index = [i] ∧ ∃ info ty, fields[i]? = some (info, ty) := by
  have key : flatTable (typeFields (.struct n fields)) fields 0 = true := by
    rcases h with ⟨rfl, rfl | rfl⟩ | ⟨rfl, rfl⟩ | ⟨rfl, rfl⟩
    · rw [typeFields_message]; decide +kernel
    · rw [typeFields_raw']; decide +kernel
    · rw [show typeFields (GoType.struct nClickEvent clickFields) = _ from typeFields_click]; decide +kernel
    · rw [show typeFields (GoType.struct nHoverEvent hoverFields) = _ from typeFields_hover]; decide +kernel
  intro i fld hi
  have := flatTable_get _ _ 0 key i fld hi
  simpa using this

theorem known_fieldTy (n : Bytes) (fields : List (FieldInfo × GoType)) (h : Known n fields) :
    ∀ (i : Nat) (info : FieldInfo) (ty : GoType), fields[i]? = some (info, ty) → TyOK ty := by
  have key : ∀ p ∈ fields, TyOK p.2 := by
    rcases h with ⟨rfl, _⟩ | ⟨_, rfl⟩ | ⟨_, rfl⟩
    · simp [rawFields, msgFields, TyOK, Known, argsTy, msgPH, clickTy, hoverTy]
    · simp [clickFields, TyOK]
    · simp [hoverFields, TyOK, msgPH]
  intro i info ty hi
  exact key (info, ty) (List.mem_of_getElem? hi)

theorem goodC_typeOf_noHook (ty : GoType) (r : GoVal) (hn : noHook ty = true) (h : GoodC ty r) : r.typeOf = ty := by
  cases r with
  | ptr e p =>
    cases p <;> cases ty <;> (try simp [noHook] at hn) <;> simp only [GoodC] at h <;> simp_all [GoVal.typeOf]
  | iface p =>
    cases p with
    | none => cases ty <;> (try simp [noHook] at hn) <;> simp only [GoodC] at h <;> simp_all [GoVal.typeOf]
    | some x =>
      cases ty with
      | iface => rfl
      | dyn => simp [noHook] at hn
      | _ => simp only [GoodC] at h
  | _ => cases ty <;> (try simp [noHook] at hn) <;> simp only [GoodC] at h <;> simp_all [GoVal.typeOf]

/-- the recursion keeps destinations well shaped and never panics -/
abbrev RecSafeC (rec : Rec) : Prop := ∀ ty old tag, TyOK ty → GoodC ty old → Safe (GoodC ty) (rec ty old tag)

theorem goodC_struct_inv {n : Bytes} {fields : List (FieldInfo × GoType)} {v : GoVal} (h : GoodC (.struct n fields) v) :
    ∃ fs, v = .struct n fields fs ∧ GoodCFields fields fs := by
  cases v <;> simp only [GoodC] at h
  obtain ⟨rfl, rfl, hf⟩ := h
  exact ⟨_, rfl, hf⟩

theorem safe_structStepC (rec : Rec) (hr : RecSafeC rec) (fuel : Nat) (n : Bytes) (fields : List (FieldInfo × GoType))
    (hk : Known n fields) (tt : Byte) (tn : Bytes) (sv : GoVal) (hsv : GoodC (.struct n fields) sv) :
    Safe (GoodC (.struct n fields)) (structStep rec false fuel (typeFields (.struct n fields)) tt tn sv) := by
  obtain ⟨fs, rfl, hfs⟩ := goodC_struct_inv hsv
  unfold structStep
  split
  · rename_i i hi
    have hlt := lookupField_lt _ _ _ hi
    have hget : (typeFields (.struct n fields))[i]? = some ((typeFields (.struct n fields))[i]) := List.getElem?_eq_getElem hlt
    rw [hget]
    simp only
    obtain ⟨hidx, info, ty, hfield⟩ := known_table n fields hk i _ hget
    obtain ⟨fv, hfv, hgood⟩ := goodCFields_get hfs hfield
    rw [hidx]
    simp only [updAt, updField, hfv, hfield]
    obtain ⟨h1, h2, h3⟩ := goodC_self ty fv (known_fieldTy n fields hk i info ty hfield) hgood
    refine safe_bind (hr fv.typeOf fv tt h1 h2) (fun r hr' => safe_pure ?_)
    simp only [GoodC, true_and]
    exact goodCFields_set hfs hfield (h3 r hr')
  · simp only [Bool.false_eq_true, if_false]
    exact safe_bind (safe_of_np ((closed_raw closed_noPanic fuel).1 tt)) (fun _ _ => safe_pure hsv)

theorem safe_umStructC (rec : Rec) (hr : RecSafeC rec) (fuel : Nat) (n : Bytes) (fields : List (FieldInfo × GoType))
    (hk : Known n fields) (old : GoVal) (tag : Byte) (hold : GoodC (.struct n fields) old) :
    Safe (GoodC (.struct n fields)) (umStruct rec false fuel n fields old tag) := by
  unfold umStruct
  split
  · have hso : structOr (.struct n fields) old = old := by
      obtain ⟨fs, rfl, _⟩ := goodC_struct_inv hold
      rfl
    rw [hso]
    exact safe_kvLoop _ (fun tt tn sv hsv => safe_structStepC rec hr fuel n fields hk tt tn sv hsv) fuel old hold
  · exact safe_refuseG tag

theorem safe_umPtrC (rec : Rec) (hr : RecSafeC rec) (e : GoType) (old : GoVal) (tag : Byte) (he : TyOK e)
    (hold : GoodC (.ptr e) old) : Safe (GoodC (.ptr e)) (umPtr rec e old tag) := by
  unfold umPtr
  apply safe_ite safe_fail
  have hin : GoodC e (ptrInner e old) := by
    cases old with
    | ptr e' p =>
      cases p with
      | none => simp only [ptrInner]; exact goodC_zero e he
      | some x => simp only [GoodC] at hold; simp only [ptrInner]; exact hold.2
    | _ => simp only [GoodC] at hold
  exact safe_bind (hr e _ tag he hin) (fun r hr' => safe_pure (by simp only [GoodC, true_and]; exact hr'))

theorem safe_umIfaceC (rec : Rec) (hr : RecSafeC rec) (fuel : Nat) (old : GoVal) (tag : Byte)
    (hold : GoodC .iface old) : Safe (GoodC .iface) (umIface rec fuel old tag) := by
  unfold umIface
  apply safe_ite safe_fail
  split
  · rename_i e x
    simp only [GoodC, GoVal.typeOf] at hold
    obtain ⟨⟨_, hx⟩, hns⟩ := hold
    have hns' : noHook e = true := by simpa [noHook] using hns
    refine safe_bind (hr e x tag (noHook_tyOK e hns') hx) (fun r hr' => safe_pure ?_)
    simp only [GoodC, GoVal.typeOf, true_and]
    exact ⟨hr', hns⟩
  · rename_i x _
    simp only [GoodC] at hold
    obtain ⟨hx, hns⟩ := hold
    have hty := noHook_tyOK _ hns
    refine safe_bind (hr x.typeOf _ tag hty (goodC_zero _ hty)) (fun r hr' => safe_pure ?_)
    simp only [GoodC]
    rw [goodC_typeOf_noHook _ r hns hr']
    exact ⟨hr', hns⟩
  · exact safe_bind (safe_of_np ((closed_any closed_noPanic fuel).1 tag)) (fun v _ => safe_pure (by
      simp only [GoodC]; exact goodC_ofAny v))

theorem byteElemC (e : GoType) (b : Byte) (v : GoVal) (h : byteElem e b = some v) : GoodC e v := by
  unfold byteElem at h; split at h <;> simp at h <;> subst h <;> simp [GoodC]
theorem intElemC (e : GoType) (x : BitVec 32) (v : GoVal) (h : intElem e x = some v) : GoodC e v := by
  unfold intElem at h; split at h <;> simp at h <;> subst h <;> simp [GoodC]
theorem longElemC (e : GoType) (x : BitVec 64) (v : GoVal) (h : longElem e x = some v) : GoodC e v := by
  unfold longElem at h; split at h <;> simp at h <;> subst h <;> simp [GoodC]

theorem goodCList_filterMap {α : Type} (e : GoType) (g : α → Option GoVal) (xs : List α)
    (h : ∀ a v, g a = some v → GoodC e v) : GoodCList e (xs.filterMap g) :=
  goodCList_of_forall e _ (fun v hv => by
    obtain ⟨a, _, ha⟩ := List.mem_filterMap.mp hv
    exact h a v ha)

theorem safe_umSliceC (rec : Rec) (hr : RecSafeC rec) (e : GoType) (old : GoVal) (tag : Byte) (he : TyOK e) :
    Safe (GoodC (.slice e)) (umSlice rec e old tag) := by
  unfold umSlice
  split
  · split
    · refine safe_bind (safe_of_np (closed_arrayLen closed_noPanic)) (fun n _ =>
        safe_bind (safe_of_np (closed_noPanic.readFull n)) (fun ba _ => safe_pure ?_))
      simp only [GoodC, true_and]
      exact goodCList_filterMap e _ ba (byteElemC e)
    · exact safe_refuseG tag
  · split
    · refine safe_bind (safe_of_np (closed_arrayLen closed_noPanic)) (fun n _ =>
        safe_bind (safe_of_np (closed_readInts closed_noPanic n)) (fun xs _ => safe_pure ?_))
      simp only [GoodC, true_and]
      exact goodCList_filterMap e _ xs (intElemC e)
    · exact safe_refuseG tag
  · split
    · refine safe_bind (safe_of_np (closed_arrayLen closed_noPanic)) (fun n _ =>
        safe_bind (safe_of_np (closed_readLongs closed_noPanic n)) (fun xs _ => safe_pure ?_))
      simp only [GoodC, true_and]
      exact goodCList_filterMap e _ xs (longElemC e)
    · exact safe_refuseG tag
  · refine safe_bind safe_listHeader (fun x _ => ?_)
    obtain ⟨lt, n⟩ := x
    simp only
    refine safe_bind (safe_rdRepeat _ (hr e e.zero lt he (goodC_zero e he)) n) (fun xs hxs => safe_pure ?_)
    simp only [GoodC, true_and]
    exact goodCList_of_forall e xs hxs.2
  · exact safe_refuseG tag

theorem safe_umMapC (rec : Rec) (hr : RecSafeC rec) (fuel : Nat) (e : GoType) (old : GoVal) (tag : Byte) (he : TyOK e)
    (hold : GoodC (.map e) old) : Safe (GoodC (.map e)) (umMap rec fuel e old tag) := by
  unfold umMap
  split
  · have hent : GoodCKvs e (mapEntries old) := by
      cases old <;> simp only [GoodC] at hold
      simp only [mapEntries]; exact hold.2
    refine safe_bind (Q1 := fun kvs => GoodCKvs e kvs) (safe_kvLoop _ (fun tt tn acc hacc => ?_) fuel _ hent)
      (fun kvs hk => safe_pure (by simp only [GoodC, true_and]; exact hk))
    refine safe_bind (hr e e.zero tt he (goodC_zero e he)) (fun v hv => safe_pure ?_)
    unfold setMapKV NBT.mapSet
    apply goodCKvs_of_forall
    intro kv hkv
    rcases List.mem_append.mp hkv with h1 | h1
    · exact goodCKvs_mem hacc kv (List.mem_filter.mp h1).1
    · simp only [List.mem_cons, List.not_mem_nil, or_false] at h1; subst h1; exact hv
  · exact safe_refuseG tag

theorem asMsg_shape (ty : GoType) (old : GoVal) (hty : isMsgTy ty = true) (hok : TyOK ty) (hold : GoodC ty old) :
    ∃ fs, asMsg old = .struct nMessage rawFields fs ∧ GoodCFields rawFields fs := by
  cases ty with
  | raw =>
    cases old <;> simp only [GoodC] at hold
    · obtain ⟨rfl, rfl, hf⟩ := hold
      exact ⟨_, by simp [asMsg], hf⟩
    · exact ⟨_, rfl, goodC_zero_raw⟩
  | struct n fields =>
    have hn : n = nMessage := by simpa [isMsgTy] using hty
    subst hn
    have hf : fields = rawFields := by
      simp only [TyOK, Known] at hok
      rcases hok with ⟨h, _⟩ | ⟨h, _⟩ | ⟨h, _⟩
      · exact h
      · exact absurd h (by decide)
      · exact absurd h (by decide)
    subst hf
    obtain ⟨fs, rfl, hfs⟩ := goodC_struct_inv hold
    exact ⟨fs, by simp [asMsg], hfs⟩
  | _ => simp [isMsgTy] at hty

theorem msg_back (ty : GoType) (fs : List GoVal) (hty : isMsgTy ty = true) (hok : TyOK ty) (hfs : GoodCFields rawFields fs) :
    GoodC ty (.struct nMessage rawFields fs) := by
  cases ty with
  | raw => simp [GoodC, hfs]
  | struct n fields =>
    have hn : n = nMessage := by simpa [isMsgTy] using hty
    subst hn
    have hf : fields = rawFields := by
      simp only [TyOK, Known] at hok
      rcases hok with ⟨h, _⟩ | ⟨h, _⟩ | ⟨h, _⟩
      · exact h
      · exact absurd h (by decide)
      · exact absurd h (by decide)
    subst hf
    simp [GoodC, hfs]
  | _ => simp [isMsgTy] at hty

theorem safe_msgUmC (rec : Rec) (hr : RecSafeC rec) (f : Nat) (ty : GoType) (old : GoVal) (tag : Byte)
    (hty : isMsgTy ty = true) (hok : TyOK ty) (hold : GoodC ty old) : Safe (GoodC ty) (msgUm rec f old tag) := by
  obtain ⟨fs, hm, hfs⟩ := asMsg_shape ty old hty hok hold
  unfold msgUm
  rw [hm]
  split
  · rw [unread_readHead]
    simp only
    have h0 : rawFields[0]? = some (fi gText kText, GoType.str) := rfl
    obtain ⟨fv, hfv, hg⟩ := goodCFields_get hfs h0
    have hfa : fieldAt (GoVal.struct nMessage rawFields fs) 0 = fv := by simp [fieldAt, List.getD, hfv]
    rw [hfa]
    refine safe_bind (hr .str fv _ (by simp [TyOK]) hg) (fun r hr' => safe_pure ?_)
    exact msg_back ty _ hty hok (goodCFields_set hfs h0 hr')
  · rw [unread_readHead]
    simp only [retag]
    have hk : Known nRawMsgStruct rawFields := Or.inl ⟨rfl, Or.inr rfl⟩
    refine safe_bind (safe_umStructC rec hr f nRawMsgStruct rawFields hk (.struct nRawMsgStruct rawFields fs) _
      (by simp [GoodC, hfs])) (fun r hr' => safe_pure ?_)
    obtain ⟨fs', rfl, hfs'⟩ := goodC_struct_inv hr'
    exact msg_back ty _ hty hok hfs'
  · rw [unread_readHead]
    simp only
    have h13 : rawFields[13]? = some (fi gExtra (kExtra ++ sOmit), GoType.slice msgPH) := rfl
    obtain ⟨fv, hfv, hg⟩ := goodCFields_get hfs h13
    have hfa : fieldAt (GoVal.struct nMessage rawFields fs) 13 = fv := by simp [fieldAt, List.getD, hfv]
    rw [hfa]
    refine safe_bind (hr (.slice msgPH) fv _ (by simp [TyOK, msgPH]) hg) (fun r hr' => safe_pure ?_)
    exact msg_back ty _ hty hok (goodCFields_set hfs h13 hr')
  · exact safe_fail

theorem goodC_slice_inv {e : GoType} {v : GoVal} (h : GoodC (.slice e) v) : ∃ nl xs, v = .slice e nl xs ∧ GoodCList e xs := by
  cases v <;> simp only [GoodC] at h
  obtain ⟨rfl, hl⟩ := h
  exact ⟨_, _, rfl, hl⟩

theorem safe_argsUmC (rec : Rec) (hr : RecSafeC rec) (old : GoVal) (tag : Byte) (hold : GoodC argsTy old) :
    Safe (GoodC argsTy) (argsUm rec old tag) := by
  obtain ⟨nl, ys, rfl, hys⟩ := goodC_slice_inv hold
  have happ : ∀ xs : List GoVal, (∀ x ∈ xs, GoodC .dyn (.iface (some x))) →
      GoodC argsTy (appendArgs (.slice .dyn nl ys) xs) := by
    intro xs hxs
    simp only [appendArgs, argsTy, GoodC, true_and]
    exact goodCList_append hys (goodCList_of_forall _ _ (fun y hy => by
      obtain ⟨x, hx, rfl⟩ := List.mem_map.mp hy
      exact hxs x hx))
  have hnum : ∀ (e : GoType) (v : GoVal), GoodC (.slice e) v →
      GoodC argsTy (appendArgs (.slice .dyn nl ys) ((sliceElems v).map fun x => .str (decimalInt (intOf x)))) := by
    intro e v _
    apply happ
    intro x hx
    obtain ⟨y, _, rfl⟩ := List.mem_map.mp hx
    simp [GoodC]
  unfold argsUm
  split
  · rw [unread_readHead]
    simp only
    refine safe_bind (hr (.slice msgPH) (.slice msgPH true []) _ (by simp [TyOK, msgPH]) (by simp [GoodC, GoodCList]))
      (fun v hv => safe_pure ?_)
    obtain ⟨nl', xs, rfl, hxs⟩ := goodC_slice_inv hv
    apply happ
    intro x hx
    have := goodCList_mem hxs x hx
    cases x <;> simp only [GoodC, msgPH] at this ⊢
    exact this
  · rw [unread_readHead]
    simp only
    exact safe_bind (hr (.slice (.int .i8)) (.slice (.int .i8) true []) _ (by simp [TyOK]) (by simp [GoodC, GoodCList]))
      (fun v hv => safe_pure (hnum _ v hv))
  · rw [unread_readHead]
    simp only
    exact safe_bind (hr (.slice (.int .i32)) (.slice (.int .i32) true []) _ (by simp [TyOK]) (by simp [GoodC, GoodCList]))
      (fun v hv => safe_pure (hnum _ v hv))
  · rw [unread_readHead]
    simp only
    exact safe_bind (hr (.slice (.int .i64)) (.slice (.int .i64) true []) _ (by simp [TyOK]) (by simp [GoodC, GoodCList]))
      (fun v hv => safe_pure (hnum _ v hv))
  · exact safe_fail

theorem good_scalar_C (ty : GoType) (r : GoVal) (hs : ty = .bool ∨ (∃ k, ty = .int k) ∨ ty = .f32 ∨ ty = .f64 ∨ ty = .str)
    (h : Good ty r) : GoodC ty r := by
  rcases hs with rfl | ⟨k, rfl⟩ | rfl | rfl | rfl <;> cases r <;> simp only [Good] at h <;> simp [GoodC, h]

/-- **The chat decoder is total**: from a well-shaped destination, `chatUm` never panics and leaves a well-shaped
destination — every fuel, every tag, every source. -/
theorem safeC : ∀ f : Nat, RecSafeC (chatUm f) := by
  intro f
  induction f with
  | zero => intro ty old tag _ _; unfold chatUm; exact safe_fail
  | succ f ih =>
    intro ty old tag hok hold
    unfold chatUm
    by_cases hm : isMsgTy ty = true
    · simp only [hm, if_true]
      exact safe_msgUmC _ ih f ty old tag hm hok hold
    · simp only [hm, Bool.false_eq_true, if_false]
      by_cases ha : isArgsTy ty = true
      · simp only [ha, if_true]
        have hty : ty = argsTy := by
          cases ty <;> simp [isArgsTy] at ha
          rename_i e; cases e <;> simp [isArgsTy] at ha
          rfl
        subst hty
        exact safe_argsUmC _ ih old tag hold
      · simp only [ha, Bool.false_eq_true, if_false]
        cases ty with
        | bool => exact safe_mono (fun r hr => good_scalar_C _ r (Or.inl rfl) hr) (safe_umBool tag)
        | int k => exact safe_mono (fun r hr => good_scalar_C _ r (Or.inr (Or.inl ⟨k, rfl⟩)) hr) (safe_umInt k tag)
        | f32 => exact safe_mono (fun r hr => good_scalar_C _ r (Or.inr (Or.inr (Or.inl rfl))) hr) (safe_umF32 tag)
        | f64 => exact safe_mono (fun r hr => good_scalar_C _ r (Or.inr (Or.inr (Or.inr (Or.inl rfl)))) hr) (safe_umF64 tag)
        | str => exact safe_mono (fun r hr => good_scalar_C _ r (Or.inr (Or.inr (Or.inr (Or.inr rfl)))) hr) (safe_umStr tag)
        | ptr e => exact safe_umPtrC _ ih e old tag (by simpa [TyOK] using hok) hold
        | iface => exact safe_umIfaceC _ ih _ old tag hold
        | slice e =>
          have hd : e ≠ .dyn := by intro h; subst h; simp [isArgsTy] at ha
          exact safe_umSliceC _ ih e old tag (tyOK_slice_inv e hok hd)
        | map e => exact safe_umMapC _ ih f e old tag (by simpa [TyOK] using hok) hold
        | struct n fields => exact safe_umStructC _ ih f n fields (by simpa [TyOK] using hok) old tag hold
        | raw => simp [isMsgTy] at hm
        | dyn => simp [TyOK] at hok
        | snbt => simp [TyOK] at hok
        | array n e => simp [TyOK] at hok

/-- `(*Message).ReadFrom` never panics: any source, any fuel, any well-shaped destination -/
theorem readFromIntoF_noPanic (fuel : Nat) (old : GoVal)
    (hold : GoodC messageTy old) (s : Stream) : (readFromIntoF fuel old s).1 ≠ Res.panic := by
  have hsafe : Safe (fun _ => True) (readBody fuel old) := by
    unfold readBody
    refine safe_bind (Q1 := fun _ => True) (safe_of_np (closed_readHead closed_noPanic true)) (fun x _ => ?_)
    obtain ⟨t, nm⟩ := x
    exact safe_mono (fun _ _ => trivial) (safeC fuel messageTy old t (Or.inl ⟨rfl, Or.inl rfl⟩) hold)
  have := hsafe.1 s
  rw [readFromIntoF_eq]
  rcases h : readBody fuel old s with ⟨r, s'⟩
  rw [h] at this
  cases r with
  | ok a => simp
  | err => simp
  | panic => exact absurd rfl this

theorem messageZero_goodC : GoodC messageTy messageTy.zero := goodC_zero messageTy (Or.inl ⟨rfl, Or.inl rfl⟩)

/-! every component is a well-shaped destination -/

mutual
  theorem anyVal_goodC : ∀ c : JSON, GoodC .iface (.iface (anyVal c))
    | .null => by simp [anyVal, GoodC]
    | .bool b => by simp [anyVal, GoodC, GoVal.typeOf, noHook]
    | .num t => by simp [anyVal, GoodC, GoVal.typeOf, noHook]
    | .str s => by simp [anyVal, GoodC, GoVal.typeOf, noHook]
    | .arr xs => by
      simp only [anyVal, GoodC, GoVal.typeOf, noHook, true_and, and_true]
      exact anyVals_goodC xs
    | .obj kvs => by
      simp only [anyVal, GoodC, GoVal.typeOf, noHook, true_and, and_true]
      exact anyKvs_goodC kvs
  theorem anyVals_goodC : ∀ xs : List JSON, GoodCList .iface (anyVals xs)
    | [] => by simp [anyVals, GoodCList]
    | x :: xs => by
      simp only [anyVals, GoodCList]
      exact ⟨anyVal_goodC x, anyVals_goodC xs⟩
  theorem anyKvs_goodC : ∀ kvs : List (Bytes × JSON), GoodCKvs .iface (anyKvs kvs)
    | [] => by simp [anyKvs, GoodCKvs]
    | (k, v) :: r => by
      simp only [anyKvs, GoodCKvs]
      exact ⟨anyVal_goodC v, anyKvs_goodC r⟩
end

mutual
  theorem goOf_fields : ∀ m : Msg, ∃ fs, goOf m = .struct nMessage rawFields fs ∧ GoodCFields rawFields fs
    | ⟨text, bold, italic, underlined, strikethrough, obfuscated, font, color, insertion, click, none, translate, args, extra⟩ => by
      refine ⟨_, by rw [goOf], ?_⟩
      have ha := goArgs_goodC args
      have hx : GoodCList GoType.raw (goList extra) := goList_goodC extra
      cases click <;>
        simp [rawFields, msgFields, GoodCFields, GoodC, clickVal, argsTy, msgPH, clickTy, clickFields, hoverTy, ha, hx]
    | ⟨text, bold, italic, underlined, strikethrough, obfuscated, font, color, insertion, click, some (a, c, v), translate, args, extra⟩ => by
      refine ⟨_, by rw [goOf], ?_⟩
      have ha := goArgs_goodC args
      have hx : GoodCList GoType.raw (goList extra) := goList_goodC extra
      obtain ⟨vfs, hv, hvf⟩ := goOf_fields v
      simp only [rawFields, msgFields, argsTy, msgPH, clickTy, clickFields, hoverTy, hoverFields] at hvf
      have hc := anyVal_goodC c
      cases click <;>
        simp [rawFields, msgFields, GoodCFields, GoodC, clickVal, argsTy, msgPH, clickTy, clickFields, hoverTy, hoverFields,
          contentsVal, ha, hx, hv, hvf, hc]
  theorem goArgs_goodC : ∀ args : List (Msg ⊕ Bytes), GoodCList .dyn (goArgs args)
    | [] => by simp [goArgs, GoodCList]
    | .inl m :: r => by
      obtain ⟨fs, hm, hf⟩ := goOf_fields m
      simp only [goArgs, GoodCList, hm, GoodC, true_and]
      exact ⟨hf, goArgs_goodC r⟩
    | .inr s :: r => by
      simp only [goArgs, GoodCList, GoodC, true_and]
      exact goArgs_goodC r
  theorem goList_goodC : ∀ xs : List Msg, GoodCList msgPH (goList xs)
    | [] => by simp [goList, GoodCList]
    | m :: r => by
      obtain ⟨fs, hm, hf⟩ := goOf_fields m
      simp only [goList, GoodCList, hm, GoodC, msgPH, true_and]
      exact ⟨hf, goList_goodC r⟩
end

theorem goOf_goodC (m : Msg) : GoodC messageTy (goOf m) := by
  obtain ⟨fs, hm, hf⟩ := goOf_fields m
  rw [hm]
  simp [messageTy, GoodC, hf]

end GoMC.Lemmas.ChatNBT
