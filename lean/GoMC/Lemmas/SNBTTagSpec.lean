/-
  Spec-level TagType: for the writer's texts, `TagType()` is the tag of the tree.
-/
import GoMC.Lemmas.SNBTRoundTree
import GoMC.Lemmas.SNBTTag
namespace GoMC.Model.SNBT
open GoMC Scanner DState Spec

/-- `TagType()` of the writer's text for `t` is the tag of `t` -/
theorem tagType_wtext (fo : FloatOracle) (fm : FmtOracle) (t : NBT) (hwf : t.WF) (hf : FloatHypT fo fm t)
    (h15 : S15 t) (hd : ndepth t ≤ maxNestingDepth + 1) : tagType fo (wtext fm t) = .ok t.tag := by
  have hv := valSpec_of_Qt fo fm t (Q_tree fo fm t hwf hf h15)
  have hfu : 2 * (wtext fm t).length + 1 ≤ parseFuel (wtext fm t) := by unfold parseFuel; omega
  have h1 := hv [] [] Scanner.reset .cont false [] (parseFuel (wtext fm t)) rfl rfl rfl
    (by simp [Scanner.reset]; omega) trivial (by rw [finish_reset_nil]; simp) hfu
  have h2 := hv [] [] Scanner.reset .cont true [] (parseFuel (wtext fm t)) rfl rfl rfl
    (by simp [Scanner.reset]; omega) trivial (by rw [finish_reset_nil]; simp) hfu
  simp only [List.nil_append, List.append_nil, List.length_nil, Nat.zero_add] at h1 h2
  have e0 : ({ data := wtext fm t, scan := Scanner.reset } : DState) = DState.mk (wtext fm t) 0 .cont Scanner.reset := rfl
  obtain ⟨tg, ht, hw⟩ := tagType_agrees fo (parseFuel (wtext fm t)) (wtext fm t) _ _ (by rw [e0]; exact h1)
  rw [e0, h2] at hw
  injection hw with hw; injection hw with _ hw
  have : tg = t.tag := by
    simp only [hdr, writeTag] at hw
    injection hw with hw _
    exact hw.symm
  rw [ht, this]

end GoMC.Model.SNBT
