/-
  Lemmas for C04_parse_wellformed, part 1: what the emitters write, at the level of the OUTPUT only.

  `Doc t p`         — `p` is the payload of an NBT tree with tag `t`, well-formed if `p` is shorter than 2^31 bytes
                      (then every count fits the signed 32-bit field);
  `ListAcc`, `KvAcc`, `ArrAcc` — the invariants of the buffers (`buf`, `count`, `elemType`) the loops accumulate;
  closure rules: appending one more value / entry / element keeps the invariant; closing the loop gives a `Doc`.
-/
import GoMC.Model.SNBTParse
import GoMC.Spec.NBT
namespace GoMC.Model.SNBT
open GoMC Spec

def litTag : Lit → Byte
  | .str _ => tagString | .i8 _ => tagByte | .i16 _ => tagShort | .i32 _ => tagInt | .i64 _ => tagLong
  | .f32 _ => tagFloat | .f64 _ => tagDouble

/-- the tree of a literal value -/
def litNBT : Lit → NBT
  | .str s => .string s | .i8 v => .byte v | .i16 v => .short v | .i32 v => .int v | .i64 v => .long v
  | .f32 b => .float b | .f64 b => .double b

mutual
  /-- every string and every compound name is shorter than 2^15 bytes (Go reads the length as a signed int16) -/
  def S15 : NBT → Prop
    | .string s => s.length < 2 ^ 15
    | .list _ xs => S15List xs
    | .compound kvs => S15Kvs kvs
    | _ => True
  def S15List : List NBT → Prop
    | [] => True
    | x :: xs => S15 x ∧ S15List xs
  def S15Kvs : List (Bytes × NBT) → Prop
    | [] => True
    | (k, v) :: r => k.length < 2 ^ 15 ∧ S15 v ∧ S15Kvs r
end

/-- `p` is the payload of a tree of tag `t`; the tree is well-formed, with strings and names shorter than 2^15
bytes, when `p` is shorter than 2^31 bytes -/
def Doc (t : Byte) (p : Bytes) : Prop :=
  ∃ x : NBT, x.tag = t ∧ encPayload x = p ∧ (p.length < 2 ^ 31 → x.WF ∧ S15 x)

theorem doc_S15List (xs : List NBT) (h : ∀ x ∈ xs, S15 x) : S15List xs := by
  induction xs with
  | nil => trivial
  | cons x r ih => exact ⟨h x (by simp), ih (fun y hy => h y (by simp [hy]))⟩

theorem doc_S15Kvs (kvs : List (Bytes × NBT)) (h : ∀ kv ∈ kvs, kv.1.length < 2 ^ 15 ∧ S15 kv.2) : S15Kvs kvs := by
  induction kvs with
  | nil => trivial
  | cons kv r ih =>
    obtain ⟨k, v⟩ := kv
    exact ⟨(h (k, v) (by simp)).1, (h (k, v) (by simp)).2, ih (fun y hy => h y (by simp [hy]))⟩

theorem doc_tag_ne_zero (x : NBT) : x.tag ≠ 0 := by cases x <;> (show _ ≠ _; simp only [NBT.tag]; decide)
theorem doc_tag_le (x : NBT) : x.tag.toNat ≤ 12 := by cases x <;> (simp only [NBT.tag]; decide)

theorem doc_encList_append (xs ys : List NBT) : encList (xs ++ ys) = encList xs ++ encList ys := by
  induction xs with
  | nil => rfl
  | cons x r ih => simp [encList, ih]

theorem doc_beBytes_length (k n : Nat) : (beBytes k n).length = k := by
  induction k with
  | zero => rfl
  | succ k ih => simp [beBytes, ih]

theorem doc_encKvs_pos (kvs : List (Bytes × NBT)) : 1 ≤ (encKvs kvs).length := by
  cases kvs with
  | nil => simp [encKvs]
  | cons kv r => obtain ⟨k, v⟩ := kv; simp [encKvs]

theorem doc_encPayload_pos (t : NBT) : 1 ≤ (encPayload t).length := by
  cases t <;> simp [encPayload, be16, be32, be64, encString, doc_beBytes_length] <;> try omega
  case compound kvs => exact doc_encKvs_pos kvs

theorem doc_length_le_encList (xs : List NBT) : xs.length ≤ (encList xs).length := by
  induction xs with
  | nil => simp
  | cons x r ih =>
    have := doc_encPayload_pos x
    simp only [encList, List.length_cons, List.length_append]; omega

theorem doc_WFList (e : Byte) (xs : List NBT) (h : ∀ x ∈ xs, x.tag = e ∧ x.WF) : NBT.WFList e xs := by
  induction xs with
  | nil => trivial
  | cons x r ih =>
    exact ⟨(h x (by simp)).1, (h x (by simp)).2, ih (fun y hy => h y (by simp [hy]))⟩

/-- the entries of a compound without the closing `End` -/
def kvPre : List (Bytes × NBT) → Bytes
  | [] => []
  | (k, v) :: kvs => v.tag :: encString k ++ encPayload v ++ kvPre kvs

theorem doc_encKvs_eq (kvs : List (Bytes × NBT)) : encKvs kvs = kvPre kvs ++ [0] := by
  induction kvs with
  | nil => rfl
  | cons kv r ih => obtain ⟨k, v⟩ := kv; simp [encKvs, kvPre, ih]

theorem doc_kvPre_append (a b : List (Bytes × NBT)) : kvPre (a ++ b) = kvPre a ++ kvPre b := by
  induction a with
  | nil => rfl
  | cons kv r ih => obtain ⟨k, v⟩ := kv; simp [kvPre, ih]

theorem doc_WFKvs (kvs : List (Bytes × NBT)) (h : ∀ kv ∈ kvs, kv.1.length < 2 ^ 16 ∧ kv.2.WF) : NBT.WFKvs kvs := by
  induction kvs with
  | nil => trivial
  | cons kv r ih =>
    obtain ⟨k, v⟩ := kv
    exact ⟨(h (k, v) (by simp)).1, (h (k, v) (by simp)).2, ih (fun y hy => h y (by simp [hy]))⟩

/-! ### literals -/

theorem litOk_str (s : Bytes) (h : s.length < 2 ^ 15) : litOk (.str s) = true :=
  decide_eq_true (by unfold maxStrLen; omega)

theorem doc_lit (v : Lit) (hok : litOk v = true) : Doc (litTag v) (litPayload v) := by
  cases v with
  | str s0 =>
    have hok' : s0.length ≤ 32767 := of_decide_eq_true hok
    exact ⟨.string s0, rfl, rfl, fun _ => ⟨(by show s0.length < 2 ^ 16; omega), (by show s0.length < 2 ^ 15; omega)⟩⟩
  | i8 x => exact ⟨.byte x, rfl, rfl, fun _ => ⟨trivial, trivial⟩⟩
  | i16 x => exact ⟨.short x, rfl, rfl, fun _ => ⟨trivial, trivial⟩⟩
  | i32 x => exact ⟨.int x, rfl, rfl, fun _ => ⟨trivial, trivial⟩⟩
  | i64 x => exact ⟨.long x, rfl, rfl, fun _ => ⟨trivial, trivial⟩⟩
  | f32 x => exact ⟨.float x, rfl, rfl, fun _ => ⟨trivial, trivial⟩⟩
  | f64 x => exact ⟨.double x, rfl, rfl, fun _ => ⟨trivial, trivial⟩⟩

/-- what `writeValue` wrote: the optional header, then the payload of a document of the announced tag -/
def WVOut (ifw : Bool) (name out : Bytes) : Prop := ∃ t p, out = hdr ifw t name ++ p ∧ Doc t p

/-- what `writeListOrArray` wrote, `t` being the tag it returns -/
def WLOut (ifw : Bool) (name : Bytes) (t : Byte) (out : Bytes) : Prop := ∃ p, out = hdr ifw t name ++ p ∧ Doc t p

/-! ### lists -/

def ListAcc (et : Byte) (count : Nat) (buf : Bytes) : Prop :=
  ∃ xs : List NBT, xs.length = count ∧ encList xs = buf ∧ (∀ x ∈ xs, x.tag = et) ∧
    (buf.length < 2 ^ 31 → ∀ x ∈ xs, x.WF ∧ S15 x)

theorem listAcc_nil (et : Byte) : ListAcc et 0 [] := ⟨[], rfl, rfl, by simp, by simp⟩

theorem listAcc_zero {count : Nat} {buf : Bytes} (h : ListAcc 0 count buf) : count = 0 := by
  obtain ⟨xs, hl, _, ht, _⟩ := h
  cases xs with
  | nil => exact hl.symm
  | cons x r => exact absurd (ht x (by simp)) (doc_tag_ne_zero x)

/-- one more element -/
theorem listAcc_snoc {et t : Byte} {count : Nat} {buf p : Bytes} (h : ListAcc et count buf) (hd : Doc t p)
    (hte : count = 0 ∨ t = et) : ListAcc t (count + 1) (buf ++ p) := by
  obtain ⟨xs, hl, he, ht, hwf⟩ := h
  obtain ⟨x, hx, hp, hxwf⟩ := hd
  refine ⟨xs ++ [x], by simp [hl], ?_, ?_, ?_⟩
  · rw [doc_encList_append, he]; simp [encList, hp]
  · intro y hy
    rcases List.mem_append.mp hy with h1 | h1
    · rcases hte with h0 | h0
      · rw [h0] at hl; rw [List.length_eq_zero_iff.mp hl] at h1; cases h1
      · rw [h0]; exact ht y h1
    · simp at h1; rw [h1]; exact hx
  · intro hlen y hy
    simp only [List.length_append] at hlen
    rcases List.mem_append.mp hy with h1 | h1
    · exact hwf (by omega) y h1
    · simp at h1; rw [h1]; exact hxwf (by omega)

/-- closing a non-empty list -/
theorem doc_list {et : Byte} {count : Nat} {buf : Bytes} (h : ListAcc et count buf) (hc : 0 < count) :
    Doc tagList (listHeader et count ++ buf) := by
  obtain ⟨xs, hl, he, ht, hwf⟩ := h
  refine ⟨.list et xs, rfl, ?_, ?_⟩
  · simp [encPayload, listHeader, hl, he]
  · intro hlen
    simp only [listHeader, List.length_append, List.length_cons, doc_beBytes_length] at hlen
    have h1 := doc_length_le_encList xs
    rw [he] at h1
    cases xs with
    | nil => simp at hl; omega
    | cons x r =>
      have hxt : et = x.tag := (ht x (by simp)).symm
      refine ⟨⟨by omega, Or.inr ?_, ?_, doc_WFList et _ (fun y hy => ⟨ht y hy, (hwf (by omega) y hy).1⟩)⟩,
        doc_S15List _ (fun y hy => (hwf (by omega) y hy).2)⟩
      · rw [hxt]; exact doc_tag_ne_zero x
      · rw [hxt]; exact doc_tag_le x

theorem doc_list_empty : Doc tagList (listHeader 0 0) :=
  ⟨.list 0 [], rfl, rfl, fun _ => ⟨⟨by simp, Or.inl rfl, by decide, trivial⟩, trivial⟩⟩

/-! ### compounds -/

def KvAcc (acc : Bytes) : Prop :=
  ∃ kvs : List (Bytes × NBT), kvPre kvs = acc ∧
    (acc.length < 2 ^ 31 → ∀ kv ∈ kvs, kv.1.length < 2 ^ 15 ∧ kv.2.WF ∧ S15 kv.2)

theorem kvAcc_nil : KvAcc [] := ⟨[], rfl, by simp⟩

theorem kvAcc_snoc {acc name out : Bytes} (h : KvAcc acc) (hn : name.length ≤ maxStrLen) (ho : WVOut true name out) :
    KvAcc (acc ++ out) := by
  obtain ⟨kvs, he, hwf⟩ := h
  obtain ⟨t, p, rfl, x, hx, hp, hxwf⟩ := ho
  refine ⟨kvs ++ [(name, x)], ?_, ?_⟩
  · rw [doc_kvPre_append, he]; simp [kvPre, hdr, writeTag, encString, hx, hp]
  · intro hlen kv hkv
    simp only [List.length_append] at hlen
    rcases List.mem_append.mp hkv with h1 | h1
    · exact hwf (by omega) kv h1
    · simp at h1; rw [h1]
      exact ⟨by show name.length < 2 ^ 15; unfold maxStrLen at hn; omega, hxwf (by omega)⟩

theorem doc_compound {acc : Bytes} (h : KvAcc acc) : Doc tagCompound (acc ++ [0]) := by
  obtain ⟨kvs, he, hwf⟩ := h
  refine ⟨.compound kvs, rfl, ?_, ?_⟩
  · simp only [encPayload]; rw [doc_encKvs_eq, he]
  · intro hlen
    simp only [List.length_append, List.length_cons, List.length_nil] at hlen
    have h := hwf (by omega)
    exact ⟨doc_WFKvs kvs (fun kv hkv => ⟨by have := (h kv hkv).1; omega, (h kv hkv).2.1⟩),
      doc_S15Kvs kvs (fun kv hkv => ⟨(h kv hkv).1, (h kv hkv).2.2⟩)⟩

/-! ### typed arrays -/

def ArrAcc (et : Byte) (count : Nat) (buf : Bytes) : Prop :=
  (et = tagByte ∧ ∃ xs : List (BitVec 8), xs.length = count ∧ buf = xs) ∨
  (et = tagInt ∧ ∃ xs : List (BitVec 32), xs.length = count ∧ buf = (xs.map be32).flatten) ∨
  (et = tagLong ∧ ∃ xs : List (BitVec 64), xs.length = count ∧ buf = (xs.map be64).flatten)

/-- what `writeArray` wrote -/
def ArrOut (et : Byte) (out : Bytes) : Prop := ∃ count buf, out = beBytes 4 count ++ buf ∧ ArrAcc et count buf

theorem arrAcc_nil (et : Byte) (he : et = tagByte ∨ et = tagInt ∨ et = tagLong) : ArrAcc et 0 [] := by
  rcases he with e | e | e
  · exact Or.inl ⟨e, [], rfl, rfl⟩
  · exact Or.inr (Or.inl ⟨e, [], rfl, rfl⟩)
  · exact Or.inr (Or.inr ⟨e, [], rfl, rfl⟩)

theorem arrAcc_snoc8 {count : Nat} {buf : Bytes} (h : ArrAcc tagByte count buf) (x : BitVec 8) :
    ArrAcc tagByte (count + 1) (buf ++ [x]) := by
  rcases h with ⟨_, xs, hl, hb⟩ | ⟨e, _⟩ | ⟨e, _⟩
  · exact Or.inl ⟨rfl, xs ++ [x], by simp [hl], by simp [hb]⟩
  · exact absurd e (by decide)
  · exact absurd e (by decide)

theorem arrAcc_snoc32 {count : Nat} {buf : Bytes} (h : ArrAcc tagInt count buf) (x : BitVec 32) :
    ArrAcc tagInt (count + 1) (buf ++ beBytes 4 x.toNat) := by
  rcases h with ⟨e, _⟩ | ⟨_, xs, hl, hb⟩ | ⟨e, _⟩
  · exact absurd e (by decide)
  · exact Or.inr (Or.inl ⟨rfl, xs ++ [x], by simp [hl], by simp [hb, be32]⟩)
  · exact absurd e (by decide)

theorem arrAcc_snoc64 {count : Nat} {buf : Bytes} (h : ArrAcc tagLong count buf) (x : BitVec 64) :
    ArrAcc tagLong (count + 1) (buf ++ beBytes 8 x.toNat) := by
  rcases h with ⟨e, _⟩ | ⟨e, _⟩ | ⟨_, xs, hl, hb⟩
  · exact absurd e (by decide)
  · exact absurd e (by decide)
  · exact Or.inr (Or.inr ⟨rfl, xs ++ [x], by simp [hl], by simp [hb, be64]⟩)

theorem doc_flatten32 (xs : List (BitVec 32)) : xs.length ≤ ((xs.map be32).flatten).length := by
  induction xs with
  | nil => simp
  | cons x r ih => simp [be32, doc_beBytes_length] at ih ⊢; omega

theorem doc_flatten64 (xs : List (BitVec 64)) : xs.length ≤ ((xs.map be64).flatten).length := by
  induction xs with
  | nil => simp
  | cons x r ih => simp [be64, doc_beBytes_length] at ih ⊢; omega

/-- the array whose elements `writeArray` wrote, under the tag that `writeListOrArray` chose for the prefix -/
theorem doc_array {tt et : Byte} {out : Bytes}
    (hp : (tt = tagByteArray ∧ et = tagByte) ∨ (tt = tagIntArray ∧ et = tagInt) ∨ (tt = tagLongArray ∧ et = tagLong))
    (h : ArrOut et out) : Doc tt out := by
  obtain ⟨count, buf, rfl, hacc⟩ := h
  rcases hacc with ⟨e, xs, hl, hb⟩ | ⟨e, xs, hl, hb⟩ | ⟨e, xs, hl, hb⟩
  · have htt : tt = tagByteArray := by
      rcases hp with ⟨a, _⟩ | ⟨_, b⟩ | ⟨_, b⟩
      · exact a
      · rw [e] at b; exact absurd b (by decide)
      · rw [e] at b; exact absurd b (by decide)
    refine ⟨.byteArray xs, htt.symm, by simp [encPayload, hl, hb], fun hlen => ?_⟩
    simp only [List.length_append, doc_beBytes_length, hb] at hlen
    exact ⟨(by show xs.length < 2 ^ 31; omega), trivial⟩
  · have htt : tt = tagIntArray := by
      rcases hp with ⟨_, b⟩ | ⟨a, _⟩ | ⟨_, b⟩
      · rw [e] at b; exact absurd b (by decide)
      · exact a
      · rw [e] at b; exact absurd b (by decide)
    refine ⟨.intArray xs, htt.symm, by simp [encPayload, hl, hb], fun hlen => ?_⟩
    simp only [List.length_append, doc_beBytes_length, hb] at hlen
    have := doc_flatten32 xs
    exact ⟨(by show xs.length < 2 ^ 31; omega), trivial⟩
  · have htt : tt = tagLongArray := by
      rcases hp with ⟨_, b⟩ | ⟨_, b⟩ | ⟨a, _⟩
      · rw [e] at b; exact absurd b (by decide)
      · rw [e] at b; exact absurd b (by decide)
      · exact a
    refine ⟨.longArray xs, htt.symm, by simp [encPayload, hl, hb], fun hlen => ?_⟩
    simp only [List.length_append, doc_beBytes_length, hb] at hlen
    have := doc_flatten64 xs
    exact ⟨(by show xs.length < 2 ^ 31; omega), trivial⟩

end GoMC.Model.SNBT
