/-
  GoMC.Lemmas.CFB8 — helper lemmas for C10: the ring-buffer model of net/CFB8 refines the byte-at-a-time
  definition of the mode.  Core only.

  `Good E bs`  : the standing hypotheses on the block cipher;
  `reg bs st`  : the shift register the state stands for, `iv[ivPos : ivPos+bs]`;
  `Inv bs st`  : the representation invariant.
-/
import GoMC.Model.CFB8
import GoMC.Spec.CFB8
namespace GoMC.Lemmas.CFB8
open GoMC GoMC.Model.CFB8 GoMC.Spec.CFB8

theorem getElem?_splice (l B : Bytes) (d i : Nat) (h : d + B.length ≤ l.length) :
    (l.take d ++ B ++ l.drop (d + B.length))[i]? =
      if i < d then l[i]? else if i < d + B.length then B[i - d]? else l[i]? := by
  have hd : min d l.length = d := by omega
  simp only [List.getElem?_append, List.length_append, List.length_take, List.getElem?_take, List.getElem?_drop, hd]
  by_cases h1 : i < d
  · have : i < d + B.length := by omega
    simp [h1, this]
  · by_cases h2 : i < d + B.length
    · simp [h1, h2]
    · simp only [h1, h2, if_false]
      congr 1; omega

theorem length_splice (l B : Bytes) (d : Nat) (h : d + B.length ≤ l.length) :
    (l.take d ++ B ++ l.drop (d + B.length)).length = l.length := by
  simp only [List.length_append, List.length_take, List.length_drop]; omega

theorem getElem?_store (l : Bytes) (v : Byte) (d i : Nat) (h : d < l.length) :
    (l.take d ++ v :: l.drop (d + 1))[i]? = if i = d then some v else l[i]? := by
  have := getElem?_splice l [v] d i (by simp only [List.length_singleton]; omega)
  simp only [List.length_singleton, List.append_assoc, List.singleton_append] at this
  rw [this]
  by_cases h1 : i < d
  · simp [h1]; omega
  · by_cases h2 : i = d
    · subst h2; simp
    · have : ¬ i < d + 1 := by omega
      simp [h1, h2, this]

theorem length_store (l : Bytes) (v : Byte) (d : Nat) (h : d < l.length) :
    (l.take d ++ v :: l.drop (d + 1)).length = l.length := by
  simp only [List.length_append, List.length_take, List.length_drop, List.length_cons]; omega

theorem getElem?_window (l : Bytes) (p n i : Nat) :
    ((l.drop p).take n)[i]? = if i < n then l[p + i]? else none := by
  simp [List.getElem?_take, List.getElem?_drop]

theorem tempPos_eq (bs p : Nat) (hpow : ∃ j, 2 * bs = 2 ^ j) :
    tempPos bs p = (p + bs) % (2 * bs) := by
  unfold tempPos
  obtain ⟨j, hj⟩ := hpow
  have : bs <<< 1 = 2 ^ j := by rw [Nat.shiftLeft_eq]; omega
  rw [this, Nat.and_two_pow_sub_one_eq_mod, hj]

/-- Standing hypotheses on the block cipher: `bs = c.BlockSize() ≥ 1`; `2·bs` is a power of two (the Go
code computes `(ivPos + bs) mod 2·bs` as `& (blockSize<<1 - 1)`, which is a modulo only then — its own
comment says so); `Encrypt` maps a block of `bs` bytes to a block of `bs` bytes. -/
structure Good (E : Bytes → Bytes) (bs : Nat) : Prop where
  pos : 1 ≤ bs
  pow2 : ∃ j, 2 * bs = 2 ^ j
  len : ∀ b : Bytes, b.length = bs → (E b).length = bs

/-- the shift register a state stands for: `iv[ivPos : ivPos+bs]` -/
def reg (bs : Nat) (st : St) : Bytes := (st.iv.drop st.ivPos).take bs
/-- representation invariant of the ring buffer -/
def Inv (bs : Nat) (st : St) : Prop := st.iv.length = 3 * bs ∧ st.ivPos ≤ 2 * bs

theorem head_getElem? (l : Bytes) (h : 1 ≤ l.length) : l[0]? = some (l.headD 0) := by
  cases l with
  | nil => simp at h
  | cons a t => rfl

/-- the register after a step, by index -/
theorem getElem?_stepReg (R : Bytes) (c : Byte) (i : Nat) (hR : 1 ≤ R.length) :
    (R.drop 1 ++ [c])[i]? = if i + 1 < R.length then R[i + 1]? else if i + 1 = R.length then some c else none := by
  simp only [List.getElem?_append, List.length_drop, List.getElem?_drop]
  by_cases h1 : i < R.length - 1
  · have : i + 1 < R.length := by omega
    rw [if_pos h1, if_pos this, Nat.add_comm]
  · have : ¬ i + 1 < R.length := by omega
    simp only [h1, this, if_false]
    by_cases h2 : i + 1 = R.length
    · have : i - (R.length - 1) = 0 := by omega
      simp [h2, this]
    · have : i - (R.length - 1) ≠ 0 := by omega
      simp [h2]
      omega


theorem encryptAt_spec {E : Bytes → Bytes} {bs : Nat} (hG : Good E bs) (iv : Bytes) (d s : Nat)
    (hlen : iv.length = 3 * bs) (hd : d + bs ≤ 3 * bs) (hs : s + bs ≤ 3 * bs) (hov : d + bs ≤ s ∨ s + bs ≤ d) :
    ∃ iv1, encryptAt E bs iv d s = .ok iv1 ∧ iv1.length = 3 * bs ∧
      ∀ i, iv1[i]? = if i < d then iv[i]? else if i < d + bs then (E ((iv.drop s).take bs))[i - d]? else iv[i]? := by
  have hbs := hG.pos
  have hR : ((iv.drop s).take bs).length = bs := by
    simp only [List.length_take, List.length_drop]; omega
  have hER := hG.len _ hR
  refine ⟨iv.take d ++ E ((iv.drop s).take bs) ++ iv.drop (d + (E ((iv.drop s).take bs)).length), ?_, ?_, ?_⟩
  · unfold encryptAt
    rw [if_neg (by omega), if_neg (by omega), if_neg (by omega), hER]
  · rw [length_splice _ _ _ (by omega), hlen]
  · intro i
    rw [getElem?_splice _ _ _ _ (by omega), hER]

theorem storeAt_spec (l : Bytes) (d : Nat) (v : Byte) (h : d < l.length) :
    ∃ l', storeAt l d v = .ok l' ∧ l'.length = l.length ∧ ∀ i, l'[i]? = if i = d then some v else l[i]? := by
  refine ⟨l.take d ++ v :: l.drop (d + 1), ?_, length_store l v d h, fun i => getElem?_store l v d i h⟩
  unfold storeAt
  rw [if_pos h]

theorem copy_spec (l : Bytes) (q : Nat) (hq : q ≤ l.length) :
    (l.drop q ++ l.drop (l.drop q).length).length = l.length ∧
    ∀ i, (l.drop q ++ l.drop (l.drop q).length)[i]? = if i < l.length - q then l[q + i]? else l[i]? := by
  constructor
  · simp only [List.length_append, List.length_drop]; omega
  · intro i
    simp only [List.getElem?_append, List.length_drop, List.getElem?_drop]
    split
    · rfl
    · congr 1; omega

theorem slowStep_spec {E : Bytes → Bytes} {bs : Nat} (hG : Good E bs) (de : Bool) (st : St) (hI : Inv bs st) (x : Byte) :
    ∃ st', slowStep E bs de st x = .ok ((step E de (reg bs st) x).1, st') ∧
      reg bs st' = (step E de (reg bs st) x).2 ∧ Inv bs st' := by
  obtain ⟨iv, p⟩ := st
  obtain ⟨hlen, hp⟩ := hI
  simp only at hlen hp
  have hbs := hG.pos
  have hR : ((iv.drop p).take bs).length = bs := by
    simp only [List.length_take, List.length_drop]; omega
  have hER := hG.len _ hR
  have hsh : bs <<< 1 = 2 * bs := by rw [Nat.shiftLeft_eq]; omega
  unfold slowStep
  simp only []
  rw [tempPos_eq bs p hG.pow2, hsh]
  by_cases hA : p < bs
  · have ht : (p + bs) % (2 * bs) = p + bs := Nat.mod_eq_of_lt (by omega)
    rw [ht]
    obtain ⟨iv1, he, hl1, hg1⟩ := encryptAt_spec hG iv (p + bs) p hlen (by omega) (by omega) (by omega)
    have hk : iv1[p + bs]? = some (ksByte E ((iv.drop p).take bs)) := by
      rw [hg1, if_neg (by omega), if_pos (by omega), Nat.sub_self]
      exact head_getElem? _ (by omega)
    rw [he]
    simp only []
    rw [hk]
    simp only []
    rw [if_neg (by omega)]
    obtain ⟨iv2, hs, hl2, hg2⟩ := storeAt_spec iv1 (p + bs) (if de = true then x else x ^^^ ksByte E ((iv.drop p).take bs)) (by omega)
    rw [hs]
    refine ⟨_, rfl, ?_, ⟨by simp only; omega, by simp only; omega⟩⟩
    apply List.ext_getElem?
    intro i
    unfold reg step
    simp only []
    rw [getElem?_window, getElem?_stepReg _ _ _ (by omega), hR, hg2, hg1]
    rw [getElem?_window]
    repeat' split
    all_goals first | rfl | (exfalso; omega) | (congr 1; omega)
  · by_cases hB : p < 2 * bs
    · have ht : (p + bs) % (2 * bs) = p - bs := by
        rw [Nat.mod_eq_sub_mod (by omega), Nat.mod_eq_of_lt (by omega)]; omega
      rw [ht]
      obtain ⟨iv1, he, hl1, hg1⟩ := encryptAt_spec hG iv (p - bs) p hlen (by omega) (by omega) (by omega)
      have hk : iv1[p - bs]? = some (ksByte E ((iv.drop p).take bs)) := by
        rw [hg1, if_neg (by omega), if_pos (by omega), Nat.sub_self]
        exact head_getElem? _ (by omega)
      rw [he]
      simp only []
      rw [hk]
      simp only []
      rw [if_neg (by omega)]
      obtain ⟨iv2, hs, hl2, hg2⟩ := storeAt_spec iv1 (p + bs) (if de = true then x else x ^^^ ksByte E ((iv.drop p).take bs)) (by omega)
      rw [hs]
      refine ⟨_, rfl, ?_, ⟨by simp only; omega, by simp only; omega⟩⟩
      apply List.ext_getElem?
      intro i
      unfold reg step
      simp only []
      rw [getElem?_window, getElem?_stepReg _ _ _ (by omega), hR, hg2, hg1, getElem?_window]
      repeat' split
      all_goals first | rfl | (exfalso; omega) | (congr 1; omega)
    · have hpe : p = 2 * bs := by omega
      subst hpe
      have ht : (2 * bs + bs) % (2 * bs) = bs := by
        rw [Nat.mod_eq_sub_mod (by omega), Nat.mod_eq_of_lt (by omega)]; omega
      rw [ht]
      obtain ⟨iv1, he, hl1, hg1⟩ := encryptAt_spec hG iv bs (2 * bs) hlen (by omega) (by omega) (by omega)
      have hk : iv1[bs]? = some (ksByte E ((iv.drop (2 * bs)).take bs)) := by
        rw [hg1, if_neg (by omega), if_pos (by omega), Nat.sub_self]
        exact head_getElem? _ (by omega)
      rw [he]
      simp only []
      rw [hk]
      simp only []
      rw [if_pos True.intro, if_neg (by omega), if_neg (by omega)]
      obtain ⟨hl2, hg2⟩ := copy_spec iv1 (2 * bs + 1) (by omega)
      obtain ⟨iv3, hs, hl3, hg3⟩ := storeAt_spec _ (bs - 1) (if de = true then x else x ^^^ ksByte E ((iv.drop (2 * bs)).take bs)) (show bs - 1 < _ by rw [hl2]; omega)
      rw [hs]
      refine ⟨_, rfl, ?_, ⟨by simp only; omega, by simp only; omega⟩⟩
      apply List.ext_getElem?
      intro i
      unfold reg step
      simp only []
      rw [getElem?_window, getElem?_stepReg _ _ _ (by omega), hR, hg3, hg2, hg1, hg1, getElem?_window]
      repeat' split
      all_goals first | rfl | (exfalso; omega) | (congr 1; omega)

theorem length_reg {bs : Nat} {st : St} (hI : Inv bs st) : (reg bs st).length = bs := by
  obtain ⟨h1, h2⟩ := hI
  unfold reg
  simp only [List.length_take, List.length_drop]; omega

theorem inv_new (iv : Bytes) : Inv iv.length (newCFB8 iv) ∧ reg iv.length (newCFB8 iv) = iv := by
  refine ⟨⟨?_, Nat.zero_le _⟩, ?_⟩
  · simp only [newCFB8, List.length_append, List.length_replicate]; omega
  · simp [reg, newCFB8]

theorem xorKeyStream_spec {E : Bytes → Bytes} {bs : Nat} (hG : Good E bs) (de : Bool) (src : Bytes) (st : St) (hI : Inv bs st) :
    ∃ st', xorKeyStream E bs de st src = .ok ((run E de (reg bs st) src).1, st') ∧
      reg bs st' = (run E de (reg bs st) src).2 ∧ Inv bs st' := by
  induction src generalizing st with
  | nil => exact ⟨st, rfl, rfl, hI⟩
  | cons x xs ih =>
    obtain ⟨st1, h1, hr1, hI1⟩ := slowStep_spec hG de st hI x
    obtain ⟨st2, h2, hr2, hI2⟩ := ih st1 hI1
    refine ⟨st2, ?_, ?_, hI2⟩
    · unfold xorKeyStream
      rw [h1]; simp only []
      rw [h2]; simp only []
      rw [run_cons, hr1]
    · rw [run_cons, hr2, hr1]

/-- the register after a message is the last `|S|` bytes of `S ++ ciphertext` -/
theorem run_reg (E : Bytes → Bytes) (de : Bool) (m S : Bytes) (hS : 1 ≤ S.length) :
    (run E de S m).2 = (S ++ (if de then m else (run E de S m).1)).drop m.length := by
  induction m generalizing S with
  | nil => simp
  | cons x xs ih =>
    have hS' : 1 ≤ (step E de S x).2.length := by rw [length_step_reg]; omega
    rw [run_cons]
    simp only []
    rw [ih _ hS']
    cases S with
    | nil => simp at hS
    | cons s0 S' =>
      cases de <;> simp [step]

theorem fastLoop_spec {E : Bytes → Bytes} {bs : Nat} (hG : Good E bs) (de : Bool) (rest : Bytes) (iv ct : Bytes) (i : Nat)
    (hiv : bs ≤ iv.length) (hct : i + bs ≤ ct.length)
    (hH : if de = true then ct.drop (i + bs) = rest else ct.length = i + bs) :
    ∃ iv' ct', fastLoop E bs de iv ct i rest = .ok ((run E de ((ct.drop i).take bs) rest).1, iv', ct') ∧
      iv'.length = iv.length ∧ ct'.length = i + bs + rest.length ∧
      (ct'.drop (i + rest.length)).take bs = (run E de ((ct.drop i).take bs) rest).2 := by
  induction rest generalizing iv ct i with
  | nil =>
    refine ⟨iv, ct, rfl, rfl, ?_, rfl⟩
    cases de
    · simpa using hH
    · simp only [if_true] at hH
      have := congrArg List.length hH
      simp only [List.length_drop, List.length_nil] at this
      simp only [List.length_nil]; omega
  | cons v rest' ih =>
    have hbs := hG.pos
    have hS : ((ct.drop i).take bs).length = bs := by
      simp only [List.length_take, List.length_drop]; omega
    have hES := hG.len _ hS
    have hhead : (E ((ct.drop i).take bs) ++ iv.drop bs).head? = some (ksByte E ((ct.drop i).take bs)) := by
      unfold ksByte
      cases h : E ((ct.drop i).take bs) with
      | nil => rw [h] at hES; simp at hES; omega
      | cons a t => rfl
    -- the next register is the window one further
    have hnext : (((if de = true then ct else ct ++ [v ^^^ ksByte E ((ct.drop i).take bs)]).drop (i + 1)).take bs)
        = (step E de ((ct.drop i).take bs) v).2 := by
      apply List.ext_getElem?
      intro j
      unfold step
      simp only []
      rw [getElem?_window, getElem?_stepReg _ _ _ (by omega), hS, getElem?_window]
      cases de
      · simp only [Bool.false_eq_true, if_false] at hH ⊢
        rw [List.getElem?_append]
        repeat' split
        all_goals first | rfl | (exfalso; omega) | (congr 1; omega) | skip
        rename_i h1 h2 h3 h4
        have : i + 1 + j - ct.length = 0 := by omega
        rw [this]; rfl
      · simp only [if_true] at hH ⊢
        have hv : ct[i + bs]? = some v := by
          have := congrArg (fun l => l[0]?) hH
          simpa [List.getElem?_drop] using this
        repeat' split
        all_goals first | rfl | (exfalso; omega) | (congr 1; omega) | skip
        rename_i h1 h2 h3
        have : i + 1 + j = i + bs := by omega
        rw [this]; exact hv
    have hiv1 : bs ≤ (E ((ct.drop i).take bs) ++ iv.drop bs).length := by
      simp only [List.length_append, List.length_drop]; omega
    have hct1 : i + 1 + bs ≤ (if de = true then ct else ct ++ [v ^^^ ksByte E ((ct.drop i).take bs)]).length := by
      cases de
      · simp only [Bool.false_eq_true, if_false] at hH ⊢
        simp only [List.length_append, List.length_singleton]; omega
      · simp only [if_true] at hH ⊢
        have := congrArg List.length hH
        simp only [List.length_drop, List.length_cons] at this
        omega
    have hH1 : if de = true then (if de = true then ct else ct ++ [v ^^^ ksByte E ((ct.drop i).take bs)]).drop (i + 1 + bs) = rest'
        else (if de = true then ct else ct ++ [v ^^^ ksByte E ((ct.drop i).take bs)]).length = i + 1 + bs := by
      cases de
      · simp only [Bool.false_eq_true, if_false] at hH ⊢
        simp only [List.length_append, List.length_singleton]; omega
      · simp only [if_true] at hH ⊢
        have : ct.drop (i + 1 + bs) = (ct.drop (i + bs)).drop 1 := by
          rw [List.drop_drop]; congr 1; omega
        rw [this, hH]; rfl
    obtain ⟨iv', ct', hf, hl1, hl2, hr⟩ := ih _ _ (i + 1) hiv1 hct1 hH1
    refine ⟨iv', ct', ?_, ?_, ?_, ?_⟩
    · unfold fastLoop
      rw [if_neg (by omega)]
      simp only []
      rw [hhead]
      simp only []
      rw [hf, hnext]
      rfl
    · rw [hl1]; simp only [List.length_append, List.length_drop]; omega
    · rw [hl2]; simp only [List.length_cons]; omega
    · rw [run_cons]
      simp only []
      rw [← hnext, ← hr]
      congr 2
      simp only [List.length_cons]; omega

theorem XORKeyStream_spec {E : Bytes → Bytes} {bs : Nat} (hG : Good E bs) (de : Bool) (st : St) (hI : Inv bs st)
    (mode : Alias) (dst src : Bytes) (hd : mode = .disjoint → src.length ≤ dst.length) :
    ∃ st', XORKeyStream E bs de st mode dst src =
        .ok ((run E de (reg bs st) src).1 ++ after mode dst src, st') ∧
      reg bs st' = (run E de (reg bs st) src).2 ∧ Inv bs st' := by
  have hbs := hG.pos
  have hsh : bs <<< 1 = 2 * bs := by rw [Nat.shiftLeft_eq]; omega
  unfold XORKeyStream
  simp only []
  by_cases h0 : src.length = 0
  · have hs : src = [] := List.length_eq_zero_iff.mp h0
    subst hs
    refine ⟨st, ?_, rfl, hI⟩
    cases mode <;> simp [after, dstBefore]
  · rw [if_neg h0]
    have hlen : ¬ dstLen mode dst src < src.length := by
      cases mode
      · simp [dstLen]
      · simpa [dstLen] using hd rfl
    rw [if_neg hlen, hsh]
    by_cases hfast : 2 * bs < src.length ∧ mode = .disjoint
    · rw [if_pos hfast]
      obtain ⟨hn, hm⟩ := hfast
      subst hm
      have htk : (src.take bs).length = bs := by simp only [List.length_take]; omega
      obtain ⟨st1, h1, hr1, hI1⟩ := xorKeyStream_spec hG de (src.take bs) st hI
      rw [h1]
      simp only []
      rw [if_neg (by rw [hI1.1]; omega)]
      have hRlen := length_reg hI
      -- after one block the register is the ciphertext of that block
      have hS1 : reg bs st1 = ((if de = true then src else (run E de (reg bs st) (src.take bs)).1).drop 0).take bs := by
        rw [hr1, run_reg E de _ _ (by omega), htk, List.drop_zero]
        cases de
        · simp only [Bool.false_eq_true, if_false]
          rw [List.drop_left' hRlen, List.take_of_length_le (l := (run E false (reg bs st) (src.take bs)).1) (by rw [length_run, htk]; exact Nat.le_refl _)]
        · simp only [if_true]
          rw [List.drop_left' hRlen]
      obtain ⟨iv2, ct, hf, hl2, hlc, hrc⟩ := fastLoop_spec hG de (src.drop bs) st1.iv
        (if de = true then src else (run E de (reg bs st) (src.take bs)).1) 0
        (by rw [hI1.1]; omega)
        (by cases de
            · simp only [Bool.false_eq_true, if_false, length_run, htk]; omega
            · simp only [if_true]; omega)
        (by cases de
            · simp only [Bool.false_eq_true, if_false, length_run, htk]; omega
            · simp only [if_true, Nat.zero_add])
      rw [hf]
      simp only []
      have hdl : (src.drop bs).length = src.length - bs := by simp
      rw [if_neg (by rw [hlc, hdl]; omega)]
      have happ := run_append E de (reg bs st) (src.take bs) (src.drop bs)
      rw [List.take_append_drop] at happ
      rw [← hS1, hr1] at hrc
      rw [← hS1, hr1]
      have hidx : 0 + (src.drop bs).length = src.length - bs := by rw [hdl]; omega
      rw [hidx] at hrc
      have hblk : ((ct.drop (src.length - bs)).take bs).length = bs := by
        simp only [List.length_take, List.length_drop]; omega
      have hiv2 : iv2.length = 3 * bs := by rw [hl2, hI1.1]
      have hblk2 : ((ct.drop (src.length - bs)).take bs).take iv2.length = (ct.drop (src.length - bs)).take bs :=
        List.take_of_length_le (by rw [hblk, hiv2]; omega)
      rw [happ]
      refine ⟨_, rfl, ?_, ?_⟩
      · unfold reg
        simp only [List.drop_zero]
        rw [hblk2, List.take_left' hblk, hrc]
        rfl
      · constructor
        · simp only [List.length_append, List.length_take, List.length_drop]; omega
        · exact Nat.zero_le _
    · rw [if_neg hfast]
      obtain ⟨st1, h1, hr1, hI1⟩ := xorKeyStream_spec hG de src st hI
      rw [h1]
      exact ⟨st1, by cases mode <;> rfl, hr1, hI1⟩

/-- every call of a history hands over a destination at least as long as its source -/
def CallsOk : List (Alias × Bytes × Bytes) → Prop
  | [] => True
  | (mode, dst, src) :: rest => (mode = .disjoint → src.length ≤ dst.length) ∧ CallsOk rest

/-- the message a history processes: the concatenation of the sources -/
def srcOf (calls : List (Alias × Bytes × Bytes)) : Bytes := (calls.map fun c => c.2.2).flatten

theorem runCalls_spec {E : Bytes → Bytes} {bs : Nat} (hG : Good E bs) (de : Bool)
    (calls : List (Alias × Bytes × Bytes)) (st : St) (hI : Inv bs st) (hc : CallsOk calls) :
    ∃ st', runCalls E bs de st calls = .ok ((run E de (reg bs st) (srcOf calls)).1, st') ∧
      reg bs st' = (run E de (reg bs st) (srcOf calls)).2 ∧ Inv bs st' := by
  induction calls generalizing st with
  | nil => exact ⟨st, rfl, rfl, hI⟩
  | cons c rest ih =>
    obtain ⟨mode, dst, src⟩ := c
    obtain ⟨hd, hrest⟩ := hc
    obtain ⟨st1, h1, hr1, hI1⟩ := XORKeyStream_spec hG de st hI mode dst src hd
    obtain ⟨st2, h2, hr2, hI2⟩ := ih st1 hI1 hrest
    have hs : srcOf ((mode, dst, src) :: rest) = src ++ srcOf rest := by simp [srcOf]
    rw [hs, run_append]
    refine ⟨st2, ?_, ?_, hI2⟩
    · unfold runCalls
      rw [h1]; simp only []
      rw [h2]; simp only []
      rw [hr1, List.take_left' (length_run E de _ src)]
    · rw [hr2, hr1]

theorem callsOk_writer (ws : List Bytes) :
    CallsOk (ws.map fun w => (Alias.disjoint, List.replicate w.length (0 : Byte), w)) := by
  induction ws with
  | nil => trivial
  | cons w ws ih => exact ⟨fun _ => by simp, ih⟩

theorem srcOf_writer (ws : List Bytes) :
    srcOf (ws.map fun w => (Alias.disjoint, List.replicate w.length (0 : Byte), w)) = ws.flatten := by
  simp [srcOf, Function.comp_def]

theorem streamWriter_spec {E : Bytes → Bytes} {bs : Nat} (hG : Good E bs) (st : St) (hI : Inv bs st) (ws : List Bytes) :
    ∃ st', streamWriter E bs st ws = .ok ((run E false (reg bs st) ws.flatten).1, st') ∧
      reg bs st' = (run E false (reg bs st) ws.flatten).2 ∧ Inv bs st' := by
  have := runCalls_spec hG false _ st hI (callsOk_writer ws)
  rw [srcOf_writer] at this
  exact this

theorem streamReaderChunks_spec {E : Bytes → Bytes} {bs : Nat} (hG : Good E bs) (cs : List Bytes) (st : St) (hI : Inv bs st) :
    ∃ out st', streamReaderChunks E bs st cs = .ok (out, st') ∧
      out.flatten = (run E true (reg bs st) cs.flatten).1 ∧ out.map List.length = cs.map List.length ∧
      reg bs st' = (run E true (reg bs st) cs.flatten).2 ∧ Inv bs st' := by
  induction cs generalizing st with
  | nil => exact ⟨[], st, rfl, rfl, rfl, rfl, hI⟩
  | cons c cs ih =>
    obtain ⟨st1, h1, hr1, hI1⟩ := XORKeyStream_spec hG true st hI .inPlace c c (by intro h; cases h)
    obtain ⟨out, st2, h2, ho, hl, hr2, hI2⟩ := ih st1 hI1
    simp only [after, List.append_nil] at h1
    refine ⟨(run E true (reg bs st) c).1 :: out, st2, ?_, ?_, ?_, ?_, hI2⟩
    · unfold streamReaderChunks
      rw [h1]; simp only []
      rw [h2]
    · simp only [List.flatten_cons]
      rw [run_append, ho, hr1]
    · simp only [List.map_cons, hl, length_run]
    · simp only [List.flatten_cons]
      rw [run_append, hr2, hr1]

/-- processing a prefix of the message yields the prefix of the output -/
theorem run_take (E : Bytes → Bytes) (de : Bool) (S m : Bytes) (k : Nat) :
    (run E de S (m.take k)).1 = ((run E de S m).1).take k := by
  by_cases hk : k ≤ m.length
  · have h := run_append E de S (m.take k) (m.drop k)
    rw [List.take_append_drop] at h
    rw [h]
    simp only []
    rw [List.take_left' (by rw [length_run, List.length_take]; omega)]
  · have h1 : m.take k = m := List.take_of_length_le (by omega)
    have h2 : ((run E de S m).1).take k = (run E de S m).1 :=
      List.take_of_length_le (by rw [length_run]; omega)
    rw [h1, h2]

end GoMC.Lemmas.CFB8
