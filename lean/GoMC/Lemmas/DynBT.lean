/-
  Helper lemmas for the dynbt model (GoMC.Model.DynBT).

  Generic part (about the `Rd` monad, candidates for Basic/Core):
    `Cons k p`   — `p` never gives bytes back, and a successful run consumes at least `k` bytes;
    `NP p`       — `p` never panics;
    `Ext p q`    — wherever `p` does not panic, `q` behaves exactly like `p` (fuel monotonicity);
  with closure lemmas for `pure`, `bind`, `fail`, `crash`, `readFull`, `readByte`, `ite`.
-/
import GoMC.Model.DynBT
namespace GoMC.Lemmas.DynBT
open GoMC GoMC.Model.DynBT
open GoMC.Spec (beBytes beVal)

/-! ## Generic predicates on readers -/

/-- `p` never un-reads, and when it succeeds it has consumed at least `k` bytes -/
def Cons {α} (k : Nat) (p : Rd α) : Prop :=
  ∀ s, (p s).2.flat.length ≤ s.flat.length ∧
    (∀ a, (p s).1 = Res.ok a → (p s).2.flat.length + k ≤ s.flat.length)

theorem Cons.le {α} {k : Nat} {p : Rd α} (h : Cons k p) (s : Stream) : (p s).2.flat.length ≤ s.flat.length :=
  (h s).1

theorem Cons.weaken {α} {k j : Nat} {p : Rd α} (h : Cons k p) (hj : j ≤ k) : Cons j p := by
  intro s
  refine ⟨(h s).1, fun a ha => ?_⟩
  have := (h s).2 a ha
  omega

theorem cons_pure {α} (a : α) : Cons 0 (Pure.pure a : Rd α) := by
  intro s; simp

theorem cons_fail {α} (k : Nat) : Cons k (Rd.fail : Rd α) := by
  intro s; simp [Rd.fail]

theorem cons_crash {α} (k : Nat) : Cons k (Rd.crash : Rd α) := by
  intro s; simp [Rd.crash]

theorem cons_readFull (n : Nat) : Cons n (Rd.readFull n) := by
  intro s
  unfold Rd.readFull
  split
  · rename_i h
    simp only [Stream.flat_drop, List.length_drop]
    refine ⟨by omega, fun _ _ => by omega⟩
  · simp

theorem cons_readByte : Cons 1 Rd.readByte := by
  intro s
  unfold Rd.readByte
  split
  · simp
  · rename_i b bs hb
    simp only [Stream.flat_drop, List.length_drop, hb, List.length_cons]
    refine ⟨by omega, fun _ _ => by omega⟩

theorem cons_bind {α β} {k j : Nat} {p : Rd α} {f : α → Rd β}
    (hp : Cons k p) (hf : ∀ a, Cons j (f a)) : Cons (k + j) (p >>= f) := by
  intro s
  rw [Rd.bind_apply]
  have h1 := hp s
  rcases hps : p s with ⟨r, s'⟩
  rw [hps] at h1
  cases r with
  | ok a =>
    have h2 := hf a s'
    have h1' := h1.2 a rfl
    simp only at h1' ⊢
    refine ⟨by omega, fun b hb => ?_⟩
    have := h2.2 b hb
    omega
  | err => exact ⟨h1.1, fun _ h => by simp at h⟩
  | panic => exact ⟨h1.1, fun _ h => by simp at h⟩

theorem cons_ite {α} {k : Nat} {c : Prop} [Decidable c] {p q : Rd α} (hp : Cons k p) (hq : Cons k q) :
    Cons k (if c then p else q) := by
  split <;> assumption

/-- `p` never panics -/
def NP {α} (p : Rd α) : Prop := ∀ s, (p s).1 ≠ Res.panic

theorem np_pure {α} (a : α) : NP (Pure.pure a : Rd α) := by intro s; simp
theorem np_fail {α} : NP (Rd.fail : Rd α) := by intro s; simp [Rd.fail]
theorem np_readFull (n : Nat) : NP (Rd.readFull n) := by
  intro s; unfold Rd.readFull; split <;> simp
theorem np_readByte : NP Rd.readByte := by
  intro s; unfold Rd.readByte; split <;> simp

/-- pointwise form of "bind does not panic" -/
theorem bind_ne_panic {α β} {p : Rd α} {f : α → Rd β} {s : Stream}
    (hp : (p s).1 ≠ Res.panic) (hf : ∀ a s', p s = (Res.ok a, s') → (f a s').1 ≠ Res.panic) :
    ((p >>= f) s).1 ≠ Res.panic := by
  rw [Rd.bind_apply]
  rcases hps : p s with ⟨r, s'⟩
  rw [hps] at hp
  cases r with
  | ok a => exact hf a s' hps
  | err => simp
  | panic => exact absurd rfl hp

theorem np_bind {α β} {p : Rd α} {f : α → Rd β} (hp : NP p) (hf : ∀ a, NP (f a)) : NP (p >>= f) :=
  fun s => bind_ne_panic (hp s) (fun a s' _ => hf a s')

theorem np_ite {α} {c : Prop} [Decidable c] {p q : Rd α} (hp : NP p) (hq : NP q) :
    NP (if c then p else q) := by
  split <;> assumption

/-- wherever `p` does not panic, `q` returns the same result and the same residual stream -/
def Ext {α} (p q : Rd α) : Prop :=
  ∀ s r s', p s = (r, s') → r ≠ Res.panic → q s = (r, s')

theorem Ext.refl {α} (p : Rd α) : Ext p p := fun _ _ _ h _ => h

theorem Ext.trans {α} {p q r : Rd α} (h1 : Ext p q) (h2 : Ext q r) : Ext p r :=
  fun s a s' h hn => h2 s a s' (h1 s a s' h hn) hn

theorem ext_crash {α} (q : Rd α) : Ext (Rd.crash : Rd α) q := by
  intro s r s' h hn
  simp only [Rd.crash, Prod.mk.injEq] at h
  exact absurd h.1.symm hn

theorem ext_bind {α β} {p q : Rd α} {f g : α → Rd β}
    (hp : Ext p q) (hf : ∀ a, Ext (f a) (g a)) : Ext (p >>= f) (q >>= g) := by
  intro s r s'' h hn
  rw [Rd.bind_apply] at h
  rcases hps : p s with ⟨r1, s1⟩
  rw [hps] at h
  cases r1 with
  | ok a =>
    simp only at h
    rw [Rd.bind_apply, hp s _ _ hps (by simp)]
    exact hf a s1 r s'' h hn
  | err =>
    simp only [Prod.mk.injEq] at h
    rw [Rd.bind_apply, hp s _ _ hps (by simp)]
    simp [h.1, h.2]
  | panic =>
    simp only [Prod.mk.injEq] at h
    exact absurd h.1.symm hn

theorem ext_ite {α} {c : Prop} [Decidable c] {p q p' q' : Rd α} (hp : Ext p p') (hq : Ext q q') :
    Ext (if c then p else q) (if c then p' else q') := by
  split <;> assumption


/-! ## The non-recursive pieces of the decoder -/

theorem cons_readInt16 : Cons 2 readInt16 := by
  unfold readInt16
  exact (cons_bind (cons_readFull 2) (fun _ => cons_pure _)).weaken (by omega)
theorem cons_readInt32 : Cons 4 readInt32 := by
  unfold readInt32
  exact (cons_bind (cons_readFull 4) (fun _ => cons_pure _)).weaken (by omega)
theorem np_readInt16 : NP readInt16 := by
  unfold readInt16; exact np_bind (np_readFull 2) (fun _ => np_pure _)
theorem np_readInt32 : NP readInt32 := by
  unfold readInt32; exact np_bind (np_readFull 4) (fun _ => np_pure _)
theorem fragInv_readInt16 : Rd.FragInv readInt16 := by
  unfold readInt16; exact Rd.fragInv_bind (Rd.fragInv_readFull 2) (fun _ => Rd.fragInv_pure _)
theorem fragInv_readInt32 : Rd.FragInv readInt32 := by
  unfold readInt32; exact Rd.fragInv_bind (Rd.fragInv_readFull 4) (fun _ => Rd.fragInv_pure _)
theorem extStable_readInt16 : Rd.ExtStable readInt16 := by
  unfold readInt16; exact Rd.extStable_bind (Rd.extStable_readFull 2) (fun _ => Rd.extStable_pure _)
theorem extStable_readInt32 : Rd.ExtStable readInt32 := by
  unfold readInt32; exact Rd.extStable_bind (Rd.extStable_readFull 4) (fun _ => Rd.extStable_pure _)

theorem cons_readString : Cons 2 readString := by
  unfold readString
  refine (cons_bind cons_readInt16 (j := 0) (fun n => ?_)).weaken (by omega)
  exact cons_ite (cons_fail _) (cons_ite ((cons_readFull _).weaken (by omega)) (cons_pure _))
theorem np_readString : NP readString := by
  unfold readString
  exact np_bind np_readInt16 (fun n => np_ite np_fail (np_ite (np_readFull _) (np_pure _)))
theorem fragInv_readString : Rd.FragInv readString := by
  unfold readString
  exact Rd.fragInv_bind fragInv_readInt16
    (fun n => Rd.fragInv_ite Rd.fragInv_fail (Rd.fragInv_ite (Rd.fragInv_readFull _) (Rd.fragInv_pure _)))
theorem extStable_readString : Rd.ExtStable readString := by
  unfold readString
  exact Rd.extStable_bind extStable_readInt16
    (fun n => Rd.extStable_ite Rd.extStable_fail (Rd.extStable_ite (Rd.extStable_readFull _) (Rd.extStable_pure _)))

theorem cons_readTag : Cons 1 readTag := by
  unfold readTag
  refine (cons_bind cons_readByte (j := 0) (fun t => ?_)).weaken (by omega)
  exact cons_ite (cons_pure _) ((cons_bind cons_readString (fun _ => cons_pure _)).weaken (by omega))
theorem np_readTag : NP readTag := by
  unfold readTag
  exact np_bind np_readByte (fun t => np_ite (np_pure _) (np_bind np_readString (fun _ => np_pure _)))
theorem fragInv_readTag : Rd.FragInv readTag := by
  unfold readTag
  exact Rd.fragInv_bind Rd.fragInv_readByte
    (fun t => Rd.fragInv_ite (Rd.fragInv_pure _) (Rd.fragInv_bind fragInv_readString (fun _ => Rd.fragInv_pure _)))
theorem extStable_readTag : Rd.ExtStable readTag := by
  unfold readTag
  exact Rd.extStable_bind Rd.extStable_readByte
    (fun t => Rd.extStable_ite (Rd.extStable_pure _) (Rd.extStable_bind extStable_readString (fun _ => Rd.extStable_pure _)))

theorem fragInv_goMake (n : Int) : Rd.FragInv (goMake n) := by
  unfold goMake; exact Rd.fragInv_ite Rd.fragInv_crash (Rd.fragInv_pure _)
theorem extStable_goMake (n : Int) : Rd.ExtStable (goMake n) := by
  unfold goMake; exact Rd.extStable_ite Rd.extStable_crash (Rd.extStable_pure _)
theorem cons_goMake (n : Int) : Cons 0 (goMake n) := by
  unfold goMake; exact cons_ite (cons_crash _) (cons_pure _)

/-! ### arrays and strings -/

theorem cons_unmArray (tag : Byte) (k : Nat) : Cons 4 (unmArray tag k) := by
  unfold unmArray
  refine (cons_bind cons_readInt32 (j := 0) (fun n => ?_)).weaken (by omega)
  refine cons_ite (cons_fail _) ?_
  refine (cons_bind (cons_goMake _) (j := 0) (fun _ => ?_)).weaken (by omega)
  refine cons_ite (cons_crash _) ?_
  exact (cons_bind (cons_readFull _) (fun _ => cons_pure _)).weaken (by omega)

theorem np_unmArray (tag : Byte) (k : Nat) : NP (unmArray tag k) := by
  unfold unmArray
  refine np_bind np_readInt32 (fun n => ?_)
  by_cases hn : n < 0
  · simp only [hn, if_true]; exact np_fail
  · simp only [hn, if_false]
    have hk : (0 : Int) ≤ n * (k : Int) := Int.mul_nonneg (by omega) (by omega)
    have h1 : ¬ (4 + n * (k : Int) < 0) := by omega
    have h2 : ¬ (4 + n * (k : Int) < 4) := by omega
    simp only [goMake, h1, h2, if_false]
    exact np_bind (np_pure _) (fun _ => np_bind (np_readFull _) (fun _ => np_pure _))

theorem fragInv_unmArray (tag : Byte) (k : Nat) : Rd.FragInv (unmArray tag k) := by
  unfold unmArray
  refine Rd.fragInv_bind fragInv_readInt32 (fun n => ?_)
  refine Rd.fragInv_ite Rd.fragInv_fail ?_
  refine Rd.fragInv_bind (fragInv_goMake _) (fun _ => ?_)
  refine Rd.fragInv_ite Rd.fragInv_crash ?_
  exact Rd.fragInv_bind (Rd.fragInv_readFull _) (fun _ => Rd.fragInv_pure _)

theorem extStable_unmArray (tag : Byte) (k : Nat) : Rd.ExtStable (unmArray tag k) := by
  unfold unmArray
  refine Rd.extStable_bind extStable_readInt32 (fun n => ?_)
  refine Rd.extStable_ite Rd.extStable_fail ?_
  refine Rd.extStable_bind (extStable_goMake _) (fun _ => ?_)
  refine Rd.extStable_ite Rd.extStable_crash ?_
  exact Rd.extStable_bind (Rd.extStable_readFull _) (fun _ => Rd.extStable_pure _)

theorem cons_unmString (tag : Byte) : Cons 2 (unmString tag) := by
  unfold unmString
  refine (cons_bind cons_readInt16 (j := 0) (fun n => ?_)).weaken (by omega)
  refine cons_ite (cons_fail _) ?_
  refine (cons_bind (cons_goMake _) (j := 0) (fun _ => ?_)).weaken (by omega)
  refine cons_ite (cons_crash _) ?_
  exact (cons_bind (cons_readFull _) (fun _ => cons_pure _)).weaken (by omega)

theorem np_unmString (tag : Byte) : NP (unmString tag) := by
  unfold unmString
  refine np_bind np_readInt16 (fun n => ?_)
  by_cases hn : n < 0
  · simp only [hn, if_true]; exact np_fail
  · simp only [hn, if_false]
    have h1 : ¬ (2 + n < 0) := by omega
    have h2 : ¬ (2 + n < 2) := by omega
    simp only [goMake, h1, h2, if_false]
    exact np_bind (np_pure _) (fun _ => np_bind (np_readFull _) (fun _ => np_pure _))

theorem fragInv_unmString (tag : Byte) : Rd.FragInv (unmString tag) := by
  unfold unmString
  refine Rd.fragInv_bind fragInv_readInt16 (fun n => ?_)
  refine Rd.fragInv_ite Rd.fragInv_fail ?_
  refine Rd.fragInv_bind (fragInv_goMake _) (fun _ => ?_)
  refine Rd.fragInv_ite Rd.fragInv_crash ?_
  exact Rd.fragInv_bind (Rd.fragInv_readFull _) (fun _ => Rd.fragInv_pure _)

theorem extStable_unmString (tag : Byte) : Rd.ExtStable (unmString tag) := by
  unfold unmString
  refine Rd.extStable_bind extStable_readInt16 (fun n => ?_)
  refine Rd.extStable_ite Rd.extStable_fail ?_
  refine Rd.extStable_bind (extStable_goMake _) (fun _ => ?_)
  refine Rd.extStable_ite Rd.extStable_crash ?_
  exact Rd.extStable_bind (Rd.extStable_readFull _) (fun _ => Rd.extStable_pure _)

/-! ### `unmLeaf` -/

theorem np_unmLeaf (tag : Byte) : NP (unmLeaf tag) := by
  unfold unmLeaf
  split
  all_goals first
    | exact np_pure _
    | exact np_bind np_readByte (fun _ => np_pure _)
    | exact np_bind (np_readFull _) (fun _ => np_pure _)
    | exact np_unmArray _ _
    | exact np_unmString _
    | exact np_fail

theorem fragInv_unmLeaf (tag : Byte) : Rd.FragInv (unmLeaf tag) := by
  unfold unmLeaf
  split
  all_goals first
    | exact Rd.fragInv_pure _
    | exact Rd.fragInv_bind Rd.fragInv_readByte (fun _ => Rd.fragInv_pure _)
    | exact Rd.fragInv_bind (Rd.fragInv_readFull _) (fun _ => Rd.fragInv_pure _)
    | exact fragInv_unmArray _ _
    | exact fragInv_unmString _
    | exact Rd.fragInv_fail

theorem extStable_unmLeaf (tag : Byte) : Rd.ExtStable (unmLeaf tag) := by
  unfold unmLeaf
  split
  all_goals first
    | exact Rd.extStable_pure _
    | exact Rd.extStable_bind Rd.extStable_readByte (fun _ => Rd.extStable_pure _)
    | exact Rd.extStable_bind (Rd.extStable_readFull _) (fun _ => Rd.extStable_pure _)
    | exact extStable_unmArray _ _
    | exact extStable_unmString _
    | exact Rd.extStable_fail

/-- a leaf other than End consumes at least one byte when it succeeds -/
theorem cons_unmLeaf (tag : Byte) (h : tag ≠ 0) : Cons 1 (unmLeaf tag) := by
  unfold unmLeaf
  split
  · rename_i h0
    exact absurd (BitVec.eq_of_toNat_eq (by simpa using h0)) h
  all_goals first
    | exact (cons_bind cons_readByte (fun _ => cons_pure _)).weaken (by omega)
    | exact (cons_bind (cons_readFull _) (fun _ => cons_pure _)).weaken (by omega)
    | exact (cons_unmArray _ _).weaken (by omega)
    | exact (cons_unmString _).weaken (by omega)
    | exact cons_fail _

theorem cons0_unmLeaf (tag : Byte) : Cons 0 (unmLeaf tag) := by
  by_cases h : tag = 0
  · subst h
    show Cons 0 (Pure.pure _)
    exact cons_pure _
  · exact (cons_unmLeaf tag h).weaken (by omega)

/-! ### list header -/

theorem cons_listHdr : Cons 5 listHdr := by
  unfold listHdr
  refine (cons_bind cons_readByte (j := 4) (fun t => ?_)).weaken (by omega)
  refine (cons_bind cons_readInt32 (j := 0) (fun n => ?_)).weaken (by omega)
  exact cons_ite (cons_fail _) (cons_ite (cons_fail _) (cons_ite (cons_fail _) (cons_pure _)))
theorem np_listHdr : NP listHdr := by
  unfold listHdr
  exact np_bind np_readByte (fun t => np_bind np_readInt32
    (fun n => np_ite np_fail (np_ite np_fail (np_ite np_fail (np_pure _)))))
theorem fragInv_listHdr : Rd.FragInv listHdr := by
  unfold listHdr
  exact Rd.fragInv_bind Rd.fragInv_readByte (fun t => Rd.fragInv_bind fragInv_readInt32
    (fun n => Rd.fragInv_ite Rd.fragInv_fail (Rd.fragInv_ite Rd.fragInv_fail
      (Rd.fragInv_ite Rd.fragInv_fail (Rd.fragInv_pure _)))))
theorem extStable_listHdr : Rd.ExtStable listHdr := by
  unfold listHdr
  exact Rd.extStable_bind Rd.extStable_readByte (fun t => Rd.extStable_bind extStable_readInt32
    (fun n => Rd.extStable_ite Rd.extStable_fail (Rd.extStable_ite Rd.extStable_fail
      (Rd.extStable_ite Rd.extStable_fail (Rd.extStable_pure _)))))

/-- what a successful list header guarantees: a known element type, and End only for an empty list -/
theorem listHdr_ok {s s' : Stream} {t : Byte} {n : Nat} (h : listHdr s = (Res.ok (t, n), s')) :
    t.toNat ≤ 12 ∧ (t = 0 → n = 0) := by
  unfold listHdr at h
  rw [Rd.bind_apply] at h
  rcases h1 : Rd.readByte s with ⟨r1, s1⟩
  rw [h1] at h
  cases r1 with
  | ok t' =>
    simp only at h
    rw [Rd.bind_apply] at h
    rcases h2 : readInt32 s1 with ⟨r2, s2⟩
    rw [h2] at h
    cases r2 with
    | ok m =>
      simp only at h
      by_cases c1 : m < 0
      · simp [c1, Rd.fail] at h
      · by_cases c2 : t'.toNat > 12
        · simp [c1, c2, Rd.fail] at h
        · by_cases c3 : t' = 0 ∧ m > 0
          · simp [c1, c3, Rd.fail] at h
          · simp only [c1, c2, c3, if_false, Rd.pure_apply, Prod.mk.injEq, Res.ok.injEq] at h
            obtain ⟨⟨rfl, rfl⟩, _⟩ := h
            refine ⟨by omega, fun h0 => ?_⟩
            have : ¬ m > 0 := fun hm => c3 ⟨h0, hm⟩
            omega
    | err => simp at h
    | panic => simp at h
  | err => simp at h
  | panic => simp at h


/-! ## The loops and `unm` -/

theorem loopList_zero (rec : Rd Val) : loopList rec 0 = (Pure.pure [] : Rd (List Val)) := rfl
theorem loopList_succ (rec : Rd Val) (n : Nat) :
    loopList rec (n + 1) = (rec >>= fun x => loopList rec n >>= fun xs => Pure.pure (x :: xs)) := rfl
theorem loopKvs_zero (rec : Byte → Rd Val) : loopKvs rec 0 = Rd.crash := rfl
theorem loopKvs_succ (rec : Byte → Rd Val) (w : Nat) :
    loopKvs rec (w + 1) = (readTag >>= fun x =>
      if x.1 = 0 then Pure.pure []
      else rec x.1 >>= fun v => loopKvs rec w >>= fun kvs => Pure.pure ((x.2, v) :: kvs)) := by
  show (readTag >>= _) = _
  congr 1
theorem unm_zero (tag : Byte) : unm 0 tag = Rd.crash := rfl
theorem unm_succ (fuel : Nat) (tag : Byte) :
    unm (fuel + 1) tag =
      if tag = 9 then (listHdr >>= fun x => loopList (unm fuel x.1) x.2 >>= fun xs => Pure.pure (.list x.1 xs))
      else if tag = 10 then (loopKvs (unm fuel) fuel >>= fun kvs => Pure.pure (.comp kvs))
      else unmLeaf tag := by
  show (if tag = 9 then (listHdr >>= _) else _) = _
  congr 1

theorem cons_loopList {rec : Rd Val} (h : Cons 0 rec) : ∀ n, Cons 0 (loopList rec n)
  | 0 => cons_pure _
  | n + 1 => by
    rw [loopList_succ]
    exact (cons_bind h (j := 0) (fun _ => (cons_bind (cons_loopList h n) (fun _ => cons_pure _)))).weaken (by omega)

theorem cons_loopKvs {rec : Byte → Rd Val} (h : ∀ t, Cons 0 (rec t)) : ∀ w, Cons 1 (loopKvs rec w)
  | 0 => cons_crash _
  | w + 1 => by
    rw [loopKvs_succ]
    refine (cons_bind cons_readTag (j := 0) (fun x => ?_)).weaken (by omega)
    refine cons_ite (cons_pure _) ?_
    exact (cons_bind (h _) (j := 0) (fun _ => (cons_bind ((cons_loopKvs h w).weaken (Nat.zero_le _)) (fun _ => cons_pure _)))).weaken (by omega)

theorem cons0_unm : ∀ fuel tag, Cons 0 (unm fuel tag)
  | 0, _ => cons_crash _
  | fuel + 1, tag => by
    rw [unm_succ]
    refine cons_ite ?_ (cons_ite ?_ (cons0_unmLeaf tag))
    · exact (cons_bind cons_listHdr (j := 0) (fun x =>
        (cons_bind (cons_loopList (cons0_unm fuel x.1) x.2) (fun _ => cons_pure _)))).weaken (by omega)
    · exact (cons_bind (cons_loopKvs (fun t => cons0_unm fuel t) fuel) (fun _ => cons_pure _)).weaken (by omega)

/-- every value other than End consumes at least one byte when decoding succeeds -/
theorem cons_unm (fuel : Nat) (tag : Byte) (h : tag ≠ 0) : Cons 1 (unm fuel tag) := by
  cases fuel with
  | zero => exact cons_crash _
  | succ fuel =>
    rw [unm_succ]
    refine cons_ite ?_ (cons_ite ?_ (cons_unmLeaf tag h))
    · exact (cons_bind cons_listHdr (j := 0) (fun x =>
        (cons_bind (cons_loopList (cons0_unm fuel x.1) x.2) (fun _ => cons_pure _)))).weaken (by omega)
    · exact (cons_bind (cons_loopKvs (fun t => cons0_unm fuel t) fuel) (fun _ => cons_pure _)).weaken (by omega)

/-! ### fragmentation invariance and extension stability -/

theorem fragInv_loopList {rec : Rd Val} (h : Rd.FragInv rec) : ∀ n, Rd.FragInv (loopList rec n)
  | 0 => Rd.fragInv_pure _
  | n + 1 => by
    rw [loopList_succ]
    exact Rd.fragInv_bind h (fun _ => Rd.fragInv_bind (fragInv_loopList h n) (fun _ => Rd.fragInv_pure _))

theorem fragInv_loopKvs {rec : Byte → Rd Val} (h : ∀ t, Rd.FragInv (rec t)) : ∀ w, Rd.FragInv (loopKvs rec w)
  | 0 => Rd.fragInv_crash
  | w + 1 => by
    rw [loopKvs_succ]
    refine Rd.fragInv_bind fragInv_readTag (fun x => Rd.fragInv_ite (Rd.fragInv_pure _) ?_)
    exact Rd.fragInv_bind (h _) (fun _ => Rd.fragInv_bind (fragInv_loopKvs h w) (fun _ => Rd.fragInv_pure _))

theorem fragInv_unm : ∀ fuel tag, Rd.FragInv (unm fuel tag)
  | 0, _ => Rd.fragInv_crash
  | fuel + 1, tag => by
    rw [unm_succ]
    refine Rd.fragInv_ite ?_ (Rd.fragInv_ite ?_ (fragInv_unmLeaf tag))
    · exact Rd.fragInv_bind fragInv_listHdr (fun x =>
        Rd.fragInv_bind (fragInv_loopList (fragInv_unm fuel x.1) x.2) (fun _ => Rd.fragInv_pure _))
    · exact Rd.fragInv_bind (fragInv_loopKvs (fun t => fragInv_unm fuel t) fuel) (fun _ => Rd.fragInv_pure _)

theorem extStable_loopList {rec : Rd Val} (h : Rd.ExtStable rec) : ∀ n, Rd.ExtStable (loopList rec n)
  | 0 => Rd.extStable_pure _
  | n + 1 => by
    rw [loopList_succ]
    exact Rd.extStable_bind h (fun _ => Rd.extStable_bind (extStable_loopList h n) (fun _ => Rd.extStable_pure _))

theorem extStable_loopKvs {rec : Byte → Rd Val} (h : ∀ t, Rd.ExtStable (rec t)) : ∀ w, Rd.ExtStable (loopKvs rec w)
  | 0 => Rd.extStable_crash
  | w + 1 => by
    rw [loopKvs_succ]
    refine Rd.extStable_bind extStable_readTag (fun x => Rd.extStable_ite (Rd.extStable_pure _) ?_)
    exact Rd.extStable_bind (h _) (fun _ => Rd.extStable_bind (extStable_loopKvs h w) (fun _ => Rd.extStable_pure _))

theorem extStable_unm : ∀ fuel tag, Rd.ExtStable (unm fuel tag)
  | 0, _ => Rd.extStable_crash
  | fuel + 1, tag => by
    rw [unm_succ]
    refine Rd.extStable_ite ?_ (Rd.extStable_ite ?_ (extStable_unmLeaf tag))
    · exact Rd.extStable_bind extStable_listHdr (fun x =>
        Rd.extStable_bind (extStable_loopList (extStable_unm fuel x.1) x.2) (fun _ => Rd.extStable_pure _))
    · exact Rd.extStable_bind (extStable_loopKvs (fun t => extStable_unm fuel t) fuel) (fun _ => Rd.extStable_pure _)

/-! ### more fuel never changes a run that did not run out of fuel -/

theorem ext_loopList {rec rec' : Rd Val} (h : Ext rec rec') : ∀ n, Ext (loopList rec n) (loopList rec' n)
  | 0 => Ext.refl _
  | n + 1 => by
    rw [loopList_succ, loopList_succ]
    exact ext_bind h (fun _ => ext_bind (ext_loopList h n) (fun _ => Ext.refl _))

theorem ext_loopKvs {rec rec' : Byte → Rd Val} (h : ∀ t, Ext (rec t) (rec' t)) :
    ∀ w w', w ≤ w' → Ext (loopKvs rec w) (loopKvs rec' w')
  | 0, _, _ => ext_crash _
  | w + 1, 0, hw => absurd hw (by omega)
  | w + 1, w' + 1, hw => by
    rw [loopKvs_succ, loopKvs_succ]
    refine ext_bind (Ext.refl _) (fun x => ext_ite (Ext.refl _) ?_)
    exact ext_bind (h _) (fun _ => ext_bind (ext_loopKvs h w w' (by omega)) (fun _ => Ext.refl _))

theorem ext_unm_succ : ∀ fuel tag, Ext (unm fuel tag) (unm (fuel + 1) tag)
  | 0, _ => ext_crash _
  | fuel + 1, tag => by
    rw [unm_succ fuel, unm_succ (fuel + 1)]
    refine ext_ite ?_ (ext_ite ?_ (Ext.refl _))
    · exact ext_bind (Ext.refl _) (fun x =>
        ext_bind (ext_loopList (ext_unm_succ fuel x.1) x.2) (fun _ => Ext.refl _))
    · exact ext_bind (ext_loopKvs (fun t => ext_unm_succ fuel t) fuel (fuel + 1) (by omega)) (fun _ => Ext.refl _)

theorem ext_unm_le (tag : Byte) {f g : Nat} (h : f ≤ g) : Ext (unm f tag) (unm g tag) := by
  induction g with
  | zero =>
    have : f = 0 := by omega
    subst this; exact Ext.refl _
  | succ g ih =>
    by_cases hfg : f = g + 1
    · subst hfg; exact Ext.refl _
    · exact (ih (by omega)).trans (ext_unm_succ g tag)

/-! ### totality: with fuel beyond the bytes in the source the decoder neither panics nor runs out of fuel -/

theorem loopList_ne_panic {rec : Rd Val} {L : Nat} (hc : Cons 0 rec)
    (hr : ∀ s, s.flat.length ≤ L → (rec s).1 ≠ Res.panic) :
    ∀ n s, s.flat.length ≤ L → (loopList rec n s).1 ≠ Res.panic
  | 0, s, _ => by simp [loopList_zero]
  | n + 1, s, hs => by
    rw [loopList_succ]
    refine bind_ne_panic (hr s hs) (fun x s1 h1 => ?_)
    have hle : s1.flat.length ≤ s.flat.length := by
      have := hc.le s; rw [h1] at this; exact this
    refine bind_ne_panic (loopList_ne_panic hc hr n s1 (by omega)) (fun _ _ _ => by simp)

theorem loopKvs_ne_panic {rec : Byte → Rd Val} {F : Nat} (hc : ∀ t, Cons 0 (rec t))
    (hr : ∀ t s, s.flat.length + 2 ≤ F → (rec t s).1 ≠ Res.panic) :
    ∀ w s, s.flat.length < w → s.flat.length + 1 ≤ F → (loopKvs rec w s).1 ≠ Res.panic
  | 0, s, hw, _ => absurd hw (by omega)
  | w + 1, s, hw, hF => by
    rw [loopKvs_succ]
    refine bind_ne_panic (np_readTag s) (fun x s1 h1 => ?_)
    have h1le : s1.flat.length + 1 ≤ s.flat.length := by
      have := (cons_readTag s).2 x (by rw [h1]); rw [h1] at this; exact this
    by_cases hx : x.1 = 0
    · simp [hx]
    · simp only [hx, if_false]
      refine bind_ne_panic (hr _ s1 (by omega)) (fun v s2 h2 => ?_)
      have h2le : s2.flat.length ≤ s1.flat.length := by
        have := (hc x.1).le s1; rw [h2] at this; exact this
      exact bind_ne_panic (loopKvs_ne_panic hc hr w s2 (by omega) (by omega)) (fun _ _ _ => by simp)

theorem unm_ne_panic : ∀ fuel tag s, s.flat.length + 2 ≤ fuel → (unm fuel tag s).1 ≠ Res.panic
  | 0, _, s, h => absurd h (by omega)
  | fuel + 1, tag, s, h => by
    rw [unm_succ]
    by_cases h9 : tag = 9
    · simp only [h9, if_true]
      refine bind_ne_panic (np_listHdr s) (fun x s1 h1 => ?_)
      have h1le : s1.flat.length + 5 ≤ s.flat.length := by
        have := (cons_listHdr s).2 x (by rw [h1]); rw [h1] at this; exact this
      refine bind_ne_panic ?_ (fun _ _ _ => by simp)
      exact loopList_ne_panic (L := fuel - 2) (cons0_unm fuel x.1)
        (fun s' hs' => unm_ne_panic fuel x.1 s' (by omega)) x.2 s1 (by omega)
    · by_cases h10 : tag = 10
      · simp only [h9, h10, if_true, if_false]
        refine bind_ne_panic ?_ (fun _ _ _ => by simp)
        exact loopKvs_ne_panic (F := fuel) (fun t => cons0_unm fuel t)
          (fun t s' hs' => unm_ne_panic fuel t s' hs') fuel s (by omega) (by omega)
      · simp only [h9, h10, if_false]
        exact np_unmLeaf tag s


/-! ## Big-endian helpers of the spec -/

theorem length_beBytes : ∀ k n, (beBytes k n).length = k
  | 0, _ => rfl
  | k + 1, n => by simp [beBytes, length_beBytes k n]

theorem beVal_beBytes : ∀ k n, beVal (beBytes k n) = n % 256 ^ k
  | 0, n => by simp [beBytes, beVal, Nat.mod_one]
  | k + 1, n => by
    have hb : (BitVec.ofNat 8 (n / 256 ^ k)).toNat = n / 256 ^ k % 256 := by
      simp [BitVec.toNat_ofNat]
    simp only [beBytes, beVal, length_beBytes, beVal_beBytes k n, hb]
    have hp : (256 : Nat) ^ (k + 1) = 256 ^ k * 256 := Nat.pow_succ 256 k
    rw [hp, Nat.mod_mul, Nat.mul_comm, Nat.add_comm]

theorem beVal_lt : ∀ h : Bytes, beVal h < 256 ^ h.length
  | [] => by simp [beVal]
  | b :: bs => by
    have ih := beVal_lt bs
    have hb : b.toNat < 256 := b.isLt
    simp only [beVal, List.length_cons, Nat.pow_succ]
    have : (b.toNat + 1) * 256 ^ bs.length ≤ 256 * 256 ^ bs.length := Nat.mul_le_mul_right _ (by omega)
    rw [Nat.add_mul, Nat.one_mul] at this
    rw [Nat.mul_comm (256 ^ bs.length) 256]
    omega

theorem toSigned4 {L : Nat} (h : L < 2 ^ 31) : toSigned 4 (beVal (beBytes 4 L)) = (L : Int) := by
  rw [beVal_beBytes]
  have p : (256 : Nat) ^ 4 = 4294967296 := by decide
  have q : (2 : Nat) ^ 31 = 2147483648 := by decide
  have hm : L % 256 ^ 4 = L := Nat.mod_eq_of_lt (by omega)
  rw [hm]
  unfold toSigned
  have : L < 2 ^ (8 * 4 - 1) := by simpa using h
  simp [this]

theorem toSigned2 {L : Nat} (h : L < 2 ^ 15) : toSigned 2 (beVal (beBytes 2 L)) = (L : Int) := by
  rw [beVal_beBytes]
  have p : (256 : Nat) ^ 2 = 65536 := by decide
  have q : (2 : Nat) ^ 15 = 32768 := by decide
  have hm : L % 256 ^ 2 = L := Nat.mod_eq_of_lt (by omega)
  rw [hm]
  unfold toSigned
  have : L < 2 ^ (8 * 2 - 1) := by simpa using h
  simp [this]

/-! ## `Reads p bs a`: on any source whose content starts with `bs`, `p` returns `a` and consumes exactly `bs` -/

def Reads {α} (p : Rd α) (bs : Bytes) (a : α) : Prop :=
  ∀ (s : Stream) (rest : Bytes), s.flat = bs ++ rest →
    ∃ s', p s = (Res.ok a, s') ∧ s'.flat = rest ∧ s'.failing = s.failing

theorem reads_pure {α} (a : α) : Reads (Pure.pure a : Rd α) [] a := by
  intro s rest h
  exact ⟨s, rfl, by simpa using h, rfl⟩

theorem reads_bind {α β} {p : Rd α} {f : α → Rd β} {b1 b2 : Bytes} {a : α} {c : β}
    (hp : Reads p b1 a) (hf : Reads (f a) b2 c) : Reads (p >>= f) (b1 ++ b2) c := by
  intro s rest h
  obtain ⟨s1, h1, hfl1, hfa1⟩ := hp s (b2 ++ rest) (by rw [h, List.append_assoc])
  obtain ⟨s2, h2, hfl2, hfa2⟩ := hf s1 rest hfl1
  exact ⟨s2, by rw [Rd.bind_ok h1]; exact h2, hfl2, hfa2.trans hfa1⟩

theorem reads_readFull (a : Bytes) : Reads (Rd.readFull a.length) a a := by
  intro s rest h
  refine ⟨s.drop a.length, ?_, ?_, rfl⟩
  · unfold Rd.readFull
    have : a.length ≤ s.flat.length := by rw [h]; simp
    rw [if_pos this]
    simp [h]
  · simp [h]

theorem reads_readByte (b : Byte) : Reads Rd.readByte [b] b := by
  intro s rest h
  refine ⟨s.drop 1, ?_, ?_, rfl⟩
  · unfold Rd.readByte
    simp only [List.singleton_append] at h
    rw [h]
  · simp [h]

theorem reads_readInt32 {L : Nat} (h : L < 2 ^ 31) : Reads readInt32 (beBytes 4 L) (L : Int) := by
  unfold readInt32
  have := reads_bind (f := fun h => (Pure.pure (toSigned 4 (beVal h)) : Rd Int))
    (reads_readFull (beBytes 4 L)) (reads_pure _)
  rw [length_beBytes, toSigned4 h, List.append_nil] at this
  exact this

theorem reads_readInt16 {L : Nat} (h : L < 2 ^ 15) : Reads readInt16 (beBytes 2 L) (L : Int) := by
  unfold readInt16
  have := reads_bind (f := fun h => (Pure.pure (toSigned 2 (beVal h)) : Rd Int))
    (reads_readFull (beBytes 2 L)) (reads_pure _)
  rw [length_beBytes, toSigned2 h, List.append_nil] at this
  exact this

theorem reads_readString {k : Bytes} (h : k.length < 2 ^ 15) : Reads readString (Spec.encString k) k := by
  unfold readString Spec.encString
  refine reads_bind (reads_readInt16 h) ?_
  have h0 : ¬ ((k.length : Int) < 0) := by omega
  simp only [h0, if_false]
  by_cases hk : k.length = 0
  · have : k = [] := List.length_eq_zero_iff.mp hk
    subst this
    simp only [List.length_nil, Int.natCast_zero, Int.lt_irrefl, if_false]
    exact reads_pure _
  · have : (k.length : Int) > 0 := by omega
    simp only [this, if_true, Int.toNat_natCast]
    exact reads_readFull k

theorem reads_readTag {t : Byte} {k : Bytes} (ht : t ≠ 0) (h : k.length < 2 ^ 15) :
    Reads readTag (t :: Spec.encString k) (t, k) := by
  unfold readTag
  refine reads_bind (b1 := [t]) (reads_readByte t) ?_
  simp only [ht, if_false]
  have := reads_bind (f := fun name => (Pure.pure (t, name) : Rd (Byte × Bytes))) (reads_readString h) (reads_pure _)
  rwa [List.append_nil] at this

theorem reads_readTag_end : Reads readTag [0] ((0 : Byte), ([] : Bytes)) := by
  unfold readTag
  have := reads_bind (b1 := [(0 : Byte)]) (b2 := [])
    (f := fun t => if t = 0 then (Pure.pure (t, []) : Rd (Byte × Bytes)) else
      (readString >>= fun name => Pure.pure (t, name)))
    (reads_readByte 0) (by simp only [if_true]; exact reads_pure _)
  simpa using this

theorem reads_unmArray (tag : Byte) (k : Nat) {L : Nat} {d : Bytes} (hL : L < 2 ^ 31) (hd : d.length = L * k) :
    Reads (unmArray tag k) (beBytes 4 L ++ d) (.leaf tag (beBytes 4 L ++ d)) := by
  unfold unmArray
  refine reads_bind (reads_readInt32 hL) ?_
  have h0 : ¬ ((L : Int) < 0) := by omega
  have hk : (0 : Int) ≤ (L : Int) * (k : Int) := Int.mul_nonneg (by omega) (by omega)
  have h1 : ¬ (4 + (L : Int) * (k : Int) < 0) := by omega
  have h2 : ¬ (4 + (L : Int) * (k : Int) < 4) := by omega
  simp only [h0, h1, h2, goMake, if_false]
  have e : (4 + (L : Int) * (k : Int) - 4).toNat = d.length := by
    rw [hd]
    have : (4 + (L : Int) * (k : Int) - 4) = ((L * k : Nat) : Int) := by
      rw [Int.natCast_mul]; omega
    rw [this, Int.toNat_natCast]
  rw [e, Int.toNat_natCast]
  have := reads_bind (b1 := []) (f := fun _ : Unit => Rd.readFull d.length >>= fun d' =>
      (Pure.pure (Val.leaf tag (beBytes 4 L ++ d')) : Rd Val)) (reads_pure ())
    (reads_bind (reads_readFull d) (reads_pure _))
  simpa using this

theorem reads_unmString (tag : Byte) {d : Bytes} (hd : d.length < 2 ^ 15) :
    Reads (unmString tag) (beBytes 2 d.length ++ d) (.leaf tag (beBytes 2 d.length ++ d)) := by
  unfold unmString
  refine reads_bind (reads_readInt16 hd) ?_
  have h0 : ¬ ((d.length : Int) < 0) := by omega
  have h1 : ¬ (2 + (d.length : Int) < 0) := by omega
  have h2 : ¬ (2 + (d.length : Int) < 2) := by omega
  simp only [h0, h1, h2, goMake, if_false]
  have e : (2 + (d.length : Int) - 2).toNat = d.length := by omega
  rw [e, Int.toNat_natCast]
  have := reads_bind (b1 := []) (f := fun _ : Unit => Rd.readFull d.length >>= fun d' =>
      (Pure.pure (Val.leaf tag (beBytes 2 d.length ++ d')) : Rd Val)) (reads_pure ())
    (reads_bind (reads_readFull d) (reads_pure _))
  simpa using this


/-! ## What decoding a well-formed tree yields, and its re-encoding -/

open GoMC.Spec in
mutual
  /-- the `Value` that decoding `encPayload t` produces -/
  def toVal : NBT → Val
    | .byte v => .leaf 1 (encPayload (.byte v))
    | .short v => .leaf 2 (encPayload (.short v))
    | .int v => .leaf 3 (encPayload (.int v))
    | .long v => .leaf 4 (encPayload (.long v))
    | .float v => .leaf 5 (encPayload (.float v))
    | .double v => .leaf 6 (encPayload (.double v))
    | .byteArray xs => .leaf 7 (encPayload (.byteArray xs))
    | .string x => .leaf 8 (encPayload (.string x))
    | .list e xs => .list e (toValList xs)
    | .compound kvs => .comp (toValKvs kvs)
    | .intArray xs => .leaf 11 (encPayload (.intArray xs))
    | .longArray xs => .leaf 12 (encPayload (.longArray xs))
  def toValList : List NBT → List Val
    | [] => []
    | x :: xs => toVal x :: toValList xs
  def toValKvs : List (Bytes × NBT) → List (Bytes × Val)
    | [] => []
    | (k, v) :: kvs => (k, toVal v) :: toValKvs kvs
end

open GoMC.Spec in
mutual
  /-- every string and every compound key is shorter than 2^15 bytes: Go reads the 16-bit length as `int16`
  and refuses negative values, so longer strings (legal in the format, which uses an unsigned length) are
  outside what the Go code accepts -/
  def Small : NBT → Prop
    | .string x => x.length < 2 ^ 15
    | .list _ xs => SmallList xs
    | .compound kvs => SmallKvs kvs
    | _ => True
  def SmallList : List NBT → Prop
    | [] => True
    | x :: xs => Small x ∧ SmallList xs
  def SmallKvs : List (Bytes × NBT) → Prop
    | [] => True
    | (k, v) :: kvs => k.length < 2 ^ 15 ∧ Small v ∧ SmallKvs kvs
end

open GoMC.Spec in
theorem tag_toVal (t : NBT) : (toVal t).tag = t.tag := by
  cases t <;> rfl

open GoMC.Spec in
theorem length_toValList : ∀ xs : List NBT, (toValList xs).length = xs.length
  | [] => rfl
  | x :: xs => by simp [toValList, length_toValList xs]

open GoMC.Spec in
mutual
  theorem marshal_toVal : ∀ t : NBT, t.WF → marshal (toVal t) = Res.ok (encPayload t)
    | .byte v, _ => by simp [toVal, marshal]
    | .short v, _ => by simp [toVal, marshal]
    | .int v, _ => by simp [toVal, marshal]
    | .long v, _ => by simp [toVal, marshal]
    | .float v, _ => by simp [toVal, marshal]
    | .double v, _ => by simp [toVal, marshal]
    | .byteArray xs, _ => by simp [toVal, marshal]
    | .string x, _ => by simp [toVal, marshal]
    | .intArray xs, _ => by simp [toVal, marshal]
    | .longArray xs, _ => by simp [toVal, marshal]
    | .list e xs, h => by
      simp only [NBT.WF] at h
      obtain ⟨_, _, _, hl⟩ := h
      simp only [toVal, marshal, marshalList_toVal e xs hl, encPayload, be32len, length_toValList]
      cases xs with
      | nil => simp [toValList]
      | cons x xs =>
        simp only [NBT.WFList] at hl
        simp [toValList, tag_toVal, hl.1]
    | .compound kvs, h => by
      simp only [NBT.WF] at h
      simp only [toVal, marshal, marshalKvs_toVal kvs h, encPayload]
  theorem marshalList_toVal (e : BitVec 8) : ∀ xs : List NBT, NBT.WFList e xs →
      marshalList (toValList xs) = Res.ok (encList xs)
    | [], _ => by simp [toValList, marshalList, encList]
    | x :: xs, h => by
      simp only [NBT.WFList] at h
      simp only [toValList, marshalList, marshal_toVal x h.2.1, marshalList_toVal e xs h.2.2, encList]
  theorem marshalKvs_toVal : ∀ kvs : List (Bytes × NBT), NBT.WFKvs kvs →
      marshalKvs (toValKvs kvs) = Res.ok (encKvs kvs)
    | [], _ => by simp [toValKvs, marshalKvs, encKvs, NBT.tagEnd]
    | (k, v) :: kvs, h => by
      simp only [NBT.WFKvs] at h
      simp only [toValKvs, marshalKvs, marshal_toVal v h.2.1, marshalKvs_toVal kvs h.2.2, encKvs, tag_toVal,
        be16len, encString, List.append_assoc, List.cons_append]
end


/-! ## Decoding the encoding of a well-formed tree -/

theorem unm_succ_leaf (fuel : Nat) (tag : Byte) (h9 : tag ≠ 9) (h10 : tag ≠ 10) :
    unm (fuel + 1) tag = unmLeaf tag := by
  rw [unm_succ, if_neg h9, if_neg h10]

theorem reads_fixed (tag : Byte) (d : Bytes) :
    Reads (Rd.readFull d.length >>= fun d' => (Pure.pure (Val.leaf tag d') : Rd Val)) d (.leaf tag d) := by
  have := reads_bind (f := fun d' => (Pure.pure (Val.leaf tag d') : Rd Val)) (reads_readFull d) (reads_pure _)
  rwa [List.append_nil] at this

theorem reads_listHdr {e : Byte} {n : Nat} (he : e.toNat ≤ 12) (h0 : e = 0 → n = 0) (hn : n < 2 ^ 31) :
    Reads listHdr (e :: beBytes 4 n) (e, n) := by
  unfold listHdr
  refine reads_bind (b1 := [e]) (reads_readByte e) ?_
  have := reads_bind (b2 := [])
    (f := fun m : Int => if m < 0 then (Rd.fail : Rd (Byte × Nat)) else if e.toNat > 12 then Rd.fail
      else if e = 0 ∧ m > 0 then Rd.fail else Pure.pure (e, m.toNat))
    (reads_readInt32 hn) (by
      have c1 : ¬ ((n : Int) < 0) := by omega
      have c2 : ¬ (e.toNat > 12) := by omega
      have c3 : ¬ (e = 0 ∧ (n : Int) > 0) := by
        intro ⟨h, hm⟩
        have := h0 h
        omega
      simp only [c1, c2, c3, if_false, Int.toNat_natCast]
      exact reads_pure _)
  rwa [List.append_nil] at this

open GoMC.Spec in
theorem tag_ne_zero (t : NBT) : t.tag ≠ 0 := by
  cases t <;> (simp only [NBT.tag]; decide)

open GoMC.Spec in
theorem length_flatten_be32 : ∀ xs : List (BitVec 32), ((xs.map be32).flatten).length = xs.length * 4
  | [] => rfl
  | x :: xs => by
    simp only [List.map_cons, List.flatten_cons, List.length_append, List.length_cons, length_flatten_be32 xs,
      be32, length_beBytes]
    omega

open GoMC.Spec in
theorem length_flatten_be64 : ∀ xs : List (BitVec 64), ((xs.map be64).flatten).length = xs.length * 8
  | [] => rfl
  | x :: xs => by
    simp only [List.map_cons, List.flatten_cons, List.length_append, List.length_cons, length_flatten_be64 xs,
      be64, length_beBytes]
    omega

open GoMC.Spec in
mutual
  theorem unm_reads : ∀ t : NBT, t.WF → Small t → ∀ fuel, (encPayload t).length + 2 ≤ fuel →
      Reads (unm fuel t.tag) (encPayload t) (toVal t)
    | .byte v, _, _, fuel, hf => by
      obtain ⟨f, rfl⟩ : ∃ f, fuel = f + 1 := ⟨fuel - 1, by omega⟩
      rw [show (NBT.byte v).tag = 1 from rfl, unm_succ_leaf f 1 (by decide) (by decide)]
      have e : unmLeaf 1 = (Rd.readByte >>= fun b => (Pure.pure (Val.leaf 1 [b]) : Rd Val)) := rfl
      rw [e]
      have := reads_bind (f := fun b => (Pure.pure (Val.leaf 1 [b]) : Rd Val)) (reads_readByte v) (reads_pure _)
      simpa [encPayload, toVal] using this
    | .short v, _, _, fuel, hf => by
      obtain ⟨f, rfl⟩ : ∃ f, fuel = f + 1 := ⟨fuel - 1, by omega⟩
      rw [show (NBT.short v).tag = 2 from rfl, unm_succ_leaf f 2 (by decide) (by decide)]
      have := reads_fixed 2 (encPayload (.short v))
      rwa [show (encPayload (.short v)).length = 2 from length_beBytes _ _] at this
    | .int v, _, _, fuel, hf => by
      obtain ⟨f, rfl⟩ : ∃ f, fuel = f + 1 := ⟨fuel - 1, by omega⟩
      rw [show (NBT.int v).tag = 3 from rfl, unm_succ_leaf f 3 (by decide) (by decide)]
      have := reads_fixed 3 (encPayload (.int v))
      rwa [show (encPayload (.int v)).length = 4 from length_beBytes _ _] at this
    | .long v, _, _, fuel, hf => by
      obtain ⟨f, rfl⟩ : ∃ f, fuel = f + 1 := ⟨fuel - 1, by omega⟩
      rw [show (NBT.long v).tag = 4 from rfl, unm_succ_leaf f 4 (by decide) (by decide)]
      have := reads_fixed 4 (encPayload (.long v))
      rwa [show (encPayload (.long v)).length = 8 from length_beBytes _ _] at this
    | .float v, _, _, fuel, hf => by
      obtain ⟨f, rfl⟩ : ∃ f, fuel = f + 1 := ⟨fuel - 1, by omega⟩
      rw [show (NBT.float v).tag = 5 from rfl, unm_succ_leaf f 5 (by decide) (by decide)]
      have := reads_fixed 5 (encPayload (.float v))
      rwa [show (encPayload (.float v)).length = 4 from length_beBytes _ _] at this
    | .double v, _, _, fuel, hf => by
      obtain ⟨f, rfl⟩ : ∃ f, fuel = f + 1 := ⟨fuel - 1, by omega⟩
      rw [show (NBT.double v).tag = 6 from rfl, unm_succ_leaf f 6 (by decide) (by decide)]
      have := reads_fixed 6 (encPayload (.double v))
      rwa [show (encPayload (.double v)).length = 8 from length_beBytes _ _] at this
    | .byteArray xs, hw, _, fuel, hf => by
      obtain ⟨f, rfl⟩ : ∃ f, fuel = f + 1 := ⟨fuel - 1, by omega⟩
      rw [show (NBT.byteArray xs).tag = 7 from rfl, unm_succ_leaf f 7 (by decide) (by decide)]
      simp only [NBT.WF] at hw
      exact reads_unmArray 7 1 hw (by simp)
    | .string x, _, hs, fuel, hf => by
      obtain ⟨f, rfl⟩ : ∃ f, fuel = f + 1 := ⟨fuel - 1, by omega⟩
      rw [show (NBT.string x).tag = 8 from rfl, unm_succ_leaf f 8 (by decide) (by decide)]
      simp only [Small] at hs
      exact reads_unmString 8 hs
    | .intArray xs, hw, _, fuel, hf => by
      obtain ⟨f, rfl⟩ : ∃ f, fuel = f + 1 := ⟨fuel - 1, by omega⟩
      rw [show (NBT.intArray xs).tag = 11 from rfl, unm_succ_leaf f 11 (by decide) (by decide)]
      simp only [NBT.WF] at hw
      exact reads_unmArray 11 4 hw (length_flatten_be32 xs)
    | .longArray xs, hw, _, fuel, hf => by
      obtain ⟨f, rfl⟩ : ∃ f, fuel = f + 1 := ⟨fuel - 1, by omega⟩
      rw [show (NBT.longArray xs).tag = 12 from rfl, unm_succ_leaf f 12 (by decide) (by decide)]
      simp only [NBT.WF] at hw
      exact reads_unmArray 12 8 hw (length_flatten_be64 xs)
    | .list e xs, hw, hs, fuel, hf => by
      obtain ⟨f, rfl⟩ : ∃ f, fuel = f + 1 := ⟨fuel - 1, by omega⟩
      rw [show (NBT.list e xs).tag = 9 from rfl, unm_succ]
      simp only [if_true]
      simp only [NBT.WF] at hw
      obtain ⟨hn, h0, he, hl⟩ := hw
      simp only [Small] at hs
      simp only [encPayload, List.length_cons, List.length_append, length_beBytes] at hf
      have hdr := reads_listHdr (e := e) (n := xs.length) he
        (fun h => by
          rcases h0 with h0 | h0
          · simp [h0]
          · exact absurd h h0) hn
      have := reads_bind (f := fun x : Byte × Nat => loopList (unm f x.1) x.2 >>= fun ys =>
          (Pure.pure (Val.list x.1 ys) : Rd Val)) hdr
        (reads_bind (loopList_reads e xs hl hs f (by omega)) (reads_pure _))
      simpa [encPayload, toVal] using this
    | .compound kvs, hw, hs, fuel, hf => by
      obtain ⟨f, rfl⟩ : ∃ f, fuel = f + 1 := ⟨fuel - 1, by omega⟩
      rw [show (NBT.compound kvs).tag = 10 from rfl, unm_succ]
      simp only [show ¬ ((10 : Byte) = 9) by decide, if_false, if_true]
      simp only [NBT.WF] at hw
      simp only [Small] at hs
      simp only [encPayload] at hf
      have := reads_bind (f := fun ys => (Pure.pure (Val.comp ys) : Rd Val))
        (loopKvs_reads kvs hw hs f f (by omega) (by omega)) (reads_pure _)
      simpa [encPayload, toVal] using this
  theorem loopList_reads (e : BitVec 8) : ∀ xs : List NBT, NBT.WFList e xs → SmallList xs →
      ∀ f, (encList xs).length + 2 ≤ f → Reads (loopList (unm f e) xs.length) (encList xs) (toValList xs)
    | [], _, _, _, _ => reads_pure _
    | x :: xs, hw, hs, f, hf => by
      simp only [NBT.WFList] at hw
      simp only [SmallList] at hs
      simp only [encList, List.length_append] at hf
      have hx := unm_reads x hw.2.1 hs.1 f (by omega)
      rw [hw.1] at hx
      simp only [List.length_cons, loopList_succ]
      have := reads_bind (f := fun y => loopList (unm f e) xs.length >>= fun ys =>
          (Pure.pure (y :: ys) : Rd (List Val))) hx
        (reads_bind (loopList_reads e xs hw.2.2 hs.2 f (by omega)) (reads_pure _))
      simpa [encList, toValList] using this
  theorem loopKvs_reads : ∀ kvs : List (Bytes × NBT), NBT.WFKvs kvs → SmallKvs kvs →
      ∀ f w, (encKvs kvs).length + 1 ≤ f → (encKvs kvs).length ≤ w →
      Reads (loopKvs (unm f) w) (encKvs kvs) (toValKvs kvs)
    | [], _, _, f, w, _, hw' => by
      simp only [encKvs, List.length_cons, List.length_nil] at hw'
      obtain ⟨w', rfl⟩ : ∃ w', w = w' + 1 := ⟨w - 1, by omega⟩
      rw [loopKvs_succ]
      have := reads_bind (b2 := [])
        (f := fun x : Byte × Bytes => if x.1 = 0 then (Pure.pure [] : Rd (List (Bytes × Val)))
          else unm f x.1 >>= fun v => loopKvs (unm f) w' >>= fun kvs => Pure.pure ((x.2, v) :: kvs))
        reads_readTag_end (by simp only [if_true]; exact reads_pure _)
      simpa [encKvs, toValKvs, NBT.tagEnd] using this
    | (k, v) :: kvs, hw, hs, f, w, hf, hw' => by
      simp only [NBT.WFKvs] at hw
      simp only [SmallKvs] at hs
      simp only [encKvs, List.length_cons, List.length_append, encString, length_beBytes] at hf hw'
      obtain ⟨w', rfl⟩ : ∃ w', w = w' + 1 := ⟨w - 1, by omega⟩
      rw [loopKvs_succ]
      have hne := tag_ne_zero v
      have := reads_bind
        (f := fun x : Byte × Bytes => if x.1 = 0 then (Pure.pure [] : Rd (List (Bytes × Val)))
          else unm f x.1 >>= fun v => loopKvs (unm f) w' >>= fun kvs => Pure.pure ((x.2, v) :: kvs))
        (reads_readTag hne hs.1)
        (by
          simp only [hne, if_false]
          exact reads_bind (unm_reads v hw.2.1 hs.2.1 f (by omega))
            (reads_bind (loopKvs_reads kvs hw.2.2 hs.2.2 f w' (by omega) (by omega)) (reads_pure _)))
      simpa [encKvs, toValKvs, encString] using this
end


/-! ## Work bound: loop iterations are paid for by consumed bytes -/

theorem map_apply {α β} (p : Rd α) (g : α → β) (s : Stream) :
    (p >>= fun a => (Pure.pure (g a) : Rd β)) s = ((p s).1.map g, (p s).2) := by
  rw [Rd.bind_apply]
  rcases p s with ⟨r, s'⟩
  cases r <;> rfl

theorem map_ok {α β} {r : Res α} {g : α → β} {b : β} (h : r.map g = Res.ok b) : ∃ a, r = Res.ok a := by
  cases r with
  | ok a => exact ⟨a, rfl⟩
  | err => simp [Res.map] at h
  | panic => simp [Res.map] at h

/-- the bound for one decoder call: `2·consumed + 1` always, `2·consumed − 1` when it succeeds -/
def WB (wrec : Stream → Nat) (rec : Rd Val) (s : Stream) : Prop :=
  wrec s + 2 * (rec s).2.flat.length ≤ 2 * s.flat.length + 1 ∧
  (∀ v, (rec s).1 = Res.ok v → wrec s + 1 + 2 * (rec s).2.flat.length ≤ 2 * s.flat.length)

theorem workList_bound {rec : Rd Val} {wrec : Stream → Nat} (H : ∀ s, WB wrec rec s) :
    ∀ n s, workList rec wrec n s + 2 * (loopList rec n s).2.flat.length ≤ 2 * s.flat.length + 2 ∧
      (∀ xs, (loopList rec n s).1 = Res.ok xs →
        workList rec wrec n s + 2 * (loopList rec n s).2.flat.length ≤ 2 * s.flat.length)
  | 0, s => by simp [workList, loopList_zero]
  | n + 1, s => by
    have hs := H s
    unfold WB at hs
    rw [loopList_succ, Rd.bind_apply]
    unfold workList
    rcases h : rec s with ⟨r, s1⟩
    rw [h] at hs
    cases r with
    | ok x =>
      simp only at hs ⊢
      rw [map_apply]
      have ih := workList_bound H n s1
      have h2 := hs.2 x rfl
      refine ⟨by simp only; omega, fun xs hxs => ?_⟩
      obtain ⟨ys, hys⟩ := map_ok hxs
      have := ih.2 ys hys
      simp only; omega
    | err =>
      simp only at hs ⊢
      exact ⟨by omega, fun _ h => by simp at h⟩
    | panic =>
      simp only at hs ⊢
      exact ⟨by omega, fun _ h => by simp at h⟩

theorem workKvs_bound {rec : Byte → Rd Val} {wrec : Byte → Stream → Nat}
    (H : ∀ t, t ≠ 0 → ∀ s, WB (wrec t) (rec t) s) :
    ∀ w s, workKvs rec wrec w s + 2 * (loopKvs rec w s).2.flat.length ≤ 2 * s.flat.length + 1 ∧
      (∀ kvs, (loopKvs rec w s).1 = Res.ok kvs →
        workKvs rec wrec w s + 1 + 2 * (loopKvs rec w s).2.flat.length ≤ 2 * s.flat.length)
  | 0, s => by simp [workKvs, loopKvs_zero, Rd.crash]
  | w + 1, s => by
    rw [loopKvs_succ, Rd.bind_apply]
    unfold workKvs
    have hc := cons_readTag s
    rcases h : readTag s with ⟨r, s1⟩
    rw [h] at hc
    cases r with
    | ok x =>
      obtain ⟨t, name⟩ := x
      have h1 := hc.2 _ rfl
      simp only at h1 ⊢
      by_cases ht : t = 0
      · simp only [ht, if_true, Rd.pure_apply]
        exact ⟨by omega, fun _ _ => by omega⟩
      · simp only [ht, if_false]
        have hs := H t ht s1
        unfold WB at hs
        rw [Rd.bind_apply]
        rcases h2 : rec t s1 with ⟨r2, s2⟩
        rw [h2] at hs
        cases r2 with
        | ok v =>
          simp only at hs ⊢
          rw [map_apply]
          have ih := workKvs_bound H w s2
          have h3 := hs.2 v rfl
          refine ⟨by simp only; omega, fun kvs hk => ?_⟩
          obtain ⟨ys, hys⟩ := map_ok hk
          have := ih.2 ys hys
          simp only; omega
        | err =>
          simp only at hs ⊢
          exact ⟨by omega, fun _ h => by simp at h⟩
        | panic =>
          simp only at hs ⊢
          exact ⟨by omega, fun _ h => by simp at h⟩
    | err =>
      simp only at hc ⊢
      exact ⟨by omega, fun _ h => by simp at h⟩
    | panic =>
      simp only at hc ⊢
      exact ⟨by omega, fun _ h => by simp at h⟩

theorem work_zero (tag : Byte) (s : Stream) : work 0 tag s = 0 := rfl
theorem work_succ (fuel : Nat) (tag : Byte) (s : Stream) :
    work (fuel + 1) tag s =
      if tag = 9 then
        match listHdr s with
        | (.ok (t, n), s') => workList (unm fuel t) (work fuel t) n s'
        | _ => 0
      else if tag = 10 then workKvs (unm fuel) (work fuel) fuel s
      else 0 := rfl

theorem work_bound : ∀ fuel tag, tag ≠ 0 → ∀ s, WB (work fuel tag) (unm fuel tag) s
  | 0, tag, _, s => by
    unfold WB
    simp [work_zero, unm_zero, Rd.crash]
  | fuel + 1, tag, ht, s => by
    unfold WB
    rw [work_succ, unm_succ]
    by_cases h9 : tag = 9
    · simp only [h9, if_true]
      rw [Rd.bind_apply]
      have hc := cons_listHdr s
      rcases h : listHdr s with ⟨r, s1⟩
      rw [h] at hc
      cases r with
      | ok x =>
        obtain ⟨t, n⟩ := x
        have h1 := hc.2 _ rfl
        have hk := listHdr_ok h
        simp only at h1 ⊢
        rw [map_apply]
        by_cases hn : n = 0
        · subst hn
          simp only [workList, loopList_zero, Rd.pure_apply, Res.map]
          exact ⟨by omega, fun _ _ => by omega⟩
        · have ht0 : t ≠ 0 := fun h0 => hn (hk.2 h0)
          have := workList_bound (fun s' => work_bound fuel t ht0 s') n s1
          refine ⟨by simp only; omega, fun v hv => ?_⟩
          obtain ⟨ys, hys⟩ := map_ok hv
          have := this.2 ys hys
          simp only; omega
      | err =>
        simp only at hc ⊢
        exact ⟨by omega, fun _ h => by simp at h⟩
      | panic =>
        simp only at hc ⊢
        exact ⟨by omega, fun _ h => by simp at h⟩
    · by_cases h10 : tag = 10
      · subst h10
        simp only [show ¬ ((10 : Byte) = 9) by decide, if_false, if_true]
        rw [map_apply]
        have := workKvs_bound (fun t ht0 s' => work_bound fuel t ht0 s') fuel s
        refine ⟨by simp only; omega, fun v hv => ?_⟩
        obtain ⟨ys, hys⟩ := map_ok hv
        have := this.2 ys hys
        simp only; omega
      · simp only [h9, h10, if_false]
        have hc := cons_unmLeaf tag ht s
        exact ⟨by omega, fun v hv => by have := hc.2 v hv; omega⟩


/-! ## The root decoder `decodeDoc` and the stream-fuelled `unmarshal` -/

open GoMC.Spec in
theorem tag_small (t : NBT) : t.tag ≠ 0 ∧ t.tag ≠ 0x1f ∧ t.tag ≠ 0x78 := by
  cases t <;> (simp only [NBT.tag]; decide)

theorem extStable_unmarshal (tag : Byte) : Rd.ExtStable (unmarshal tag) := by
  intro s a s' h t extra ht
  unfold unmarshal at h ⊢
  obtain ⟨t', h1, h2, h3⟩ := extStable_unm _ tag s a s' h t extra ht
  refine ⟨t', ?_, h2, h3⟩
  exact ext_unm_le tag (by rw [ht, List.length_append]; omega) t _ _ h1 (by simp)

theorem extStable_decodeDoc (file : Bool) : Rd.ExtStable (decodeDoc file) := by
  unfold decodeDoc
  refine Rd.extStable_bind Rd.extStable_readByte (fun t => ?_)
  have hu : ∀ name : Bytes, Rd.ExtStable
      (unmarshal t >>= fun v => (Pure.pure (t, name, v) : Rd (Byte × Bytes × Val))) :=
    fun name => Rd.extStable_bind (extStable_unmarshal t) (fun _ => Rd.extStable_pure _)
  refine Rd.extStable_ite ?_ (hu [])
  refine Rd.extStable_ite Rd.extStable_fail (Rd.extStable_ite (hu []) ?_)
  exact Rd.extStable_bind extStable_readString (fun name => hu name)

theorem fragInv_unmarshal (tag : Byte) : Rd.FragInv (unmarshal tag) := by
  intro s t h
  unfold unmarshal
  rw [h.1]
  exact fragInv_unm _ tag s t h

end GoMC.Lemmas.DynBT
