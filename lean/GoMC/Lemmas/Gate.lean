/-
  GoMC.Lemmas.Gate — symbolic runs of the gate model and the FIFO invariant of the play channels.
-/
import GoMC.Model.Gate
namespace GoMC.Lemmas.Gate
open GoMC GoMC.Model.Gate

theorem join_accept (cfg : Cfg) (name host : Bytes) (claimed : UUID) (port : Nat)
    (hacc : cfg.checker.bind (fun chk => chk name (cfg.ouuid name) protocolVersion) = none) :
    let s := run cfg 7 (initJoin name claimed host port)
    let z := decide (cfg.threshold ≥ 0)
    s.client.phase = .joined ∧
    s.server.phase = .play name (cfg.ouuid name) protocolVersion ∧
    s.serverGarbled = false ∧
    s.client.name = name ∧ s.client.uuid = cfg.ouuid name ∧
    s.c2s = [] ∧ s.s2c = [] ∧
    s.c2sLog = [⟨false, .handshake protocolVersion host port 2⟩, ⟨false, .loginHello name claimed⟩,
                ⟨z, .loginAck⟩, ⟨z, .finishAck⟩] ∧
    s.s2cLog = (if cfg.threshold ≥ 0 then [⟨false, .setCompression cfg.threshold⟩] else []) ++
                [⟨z, .loginSuccess (cfg.ouuid name) name⟩, ⟨z, .finishConfig⟩] ∧
    s.client.thr = (if cfg.threshold ≥ 0 then cfg.threshold else -1) ∧
    s.server.thr = s.client.thr := by
  by_cases h : cfg.threshold ≥ 0
  · simp [run, step, initJoin, startWith, clientJoinStart, applyActs, deliverToServer, deliverToClient,
      serverOn, clientOn, hacc, h]
  · simp [run, step, initJoin, startWith, clientJoinStart, applyActs, deliverToServer, deliverToClient,
      serverOn, clientOn, hacc, h]

theorem join_refuse (cfg : Cfg) (name host : Bytes) (claimed : UUID) (port : Nat) (reason : Bytes)
    (href : cfg.checker.bind (fun chk => chk name (cfg.ouuid name) protocolVersion) = some reason) :
    let s := run cfg 7 (initJoin name claimed host port)
    s.client.phase = .failed (.disconnect reason) ∧
    s.server.phase = .closed ∧
    s.serverGarbled = false ∧
    s.s2cLog = (if cfg.threshold ≥ 0 then [⟨false, .setCompression cfg.threshold⟩] else []) ++
                [⟨decide (cfg.threshold ≥ 0), .loginDisconnect reason⟩] := by
  by_cases h : cfg.threshold ≥ 0
  · simp [run, step, initJoin, startWith, clientJoinStart, applyActs, deliverToServer, deliverToClient,
      serverOn, clientOn, href, h]
  · simp [run, step, initJoin, startWith, clientJoinStart, applyActs, deliverToServer, deliverToClient,
      serverOn, clientOn, href, h]

theorem ping (cfg : Cfg) (host : Bytes) (port : Nat) (payload : BitVec 64) :
    let s := run cfg 5 (initPing host port payload)
    s.client.phase = .pinged (cfg.statusJson protocolVersion) payload ∧
    s.server.phase = .closed ∧ s.serverGarbled = false ∧
    s.s2cLog = [⟨false, .statusResponse (cfg.statusJson protocolVersion)⟩, ⟨false, .pong payload⟩] := by
  simp [run, step, initPing, startWith, clientPingStart, applyActs, deliverToServer, deliverToClient,
    serverOn, clientOn, afterStatus]

/-! ### lock-step: the scheduler does not matter -/

theorem run_succ (cfg : Cfg) (n : Nat) (s : Sys) : run cfg (n + 1) s = step cfg (run cfg n s) := by
  induction n generalizing s with
  | zero => rfl
  | succ n ih => rw [run, ih]; rfl

/-- along the canonical run of an accepted join, each party's read is either blocked (no-op) or IS the next
    canonical step -/
theorem lockstep_le (cfg : Cfg) (name host : Bytes) (claimed : UUID) (port : Nat)
    (hacc : cfg.checker.bind (fun chk => chk name (cfg.ouuid name) protocolVersion) = none) (k : Nat) (hk : k ≤ 7) :
    let s := run cfg k (initJoin name claimed host port)
    (deliverToServer cfg s = s ∨ deliverToServer cfg s = run cfg (k + 1) (initJoin name claimed host port)) ∧
    (deliverToClient s = s ∨ deliverToClient s = run cfg (k + 1) (initJoin name claimed host port)) ∧
    (s.c2s = [] → s.s2c = [] → s = run cfg 7 (initJoin name claimed host port)) := by
  have : k = 0 ∨ k = 1 ∨ k = 2 ∨ k = 3 ∨ k = 4 ∨ k = 5 ∨ k = 6 ∨ k = 7 := by omega
  by_cases h : cfg.threshold ≥ 0
  · rcases this with rfl | rfl | rfl | rfl | rfl | rfl | rfl | rfl <;>
      simp [run, step, initJoin, startWith, clientJoinStart, applyActs, deliverToServer, deliverToClient,
        serverOn, clientOn, hacc, h]
  · rcases this with rfl | rfl | rfl | rfl | rfl | rfl | rfl | rfl <;>
      simp [run, step, initJoin, startWith, clientJoinStart, applyActs, deliverToServer, deliverToClient,
        serverOn, clientOn, hacc, h]

theorem run_stable (cfg : Cfg) (name host : Bytes) (claimed : UUID) (port : Nat)
    (hacc : cfg.checker.bind (fun chk => chk name (cfg.ouuid name) protocolVersion) = none) (n : Nat) :
    run cfg (7 + n) (initJoin name claimed host port) = run cfg 7 (initJoin name claimed host port) := by
  have h8 : run cfg 8 (initJoin name claimed host port) = run cfg 7 (initJoin name claimed host port) := by
    by_cases h : cfg.threshold ≥ 0
    · simp [run, step, initJoin, startWith, clientJoinStart, applyActs, deliverToServer, deliverToClient,
        serverOn, clientOn, hacc, h]
    · simp [run, step, initJoin, startWith, clientJoinStart, applyActs, deliverToServer, deliverToClient,
        serverOn, clientOn, hacc, h]
  induction n with
  | zero => rfl
  | succ n ih =>
    rw [show 7 + (n + 1) = (7 + n) + 1 from rfl, run_succ, ih, ← run_succ]
    exact h8

theorem lockstep (cfg : Cfg) (name host : Bytes) (claimed : UUID) (port : Nat)
    (hacc : cfg.checker.bind (fun chk => chk name (cfg.ouuid name) protocolVersion) = none) (k : Nat) :
    let s := run cfg k (initJoin name claimed host port)
    (deliverToServer cfg s = s ∨ deliverToServer cfg s = run cfg (k + 1) (initJoin name claimed host port)) ∧
    (deliverToClient s = s ∨ deliverToClient s = run cfg (k + 1) (initJoin name claimed host port)) ∧
    (s.c2s = [] → s.s2c = [] → s = run cfg 7 (initJoin name claimed host port)) := by
  by_cases hk : k ≤ 7
  · exact lockstep_le cfg name host claimed port hacc k hk
  · obtain ⟨n, rfl⟩ : ∃ n, k = 7 + n := ⟨k - 7, by omega⟩
    have h7 := lockstep_le cfg name host claimed port hacc 7 (Nat.le_refl 7)
    have e1 := run_stable cfg name host claimed port hacc n
    have e2 := run_stable cfg name host claimed port hacc (n + 1)
    have e3 := run_stable cfg name host claimed port hacc 1
    simp only at h7 ⊢
    rw [show 7 + n + 1 = 7 + (n + 1) from rfl, e1, e2]
    rw [show 7 + 1 = 8 from rfl] at h7 e3
    rw [e3] at h7
    exact ⟨h7.1, h7.2.1, fun _ _ => rfl⟩

theorem any_schedule (cfg : Cfg) (name host : Bytes) (claimed : UUID) (port : Nat)
    (hacc : cfg.checker.bind (fun chk => chk name (cfg.ouuid name) protocolVersion) = none) (cs : List Bool) :
    ∀ k, ∃ k', runAny cfg cs (run cfg k (initJoin name claimed host port)) = run cfg k' (initJoin name claimed host port) := by
  induction cs with
  | nil => intro k; exact ⟨k, rfl⟩
  | cons b cs ih =>
    intro k
    have hl := lockstep cfg name host claimed port hacc k
    simp only at hl
    cases b with
    | true =>
      simp only [runAny]
      rcases hl.1 with e | e <;> rw [e]
      · exact ih k
      · exact ih (k + 1)
    | false =>
      simp only [runAny]
      rcases hl.2.1 with e | e <;> rw [e]
      · exact ih k
      · exact ih (k + 1)

theorem any_schedule_final (cfg : Cfg) (name host : Bytes) (claimed : UUID) (port : Nat)
    (hacc : cfg.checker.bind (fun chk => chk name (cfg.ouuid name) protocolVersion) = none) (cs : List Bool)
    (h1 : (runAny cfg cs (initJoin name claimed host port)).c2s = []) (h2 : (runAny cfg cs (initJoin name claimed host port)).s2c = []) :
    runAny cfg cs (initJoin name claimed host port) = run cfg 7 (initJoin name claimed host port) := by
  obtain ⟨k, hk⟩ := any_schedule cfg name host claimed port hacc cs 0
  simp only [run] at hk
  rw [hk] at h1 h2 ⊢
  exact (lockstep cfg name host claimed port hacc k).2.2 h1 h2

/-! ### play channels -/

/-- the invariant of the play phase -/
structure PlayInv {μ : Type} (p : Play μ) : Prop where
  same : (p.cthr ≥ 0) ↔ (p.sthr ≥ 0)
  ok : p.garbled = false
  c2sFmt : ∀ f ∈ p.c2s, f.z = decide (p.cthr ≥ 0)
  s2cFmt : ∀ f ∈ p.s2c, f.z = decide (p.sthr ≥ 0)
  c2sSeq : p.sRecv ++ p.c2s.map (·.msg) = p.cSent
  s2cSeq : p.cRecv ++ p.s2c.map (·.msg) = p.sSent

theorem playInv_step {μ : Type} (p : Play μ) (ev : PlayEv μ) (h : PlayInv p) : PlayInv (playStep p ev) := by
  have hz : decide (p.cthr ≥ 0) = decide (p.sthr ≥ 0) := by
    have := h.same
    by_cases hc : p.cthr ≥ 0
    · have hs : p.sthr ≥ 0 := this.mp hc
      simp [hc, hs]
    · have hs : ¬ p.sthr ≥ 0 := fun x => hc (this.mpr x)
      simp [hc, hs]
  cases ev with
  | cSend m =>
    refine ⟨h.same, h.ok, ?_, h.s2cFmt, ?_, h.s2cSeq⟩
    · intro f hf
      simp only [playStep, List.mem_append, List.mem_singleton] at hf
      rcases hf with hf | rfl
      · exact h.c2sFmt f hf
      · rfl
    · simp only [playStep, List.map_append, List.map_cons, List.map_nil, ← List.append_assoc, h.c2sSeq]
  | sSend m =>
    refine ⟨h.same, h.ok, h.c2sFmt, ?_, h.c2sSeq, ?_⟩
    · intro f hf
      simp only [playStep, List.mem_append, List.mem_singleton] at hf
      rcases hf with hf | rfl
      · exact h.s2cFmt f hf
      · rfl
    · simp only [playStep, List.map_append, List.map_cons, List.map_nil, ← List.append_assoc, h.s2cSeq]
  | sRead =>
    cases hq : p.c2s with
    | nil => simpa [playStep, hq] using h
    | cons f rest =>
      have hf : f.z = decide (p.sthr ≥ 0) := by
        rw [← hz]; exact h.c2sFmt f (by rw [hq]; exact List.mem_cons_self)
      have hseq := h.c2sSeq
      rw [hq] at hseq
      simp only [playStep, hq, hf, if_true]
      refine ⟨h.same, h.ok, ?_, h.s2cFmt, ?_, h.s2cSeq⟩
      · intro g hg
        exact h.c2sFmt g (by rw [hq]; exact List.mem_cons_of_mem _ hg)
      · simpa using hseq
  | cRead =>
    cases hq : p.s2c with
    | nil => simpa [playStep, hq] using h
    | cons f rest =>
      have hf : f.z = decide (p.cthr ≥ 0) := by
        rw [hz]; exact h.s2cFmt f (by rw [hq]; exact List.mem_cons_self)
      have hseq := h.s2cSeq
      rw [hq] at hseq
      simp only [playStep, hq, hf, if_true]
      refine ⟨h.same, h.ok, h.c2sFmt, ?_, h.c2sSeq, ?_⟩
      · intro g hg
        exact h.s2cFmt g (by rw [hq]; exact List.mem_cons_of_mem _ hg)
      · simpa using hseq

theorem playInv_run {μ : Type} (evs : List (PlayEv μ)) : ∀ (p : Play μ), PlayInv p → PlayInv (playRun p evs) := by
  induction evs with
  | nil => intro p h; exact h
  | cons ev evs ih => intro p h; exact ih _ (playInv_step p ev h)

theorem play_fifo {μ : Type} (cthr sthr : Int) (hsame : (cthr ≥ 0) ↔ (sthr ≥ 0)) (evs : List (PlayEv μ)) :
    let p := playRun ({ cthr := cthr, sthr := sthr } : Play μ) evs
    p.garbled = false ∧
    p.sRecv ++ p.c2s.map (·.msg) = p.cSent ∧
    p.cRecv ++ p.s2c.map (·.msg) = p.sSent ∧
    (p.c2s = [] → p.sRecv = p.cSent) ∧ (p.s2c = [] → p.cRecv = p.sSent) := by
  have h0 : PlayInv ({ cthr := cthr, sthr := sthr } : Play μ) :=
    ⟨hsame, rfl, by simp, by simp, rfl, rfl⟩
  have h := playInv_run evs _ h0
  refine ⟨h.ok, h.c2sSeq, h.s2cSeq, ?_, ?_⟩
  · intro he
    have := h.c2sSeq
    rw [he] at this
    simpa using this
  · intro he
    have := h.s2cSeq
    rw [he] at this
    simpa using this

theorem play_sent_gen {μ : Type} (evs : List (PlayEv μ)) : ∀ (p : Play μ),
    (playRun p evs).cSent = p.cSent ++ evs.filterMap (fun | .cSend m => some m | _ => none) ∧
    (playRun p evs).sSent = p.sSent ++ evs.filterMap (fun | .sSend m => some m | _ => none) := by
  induction evs with
  | nil => intro p; simp [playRun]
  | cons ev evs ih =>
    intro p
    have := ih (playStep p ev)
    simp only [playRun, List.foldl_cons] at this ⊢
    rw [this.1, this.2]
    cases ev with
    | cSend m => simp [playStep]
    | sSend m => simp [playStep]
    | sRead =>
      simp only [playStep]
      split
      · simp
      · split <;> simp
    | cRead =>
      simp only [playStep]
      split
      · simp
      · split <;> simp

theorem play_sent {μ : Type} (cthr sthr : Int) (evs : List (PlayEv μ)) :
    let p := playRun ({ cthr := cthr, sthr := sthr } : Play μ) evs
    p.cSent = evs.filterMap (fun | .cSend m => some m | _ => none) ∧
    p.sSent = evs.filterMap (fun | .sSend m => some m | _ => none) := by
  have := play_sent_gen evs ({ cthr := cthr, sthr := sthr } : Play μ)
  simpa using this

end GoMC.Lemmas.Gate
