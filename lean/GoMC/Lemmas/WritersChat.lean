/-
  The writer models of the chat package (Model/WritersChat.lean):
  * `Wr.Faithful`: `Message.WriteTo` and `(*Type).WriteTo` never swallow a sink failure — for every component (also one
    that cannot be encoded) and every header;
  * `Wr.Exact` against C17 stage 2's pure models: when `ChatNBT.writeTo m = ok (bytes, n)` the writer model returns `n`
    having written `bytes`; `wType` writes `Chat.typeEnc msgCodecFresh`.
-/
import GoMC.Model.WritersChat
import GoMC.Lemmas.WritersChunk
namespace GoMC.Lemmas.WChat
open GoMC GoMC.Spec GoMC.Model GoMC.Model.Chat GoMC.Model.ChatNBT GoMC.Model.Go
open GoMC.Lemmas Wr

theorem faithful_wMessage (m : Msg) : Faithful (wMessage m) := by
  unfold wMessage
  refine WChunk.faithful_wCounted (faithful_bind (WNBT.faithful_wUnit _) fun _ => ?_)
  cases marshalNBT m with
  | ok p => exact WNBT.faithful_wUnit p
  | err => exact faithful_fail
  | panic => exact faithful_crash

theorem faithful_wType (t : ChatType) : Faithful (wType t) := by
  unfold wType
  refine faithful_bind (faithful_write _) fun _ => faithful_bind (faithful_wMessage _) fun _ =>
    faithful_bind (faithful_write _) fun _ => ?_
  cases t.target with
  | some m => exact faithful_bind (faithful_wMessage m) fun _ => faithful_pure _
  | none => exact faithful_pure _

/-- `Encode(&m, "")` of a `*Message` whose `MarshalNBT` writes `p`: the tag id, then `p` -/
theorem encode_marshaler (p : Bytes) :
    encode cx0 true [] (some (.ptr msgPH (some (marshalerVal p)))) = Res.ok (10#8 :: p) := by
  simp [encode, encodeF, getTagType, marshalerVal, msgPH, GoVal.isCarrier, GoVal.typeOf, GoType.isCarrier, carrierTag,
    Go.marshal, carrierMarshal]

/-- when C17's pure model writes `(bytes, n)`, the writer model returns `n` having written `bytes` -/
theorem exact_wMessage (m : Msg) (bytes : Bytes) (n : Nat) (h : writeTo m = Res.ok (bytes, n)) :
    Exact (wMessage m) (Res.ok n) bytes := by
  unfold writeTo at h
  cases hp : marshalNBT m with
  | ok p =>
    rw [hp] at h
    have h' : fieldWrite cx0 (some (.ptr msgPH (some (marshalerVal p)))) = Res.ok (bytes, n) := h
    simp only [fieldWrite, encode_marshaler, Res.ok.injEq, Prod.mk.injEq] at h'
    obtain ⟨rfl, rfl⟩ := h'
    unfold wMessage
    simp only [hp]
    exact WChunk.exact_wCounted (WNBT.exact_then (WNBT.exact_wUnit [10#8]) (WNBT.exact_wUnit p))
  | err => rw [hp] at h; exact absurd h (by intro hc; cases hc)
  | panic => rw [hp] at h; exact absurd h (by intro hc; cases hc)

theorem exact_wMessage_codec (m : Msg) (bytes : Bytes) (n : Nat) (h : writeTo m = Res.ok (bytes, n)) :
    Exact (wMessage m) (Res.ok (msgCodecFresh.enc m).2) (msgCodecFresh.enc m).1 := by
  have : msgCodecFresh.enc m = (bytes, n) := by simp [msgCodecFresh, h]
  rw [this]
  exact exact_wMessage m bytes n h

/-- `(*Type).WriteTo` writes `Chat.typeEnc` over the NBT-form codec, when both names can be written -/
theorem exact_wType (t : ChatType) (hs : ∃ r, writeTo t.sender = Res.ok r) (ht : ∀ m, t.target = some m → ∃ r, writeTo m = Res.ok r) :
    Exact (wType t) (Res.ok (typeEnc msgCodecFresh t).2) (typeEnc msgCodecFresh t).1 := by
  obtain ⟨⟨b2, n2⟩, hs⟩ := hs
  have e2 := exact_wMessage_codec t.sender b2 n2 hs
  have e1 : Exact (wVarInt t.id) (Res.ok (varIntEnc t.id).2) (varIntEnc t.id).1 := exact_wVarInt t.id
  have e3 : Exact (wBool t.target.isSome) (Res.ok (boolEnc t.target.isSome).2) (boolEnc t.target.isSome).1 := exact_wBool _
  unfold wType typeEnc
  cases htg : t.target with
  | none =>
    rw [htg] at e3
    simp only
    have := exact_bind (f := fun n1 => wMessage t.sender >>= fun n2 => wBool (none : Option Msg).isSome >>= fun n3 =>
      (Pure.pure (n1 + n2 + n3) : Wr Nat)) e1
      (exact_bind (f := fun n2 => wBool (none : Option Msg).isSome >>= fun n3 =>
        (Pure.pure ((varIntEnc t.id).2 + n2 + n3) : Wr Nat)) e2 (exact_map (fun n3 => (varIntEnc t.id).2 + (msgCodecFresh.enc t.sender).2 + n3) e3))
    exact this.congr rfl (by simp)
  | some m =>
    rw [htg] at e3
    obtain ⟨⟨b4, n4⟩, h4⟩ := ht m htg
    have e4 := exact_wMessage_codec m b4 n4 h4
    simp only
    have := exact_bind (f := fun n1 => wMessage t.sender >>= fun n2 => wBool (some m).isSome >>= fun n3 =>
      wMessage m >>= fun n4 => (Pure.pure (n1 + n2 + n3 + n4) : Wr Nat)) e1
      (exact_bind (f := fun n2 => wBool (some m).isSome >>= fun n3 => wMessage m >>= fun n4 =>
        (Pure.pure ((varIntEnc t.id).2 + n2 + n3 + n4) : Wr Nat)) e2
        (exact_bind (f := fun n3 => wMessage m >>= fun n4 =>
          (Pure.pure ((varIntEnc t.id).2 + (msgCodecFresh.enc t.sender).2 + n3 + n4) : Wr Nat)) e3
          (exact_map (fun n4 => (varIntEnc t.id).2 + (msgCodecFresh.enc t.sender).2 + (boolEnc (some m).isSome).2 + n4) e4)))
    exact this.congr rfl (by simp)

end GoMC.Lemmas.WChat
