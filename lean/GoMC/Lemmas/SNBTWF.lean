/-
  Lemmas for C04_parse_wellformed, part 2: every accepted text yields a well-formed document of the announced type
  (the output predicates of `SNBTDoc.lean`, carried through the phase invariant in `SNBTTotal.lean`, put together
  with `tagType_agrees`).
-/
import GoMC.Lemmas.SNBTTag
namespace GoMC.Model.SNBT
open GoMC Scanner DState Spec

/-- the top-level call of `MarshalNBT`, extracted from a successful run -/
theorem marshalWith_ok_inv (fo : FloatOracle) (fuel : Nat) (text bs : Bytes)
    (hm : marshalWith fo fuel text = .ok bs) :
    ∃ d, writeValue fo fuel { data := text, scan := Scanner.reset } false [] = .ok (d, bs) := by
  unfold marshalWith at hm
  dsimp only at hm
  cases hr : writeValue fo fuel { data := text, scan := Scanner.reset } false [] with
  | err => rw [hr] at hm; cases hm
  | fuel => rw [hr] at hm; cases hm
  | panic => rw [hr] at hm; cases hm
  | ok p =>
    obtain ⟨d, out⟩ := p
    rw [hr] at hm
    dsimp only at hm
    split at hm
    · cases hm
    · split at hm
      · cases hm
      · injection hm with hm; rw [← hm]; exact ⟨d, rfl⟩

/-- a value written WITH its tag header (as every value nested in a compound is): the header announces the tag of a
tree whose payload follows; the tree is well-formed if the payload is shorter than 2^31 bytes -/
theorem writeValue_tagged_doc (fo : FloatOracle) (fuel : Nat) (d d' : DState) (σ : List PS) (name out : Bytes)
    (hbv : BV σ d.scan) (hg : d.scan.Good) (h : writeValue fo fuel d true name = .ok (d', out)) :
    ∃ x : NBT, out = x.tag :: encString name ++ encPayload x ∧ ((encPayload x).length < 2 ^ 31 → x.WF ∧ S15 x) := by
  have hs := (emitters_safe fo fuel).1 d σ true name hbv hg
  rw [h] at hs
  obtain ⟨t, p, hp, x, hx, hxp, hwf⟩ := hs.2
  refine ⟨x, ?_, by rw [hxp]; exact hwf⟩
  have hp' : out = hdr true t name ++ p := hp
  rw [hp', hx, hxp]
  simp [hdr, writeTag, encString]

/-- **every accepted text yields a well-formed document of the announced type** (any fuel) -/
theorem marshalWith_wellformed (fo : FloatOracle) (fuel : Nat) (text bs : Bytes)
    (hm : marshalWith fo fuel text = .ok bs) :
    ∃ x : NBT, encPayload x = bs ∧ tagType fo text = .ok x.tag ∧ (bs.length < 2 ^ 31 → x.WF ∧ S15 x) := by
  obtain ⟨d, hw⟩ := marshalWith_ok_inv fo fuel text bs hm
  obtain ⟨t, htt, hw'⟩ := tagType_agrees fo fuel text d bs hw
  obtain ⟨x, hx, hwf⟩ := writeValue_tagged_doc fo fuel _ d [] [] _ reset_BV reset_good hw'
  simp only [encString, beBytes, List.length_nil, List.append_nil, List.nil_append] at hx
  simp only [List.cons_append, List.nil_append] at hx
  injection hx with e1 e2
  injection e2 with _ e2
  injection e2 with _ e2
  refine ⟨x, e2.symm, by rw [htt, e1], fun hl => hwf (by rw [← e2]; exact hl)⟩

end GoMC.Model.SNBT
