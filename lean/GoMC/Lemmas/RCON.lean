/-
  Helper lemmas for the RCON model (C16): little-endian words, the frame read back by `readPacketRd`,
  rejection, fragmentation invariance / extension stability, and the behaviour of the connection methods
  on the two-party net.
-/
import GoMC.Model.RCON
import GoMC.Spec.RCON
namespace GoMC.Lemmas.RCON
open GoMC GoMC.Model.RCON

theorem le32dec_le32 (v : BitVec 32) (rest : Bytes) : le32dec (le32 v ++ rest) = v := by
  unfold le32 le32dec
  simp only [List.cons_append, List.nil_append]
  apply BitVec.eq_of_getLsbD_eq
  intro i hi
  simp only [BitVec.getLsbD_or, BitVec.getLsbD_shiftLeft, BitVec.getLsbD_setWidth, BitVec.getLsbD_ushiftRight]
  by_cases h1 : i < 8
  · have a : i < 16 := by omega
    have b : i < 24 := by omega
    simp [h1, hi, a, b]
  · by_cases h2 : i < 16
    · have a : 8 + (i - 8) = i := by omega
      have b : i < 24 := by omega
      have c : i - 8 < 8 := by omega
      have d : i - 8 < 32 := by omega
      simp [h1, h2, hi, a, b, c, d]
    · by_cases h3 : i < 24
      · have a : 16 + (i - 16) = i := by omega
        have c : i - 16 < 8 := by omega
        have d : i - 16 < 32 := by omega
        have e : ¬ (i - 8 < 8) := by omega
        simp [h1, h2, h3, hi, a, c, d, e]
      · have a : 24 + (i - 24) = i := by omega
        have c : i - 24 < 8 := by omega
        have d : i - 24 < 32 := by omega
        have e : ¬ (i - 8 < 8) := by omega
        have f : ¬ (i - 16 < 8) := by omega
        simp [h1, h2, h3, hi, a, c, d, e, f]


theorem le32_spec (v : BitVec 32) : le32 v = Spec.RCON.le32 v.toNat := by
  unfold le32 Spec.RCON.le32
  simp only [List.cons.injEq, and_true]
  refine ⟨?_, ?_, ?_, ?_⟩ <;> apply BitVec.eq_of_toNat_eq <;>
    simp [BitVec.toNat_setWidth, BitVec.toNat_ushiftRight, Nat.shiftRight_eq_div_pow]

theorem le32_length (v : BitVec 32) : (le32 v).length = 4 := rfl

theorem toInt_small (L : BitVec 32) (h : L.toNat < 2 ^ 31) : L.toInt = (L.toNat : Int) := by
  rw [BitVec.toInt_eq_toNat_cond]; simp; omega

theorem lengthWord_toNat (p : Bytes) (h : p.length + 10 < 2 ^ 32) : (lengthWord p).toNat = p.length + 10 := by
  unfold lengthWord
  simp only [BitVec.toNat_ofNat]
  omega

theorem readPacketRd_frame (id typ : BitVec 32) (p rest : Bytes) (hp : p.length + 10 ≤ 4096)
    (s : Stream) (hs : s.flat = packetBytes id typ p ++ rest) :
    ∃ s', readPacketRd s = (Res.ok { id := id, typ := typ, payload := p }, s') ∧ s'.flat = rest ∧ s'.failing = s.failing := by
  have hn := lengthWord_toNat p (by omega)
  have hi : (lengthWord p).toInt = ((p.length + 10 : Nat) : Int) := by
    rw [toInt_small _ (by omega), hn]
  have hflat : s.flat = le32 (lengthWord p) ++ (le32 id ++ le32 typ ++ p ++ [0#8, 0#8] ++ rest) := by
    rw [hs]; unfold packetBytes; simp only [List.append_assoc]
  -- first read
  have r1 : Rd.readFull 4 s = (Res.ok (le32 (lengthWord p)), s.drop 4) := by
    unfold Rd.readFull
    have : 4 ≤ s.flat.length := by rw [hflat]; simp [le32_length]
    rw [if_pos this, hflat, List.take_append_of_le_length (by simp [le32_length])]
    simp [le32]
  have hdrop : (s.drop 4).flat = le32 id ++ le32 typ ++ p ++ [0#8, 0#8] ++ rest := by
    rw [Stream.flat_drop, hflat, List.drop_append_of_le_length (by simp [le32_length])]
    simp [le32]
  unfold readPacketRd
  rw [Rd.bind_ok r1]
  have hdec : le32dec (le32 (lengthWord p)) = lengthWord p := by
    have := le32dec_le32 (lengthWord p) []; simpa using this
  simp only [hdec]
  have hs1 : tooShort (lengthWord p) = false := by unfold tooShort minSize; rw [hi]; simp; omega
  have hs2 : tooLarge (lengthWord p) = false := by unfold tooLarge maxSize; rw [hi]; simp; omega
  have hs3 : ¬ ((lengthWord p).toInt < 0) := by rw [hi]; omega
  simp only [hs1, hs2, hs3, Bool.false_eq_true, if_false]
  have htn : (lengthWord p).toInt.toNat = p.length + 10 := by rw [hi]; omega
  rw [htn]
  generalize hbody : le32 id ++ le32 typ ++ p ++ [0#8, 0#8] = body at hdrop
  have hbl : body.length = p.length + 10 := by simp [← hbody, le32_length]; omega
  have r2 : Rd.readFull (p.length + 10) (s.drop 4) = (Res.ok body, (s.drop 4).drop (p.length + 10)) := by
    unfold Rd.readFull
    have : p.length + 10 ≤ (s.drop 4).flat.length := by rw [hdrop]; simp [hbl]
    rw [if_pos this, hdrop, List.take_append_of_le_length (by omega)]
    rw [List.take_of_length_le (by omega)]
  rw [Rd.bind_ok r2]
  have h10 : ¬ (p.length + 10 < 10) := by omega
  simp only [h10, if_false, Rd.pure_apply]
  refine ⟨(s.drop 4).drop (p.length + 10), ?_, ?_, by simp⟩
  · congr 2
    subst hbody
    have e0 : p.length + 10 - 2 = p.length + 8 := by omega
    have e1 : List.take 4 (le32 id ++ le32 typ ++ p ++ [0#8, 0#8]) = le32 id ++ [] := by simp [le32]
    have e2 : List.take 4 (List.drop 4 (le32 id ++ le32 typ ++ p ++ [0#8, 0#8])) = le32 typ ++ [] := by simp [le32]
    have e3 : List.drop 8 (List.take (p.length + 8) (le32 id ++ le32 typ ++ p ++ [0#8, 0#8])) = p := by
      simp [le32]
    rw [e0, e1, e2, e3, le32dec_le32, le32dec_le32]
  · rw [Stream.flat_drop, hdrop, List.drop_append_of_le_length (by omega), List.drop_of_length_le (by omega)]
    simp

theorem readFull4 (L : BitVec 32) (rest : Bytes) (s : Stream) (hs : s.flat = le32 L ++ rest) :
    Rd.readFull 4 s = (Res.ok (le32 L), s.drop 4) ∧ (s.drop 4).flat = rest := by
  constructor
  · unfold Rd.readFull
    have : 4 ≤ s.flat.length := by rw [hs]; simp [le32_length]
    rw [if_pos this, hs, List.take_append_of_le_length (by simp [le32_length])]
    simp [le32]
  · rw [Stream.flat_drop, hs, List.drop_append_of_le_length (by simp [le32_length])]
    simp [le32]

/-- a declared length outside `[10, 4096]` is refused after the four length bytes -/
theorem readPacketRd_reject (L : BitVec 32) (rest : Bytes) (s : Stream) (hs : s.flat = le32 L ++ rest)
    (hL : L.toInt < 10 ∨ L.toInt > 4096) : readPacketRd s = (Res.err, s.drop 4) := by
  obtain ⟨r1, _⟩ := readFull4 L rest s hs
  unfold readPacketRd
  rw [Rd.bind_ok r1]
  have hdec : le32dec (le32 L) = L := by
    have := le32dec_le32 L []; simpa using this
  simp only [hdec]
  by_cases h1 : L.toInt < 10
  · have : tooShort L = true := by unfold tooShort minSize; simp [h1]
    simp [this, Rd.fail]
  · have a : tooShort L = false := by unfold tooShort minSize; simp [h1]
    have b : tooLarge L = true := by unfold tooLarge maxSize; simp; omega
    simp [a, b, Rd.fail]

/-- fewer than four bytes: error -/
theorem readPacketRd_short (s : Stream) (hs : s.flat.length < 4) : readPacketRd s = (Res.err, s.drained) := by
  unfold readPacketRd
  have : Rd.readFull 4 s = (Res.err, s.drained) := by
    unfold Rd.readFull; rw [if_neg (by omega)]
  rw [Rd.bind_err this]

theorem fragInv_readPacketRd : Rd.FragInv readPacketRd := by
  unfold readPacketRd
  apply Rd.fragInv_bind (Rd.fragInv_readFull 4)
  intro lb
  apply Rd.fragInv_ite Rd.fragInv_fail
  apply Rd.fragInv_ite Rd.fragInv_fail
  apply Rd.fragInv_ite Rd.fragInv_crash
  apply Rd.fragInv_bind (Rd.fragInv_readFull _)
  intro buf
  exact Rd.fragInv_ite Rd.fragInv_crash (Rd.fragInv_pure _)

theorem extStable_readPacketRd : Rd.ExtStable readPacketRd := by
  unfold readPacketRd
  apply Rd.extStable_bind (Rd.extStable_readFull 4)
  intro lb
  apply Rd.extStable_ite Rd.extStable_fail
  apply Rd.extStable_ite Rd.extStable_fail
  apply Rd.extStable_ite Rd.extStable_crash
  apply Rd.extStable_bind (Rd.extStable_readFull _)
  intro buf
  exact Rd.extStable_ite Rd.extStable_crash (Rd.extStable_pure _)

theorem spec_le32_mod (n : Nat) : Spec.RCON.le32 (n % 2 ^ 32) = Spec.RCON.le32 n := by
  unfold Spec.RCON.le32
  have a : n % 2 ^ 32 % 256 = n % 256 := by omega
  have b : n % 2 ^ 32 / 256 % 256 = n / 256 % 256 := by omega
  have c : n % 2 ^ 32 / 65536 % 256 = n / 65536 % 256 := by omega
  have d : n % 2 ^ 32 / 16777216 % 256 = n / 16777216 % 256 := by omega
  rw [a, b, c, d]

/-- what `WritePacket` assembles is the frame of the protocol description (for every payload; the size word
holds the size modulo 2^32) -/
theorem packetBytes_eq_frame (id typ : BitVec 32) (p : Bytes) :
    packetBytes id typ p = Spec.RCON.frame { id := id.toNat, typ := typ.toNat, payload := p } := by
  unfold packetBytes Spec.RCON.frame Spec.RCON.Pkt.size lengthWord
  rw [le32_spec, le32_spec, le32_spec]
  simp only [BitVec.toNat_ofNat]
  rw [spec_le32_mod]

/-- `ReadPacket` on a connection whose pending input starts with a legal frame -/
theorem readPacket_frame (id typ : BitVec 32) (p rest : Bytes) (hp : p.length + 10 ≤ 4096)
    (c : Conn) (hc : c.inp.flat = packetBytes id typ p ++ rest) :
    ∃ s', readPacket c = (Res.ok { id := id, typ := typ, payload := p }, { c with inp := s' }) ∧ s'.flat = rest := by
  obtain ⟨s', h, hf, _⟩ := readPacketRd_frame id typ p rest hp c.inp hc
  exact ⟨s', by unfold readPacket; rw [h], hf⟩

theorem client_write (t : BitVec 32) (x : Bytes) (n : Net) :
    n.client (do let r ← getReqID; writePacket r t x) = (Res.ok (), { n with c2s := n.c2s ++ packetBytes n.creq t x }) := by
  simp [Net.client, Op.bind_apply, getReqID, writePacket]

theorem server_write (id t : BitVec 32) (x : Bytes) (n : Net) :
    n.server (writePacket id t x) = (Res.ok (), { n with s2c := n.s2c ++ packetBytes id t x }) := by
  simp [Net.server, writePacket]

theorem server_respCmd (x : Bytes) (n : Net) :
    n.server (respCmd x) = (Res.ok (), { n with s2c := n.s2c ++ packetBytes n.sreq 0#32 x }) := by
  simp [Net.server, respCmd, Op.bind_apply, getReqID, writePacket]

theorem server_acceptCmd (id : BitVec 32) (p rest : Bytes) (hp : p.length + 10 ≤ 4096) (n : Net)
    (hn : n.c2s = packetBytes id 2#32 p ++ rest) :
    n.server acceptCmd = (Res.ok p, { n with c2s := rest, sreq := id }) := by
  obtain ⟨s', h, hf⟩ := readPacket_frame id 2#32 p rest hp
    { inp := Stream.ofBytes n.c2s, out := [], wfail := false, reqID := n.sreq } (by simp [hn])
  simp [Net.server, acceptCmd, Op.bind_apply, h, setReqID, hf]

theorem client_resp (id typ : BitVec 32) (p rest : Bytes) (hp : p.length + 10 ≤ 4096) (n : Net)
    (hn : n.s2c = packetBytes id typ p ++ rest) :
    n.client resp = (if id = n.creq ∧ typ = 0#32 then Res.ok p else Res.err, { n with s2c := rest }) := by
  obtain ⟨s', h, hf⟩ := readPacket_frame id typ p rest hp
    { inp := Stream.ofBytes n.s2c, out := [], wfail := false, reqID := n.creq } (by simp [hn])
  by_cases h1 : id = n.creq
  · by_cases h2 : typ = 0#32
    · simp [Net.client, resp, Op.bind_apply, h, getReqID, hf, h1, h2]
    · simp [Net.client, resp, Op.bind_apply, h, getReqID, hf, h1, h2, Op.fail]
  · simp [Net.client, resp, Op.bind_apply, h, getReqID, hf, h1, Op.fail]

theorem server_acceptLogin (id : BitVec 32) (p rest pw : Bytes) (hp : p.length + 10 ≤ 4096) (n : Net)
    (hn : n.c2s = packetBytes id 3#32 p ++ rest) :
    n.server (acceptLogin pw) =
      if p = pw then (Res.ok (), { n with c2s := rest, sreq := id, s2c := n.s2c ++ packetBytes id 2#32 [] })
      else (Res.err, { n with c2s := rest, sreq := id, s2c := n.s2c ++ packetBytes (-1#32) 2#32 [] }) := by
  obtain ⟨s', h, hf⟩ := readPacket_frame id 3#32 p rest hp
    { inp := Stream.ofBytes n.c2s, out := [], wfail := false, reqID := n.sreq } (by simp [hn])
  by_cases h1 : p = pw
  · simp [Net.server, acceptLogin, Op.bind_apply, h, setReqID, hf, h1, writePacket]
  · simp [Net.server, acceptLogin, Op.bind_apply, h, setReqID, hf, h1, writePacket, Op.fail]

/-- a payload too large for a frame (but whose size still fits an `int32`) makes a size word that is refused -/
theorem lengthWord_tooLarge (p : Bytes) (h1 : 4096 < p.length + 10) (h2 : p.length + 10 < 2 ^ 31) :
    (lengthWord p).toInt > 4096 := by
  have hn := lengthWord_toNat p (by omega)
  rw [toInt_small _ (by omega), hn]; omega

theorem server_acceptLogin_oversize (id typ : BitVec 32) (p pw : Bytes) (h1 : 4096 < p.length + 10)
    (h2 : p.length + 10 < 2 ^ 31) (n : Net) (hn : n.c2s = packetBytes id typ p) :
    (n.server (acceptLogin pw)).1 = Res.err ∧ (n.server (acceptLogin pw)).2.s2c = n.s2c := by
  have hflat : (Stream.ofBytes n.c2s).flat = le32 (lengthWord p) ++ (le32 id ++ le32 typ ++ p ++ [0#8, 0#8]) := by
    simp [hn, packetBytes]
  have h := readPacketRd_reject (lengthWord p) _ _ hflat (Or.inr (lengthWord_tooLarge p h1 h2))
  constructor <;> simp [Net.server, acceptLogin, Op.bind_apply, readPacket, h]

theorem loginVerdict_ok_iff (reqID r : BitVec 32) : loginVerdict reqID r = LoginVerdict.ok ↔ r = reqID := by
  unfold loginVerdict
  by_cases h : r = reqID
  · simp [h]
  · simp only [h, iff_false]
    have : (r == reqID) = false := by simp [h]
    rw [this]
    simp only [Bool.false_eq_true, if_false]
    split <;> simp

theorem verdictOp_eq (reqID r : BitVec 32) (c : Conn) :
    verdictOp (loginVerdict reqID r) c = (if r = reqID then Res.ok () else Res.err, c) := by
  by_cases h : r = reqID
  · have := (loginVerdict_ok_iff reqID r).mpr h
    rw [this, if_pos h]; rfl
  · have hne : loginVerdict reqID r ≠ LoginVerdict.ok := fun e => h ((loginVerdict_ok_iff reqID r).mp e)
    rw [if_neg h]
    cases hv : loginVerdict reqID r with
    | ok => exact absurd hv hne
    | loginFail => rfl
    | idMismatch => rfl

theorem client_loginRecv (id typ : BitVec 32) (p rest : Bytes) (hp : p.length + 10 ≤ 4096) (n : Net)
    (hn : n.s2c = packetBytes id typ p ++ rest) :
    n.client clientLoginRecv = (if id = n.creq then Res.ok () else Res.err, { n with s2c := rest }) := by
  obtain ⟨s', h, hf⟩ := readPacket_frame id typ p rest hp
    { inp := Stream.ofBytes n.s2c, out := [], wfail := false, reqID := n.creq } (by simp [hn])
  by_cases h1 : id = n.creq
  · simp [Net.client, clientLoginRecv, Op.bind_apply, h, getReqID, hf, h1, verdictOp_eq]
  · simp [Net.client, clientLoginRecv, Op.bind_apply, h, getReqID, hf, h1, verdictOp_eq]

theorem client_loginRecv_eof (n : Net) (hn : n.s2c = []) : (n.client clientLoginRecv).1 = Res.err := by
  have h := readPacketRd_short (Stream.ofBytes n.s2c) (by simp [hn])
  simp [Net.client, clientLoginRecv, Op.bind_apply, readPacket, h]

/-- the stream of a list of packets -/
def framesOf (ps : List Pkt) : Bytes := ps.flatMap fun p => packetBytes p.id p.typ p.payload

theorem minusOne_ne (r : BitVec 32) (hr : 0 ≤ r.toInt) : (-1#32 : BitVec 32) ≠ r := by
  intro h
  subst h
  revert hr
  decide

/-- the net after the client has sent its login packet -/
theorem loginRun_unfold (r : BitVec 32) (cpw spw : Bytes) :
    loginRun r cpw spw =
      (let n1 : Net := { c2s := packetBytes r 3#32 cpw, creq := r }
       let sn := n1.server (acceptLogin spw)
       let cn := sn.2.client clientLoginRecv
       (cn.1, sn.1, cn.2)) := by
  unfold loginRun
  have : clientLoginSend cpw = (do let r ← getReqID; writePacket r 3#32 cpw) := rfl
  simp only [this, client_write]
  simp

theorem login_equal (r : BitVec 32) (pw : Bytes) (hp : pw.length + 10 ≤ 4096) :
    loginRun r pw pw = (Res.ok (), Res.ok (), { creq := r, sreq := r }) := by
  rw [loginRun_unfold]
  simp only []
  rw [server_acceptLogin r pw [] pw hp _ (by simp)]
  simp only [if_true]
  rw [client_loginRecv r 2#32 [] [] (by simp) _ (by simp)]
  simp

theorem login_differ (r : BitVec 32) (hr : 0 ≤ r.toInt) (cpw spw : Bytes) (hp : cpw.length + 10 ≤ 4096) (hne : cpw ≠ spw) :
    loginRun r cpw spw = (Res.err, Res.err, { creq := r, sreq := r }) := by
  rw [loginRun_unfold]
  simp only []
  rw [server_acceptLogin r cpw [] spw hp _ (by simp)]
  simp only [hne, if_false]
  rw [client_loginRecv (-1#32) 2#32 [] [] (by simp) _ (by simp)]
  have this : (4294967295#32 : BitVec 32) ≠ r := by
    intro h; exact minusOne_ne r hr (by rw [← h]; decide)
  simp [this]

theorem login_oversize (r : BitVec 32) (cpw spw : Bytes) (h1 : 4096 < cpw.length + 10) (h2 : cpw.length + 10 < 2 ^ 31) :
    (loginRun r cpw spw).1 = Res.err ∧ (loginRun r cpw spw).2.1 = Res.err := by
  rw [loginRun_unfold]
  simp only []
  obtain ⟨a, b⟩ := server_acceptLogin_oversize r 3#32 cpw spw h1 h2 { c2s := packetBytes r 3#32 cpw, creq := r } rfl
  exact ⟨client_loginRecv_eof _ (by rw [b]), a⟩

/-- an exchange in which both sides follow the protocol: optionally a fresh request id, a command, a response -/
def honest (x : Option (BitVec 32) × Bytes × Bytes) : Step := { newID := x.1, cmd := x.2.1, resp := x.2.2 }

theorem step_honest (r : BitVec 32) (x : Option (BitVec 32) × Bytes × Bytes)
    (hc : x.2.1.length + 10 ≤ 4096) (hr : x.2.2.length + 10 ≤ 4096) (cl sl : List Ev) :
    Sess.step (honest x) { net := { creq := r, sreq := r }, calive := true, salive := true, clog := cl, slog := sl } =
      { net := { creq := x.1.getD r, sreq := x.1.getD r }, calive := true, salive := true,
        clog := cl ++ [Ev.send (Res.ok ()), Ev.resp (Res.ok x.2.2)],
        slog := sl ++ [Ev.accept (Res.ok x.2.1), Ev.reply (Res.ok ())] } := by
  have hcmd : cmd x.2.1 = (do let r ← getReqID; writePacket r 2#32 x.2.1) := rfl
  obtain ⟨i, c, p⟩ := x
  unfold Sess.step honest
  cases i with
  | none =>
    simp only [if_true, hcmd, client_write]
    rw [server_acceptCmd r c [] hc _ (by simp)]
    simp only [isOk, if_true, server_respCmd]
    rw [client_resp r 0#32 p [] hr _ (by simp)]
    simp
  | some i =>
    simp only [if_true, hcmd, client_write]
    rw [server_acceptCmd i c [] hc _ (by simp)]
    simp only [isOk, if_true, server_respCmd]
    rw [client_resp i 0#32 p [] hr _ (by simp)]
    simp

/-- the request id in use after a sequence of exchanges -/
def idAfter (r : BitVec 32) (xs : List (Option (BitVec 32) × Bytes × Bytes)) : BitVec 32 :=
  xs.foldl (fun cur x => x.1.getD cur) r

theorem foldl_honest (r : BitVec 32) (xs : List (Option (BitVec 32) × Bytes × Bytes))
    (hx : ∀ x ∈ xs, x.2.1.length + 10 ≤ 4096 ∧ x.2.2.length + 10 ≤ 4096) (cl sl : List Ev) :
    (xs.map honest).foldl (fun (acc : Sess) st => acc.step st)
        ({ net := { creq := r, sreq := r }, calive := true, salive := true, clog := cl, slog := sl } : Sess) =
      { net := { creq := idAfter r xs, sreq := idAfter r xs }, calive := true, salive := true,
        clog := cl ++ xs.flatMap (fun x => [Ev.send (Res.ok ()), Ev.resp (Res.ok x.2.2)]),
        slog := sl ++ xs.flatMap (fun x => [Ev.accept (Res.ok x.2.1), Ev.reply (Res.ok ())]) } := by
  induction xs generalizing r cl sl with
  | nil => simp [idAfter]
  | cons x xs ih =>
    have hx0 := hx x (by simp)
    simp only [List.map_cons, List.foldl_cons]
    rw [step_honest r x hx0.1 hx0.2, ih _ (fun y hy => hx y (by simp [hy]))]
    simp [List.append_assoc, idAfter]

theorem le32_le32dec (a b c d : Byte) (t : Bytes) : le32 (le32dec (a :: b :: c :: d :: t)) = [a, b, c, d] := by
  unfold le32 le32dec
  simp only [List.cons.injEq, and_true]
  refine ⟨?_, ?_, ?_, ?_⟩ <;>
  · apply BitVec.eq_of_getLsbD_eq
    intro i hi
    simp only [BitVec.getLsbD_setWidth, BitVec.getLsbD_ushiftRight, BitVec.getLsbD_or, BitVec.getLsbD_shiftLeft]
    have h8 : i = 0 ∨ i = 1 ∨ i = 2 ∨ i = 3 ∨ i = 4 ∨ i = 5 ∨ i = 6 ∨ i = 7 := by omega
    rcases h8 with rfl | rfl | rfl | rfl | rfl | rfl | rfl | rfl <;> simp

/-- the value of four little-endian bytes, arithmetically -/
theorem le32dec_toNat (a b c d : Byte) (t : Bytes) :
    (le32dec (a :: b :: c :: d :: t)).toNat = Spec.RCON.unle32 a b c d := by
  have h := le32_le32dec a b c d t
  rw [le32_spec] at h
  unfold Spec.RCON.le32 at h
  simp only [List.cons.injEq, and_true] at h
  obtain ⟨ha, hb, hc, hd⟩ := h
  have := Spec.RCON.unle32_le32 (le32dec (a :: b :: c :: d :: t)).toNat (le32dec (a :: b :: c :: d :: t)).isLt
  rw [ha, hb, hc, hd] at this
  exact this.symm

theorem toInt_eq_signed32 (L : BitVec 32) : L.toInt = Spec.RCON.signed32 L.toNat := by
  unfold Spec.RCON.signed32
  rw [BitVec.toInt_eq_toNat_cond]
  by_cases h : L.toNat < 2147483648
  · rw [if_pos h, if_pos (by omega)]
  · rw [if_neg h, if_neg (by omega)]; simp

/-- `ReadPacket` after an accepted size word -/
def readBody (n : Nat) : Rd Pkt := do
  let buf ← Rd.readFull n
  if n < 10 then Rd.crash
  else pure { id := le32dec (buf.take 4), typ := le32dec ((buf.drop 4).take 4), payload := (buf.take (n - 2)).drop 8 }

theorem readPacketRd_accept (L : BitVec 32) (rest : Bytes) (s : Stream) (hs : s.flat = le32 L ++ rest)
    (hL : ¬ (L.toInt < 10 ∨ L.toInt > 4096)) : readPacketRd s = readBody L.toInt.toNat (s.drop 4) := by
  obtain ⟨r1, _⟩ := readFull4 L rest s hs
  have hdec : le32dec (le32 L) = L := by
    have := le32dec_le32 L []; simpa using this
  have a : tooShort L = false := by unfold tooShort minSize; simp; omega
  have b : tooLarge L = false := by unfold tooLarge maxSize; simp; omega
  have c : ¬ (L.toInt < 0) := by omega
  unfold readPacketRd
  rw [Rd.bind_ok r1]
  simp only [hdec, a, b, c, Bool.false_eq_true, if_false]
  rfl

theorem read_refines_spec (s : Stream) :
    match Spec.RCON.parse s.flat with
    | some (p, rest) =>
      ∃ s', readPacketRd s = (Res.ok { id := BitVec.ofNat 32 p.id, typ := BitVec.ofNat 32 p.typ, payload := p.payload }, s') ∧
        s'.flat = rest ∧ s'.failing = s.failing
    | none => (readPacketRd s).1 = Res.err := by
  rcases hfl : s.flat with _ | ⟨s0, _ | ⟨s1, _ | ⟨s2, _ | ⟨s3, body⟩⟩⟩⟩
  · simp only [Spec.RCON.parse]; rw [readPacketRd_short s (by simp [hfl])]
  · simp only [Spec.RCON.parse]; rw [readPacketRd_short s (by simp [hfl])]
  · simp only [Spec.RCON.parse]; rw [readPacketRd_short s (by simp [hfl])]
  · simp only [Spec.RCON.parse]; rw [readPacketRd_short s (by simp [hfl])]
  · -- the size word
    generalize hL : le32dec [s0, s1, s2, s3] = L
    have hbytes : [s0, s1, s2, s3] = le32 L := by rw [← hL, le32_le32dec]
    have hs : s.flat = le32 L ++ body := by rw [hfl, ← hbytes]; rfl
    have hsz : Spec.RCON.signed32 (Spec.RCON.unle32 s0 s1 s2 s3) = L.toInt := by
      rw [toInt_eq_signed32, ← hL, le32dec_toNat]
    simp only [Spec.RCON.parse, hsz]
    by_cases hrej : L.toInt < 10 ∨ L.toInt > 4096
    · rw [if_pos hrej, readPacketRd_reject L body s hs hrej]
    · rw [if_neg hrej]
      obtain ⟨r1, hdrop⟩ := readFull4 L body s hs
      rw [readPacketRd_accept L body s hs hrej]
      unfold readBody
      generalize hn : L.toInt.toNat = n
      have hn10 : 10 ≤ n := by omega
      by_cases hlen : body.length < n
      · rw [if_pos hlen]
        have : Rd.readFull n (s.drop 4) = (Res.err, (s.drop 4).drained) := by
          unfold Rd.readFull; rw [if_neg (by rw [hdrop]; omega)]
        rw [Rd.bind_err this]
      · rw [if_neg hlen]
        have r2 : Rd.readFull n (s.drop 4) = (Res.ok (body.take n), (s.drop 4).drop n) := by
          unfold Rd.readFull; rw [if_pos (by rw [hdrop]; omega), hdrop]
        rw [Rd.bind_ok r2]
        have h10 : ¬ n < 10 := by omega
        simp only [h10, if_false, Rd.pure_apply]
        have htl : 10 ≤ (body.take n).length := by simp; omega
        rcases hb : body.take n with _ | ⟨i0, _ | ⟨i1, _ | ⟨i2, _ | ⟨i3, _ | ⟨t0, _ | ⟨t1, _ | ⟨t2, _ | ⟨t3, more⟩⟩⟩⟩⟩⟩⟩⟩
        all_goals (rw [hb] at htl; simp at htl)
        all_goals try omega
        simp only []
        refine ⟨(s.drop 4).drop n, ?_, ?_, by simp⟩
        · congr 2
          obtain ⟨k, rfl⟩ : ∃ k, n = k + 10 := ⟨n - 10, by omega⟩
          have e1 : k + 10 - 2 = k + 8 := by omega
          have e2 : k + 10 - 10 = k := by omega
          simp only [e1, e2, List.take_succ_cons, List.take_zero, List.drop_succ_cons, List.drop_zero]
          rw [← le32dec_toNat i0 i1 i2 i3 [], ← le32dec_toNat t0 t1 t2 t3 []]
          simp
        · simp [hdrop]

/-! ### the login decision of `DialRCON` on an arbitrary response stream -/

theorem recv_ok_iff (c : Conn) :
    (clientLoginRecv c).1 = Res.ok () ↔
      ∃ p rest, Spec.RCON.parse c.inp.flat = some (p, rest) ∧ BitVec.ofNat 32 p.id = c.reqID := by
  have h := read_refines_spec c.inp
  rcases hp : Spec.RCON.parse c.inp.flat with _ | ⟨p, rest⟩
  · rw [hp] at h
    simp only at h
    rcases hr : readPacketRd c.inp with ⟨r, s'⟩
    rw [hr] at h
    simp only at h
    subst h
    simp [clientLoginRecv, Op.bind_apply, readPacket, hr]
  · rw [hp] at h
    simp only at h
    obtain ⟨s', h1, _, _⟩ := h
    simp only [clientLoginRecv, Op.bind_apply, readPacket, h1, getReqID, verdictOp_eq]
    by_cases e : BitVec.ofNat 32 p.id = c.reqID <;> simp [e]

theorem recv_not_panic (c : Conn) : (clientLoginRecv c).1 ≠ Res.panic := by
  have h := read_refines_spec c.inp
  rcases hp : Spec.RCON.parse c.inp.flat with _ | ⟨p, rest⟩
  · rw [hp] at h
    simp only at h
    rcases hr : readPacketRd c.inp with ⟨r, s'⟩
    rw [hr] at h
    simp only at h
    subst h
    simp [clientLoginRecv, Op.bind_apply, readPacket, hr]
  · rw [hp] at h
    simp only at h
    obtain ⟨s', h1, _, _⟩ := h
    simp only [clientLoginRecv, Op.bind_apply, readPacket, h1, getReqID, verdictOp_eq]
    by_cases e : BitVec.ofNat 32 p.id = c.reqID <;> simp [e]

theorem clientLogin_eq (pw : Bytes) (c : Conn) :
    clientLogin pw c = if c.wfail then (Res.err, c)
      else clientLoginRecv { c with out := c.out ++ packetBytes c.reqID 3#32 pw } := by
  by_cases hw : c.wfail = true
  · simp [clientLogin, clientLoginSend, Op.bind_apply, getReqID, writePacket, hw]
  · simp [clientLogin, clientLoginSend, Op.bind_apply, getReqID, writePacket, hw]

/-! ### history independence of the frame reader -/

/-- `readMany` always delivers a list (a refused or missing frame ends it) -/
theorem readMany_ok (n : Nat) (s : Stream) : ∃ more s', readMany n s = (Res.ok more, s') := by
  induction n generalizing s with
  | zero => exact ⟨[], s, rfl⟩
  | succ n ih =>
    rcases hr : readPacketRd s with ⟨r, s1⟩
    cases r with
    | ok p =>
      obtain ⟨more, s2, h2⟩ := ih s1
      exact ⟨p :: more, s2, by simp only [readMany, hr, h2]⟩
    | err => exact ⟨[], s1, by simp only [readMany, hr]⟩
    | panic => exact ⟨[], s1, by simp only [readMany, hr]⟩

theorem history_independent (ps : List Pkt) (hps : ∀ p ∈ ps, p.payload.length + 10 ≤ 4096) (tail : Bytes) (n : Nat)
    (s : Stream) (hs : s.flat = framesOf ps ++ tail) :
    ∃ more s', readMany (ps.length + n) s = (Res.ok (ps ++ more), s') := by
  induction ps generalizing s with
  | nil =>
    obtain ⟨more, s', h⟩ := readMany_ok n s
    exact ⟨more, s', by simpa using h⟩
  | cons p ps ih =>
    have hs' : s.flat = packetBytes p.id p.typ p.payload ++ (framesOf ps ++ tail) := by
      rw [hs]; simp [framesOf]
    obtain ⟨s1, h1, hf1, _⟩ := readPacketRd_frame p.id p.typ p.payload _ (hps p (by simp)) s hs'
    obtain ⟨more, s2, h2⟩ := ih (fun q hq => hps q (by simp [hq])) s1 hf1
    refine ⟨more, s2, ?_⟩
    have e : (p :: ps).length + n = (ps.length + n) + 1 := by simp; omega
    rw [e]
    simp only [readMany, h1, h2, List.cons_append]

end GoMC.Lemmas.RCON
