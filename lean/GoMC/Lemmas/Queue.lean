/-
  Lemmas for C20: the invariants of the LinkedListQueue transition system are preserved by every step.
-/
import GoMC.Model.Queue
namespace GoMC.Lemmas.Queue
open GoMC.Model.Queue

def M (s : State) : Prop := ∀ t, (s.pc t).holds = true ↔ s.owner = some t

@[simp] theorem setPc_pc (s : State) (t u : Tid) (p : Pc) : (s.setPc t p).pc u = if u = t then p else s.pc u := rfl
@[simp] theorem setPc_items (s : State) (t : Tid) (p : Pc) : (s.setPc t p).items = s.items := rfl
@[simp] theorem setPc_closed (s : State) (t : Tid) (p : Pc) : (s.setPc t p).closed = s.closed := rfl
@[simp] theorem setPc_owner (s : State) (t : Tid) (p : Pc) : (s.setPc t p).owner = s.owner := rfl
@[simp] theorem setPc_waiting (s : State) (t : Tid) (p : Pc) : (s.setPc t p).waiting = s.waiting := rfl
@[simp] theorem setPc_woken (s : State) (t : Tid) (p : Pc) : (s.setPc t p).woken = s.woken := rfl
@[simp] theorem setPc_pushed (s : State) (t : Tid) (p : Pc) : (s.setPc t p).pushed = s.pushed := rfl
@[simp] theorem setPc_pulled (s : State) (t : Tid) (p : Pc) : (s.setPc t p).pulled = s.pulled := rfl

@[simp] theorem signal_pc (s : State) (k : Nat) : (s.signal k).pc = s.pc := by
  unfold State.signal; split <;> rfl
@[simp] theorem signal_owner (s : State) (k : Nat) : (s.signal k).owner = s.owner := by
  unfold State.signal; split <;> rfl
@[simp] theorem signal_items (s : State) (k : Nat) : (s.signal k).items = s.items := by
  unfold State.signal; split <;> rfl
@[simp] theorem signal_closed (s : State) (k : Nat) : (s.signal k).closed = s.closed := by
  unfold State.signal; split <;> rfl
@[simp] theorem signal_pushed (s : State) (k : Nat) : (s.signal k).pushed = s.pushed := by
  unfold State.signal; split <;> rfl
@[simp] theorem signal_pulled (s : State) (k : Nat) : (s.signal k).pulled = s.pulled := by
  unfold State.signal; split <;> rfl

@[simp] theorem broadcast_pc (s : State) : s.broadcast.pc = s.pc := rfl
@[simp] theorem broadcast_owner (s : State) : s.broadcast.owner = s.owner := rfl
@[simp] theorem broadcast_items (s : State) : s.broadcast.items = s.items := rfl
@[simp] theorem broadcast_closed (s : State) : s.broadcast.closed = s.closed := rfl
@[simp] theorem broadcast_pushed (s : State) : s.broadcast.pushed = s.pushed := rfl
@[simp] theorem broadcast_pulled (s : State) : s.broadcast.pulled = s.pulled := rfl
@[simp] theorem broadcast_waiting (s : State) : s.broadcast.waiting = [] := rfl
@[simp] theorem broadcast_woken (s : State) : s.broadcast.woken = s.woken ++ s.waiting := rfl

theorem M_step {s s' : State} {a : Act} (h : M s) (hs : step s a = some s') : M s' := by
  cases a with
  | start t op =>
    simp only [step] at hs
    split at hs
    · rename_i l hp
      injection hs with hs; subst hs
      intro u
      have := h u
      by_cases hu : u = t
      · subst hu; simp [hp, Pc.holds] at this; cases op <;> simp [Op.entry, Pc.holds, this]
      · simpa [hu] using this
    · cases hs
  | run t k =>
    simp only [step] at hs
    have ht := h t
    generalize hp : s.pc t = p at hs ht
    cases p <;> simp only [stepAt] at hs
    all_goals (
      (try split at hs) <;> (try split at hs) <;> first
      | (cases hs; done)
      | (injection hs with hs; subst hs; intro u; have hu := h u
         simp only [Pc.holds] at ht
         by_cases e : u = t
         · subst e; simp_all [Pc.holds]
         · have e' : ¬ t = u := fun h => e h.symm
           simp_all))

/-! ### the wait sets are consistent with the program counters -/

structure W (s : State) : Prop where
  waiting_pc : ∀ t ∈ s.waiting, s.pc t = .pullWait
  woken_pc : ∀ t ∈ s.woken, s.pc t = .pullWait
  nodup_waiting : s.waiting.Nodup
  nodup_woken : s.woken.Nodup
  disjoint : ∀ t ∈ s.waiting, t ∉ s.woken
  covered : ∀ t, s.pc t = .pullWait → t ∈ s.waiting ∨ t ∈ s.woken

theorem signal_cases (s : State) (k : Nat) :
    (s.waiting = [] ∧ s.signal k = s) ∨
    (∃ u, u ∈ s.waiting ∧ (s.signal k).waiting = s.waiting.erase u ∧ (s.signal k).woken = s.woken ++ [u]) := by
  unfold State.signal
  cases hw : s.waiting with
  | nil => left; simp
  | cons w ws =>
    right
    refine ⟨(w :: ws).getD (k % (ws.length + 1)) w, ?_, rfl, rfl⟩
    have hlt : k % (ws.length + 1) < (w :: ws).length := by simp; exact Nat.mod_lt _ (by omega)
    rw [List.getD_eq_getElem?_getD, List.getElem?_eq_getElem hlt]
    exact List.getElem_mem hlt

theorem W_frame {s s' : State} {t : Tid} {p : Pc} (h : W s) (hp : s.pc t ≠ .pullWait) (hp' : p ≠ .pullWait)
    (hw : s'.waiting = s.waiting) (hk : s'.woken = s.woken) (hpc : s'.pc = fun u => if u = t then p else s.pc u) : W s' := by
  have ne1 : ∀ u ∈ s.waiting, u ≠ t := fun u hu e => hp (e ▸ h.waiting_pc u hu)
  have ne2 : ∀ u ∈ s.woken, u ≠ t := fun u hu e => hp (e ▸ h.woken_pc u hu)
  refine ⟨?_, ?_, ?_, ?_, ?_, ?_⟩
  · intro u hu; rw [hw] at hu; simp [hpc, ne1 u hu, h.waiting_pc u hu]
  · intro u hu; rw [hk] at hu; simp [hpc, ne2 u hu, h.woken_pc u hu]
  · rw [hw]; exact h.nodup_waiting
  · rw [hk]; exact h.nodup_woken
  · rw [hw, hk]; exact h.disjoint
  · intro u hu
    rw [hw, hk]
    by_cases e : u = t
    · subst e; simp [hpc] at hu; exact absurd hu hp'
    · simp [hpc, e] at hu; exact h.covered u hu


theorem W_step {s s' : State} {a : Act} (h : W s) (hs : step s a = some s') : W s' := by
  cases a with
  | start t op =>
    simp only [step] at hs
    split at hs
    · rename_i l hp
      injection hs with hs; subst hs
      exact W_frame h (by simp [hp]) (by cases op <;> simp [Op.entry]) rfl rfl rfl
    · cases hs
  | run t k =>
    simp only [step] at hs
    generalize hp : s.pc t = p at hs
    have ne1 : p ≠ .pullWait → ∀ u ∈ s.waiting, u ≠ t := fun hne u hu e => hne (by rw [← hp, ← e]; exact h.waiting_pc u hu)
    have ne2 : p ≠ .pullWait → ∀ u ∈ s.woken, u ≠ t := fun hne u hu e => hne (by rw [← hp, ← e]; exact h.woken_pc u hu)
    cases p <;> simp only [stepAt] at hs
    case pushSignal v =>
      injection hs with hs; subst hs
      have ne1 := ne1 (by simp); have ne2 := ne2 (by simp)
      rcases signal_cases s k with ⟨_, he⟩ | ⟨u, hu, hw, hk⟩
      · rw [he]; exact W_frame h (by simp [hp]) (by simp) rfl rfl rfl
      · have hut : u ≠ t := ne1 u hu
        refine ⟨?_, ?_, ?_, ?_, ?_, ?_⟩
        · intro x hx; simp only [setPc_waiting, hw] at hx
          have hx' := List.mem_of_mem_erase hx
          simp [ne1 x hx', h.waiting_pc x hx']
        · intro x hx; simp only [setPc_woken, hk, List.mem_append, List.mem_singleton] at hx
          rcases hx with hx | hx
          · simp [ne2 x hx, h.woken_pc x hx]
          · subst hx; simp [hut, h.waiting_pc x hu]
        · simp only [setPc_waiting, hw]; exact h.nodup_waiting.erase u
        · simp only [setPc_woken, hk]
          rw [List.nodup_append]
          refine ⟨h.nodup_woken, by simp, ?_⟩
          intro a ha b hb; simp at hb; subst hb
          intro e; subst e; exact h.disjoint a hu ha
        · intro x hx; simp only [setPc_waiting, hw] at hx
          simp only [setPc_woken, hk, List.mem_append, List.mem_singleton, not_or]
          rw [h.nodup_waiting.mem_erase_iff] at hx
          exact ⟨h.disjoint x hx.2, hx.1⟩
        · intro x hx
          by_cases e : x = t
          · subst e; simp at hx
          · simp [e] at hx
            simp only [setPc_waiting, hw, setPc_woken, hk, List.mem_append, List.mem_singleton]
            by_cases e2 : x = u
            · right; right; exact e2
            · rcases h.covered x hx with c | c
              · left; exact (List.mem_erase_of_ne e2).2 c
              · right; left; exact c
    case pullTest =>
      have ne1 := ne1 (by simp); have ne2 := ne2 (by simp)
      split at hs
      · injection hs with hs; subst hs
        exact W_frame h (by simp [hp]) (by simp) rfl rfl rfl
      · split at hs
        · injection hs with hs; subst hs
          exact W_frame h (by simp [hp]) (by simp) rfl rfl rfl
        · injection hs with hs; subst hs
          have tw : t ∉ s.waiting := fun c => ne1 t c rfl
          have tk : t ∉ s.woken := fun c => ne2 t c rfl
          refine ⟨?_, ?_, ?_, ?_, ?_, ?_⟩
          · intro x hx; simp at hx
            rcases hx with hx | hx
            · simp [ne1 x hx, h.waiting_pc x hx]
            · subst hx; simp
          · intro x hx; simp at hx
            simp [ne2 x hx, h.woken_pc x hx]
          · simp; rw [List.nodup_append]
            refine ⟨h.nodup_waiting, by simp, ?_⟩
            intro a ha b hb; simp at hb; subst hb; intro e; subst e; exact tw ha
          · exact h.nodup_woken
          · intro x hx; simp at hx
            rcases hx with hx | hx
            · exact h.disjoint x hx
            · subst hx; exact tk
          · intro x hx
            by_cases e : x = t
            · subst e; left; simp
            · simp [e] at hx
              rcases h.covered x hx with c | c
              · left; simp [c]
              · right; exact c
    case pullWait =>
      split at hs
      · rename_i hc
        injection hs with hs; subst hs
        have tw : t ∉ s.waiting := fun c => h.disjoint t c hc.1
        refine ⟨?_, ?_, ?_, ?_, ?_, ?_⟩
        · intro x hx; simp at hx
          have : x ≠ t := fun e => tw (e ▸ hx)
          simp [this, h.waiting_pc x hx]
        · intro x hx; simp at hx
          rw [h.nodup_woken.mem_erase_iff] at hx
          simp [hx.1, h.woken_pc x hx.2]
        · exact h.nodup_waiting
        · exact h.nodup_woken.erase t
        · intro x hx c; simp at hx c
          exact h.disjoint x hx (List.mem_of_mem_erase c)
        · intro x hx
          by_cases e : x = t
          · subst e; simp at hx
          · simp [e] at hx
            rcases h.covered x hx with c | c
            · left; exact c
            · right; simp; exact (List.mem_erase_of_ne e).2 c
      · cases hs
    case closeBroadcast =>
      have ne1 := ne1 (by simp); have ne2 := ne2 (by simp)
      injection hs with hs; subst hs
      refine ⟨?_, ?_, ?_, ?_, ?_, ?_⟩
      · intro x hx; simp at hx
      · intro x hx; simp at hx
        rcases hx with hx | hx
        · simp [ne2 x hx, h.woken_pc x hx]
        · simp [ne1 x hx, h.waiting_pc x hx]
      · simp
      · simp; rw [List.nodup_append]
        exact ⟨h.nodup_woken, h.nodup_waiting, fun a ha b hb e => h.disjoint b hb (e ▸ ha)⟩
      · intro x hx; simp at hx
      · intro x hx
        by_cases e : x = t
        · subst e; simp at hx
        · simp [e] at hx
          right; simp; exact (h.covered x hx).symm
    all_goals (
      (try split at hs) <;> first
      | (cases hs; done)
      | (injection hs with hs; subst hs
         exact W_frame h (by simp [hp]) (by first | simp | (split <;> simp)) rfl rfl rfl))


/-! ### exactly-once FIFO: `pushed = pulled ++ items` -/

def F (s : State) : Prop := s.pushed = s.pulled ++ s.items

theorem F_step {s s' : State} {a : Act} (h : F s) (hs : step s a = some s') : F s' := by
  unfold F at *
  cases a with
  | start t op =>
    simp only [step] at hs
    split at hs
    · injection hs with hs; subst hs; simpa using h
    · cases hs
  | run t k =>
    simp only [step] at hs
    generalize hp : s.pc t = p at hs
    cases p <;> simp only [stepAt] at hs
    all_goals (
      (try split at hs) <;> (try split at hs) <;> first
      | (cases hs; done)
      | (injection hs with hs; subst hs; simp_all))


/-! ### no lost wake-up -/

/-- whenever a consumer sleeps, every queued item has a wake-up on its way -/
def I (s : State) : Prop := s.waiting ≠ [] → s.items.length ≤ s.woken.length + inflight s

/-- after the broadcast point a closed queue has no sleeper -/
def J (s : State) : Prop := s.closed = true → s.waiting = [] ∨ ∃ o, s.owner = some o ∧ s.pc o = .closeBroadcast

theorem I_step {s s' : State} {a : Act} (hM : M s) (_hW : W s) (h : I s) (hs : step s a = some s') : I s' := by
  unfold I at *
  cases a with
  | start t op =>
    simp only [step] at hs
    split at hs
    · rename_i l hp
      injection hs with hs; subst hs
      have : inflight (s.setPc t op.entry) = inflight s := by
        unfold inflight; simp only [setPc_owner, setPc_pc]
        cases ho : s.owner with
        | none => rfl
        | some o =>
          by_cases e : o = t
          · subst e; simp [hp, Pc.flight]; cases op <;> simp [Op.entry]
          · simp [e]
      simpa [this] using h
    · cases hs
  | run t k =>
    simp only [step] at hs
    have ht := hM t
    generalize hp : s.pc t = p at hs ht
    cases p <;> simp only [stepAt] at hs <;> simp only [Pc.holds] at ht
    case pushSignal v =>
      injection hs with hs; subst hs
      have ho : s.owner = some t := ht.1 trivial
      have hin : inflight s = 1 := by simp [inflight, ho, hp, Pc.flight]
      have hin' : inflight ((s.signal k).setPc t (Pc.pushUnlock v)) = 0 := by simp [inflight, ho, Pc.flight]
      rcases signal_cases s k with ⟨hw, he⟩ | ⟨u, hu, hw, hk⟩
      · intro c; rw [he] at c; exact absurd hw c
      · intro _
        have := h (List.ne_nil_of_mem hu)
        simp only [setPc_items, signal_items, setPc_woken, hk, List.length_append, List.length_singleton, hin']
        omega
    case pullLock =>
      split at hs
      · rename_i ho
        injection hs with hs; subst hs
        intro c
        have := h c
        have hin : inflight s = 0 := by simp [inflight, ho]
        rw [hin] at this
        simp [inflight, Pc.flight]; omega
      · cases hs
    case pullWait =>
      split at hs
      · rename_i hc
        injection hs with hs; subst hs
        intro c
        have := h c
        have hin : inflight s = 0 := by simp [inflight, hc.2]
        have hl := List.length_erase_of_mem hc.1
        have hpos : 0 < s.woken.length := List.length_pos_of_mem hc.1
        rw [hin] at this
        simp [inflight, Pc.flight]; omega
      · cases hs
    all_goals (
      (try split at hs) <;> (try split at hs) <;> first
      | (cases hs; done)
      | (injection hs with hs; subst hs
         first
         | (simp_all [inflight, Pc.flight]; done)
         | (simp_all [inflight, Pc.flight]; omega)))


theorem J_step {s s' : State} {a : Act} (hM : M s) (h : J s) (hs : step s a = some s') : J s' := by
  unfold J at *
  cases a with
  | start t op =>
    simp only [step] at hs
    split at hs
    · rename_i l hp
      injection hs with hs; subst hs
      intro hc
      rcases h hc with hw | ⟨o, ho, hpo⟩
      · left; exact hw
      · right; refine ⟨o, ho, ?_⟩
        have : o ≠ t := by intro e; subst e; rw [hp] at hpo; cases hpo
        simp [this, hpo]
    · cases hs
  | run t k =>
    simp only [step] at hs
    have ht := hM t
    generalize hp : s.pc t = p at hs ht
    cases p <;> simp only [stepAt] at hs <;> simp only [Pc.holds] at ht
    case closeSet =>
      injection hs with hs; subst hs
      intro _; right; exact ⟨t, by simpa using ht, by simp⟩
    case closeBroadcast =>
      injection hs with hs; subst hs
      intro _; left; simp
    all_goals (
      (try split at hs) <;> (try split at hs) <;> first
      | (cases hs; done)
      | (injection hs with hs; subst hs
         intro hc
         have hc' : s.closed = true := by simpa using hc
         rcases h hc' with hw | ⟨o, ho, hpo⟩
         · first
           | (left; simp [hw]; done)
           | (left; rcases signal_cases s k with ⟨_, he⟩ | ⟨u, hu, _, _⟩
              · simp [he, hw]
              · rw [hw] at hu; cases hu)
           | (exfalso; simp_all; done)
         · exfalso; simp_all))


/-! ### the closed flag: monotone; no append once it is set; a panic only after Close -/

/-- a pusher that passed the closed-check still sees an open queue when it appends (it holds the mutex) -/
def K (s : State) : Prop := ∀ t v, s.pc t = .pushAppend v → s.closed = false

/-- a thread dies in `Push` only on a closed queue -/
def P (s : State) : Prop := ∀ t, s.pc t = .panicked → s.closed = true

theorem K_step {s s' : State} {a : Act} (hM : M s) (h : K s) (hs : step s a = some s') : K s' := by
  unfold K at *
  cases a with
  | start t op =>
    simp only [step] at hs
    split at hs
    · rename_i l hp
      injection hs with hs; subst hs
      intro u v hu
      by_cases e : u = t
      · subst e; simp at hu; cases op <;> simp [Op.entry] at hu
      · simp [e] at hu; simpa using h u v hu
    · cases hs
  | run t k =>
    simp only [step] at hs
    have ht := hM t
    generalize hp : s.pc t = p at hs ht
    cases p <;> simp only [stepAt] at hs <;> simp only [Pc.holds] at ht
    case closeSet =>
      injection hs with hs; subst hs
      intro u v hu
      by_cases e : u = t
      · subst e; simp at hu
      · simp [e] at hu
        have h1 := (hM u).1 (by rw [hu]; rfl)
        have h2 : s.owner = some t := by simpa using ht
        rw [h2] at h1; injection h1 with h1; exact absurd h1.symm e
    all_goals (
      (try split at hs) <;> (try split at hs) <;> first
      | (cases hs; done)
      | (injection hs with hs; subst hs
         intro u v hu
         by_cases e : u = t
         · subst e; (simp at hu) <;> (first | (simp_all; done) | (split at hu <;> simp_all))
         · simp [e] at hu; simpa using h u v hu))

theorem P_step {s s' : State} {a : Act} (h : P s) (hs : step s a = some s') : P s' := by
  unfold P at *
  cases a with
  | start t op =>
    simp only [step] at hs
    split at hs
    · injection hs with hs; subst hs
      intro u hu
      by_cases e : u = t
      · subst e; simp at hu; cases op <;> simp [Op.entry] at hu
      · simp [e] at hu; simpa using h u hu
    · cases hs
  | run t k =>
    simp only [step] at hs
    generalize hp : s.pc t = p at hs
    cases p <;> simp only [stepAt] at hs
    all_goals (
      (try split at hs) <;> (try split at hs) <;> first
      | (cases hs; done)
      | (injection hs with hs; subst hs
         intro u hu
         by_cases e : u = t
         · subst e; (simp at hu) <;> (first | (simp_all; done) | (split at hu <;> simp_all))
         · simp [e] at hu; have := h u hu; simp_all))

theorem closed_mono {s s' : State} {a : Act} (hs : step s a = some s') (hc : s.closed = true) : s'.closed = true := by
  cases a with
  | start t op =>
    simp only [step] at hs
    split at hs
    · injection hs with hs; subst hs; simpa using hc
    · cases hs
  | run t k =>
    simp only [step] at hs
    generalize hp : s.pc t = p at hs
    cases p <;> simp only [stepAt] at hs
    all_goals (
      (try split at hs) <;> (try split at hs) <;> first
      | (cases hs; done)
      | (injection hs with hs; subst hs; simp_all))

/-- once the queue is closed no step appends -/
theorem closed_no_append {s s' : State} {a : Act} (hK : K s) (hs : step s a = some s') (hc : s.closed = true) :
    s'.pushed = s.pushed := by
  cases a with
  | start t op =>
    simp only [step] at hs
    split at hs
    · injection hs with hs; subst hs; simp
    · cases hs
  | run t k =>
    simp only [step] at hs
    generalize hp : s.pc t = p at hs
    cases p <;> simp only [stepAt] at hs
    case pushAppend v => have := hK t v hp; rw [hc] at this; cases this
    all_goals (
      (try split at hs) <;> (try split at hs) <;> first
      | (cases hs; done)
      | (injection hs with hs; subst hs; simp))

/-! ### all invariants together -/

structure Inv (s : State) : Prop where
  m : M s
  w : W s
  f : F s
  i : I s
  j : J s
  k : K s
  p : P s

theorem Inv_init : Inv init := by
  refine ⟨?_, ⟨?_, ?_, ?_, ?_, ?_, ?_⟩, ?_, ?_, ?_, ?_, ?_⟩ <;> simp [init, M, F, I, J, K, P, Pc.holds]

theorem Inv_step {s s' : State} {a : Act} (h : Inv s) (hs : step s a = some s') : Inv s' :=
  ⟨M_step h.m hs, W_step h.w hs, F_step h.f hs, I_step h.m h.w h.i hs, J_step h.m h.j hs, K_step h.m h.k hs, P_step h.p hs⟩

theorem Inv_reachable {s : State} (h : Reachable s) : Inv s := by
  induction h with
  | init => exact Inv_init
  | step a _ hs ih => exact Inv_step ih hs


/-! ### executions -/

/-- `s'` is reached from `s` by finitely many steps -/
inductive Steps : State → State → Prop where
  | refl (s : State) : Steps s s
  | tail {s s' s'' : State} (a : Act) : Steps s s' → step s' a = some s'' → Steps s s''

theorem reachable_steps {s s' : State} (h : Reachable s) (hs : Steps s s') : Reachable s' := by
  induction hs with
  | refl => exact h
  | tail a _ hstep ih => exact Reachable.step a ih hstep

/-- a closed queue stays closed and nothing is appended to it any more -/
theorem closed_frozen {s s' : State} (h : Reachable s) (hc : s.closed = true) (hs : Steps s s') :
    s'.closed = true ∧ s'.pushed = s.pushed := by
  induction hs with
  | refl => exact ⟨hc, rfl⟩
  | tail a hpre hstep ih =>
    have hr := reachable_steps h hpre
    exact ⟨closed_mono hstep ih.1, (closed_no_append (Inv_reachable hr).k hstep ih.1).trans ih.2⟩

/-- run a list of actions (for concrete examples) -/
def runActs : State → List Act → Option State
  | s, [] => some s
  | s, a :: as => match step s a with
    | some s' => runActs s' as
    | none => none

theorem Steps.ofRun {s s' : State} {as : List Act} (h : runActs s as = some s') : Steps s s' := by
  induction as generalizing s with
  | nil => simp [runActs] at h; subst h; exact .refl s
  | cons a as ih =>
    simp only [runActs] at h
    split at h
    · rename_i s1 h1
      have := ih h
      clear ih h
      -- prepend one step
      induction this with
      | refl => exact .tail a (.refl s) h1
      | tail b _ hb ih2 => exact .tail b ih2 hb
    · cases h

def actTid : Act → Tid
  | .start t _ => t
  | .run t _ => t

/-- a step changes only the program counter of the thread that takes it -/
theorem step_pc_other {s s' : State} {a : Act} {u : Tid} (hs : step s a = some s') (hu : actTid a ≠ u) : s'.pc u = s.pc u := by
  cases a with
  | start t op =>
    simp only [step] at hs
    have e : ¬ u = t := fun e => hu e.symm
    split at hs
    · injection hs with hs; subst hs; simp [e]
    · cases hs
  | run t k =>
    simp only [step] at hs
    have e : ¬ u = t := fun e => hu e.symm
    generalize hp : s.pc t = p at hs
    cases p <;> simp only [stepAt] at hs
    all_goals (
      (try split at hs) <;> (try split at hs) <;> first
      | (cases hs; done)
      | (injection hs with hs; subst hs; simp [e]))

theorem runActs_pc_other {s s' : State} {as : List Act} {u : Tid} (hs : runActs s as = some s')
    (hu : ∀ a ∈ as, actTid a ≠ u) : s'.pc u = s.pc u := by
  induction as generalizing s with
  | nil => simp [runActs] at hs; subst hs; rfl
  | cons a as ih =>
    simp only [runActs] at hs
    split at hs
    · rename_i s1 h1
      rw [ih hs (fun b hb => hu b (List.mem_cons_of_mem _ hb)), step_pc_other h1 (hu a List.mem_cons_self)]
    · cases hs

/-- a thread that holds the mutex and has not died can always take its next step -/
theorem holder_enabled {s : State} {t : Tid} (hh : (s.pc t).holds = true) (hn : s.pc t ≠ .panicked) : enabled s t := by
  unfold enabled
  refine ⟨0, ?_⟩
  simp only [step]
  generalize hp : s.pc t = p at hh hn
  cases p <;> simp only [stepAt, Pc.holds] at * <;> (try cases hh) <;> (try exact ⟨_, rfl⟩)
  · -- pullTest
    split
    · exact ⟨_, rfl⟩
    · split <;> exact ⟨_, rfl⟩
  · exact absurd rfl hn

/-! ## ChannelQueue -/

@[simp] theorem csetPc_pc (s : CState) (t u : Tid) (p : CPc) : (s.setPc t p).pc u = if u = t then p else s.pc u := rfl
@[simp] theorem csetPc_buf (s : CState) (t : Tid) (p : CPc) : (s.setPc t p).buf = s.buf := rfl
@[simp] theorem csetPc_cap (s : CState) (t : Tid) (p : CPc) : (s.setPc t p).cap = s.cap := rfl
@[simp] theorem csetPc_closed (s : CState) (t : Tid) (p : CPc) : (s.setPc t p).closed = s.closed := rfl
@[simp] theorem csetPc_recvq (s : CState) (t : Tid) (p : CPc) : (s.setPc t p).recvq = s.recvq := rfl
@[simp] theorem csetPc_pushed (s : CState) (t : Tid) (p : CPc) : (s.setPc t p).pushed = s.pushed := rfl
@[simp] theorem csetPc_pulled (s : CState) (t : Tid) (p : CPc) : (s.setPc t p).pulled = s.pulled := rfl

@[simp] theorem wakeAll_buf (s : CState) (l : List Tid) : (s.wakeAll l).buf = s.buf := by
  induction l generalizing s with
  | nil => rfl
  | cons r rs ih => simp [CState.wakeAll, ih]
@[simp] theorem wakeAll_cap (s : CState) (l : List Tid) : (s.wakeAll l).cap = s.cap := by
  induction l generalizing s with
  | nil => rfl
  | cons r rs ih => simp [CState.wakeAll, ih]
@[simp] theorem wakeAll_closed (s : CState) (l : List Tid) : (s.wakeAll l).closed = s.closed := by
  induction l generalizing s with
  | nil => rfl
  | cons r rs ih => simp [CState.wakeAll, ih]
@[simp] theorem wakeAll_recvq (s : CState) (l : List Tid) : (s.wakeAll l).recvq = s.recvq := by
  induction l generalizing s with
  | nil => rfl
  | cons r rs ih => simp [CState.wakeAll, ih]
@[simp] theorem wakeAll_pushed (s : CState) (l : List Tid) : (s.wakeAll l).pushed = s.pushed := by
  induction l generalizing s with
  | nil => rfl
  | cons r rs ih => simp [CState.wakeAll, ih]
@[simp] theorem wakeAll_pulled (s : CState) (l : List Tid) : (s.wakeAll l).pulled = s.pulled := by
  induction l generalizing s with
  | nil => rfl
  | cons r rs ih => simp [CState.wakeAll, ih]

theorem wakeAll_pc (s : CState) (l : List Tid) (u : Tid) :
    (s.wakeAll l).pc u = if u ∈ l then .recvd none else s.pc u := by
  induction l generalizing s with
  | nil => simp [CState.wakeAll]
  | cons r rs ih =>
    simp only [CState.wakeAll, ih, csetPc_pc, List.mem_cons]
    by_cases h1 : u ∈ rs <;> by_cases h2 : u = r <;> simp [h1, h2]

structure CInv (cap : Nat) (s : CState) : Prop where
  cap_eq : s.cap = cap
  bounded : s.buf.length ≤ s.cap
  parked : s.recvq ≠ [] → s.buf = [] ∧ s.closed = false
  fifo : s.pushed = s.pulled ++ s.buf
  /-- a receiver resumed by `close` finds the channel closed and drained -/
  resumed : ∀ t, s.pc t = .recvd none → s.closed = true ∧ s.buf = []

theorem CInv_init (cap : Nat) : CInv cap (cinit cap) := by
  refine ⟨rfl, ?_, ?_, ?_, ?_⟩ <;> simp [cinit]

theorem CInv_step {cap : Nat} {s s' : CState} {a : Act} (h : CInv cap s) (hs : cstep s a = some s') : CInv cap s' := by
  cases a with
  | start t op =>
    simp only [cstep] at hs
    split at hs
    · injection hs with hs; subst hs
      refine ⟨h.cap_eq, h.bounded, h.parked, h.fifo, ?_⟩
      intro u hu
      by_cases e : u = t
      · subst e; simp at hu; cases op <;> simp [COpEntry] at hu
      · simp [e] at hu; exact h.resumed u hu
    · cases hs
  | run t k =>
    simp only [cstep] at hs
    generalize hp : s.pc t = p at hs
    obtain ⟨h1, h2, h3, h4, h5⟩ := h
    cases p <;> simp only [cstepAt] at hs
    case close =>
      split at hs
      · injection hs with hs; subst hs
        refine ⟨?_, ?_, ?_, ?_, ?_⟩ <;> (try simp_all)
        intro u hu
        by_cases e : u = t
        · subst e; simp at hu
        · simp [e] at hu; exact h5 u hu
      · rename_i hc
        injection hs with hs; subst hs
        refine ⟨by simp_all, by simp_all, by simp_all, by simp_all, ?_⟩
        intro u hu
        by_cases e : u = t
        · subst e; simp at hu
        · simp only [csetPc_pc, e, if_false, wakeAll_pc] at hu
          by_cases hm : u ∈ s.recvq
          · have := (h3 (List.ne_nil_of_mem hm)).1
            simp [this]
          · simp [hm] at hu; have := h5 u hu; simp_all
    all_goals (
      (try split at hs) <;> (try split at hs) <;> (try split at hs) <;> first
      | (cases hs; done)
      | (injection hs with hs; subst hs
         refine ⟨?_, ?_, ?_, ?_, ?_⟩
         · simp_all
         · simp_all <;> omega
         · simp_all
         · simp_all
         · intro u hu
           by_cases e : u = t
           · subst e; simp at hu <;> (try (split at hu <;> simp_all))
           · first
             | (simp [e] at hu; have := h5 u hu; simp_all; done)
             | (simp only [csetPc_pc, e, if_false] at hu
                split at hu
                · cases hu
                · have := h5 u hu; simp_all)))

theorem CInv_reachable {cap : Nat} {s : CState} (h : CReachable cap s) : CInv cap s := by
  induction h with
  | init => exact CInv_init cap
  | step a _ hs ih => exact CInv_step ih hs

end GoMC.Lemmas.Queue
