/-
  The typed NBT decoder is total (`Model/NBTTyped.unmarshal` never panics), for every destination type of the
  universe. The two `Rd.crash` points of the model — `reflect.Value.Field(i)` out of range while walking a field's
  index path — are unreachable because (1) destination values are well-shaped (`Good`: what `reflect` guarantees
  of real Go values; zero values are, and decoding keeps them so) and (2) the index paths of a field table exist
  in the struct type (`TablesOK`, a decidable fact about `typeFields`).
  `Post Q p` / `Safe Q p` are a small Hoare logic for the `Rd` monad (postcondition of successful runs; no panic).
-/
import GoMC.Lemmas.NBTTyped
namespace GoMC.Lemmas.NBTTotal
open GoMC GoMC.Rd GoMC.Model GoMC.Model.NBT GoMC.Model.Go GoMC.Lemmas.NBTDecode GoMC.Lemmas.NBTTyped

/-- postcondition of a successful run -/
def Post {α : Type} (Q : α → Prop) (p : Rd α) : Prop := ∀ s a s', p s = (Res.ok a, s') → Q a

theorem post_pure {α : Type} {Q : α → Prop} {a : α} (h : Q a) : Post Q (Pure.pure a : Rd α) := by
  intro s b s' hb
  simp only [Rd.pure_apply, Prod.mk.injEq, Res.ok.injEq] at hb
  exact hb.1 ▸ h
theorem post_fail {α : Type} {Q : α → Prop} : Post Q (Rd.fail : Rd α) := by
  intro s b s' hb; simp [Rd.fail] at hb
theorem post_crash {α : Type} {Q : α → Prop} : Post Q (Rd.crash : Rd α) := by
  intro s b s' hb; simp [Rd.crash] at hb
theorem post_true {α : Type} (p : Rd α) : Post (fun _ => True) p := fun _ _ _ _ => trivial
theorem post_mono {α : Type} {Q Q' : α → Prop} {p : Rd α} (h : ∀ a, Q a → Q' a) (hp : Post Q p) : Post Q' p :=
  fun s a s' hs => h a (hp s a s' hs)
theorem post_bind {α β : Type} {Q1 : α → Prop} {Q2 : β → Prop} {p : Rd α} {f : α → Rd β}
    (hp : Post Q1 p) (hf : ∀ a, Q1 a → Post Q2 (f a)) : Post Q2 (p >>= f) := by
  intro s b s'' h
  rw [Rd.bind_apply] at h
  rcases hps : p s with ⟨r, s'⟩
  rw [hps] at h
  cases r with
  | ok a => exact hf a (hp s a s' hps) s' b s'' h
  | err => simp at h
  | panic => simp at h
theorem post_ite {α : Type} {Q : α → Prop} {c : Prop} [Decidable c] {p q : Rd α} (hp : Post Q p) (hq : Post Q q) :
    Post Q (if c then p else q) := by split <;> assumption

theorem post_readFull (n : Nat) : Post (fun bs => bs.length = n) (Rd.readFull n) := by
  intro s a s' h
  unfold Rd.readFull at h
  split at h
  · simp only [Prod.mk.injEq, Res.ok.injEq] at h
    rw [← h.1]; simp; omega
  · simp at h

theorem post_readInts (n : Nat) : Post (fun xs => xs.length = n) (readInts n) := by
  induction n with
  | zero => exact post_pure rfl
  | succ n ih =>
    unfold readInts
    exact post_bind (post_true _) (fun _ _ => post_bind ih (fun xs hxs => post_pure (by simp [hxs])))
theorem post_readLongs (n : Nat) : Post (fun xs => xs.length = n) (readLongs n) := by
  induction n with
  | zero => exact post_pure rfl
  | succ n ih =>
    unfold readLongs
    exact post_bind (post_true _) (fun _ _ => post_bind ih (fun xs hxs => post_pure (by simp [hxs])))

theorem post_refuseG {α : Type} {Q : α → Prop} (tag : Byte) : Post Q (refuseG tag : Rd α) := by
  unfold refuseG
  exact post_bind (post_true _) (fun _ _ => post_fail)

/-! ### well-shaped values -/

/-- types without struct types inside (what a decoded `any` holds) -/
def NoStruct : GoType → Prop
  | .slice e | .array _ e | .map e | .ptr e => NoStruct e
  | .struct _ _ => False
  | _ => True

mutual
  /-- `v` is a value of type `ty`, all the way down (what `reflect` guarantees of real Go values) -/
  def Good : GoType → GoVal → Prop
    | .bool, .bool _ => True
    | .int k, .int k' _ => k = k'
    | .f32, .f32 _ => True
    | .f64, .f64 _ => True
    | .str, .str _ => True
    | .slice e, .slice e' _ xs => e = e' ∧ GoodList e xs
    | .array n e, .array e' xs => e = e' ∧ xs.length = n ∧ GoodList e xs
    | .map e, .map e' _ kvs => e = e' ∧ GoodKvs e kvs
    | .struct n fields, .struct n' fields' fs => n = n' ∧ fields = fields' ∧ GoodFields fields fs
    | .ptr e, .ptr e' none => e = e'
    | .ptr e, .ptr e' (some x) => e = e' ∧ Good e x
    | .iface, .iface none => True
    | .iface, .iface (some x) => Good x.typeOf x ∧ NoStruct x.typeOf
    | .raw, .raw _ _ => True
    | .snbt, .snbt _ => True
    | .dyn, .dyn _ => True
    | _, _ => False
  def GoodList : GoType → List GoVal → Prop
    | _, [] => True
    | e, x :: xs => Good e x ∧ GoodList e xs
  def GoodKvs : GoType → List (Bytes × GoVal) → Prop
    | _, [] => True
    | e, (_, x) :: kvs => Good e x ∧ GoodKvs e kvs
  def GoodFields : List (FieldInfo × GoType) → List GoVal → Prop
    | [], [] => True
    | (_, t) :: fields, x :: xs => Good t x ∧ GoodFields fields xs
    | _, _ => False
end

theorem good_typeOf (ty : GoType) (v : GoVal) (h : Good ty v) : v.typeOf = ty := by
  cases v with
  | ptr e p => cases p <;> cases ty <;> simp [Good] at h <;> simp_all [GoVal.typeOf]
  | iface p => cases p <;> cases ty <;> simp [Good] at h <;> simp_all [GoVal.typeOf]
  | _ => cases ty <;> simp [Good] at h <;> simp_all [GoVal.typeOf]

theorem goodList_replicate (e : GoType) (x : GoVal) (h : Good e x) (n : Nat) : GoodList e (List.replicate n x) := by
  induction n with
  | zero => simp [GoodList]
  | succ n ih => simp only [List.replicate_succ, GoodList]; exact ⟨h, ih⟩

mutual
  theorem zero_good : ∀ ty : GoType, Good ty ty.zero
    | .bool => by simp [GoType.zero, Good]
    | .int k => by simp [GoType.zero, Good]
    | .f32 => by simp [GoType.zero, Good]
    | .f64 => by simp [GoType.zero, Good]
    | .str => by simp [GoType.zero, Good]
    | .slice e => by simp [GoType.zero, Good, GoodList]
    | .array n e => by
      simp only [GoType.zero, Good, List.length_replicate, true_and]
      exact goodList_replicate e _ (zero_good e) n
    | .map e => by simp [GoType.zero, Good, GoodKvs]
    | .struct n fields => by
      simp only [GoType.zero, Good, true_and]
      exact zeroFields_good fields
    | .ptr e => by simp [GoType.zero, Good]
    | .iface => by simp [GoType.zero, Good]
    | .raw => by simp [GoType.zero, Good]
    | .snbt => by simp [GoType.zero, Good]
    | .dyn => by simp [GoType.zero, Good]
  theorem zeroFields_good : ∀ fields : List (FieldInfo × GoType), GoodFields fields (GoType.zeroFields fields)
    | [] => by simp [GoType.zeroFields, GoodFields]
    | (i, t) :: fs => by
      simp only [GoType.zeroFields, GoodFields]
      exact ⟨zero_good t, zeroFields_good fs⟩
end

theorem goodList_of_forall (e : GoType) : ∀ xs : List GoVal, (∀ x ∈ xs, Good e x) → GoodList e xs
  | [], _ => by simp [GoodList]
  | x :: xs, h => by
    simp only [GoodList]
    exact ⟨h x (List.mem_cons_self), goodList_of_forall e xs (fun y hy => h y (List.mem_cons_of_mem _ hy))⟩

theorem goodList_mem {e : GoType} : ∀ {xs : List GoVal}, GoodList e xs → ∀ x ∈ xs, Good e x
  | [], _, x, hx => by cases hx
  | y :: ys, h, x, hx => by
    simp only [GoodList] at h
    rcases List.mem_cons.mp hx with rfl | h'
    · exact h.1
    · exact goodList_mem h.2 x h'

theorem goodKvs_of_forall (e : GoType) : ∀ kvs : List (Bytes × GoVal), (∀ kv ∈ kvs, Good e kv.2) → GoodKvs e kvs
  | [], _ => by simp [GoodKvs]
  | (k, x) :: kvs, h => by
    simp only [GoodKvs]
    exact ⟨h (k, x) (List.mem_cons_self), goodKvs_of_forall e kvs (fun y hy => h y (List.mem_cons_of_mem _ hy))⟩

theorem goodKvs_mem {e : GoType} : ∀ {kvs : List (Bytes × GoVal)}, GoodKvs e kvs → ∀ kv ∈ kvs, Good e kv.2
  | [], _, x, hx => by cases hx
  | (k, y) :: ys, h, x, hx => by
    simp only [GoodKvs] at h
    rcases List.mem_cons.mp hx with rfl | h'
    · exact h.1
    · exact goodKvs_mem h.2 x h'

theorem goodList_map {α : Type} (e : GoType) (g : α → GoVal) (xs : List α) (h : ∀ a, Good e (g a)) : GoodList e (xs.map g) := by
  induction xs with
  | nil => simp [GoodList]
  | cons x xs ih => simp only [List.map_cons, GoodList]; exact ⟨h x, ih⟩

mutual
  /-- the dynamic tree of `unmarshalAny` is a well-shaped value without structs -/
  theorem ofAny_good : ∀ v : NBT.GoAny, Good (ofAny v).typeOf (ofAny v) ∧ NoStruct (ofAny v).typeOf
    | .nil => by simp [ofAny, GoVal.typeOf, Good, NoStruct]
    | .i8 _ => by simp [ofAny, GoVal.typeOf, Good, NoStruct]
    | .i16 _ => by simp [ofAny, GoVal.typeOf, Good, NoStruct]
    | .i32 _ => by simp [ofAny, GoVal.typeOf, Good, NoStruct]
    | .i64 _ => by simp [ofAny, GoVal.typeOf, Good, NoStruct]
    | .f32 _ => by simp [ofAny, GoVal.typeOf, Good, NoStruct]
    | .f64 _ => by simp [ofAny, GoVal.typeOf, Good, NoStruct]
    | .str _ => by simp [ofAny, GoVal.typeOf, Good, NoStruct]
    | .bytes xs => by
      simp only [ofAny, GoVal.typeOf, Good, NoStruct, true_and, and_true]
      exact goodList_map _ _ xs (fun _ => by simp [Good])
    | .ints xs => by
      simp only [ofAny, GoVal.typeOf, Good, NoStruct, true_and, and_true]
      exact goodList_map _ _ xs (fun _ => by simp [Good])
    | .longs xs => by
      simp only [ofAny, GoVal.typeOf, Good, NoStruct, true_and, and_true]
      exact goodList_map _ _ xs (fun _ => by simp [Good])
    | .list xs => by
      simp only [ofAny, GoVal.typeOf, Good, NoStruct, true_and, and_true]
      exact ofAnyList_good xs
    | .map kvs => by
      simp only [ofAny, GoVal.typeOf, Good, NoStruct, true_and, and_true]
      exact ofAnyKvs_good kvs
  theorem ofAnyList_good : ∀ xs : List NBT.GoAny, GoodList .iface (ofAnyList xs)
    | [] => by simp [ofAnyList, GoodList]
    | x :: xs => by
      simp only [ofAnyList, GoodList, Good]
      exact ⟨ofAny_good x, ofAnyList_good xs⟩
  theorem ofAnyKvs_good : ∀ kvs : List (Bytes × NBT.GoAny), GoodKvs .iface (ofAnyKvs kvs)
    | [] => by simp [ofAnyKvs, GoodKvs]
    | (k, x) :: kvs => by
      simp only [ofAnyKvs, GoodKvs, Good]
      exact ⟨ofAny_good x, ofAnyKvs_good kvs⟩
end

/-! ### field tables whose index paths exist in the type -/

def derefT : GoType → GoType
  | .ptr e => e
  | t => t

/-- the index path leads through struct types (pointers followed one level per step, as the walk does) -/
def PathOKT : List Nat → GoType → Prop
  | [], _ => True
  | i :: is, t =>
    match derefT t with
    | .struct _ fields => ∃ info ty, fields[i]? = some (info, ty) ∧ PathOKT is ty
    | _ => False

mutual
  /-- every struct type inside `t` has a field table whose paths exist in it (a fact about `typeFields`; it is
  decidable for every concrete type, and the walk would panic in `reflect.Value.Field` otherwise) -/
  def TablesOK : GoType → Prop
    | .slice e | .array _ e | .map e | .ptr e => TablesOK e
    | .struct n fields => (∀ fld ∈ typeFields (.struct n fields), PathOKT fld.index (.struct n fields)) ∧ TablesOKFields fields
    | _ => True
  def TablesOKFields : List (FieldInfo × GoType) → Prop
    | [] => True
    | (_, t) :: fs => TablesOK t ∧ TablesOKFields fs
end

theorem tablesOK_of_noStruct : ∀ t : GoType, NoStruct t → TablesOK t
  | .slice e, h | .array _ e, h | .map e, h | .ptr e, h => by
    simp only [TablesOK]; exact tablesOK_of_noStruct e (by simpa [NoStruct] using h)
  | .struct _ _, h => by simp [NoStruct] at h
  | .bool, _ | .int _, _ | .f32, _ | .f64, _ | .str, _ | .iface, _ | .raw, _ | .snbt, _ | .dyn, _ => by simp [TablesOK]

theorem tablesOKFields_get : ∀ {fields : List (FieldInfo × GoType)} {i : Nat} {info : FieldInfo} {ty : GoType},
    TablesOKFields fields → fields[i]? = some (info, ty) → TablesOK ty
  | [], i, _, _, _, h => by simp at h
  | (j, t) :: fs, 0, info, ty, hok, h => by
    simp only [List.getElem?_cons_zero, Option.some.injEq, Prod.mk.injEq] at h
    simp only [TablesOKFields] at hok
    exact h.2 ▸ hok.1
  | (j, t) :: fs, i + 1, info, ty, hok, h => by
    simp only [List.getElem?_cons_succ] at h
    simp only [TablesOKFields] at hok
    exact tablesOKFields_get hok.2 h

theorem goodFields_get : ∀ {fields : List (FieldInfo × GoType)} {fs : List GoVal} {i : Nat} {info : FieldInfo} {ty : GoType},
    GoodFields fields fs → fields[i]? = some (info, ty) → ∃ fv, fs[i]? = some fv ∧ Good ty fv
  | [], _, i, _, _, _, h => by simp at h
  | (j, t) :: flds, [], _, _, _, hg, _ => by simp [GoodFields] at hg
  | (j, t) :: flds, x :: xs, 0, info, ty, hg, h => by
    simp only [List.getElem?_cons_zero, Option.some.injEq, Prod.mk.injEq] at h
    simp only [GoodFields] at hg
    exact ⟨x, rfl, h.2 ▸ hg.1⟩
  | (j, t) :: flds, x :: xs, i + 1, info, ty, hg, h => by
    simp only [List.getElem?_cons_succ] at h
    simp only [GoodFields] at hg
    simpa using goodFields_get hg.2 h

theorem goodFields_set : ∀ {fields : List (FieldInfo × GoType)} {fs : List GoVal} {i : Nat} {info : FieldInfo} {ty : GoType}
    {r : GoVal}, GoodFields fields fs → fields[i]? = some (info, ty) → Good ty r → GoodFields fields (fs.set i r)
  | [], _, i, _, _, _, _, h, _ => by simp at h
  | (j, t) :: flds, [], _, _, _, _, hg, _, _ => by simp [GoodFields] at hg
  | (j, t) :: flds, x :: xs, 0, info, ty, r, hg, h, hr => by
    simp only [List.getElem?_cons_zero, Option.some.injEq, Prod.mk.injEq] at h
    simp only [GoodFields] at hg
    simp only [List.set_cons_zero, GoodFields]
    exact ⟨h.2 ▸ hr, hg.2⟩
  | (j, t) :: flds, x :: xs, i + 1, info, ty, r, hg, h, hr => by
    simp only [List.getElem?_cons_succ] at h
    simp only [GoodFields] at hg
    simp only [List.set_cons_succ, GoodFields]
    exact ⟨hg.1, goodFields_set hg.2 h hr⟩


/-! ### safety: no panic, and the result is a well-shaped value of the destination type -/

def Safe {α : Type} (Q : α → Prop) (p : Rd α) : Prop := NoPanic p ∧ Post Q p

theorem safe_pure {α : Type} {Q : α → Prop} {a : α} (h : Q a) : Safe Q (Pure.pure a : Rd α) :=
  ⟨closed_noPanic.pure a, post_pure h⟩
theorem safe_fail {α : Type} {Q : α → Prop} : Safe Q (Rd.fail : Rd α) := ⟨closed_noPanic.fail, post_fail⟩
theorem safe_bind {α β : Type} {Q1 : α → Prop} {Q2 : β → Prop} {p : Rd α} {f : α → Rd β}
    (hp : Safe Q1 p) (hf : ∀ a, Q1 a → Safe Q2 (f a)) : Safe Q2 (p >>= f) := by
  refine ⟨?_, post_bind hp.2 (fun a ha => (hf a ha).2)⟩
  intro s
  rw [Rd.bind_apply]
  have h1 := hp.1 s
  rcases hps : p s with ⟨r, s'⟩
  rw [hps] at h1
  cases r with
  | ok a => exact (hf a (hp.2 s a s' hps)).1 s'
  | err => simp
  | panic => simp at h1
theorem safe_ite {α : Type} {Q : α → Prop} {c : Prop} [Decidable c] {p q : Rd α} (hp : Safe Q p) (hq : Safe Q q) :
    Safe Q (if c then p else q) := by split <;> assumption
theorem safe_of_np {α : Type} {p : Rd α} (h : NoPanic p) : Safe (fun _ => True) p := ⟨h, post_true p⟩
theorem safe_mono {α : Type} {Q Q' : α → Prop} {p : Rd α} (h : ∀ a, Q a → Q' a) (hp : Safe Q p) : Safe Q' p :=
  ⟨hp.1, post_mono h hp.2⟩
theorem safe_refuseG {α : Type} {Q : α → Prop} (tag : Byte) : Safe Q (refuseG tag : Rd α) :=
  ⟨closed_refuseG closed_noPanic tag, post_refuseG tag⟩
/-- a program that cannot panic followed by a pure result -/
theorem safe_np_map {α β : Type} {Q : β → Prop} {p : Rd α} (hp : NoPanic p) (g : α → β) (h : ∀ a, Q (g a)) :
    Safe Q (p >>= fun a => (Pure.pure (g a) : Rd β)) :=
  safe_bind (safe_of_np hp) (fun a _ => safe_pure (h a))

theorem safe_rdRepeat {α : Type} {Q : α → Prop} (p : Rd α) (hp : Safe Q p) (n : Nat) :
    Safe (fun xs => xs.length = n ∧ ∀ x ∈ xs, Q x) (rdRepeat p n) := by
  induction n with
  | zero => exact safe_pure ⟨rfl, by intro x hx; cases hx⟩
  | succ n ih =>
    unfold rdRepeat
    refine safe_bind hp (fun x hx => safe_bind ih (fun xs hxs => safe_pure ⟨by simp [hxs.1], ?_⟩))
    intro y hy
    rcases List.mem_cons.mp hy with rfl | h
    · exact hx
    · exact hxs.2 y h

theorem safe_rdMapFirst {Q : GoVal → Prop} (k : GoVal → Rd GoVal) (hk : ∀ x, Q x → Safe Q (k x)) :
    ∀ (n : Nat) (xs : List GoVal), (∀ x ∈ xs, Q x) → Safe (fun ys => ys.length = xs.length ∧ ∀ y ∈ ys, Q y) (rdMapFirst k n xs)
  | 0, xs, h => by unfold rdMapFirst; exact safe_pure ⟨rfl, h⟩
  | n + 1, [], _ => by unfold rdMapFirst; exact safe_pure ⟨rfl, by intro y hy; cases hy⟩
  | n + 1, x :: xs, h => by
    unfold rdMapFirst
    refine safe_bind (hk x (h x (List.mem_cons_self))) (fun y hy =>
      safe_bind (safe_rdMapFirst k hk n xs (fun z hz => h z (List.mem_cons_of_mem _ hz))) (fun ys hys =>
        safe_pure ⟨by simp [hys.1], ?_⟩))
    intro z hz
    rcases List.mem_cons.mp hz with rfl | h'
    · exact hy
    · exact hys.2 z h'

theorem safe_kvLoop {σ : Type} {Q : σ → Prop} (step : Byte → Bytes → σ → Rd σ)
    (hs : ∀ a b c, Q c → Safe Q (step a b c)) : ∀ (w : Nat) (st : σ), Q st → Safe Q (kvLoop step w st)
  | 0, _, _ => by unfold kvLoop; exact safe_fail
  | w + 1, st, hst => by
    unfold kvLoop
    refine safe_bind (safe_of_np (closed_readTag closed_noPanic)) (fun x _ => ?_)
    obtain ⟨tt, tn⟩ := x
    simp only
    exact safe_ite (safe_pure hst) (safe_bind (hs tt tn st hst) (fun st' hst' => safe_kvLoop step hs w st' hst'))


theorem good_struct_inv {n : Bytes} {fields : List (FieldInfo × GoType)} {v : GoVal} (h : Good (.struct n fields) v) :
    ∃ fs, v = .struct n fields fs ∧ GoodFields fields fs := by
  cases v <;> simp [Good] at h
  obtain ⟨rfl, rfl, hg⟩ := h
  exact ⟨_, rfl, hg⟩

theorem good_ptr_inv {e : GoType} {v : GoVal} (h : Good (.ptr e) v) :
    v = .ptr e none ∨ ∃ x, v = .ptr e (some x) ∧ Good e x := by
  cases v with
  | ptr e' p =>
    cases p with
    | none => simp [Good] at h; subst h; exact Or.inl rfl
    | some x => simp [Good] at h; obtain ⟨rfl, hx⟩ := h; exact Or.inr ⟨x, rfl, hx⟩
  | _ => simp [Good] at h

/-- the step of the walk on a struct value -/
theorem safe_updField (rec : Bool → GoVal → Rd GoVal) (i : Nat) (n : Bytes) (fields : List (FieldInfo × GoType))
    (fs : List GoVal) (info : FieldInfo) (ty : GoType) (hf : fields[i]? = some (info, ty)) (hg : GoodFields fields fs)
    (hr : ∀ fv, Good ty fv → Safe (Good ty) (rec info.exported fv)) :
    Safe (Good (.struct n fields)) (updField rec i (.struct n fields fs)) := by
  obtain ⟨fv, hfv, hgood⟩ := goodFields_get hg hf
  unfold updField
  simp only [hfv, hf]
  exact safe_bind (hr fv hgood) (fun r hr' => safe_pure (by
    simp only [Good, true_and]
    exact goodFields_set hg hf hr'))

/-- the walk along a field's index path never panics on a well-shaped struct whose table is sound -/
theorem safe_updAt (k : GoVal → Rd GoVal) (hk : ∀ τ' x, Good τ' x → TablesOK τ' → Safe (Good τ') (k x)) :
    ∀ (path : List Nat) (τ : GoType) (v : GoVal) (settable : Bool), PathOKT path τ → Good τ v → TablesOK τ →
      Safe (Good τ) (updAt k path settable v)
  | [], τ, v, _, _, hg, ht => by unfold updAt; exact hk τ v hg ht
  | i :: is, τ, v, settable, hp, hg, ht => by
    unfold updAt
    cases τ with
    | struct n fields =>
      obtain ⟨fs, rfl, hgf⟩ := good_struct_inv hg
      simp only [PathOKT, derefT] at hp
      obtain ⟨info, ty, hf, hp'⟩ := hp
      simp only [TablesOK] at ht
      simp only
      exact safe_updField _ i n fields fs info ty hf hgf
        (fun fv hfv => safe_updAt k hk is ty fv info.exported hp' hfv (tablesOKFields_get ht.2 hf))
    | ptr e =>
      simp only [PathOKT, derefT] at hp
      simp only [TablesOK] at ht
      cases e with
      | struct n fields =>
        obtain ⟨info, ty, hf, hp'⟩ := hp
        simp only [TablesOK] at ht
        have hstep : ∀ fs, GoodFields fields fs → Safe (Good (.struct n fields)) (updField (updAt k is) i (.struct n fields fs)) :=
          fun fs hgf => safe_updField _ i n fields fs info ty hf hgf
            (fun fv hfv => safe_updAt k hk is ty fv info.exported hp' hfv (tablesOKFields_get ht.2 hf))
        rcases good_ptr_inv hg with rfl | ⟨x, rfl, hx⟩
        · simp only
          refine safe_ite safe_fail ?_
          have hz := zero_good (.struct n fields)
          obtain ⟨fs, hzs, hgf⟩ := good_struct_inv hz
          rw [hzs]
          exact safe_bind (hstep fs hgf) (fun s' hs' => safe_pure (by simp only [Good, true_and]; exact hs'))
        · simp only
          obtain ⟨fs, rfl, hgf⟩ := good_struct_inv hx
          exact safe_bind (hstep fs hgf) (fun s' hs' => safe_pure (by simp only [Good, true_and]; exact hs'))
      | _ => simp at hp
    | _ => simp [PathOKT, derefT] at hp


/-! ### the branches of `unmarshal` -/

abbrev RecSafe (rec : Rec) : Prop := ∀ ty old tag, TablesOK ty → Good ty old → Safe (Good ty) (rec ty old tag)

theorem np_readInt8 : NoPanic readInt8 := closed_readInt8 closed_noPanic
theorem np_readInt16 : NoPanic readInt16 := closed_readInt16 closed_noPanic
theorem np_readInt32 : NoPanic readInt32 := closed_readInt32 closed_noPanic
theorem np_readInt64 : NoPanic readInt64 := closed_readInt64 closed_noPanic

theorem safe_umBool (tag : Byte) : Safe (Good .bool) (umBool tag) := by
  unfold umBool
  split
  · exact safe_np_map np_readInt8 _ (fun _ => by simp [Good])
  · exact safe_refuseG tag

theorem safe_umInt (k : IK) (tag : Byte) : Safe (Good (.int k)) (umInt k tag) := by
  unfold umInt
  apply safe_ite
  · split
    · exact safe_np_map np_readInt8 _ (fun _ => by simp [Good])
    · exact safe_np_map np_readInt16 _ (fun _ => by simp [Good])
    · exact safe_np_map np_readInt32 _ (fun _ => by simp [Good])
    · exact safe_np_map np_readInt64 _ (fun _ => by simp [Good])
  · exact safe_refuseG tag

theorem safe_umF32 (tag : Byte) : Safe (Good .f32) (umF32 tag) := by
  unfold umF32
  split
  · exact safe_np_map np_readInt32 _ (fun _ => by simp [Good])
  · exact safe_refuseG tag

theorem safe_umF64 (tag : Byte) : Safe (Good .f64) (umF64 tag) := by
  unfold umF64
  split
  · exact safe_np_map np_readInt32 _ (fun _ => by simp [Good])
  · exact safe_np_map np_readInt64 _ (fun _ => by simp [Good])
  · exact safe_refuseG tag

theorem safe_umStr (tag : Byte) : Safe (Good .str) (umStr tag) := by
  unfold umStr
  split
  · exact safe_np_map (closed_readString closed_noPanic) _ (fun _ => by simp [Good])
  · exact safe_refuseG tag

theorem safe_arrayLen : Safe (fun _ => True) arrayLen := safe_of_np (closed_arrayLen closed_noPanic)
theorem safe_listHeader : Safe (fun _ => True) listHeader := safe_of_np (closed_listHeader closed_noPanic)

theorem byteElem_good (e : GoType) (b : Byte) (v : GoVal) (h : byteElem e b = some v) : Good e v := by
  unfold byteElem at h
  split at h <;> simp at h <;> subst h <;> simp [Good]
theorem intElem_good (e : GoType) (x : BitVec 32) (v : GoVal) (h : intElem e x = some v) : Good e v := by
  unfold intElem at h
  split at h <;> simp at h <;> subst h <;> simp [Good]
theorem longElem_good (e : GoType) (x : BitVec 64) (v : GoVal) (h : longElem e x = some v) : Good e v := by
  unfold longElem at h
  split at h <;> simp at h <;> subst h <;> simp [Good]

theorem goodList_filterMap {α : Type} (e : GoType) (g : α → Option GoVal) (xs : List α)
    (h : ∀ a v, g a = some v → Good e v) : GoodList e (xs.filterMap g) := by
  apply goodList_of_forall
  intro v hv
  obtain ⟨a, _, ha⟩ := List.mem_filterMap.mp hv
  exact h a v ha

theorem filterMap_length_of_isSome {α β : Type} (g : α → Option β) (xs : List α) (h : ∀ a, (g a).isSome) :
    (xs.filterMap g).length = xs.length := by
  induction xs with
  | nil => rfl
  | cons x xs ih =>
    have := h x
    cases hg : g x with
    | none => rw [hg] at this; cases this
    | some y => simp [List.filterMap_cons, hg, ih]

theorem byteElem_isSome (e : GoType) (h : isByteLike e = true) (b : Byte) : (byteElem e b).isSome := by
  unfold isByteLike byteElem at *
  split <;> simp_all
theorem intElem_isSome (e : GoType) (h : isIntLike e = true) (b : BitVec 32) : (intElem e b).isSome := by
  unfold isIntLike intElem at *
  split <;> simp_all
theorem longElem_isSome (e : GoType) (h : isLongLike e = true) (b : BitVec 64) : (longElem e b).isSome := by
  unfold isLongLike longElem at *
  split <;> simp_all

theorem safe_umSlice (rec : Rec) (hr : RecSafe rec) (e : GoType) (old : GoVal) (tag : Byte) (ht : TablesOK e) :
    Safe (Good (.slice e)) (umSlice rec e old tag) := by
  unfold umSlice
  split
  · apply safe_ite
    · refine safe_bind safe_arrayLen (fun n _ => safe_bind (safe_of_np (closed_noPanic.readFull n)) (fun ba _ => safe_pure ?_))
      simp only [Good, true_and]
      exact goodList_filterMap e _ ba (byteElem_good e)
    · exact safe_refuseG tag
  · apply safe_ite
    · refine safe_bind safe_arrayLen (fun n _ => safe_bind (safe_of_np (closed_readInts closed_noPanic n)) (fun xs _ => safe_pure ?_))
      simp only [Good, true_and]
      exact goodList_filterMap e _ xs (intElem_good e)
    · exact safe_refuseG tag
  · apply safe_ite
    · refine safe_bind safe_arrayLen (fun n _ => safe_bind (safe_of_np (closed_readLongs closed_noPanic n)) (fun xs _ => safe_pure ?_))
      simp only [Good, true_and]
      exact goodList_filterMap e _ xs (longElem_good e)
    · exact safe_refuseG tag
  · refine safe_bind safe_listHeader (fun x _ => ?_)
    obtain ⟨lt, n⟩ := x
    simp only
    refine safe_bind (safe_rdRepeat _ (hr e e.zero lt ht (zero_good e)) n) (fun xs hxs => safe_pure ?_)
    simp only [Good, true_and]
    exact goodList_of_forall e xs hxs.2
  · exact safe_refuseG tag


theorem safe_ite' {α : Type} {Q : α → Prop} {c : Prop} [Decidable c] {p q : Rd α} (hp : c → Safe Q p) (hq : ¬ c → Safe Q q) :
    Safe Q (if c then p else q) := by
  split
  · exact hp ‹_›
  · exact hq ‹_›

theorem good_array_inv {n : Nat} {e : GoType} {v : GoVal} (h : Good (.array n e) v) :
    ∃ xs, v = .array e xs ∧ xs.length = n ∧ GoodList e xs := by
  cases v <;> simp [Good] at h
  obtain ⟨rfl, hl, hg⟩ := h
  exact ⟨_, rfl, hl, hg⟩

theorem safe_umArray (rec : Rec) (hr : RecSafe rec) (len : Nat) (e : GoType) (old : GoVal) (tag : Byte)
    (ht : TablesOK e) (hold : Good (.array len e) old) :
    Safe (Good (.array len e)) (umArray rec len e old tag) := by
  obtain ⟨olds, rfl, holen, hog⟩ := good_array_inv hold
  unfold umArray
  split
  · refine safe_bind safe_arrayLen (fun n _ => safe_bind ⟨closed_noPanic.readFull n, post_readFull n⟩ (fun ba hba => ?_))
    refine safe_ite' (fun _ => safe_fail) (fun hb => safe_ite' (fun _ => safe_fail) (fun hl => safe_pure ?_))
    have hb' : isByteLike e = true := by simpa using hb
    have hl' : len = n := by simpa using hl
    simp only [Good, true_and]
    refine ⟨?_, goodList_filterMap e _ ba (byteElem_good e)⟩
    rw [filterMap_length_of_isSome _ _ (byteElem_isSome e hb'), hba, hl']
  · refine safe_bind safe_arrayLen (fun n _ => ?_)
    refine safe_ite' (fun _ => safe_fail) (fun hl => safe_ite' (fun _ => safe_fail) (fun hb => ?_))
    have hb' : isIntLike e = true := by simpa using hb
    have hl' : len = n := by simpa using hl
    refine safe_bind ⟨closed_readInts closed_noPanic n, post_readInts n⟩ (fun xs hxs => safe_pure ?_)
    simp only [Good, true_and]
    refine ⟨?_, goodList_filterMap e _ xs (intElem_good e)⟩
    rw [filterMap_length_of_isSome _ _ (intElem_isSome e hb'), hxs, hl']
  · refine safe_bind safe_arrayLen (fun n _ => ?_)
    refine safe_ite' (fun _ => safe_fail) (fun hl => safe_ite' (fun _ => safe_fail) (fun hb => ?_))
    have hb' : isLongLike e = true := by simpa using hb
    have hl' : len = n := by simpa using hl
    refine safe_bind ⟨closed_readLongs closed_noPanic n, post_readLongs n⟩ (fun xs hxs => safe_pure ?_)
    simp only [Good, true_and]
    refine ⟨?_, goodList_filterMap e _ xs (longElem_good e)⟩
    rw [filterMap_length_of_isSome _ _ (longElem_isSome e hb'), hxs, hl']
  · refine safe_bind safe_listHeader (fun x _ => ?_)
    obtain ⟨lt, n⟩ := x
    simp only
    apply safe_ite safe_fail
    simp only [arrElems]
    refine safe_bind (safe_rdMapFirst (Q := Good e) (fun x => rec e x lt) (fun x hx => hr e x lt ht hx) n olds
      (goodList_mem hog)) (fun ys hys => safe_pure ?_)
    simp only [Good, true_and]
    exact ⟨by rw [hys.1, holen], goodList_of_forall e ys hys.2⟩
  · exact safe_refuseG tag

theorem good_map_inv {e : GoType} {v : GoVal} (h : Good (.map e) v) : ∃ nl kvs, v = .map e nl kvs ∧ GoodKvs e kvs := by
  cases v <;> simp [Good] at h
  obtain ⟨rfl, hg⟩ := h
  exact ⟨_, _, rfl, hg⟩

theorem goodKvs_set (e : GoType) (kvs : List (Bytes × GoVal)) (k : Bytes) (v : GoVal) (h : GoodKvs e kvs) (hv : Good e v) :
    GoodKvs e (setMapKV kvs k v) := by
  apply goodKvs_of_forall
  intro kv hkv
  unfold setMapKV NBT.mapSet at hkv
  rcases List.mem_append.mp hkv with h1 | h1
  · exact goodKvs_mem h kv (List.mem_filter.mp h1).1
  · simp only [List.mem_singleton] at h1
    subst h1
    exact hv

theorem safe_umMap (rec : Rec) (hr : RecSafe rec) (fuel : Nat) (e : GoType) (old : GoVal) (tag : Byte)
    (ht : TablesOK e) (hold : Good (.map e) old) : Safe (Good (.map e)) (umMap rec fuel e old tag) := by
  obtain ⟨nl, kvs0, rfl, hg0⟩ := good_map_inv hold
  unfold umMap
  split
  · refine safe_bind (safe_kvLoop (Q := GoodKvs e) _ (fun tt tn acc hacc => ?_) fuel _ (by simpa [mapEntries] using hg0))
      (fun kvs hkvs => safe_pure (by simp only [Good, true_and]; exact hkvs))
    exact safe_bind (hr e e.zero tt ht (zero_good e)) (fun v hv => safe_pure (goodKvs_set e acc tn v hacc hv))
  · exact safe_refuseG tag

theorem lookupField_lt (flds : List Fld) (key : Bytes) (i : Nat) (h : lookupField flds key = some i) : i < flds.length := by
  unfold lookupField at h
  split at h
  · rename_i j hj
    simp only [Option.some.injEq] at h
    subst h
    exact (List.findIdx?_eq_some_iff_getElem.mp hj).1
  · exact (List.findIdx?_eq_some_iff_getElem.mp h).1

theorem safe_structStep (rec : Rec) (hr : RecSafe rec) (disallow : Bool) (fuel : Nat) (n : Bytes)
    (fields : List (FieldInfo × GoType)) (tt : Byte) (tn : Bytes) (sv : GoVal)
    (ht : TablesOK (.struct n fields)) (hsv : Good (.struct n fields) sv) :
    Safe (Good (.struct n fields)) (structStep rec disallow fuel (typeFields (.struct n fields)) tt tn sv) := by
  unfold structStep
  split
  · rename_i i hi
    have hlt := lookupField_lt _ _ _ hi
    have hget : (typeFields (.struct n fields))[i]? = some ((typeFields (.struct n fields))[i]) := List.getElem?_eq_getElem hlt
    rw [hget]
    simp only
    have hpath : PathOKT ((typeFields (.struct n fields))[i]).index (.struct n fields) := by
      have := ht
      simp only [TablesOK] at this
      exact this.1 _ (List.getElem_mem hlt)
    refine safe_updAt _ (fun τ' x hx htx => ?_) _ _ sv true hpath hsv ht
    rw [good_typeOf τ' x hx]
    exact hr τ' x tt htx hx
  · apply safe_ite safe_fail
    exact safe_bind (safe_of_np ((closed_raw closed_noPanic fuel).1 tt)) (fun _ _ => safe_pure hsv)

theorem safe_umStruct (rec : Rec) (hr : RecSafe rec) (disallow : Bool) (fuel : Nat) (n : Bytes)
    (fields : List (FieldInfo × GoType)) (old : GoVal) (tag : Byte)
    (ht : TablesOK (.struct n fields)) (hold : Good (.struct n fields) old) :
    Safe (Good (.struct n fields)) (umStruct rec disallow fuel n fields old tag) := by
  unfold umStruct
  split
  · have hso : structOr (.struct n fields) old = old := by
      obtain ⟨fs, rfl, _⟩ := good_struct_inv hold
      rfl
    rw [hso]
    exact safe_kvLoop _ (fun tt tn sv hsv => safe_structStep rec hr disallow fuel n fields tt tn sv ht hsv) fuel old hold
  · exact safe_refuseG tag


theorem safe_umPtr (rec : Rec) (hr : RecSafe rec) (e : GoType) (old : GoVal) (tag : Byte)
    (ht : TablesOK e) (hold : Good (.ptr e) old) : Safe (Good (.ptr e)) (umPtr rec e old tag) := by
  unfold umPtr
  apply safe_ite safe_fail
  have hin : Good e (ptrInner e old) := by
    rcases good_ptr_inv hold with rfl | ⟨x, rfl, hx⟩
    · exact zero_good e
    · exact hx
  exact safe_bind (hr e _ tag ht hin) (fun r hr' => safe_pure (by simp only [Good, true_and]; exact hr'))

theorem safe_umIface (rec : Rec) (hr : RecSafe rec) (fuel : Nat) (old : GoVal) (tag : Byte)
    (hold : Good .iface old) : Safe (Good .iface) (umIface rec fuel old tag) := by
  unfold umIface
  apply safe_ite safe_fail
  split
  · rename_i e x
    simp only [Good, GoVal.typeOf, true_and] at hold
    obtain ⟨hx, hns⟩ := hold
    have hns' : NoStruct e := by simpa [NoStruct] using hns
    refine safe_bind (hr e x tag (tablesOK_of_noStruct e hns') hx) (fun r hr' => safe_pure ?_)
    simp only [Good, GoVal.typeOf, true_and]
    exact ⟨hr', hns⟩
  · rename_i x _
    simp only [Good] at hold
    obtain ⟨_, hns⟩ := hold
    refine safe_bind (hr x.typeOf _ tag (tablesOK_of_noStruct _ hns) (zero_good _)) (fun r hr' => safe_pure ?_)
    simp only [Good]
    rw [good_typeOf _ r hr']
    exact ⟨hr', hns⟩
  · exact safe_bind (safe_of_np ((closed_any closed_noPanic fuel).1 tag)) (fun v _ => safe_pure (by
      simp only [Good]; exact ofAny_good v))

theorem safe_umCarrier (cx : SnbtCarrier) (hdyn : ∀ tag, NoPanic (DynBT.unmarshal tag)) (hsn : ∀ tag, NoPanic (cx.unmarshal tag))
    (fuel : Nat) (ty : GoType) (tag : Byte) (hty : ty = .dyn ∨ ty = .raw ∨ ty = .snbt) :
    Safe (Good ty) (umCarrier cx fuel ty tag) := by
  unfold umCarrier
  rcases hty with rfl | rfl | rfl
  · exact safe_np_map (hdyn tag) _ (fun _ => by simp [Good])
  · exact safe_ite safe_fail (safe_np_map ((closed_raw closed_noPanic fuel).1 tag) _ (fun _ => by simp [Good]))
  · exact safe_ite safe_fail (safe_np_map (hsn tag) _ (fun _ => by simp [Good]))

/-- The typed decoder is total: for every destination type whose field tables are sound, every well-shaped
destination value, every tag and every source, `unmarshal` does not panic, and what it stores is again a
well-shaped value of the destination type. -/
theorem safe_unmarshal (cx : SnbtCarrier) (disallow : Bool)
    (hdyn : ∀ tag, NoPanic (DynBT.unmarshal tag)) (hsn : ∀ tag, NoPanic (cx.unmarshal tag)) :
    ∀ fuel, RecSafe (unmarshal cx disallow fuel) := by
  intro fuel
  induction fuel with
  | zero => intro ty old tag _ _; unfold unmarshal; exact safe_fail
  | succ f ih =>
    intro ty old tag ht hold
    unfold unmarshal
    split
    · exact safe_umCarrier cx hdyn hsn _ _ _ (Or.inl rfl)
    · exact safe_umCarrier cx hdyn hsn _ _ _ (Or.inr (Or.inl rfl))
    · exact safe_umCarrier cx hdyn hsn _ _ _ (Or.inr (Or.inr rfl))
    · exact safe_umPtr _ ih _ _ _ (by simpa [TablesOK] using ht) hold
    · exact safe_umIface _ ih _ _ _ hold
    · exact safe_umBool _
    · exact safe_umInt _ _
    · exact safe_umF32 _
    · exact safe_umF64 _
    · exact safe_umStr _
    · exact safe_umSlice _ ih _ _ _ (by simpa [TablesOK] using ht)
    · exact safe_umArray _ ih _ _ _ _ (by simpa [TablesOK] using ht) hold
    · exact safe_umMap _ ih _ _ _ _ (by simpa [TablesOK] using ht) hold
    · exact safe_umStruct _ ih _ _ _ _ _ _ ht hold

/-- `Decode(&v)` into a fresh variable of any type: never a panic -/
theorem decodeTyped_noPanic (cx : SnbtCarrier) (network disallow : Bool) (ty : GoType)
    (hdyn : ∀ tag, NoPanic (DynBT.unmarshal tag)) (hsn : ∀ tag, NoPanic (cx.unmarshal tag)) (ht : TablesOK ty) (s : Stream) :
    (decodeTyped cx network disallow ty s).1 ≠ Res.panic := by
  unfold decodeTyped decodeTypedF
  refine (safe_bind (Q1 := fun _ => True) (Q2 := fun _ => True)
    (safe_of_np (closed_readHead closed_noPanic network)) (fun x _ => ?_)).1 s
  obtain ⟨t, name⟩ := x
  simp only
  exact safe_bind (safe_unmarshal cx disallow hdyn hsn _ ty ty.zero t ht (zero_good ty)) (fun _ _ => safe_pure trivial)

/-! ### the index paths of `typeFields` exist in the type (`TablesOK` holds for every type) -/

def typeAt : List Nat → GoType → Option GoType
  | [], t => some t
  | i :: is, t =>
    match derefT t with
    | .struct _ fields => (fields[i]?).bind fun f => typeAt is f.2
    | _ => none

theorem pathOKT_of_typeAt : ∀ (p : List Nat) (t : GoType), (typeAt p t).isSome → PathOKT p t
  | [], _, _ => trivial
  | i :: is, t, h => by
    unfold typeAt at h
    unfold PathOKT
    split at h
    · rename_i n fields hd
      try rw [hd]
      try simp only
      cases hf : fields[i]? with
      | none => simp [hf] at h
      | some f =>
        simp only [hf, Option.bind_some] at h
        exact ⟨f.1, f.2, rfl, pathOKT_of_typeAt is f.2 h⟩
    · simp at h

theorem typeAt_append : ∀ (p q : List Nat) (t : GoType), typeAt (p ++ q) t = (typeAt p t).bind (typeAt q)
  | [], q, t => by simp [typeAt]
  | i :: is, q, t => by
    simp only [List.cons_append, typeAt]
    split
    · rename_i n fields hd
      cases hf : fields[i]? with
      | none => simp
      | some f => simp [typeAt_append is q f.2]
    · simp

theorem mem_insertBy {α : Type} (lt : α → α → Bool) (x y : α) : ∀ xs : List α, y ∈ insertBy lt x xs ↔ y = x ∨ y ∈ xs
  | [] => by simp [insertBy]
  | z :: zs => by
    unfold insertBy
    split
    · simp
    · simp only [List.mem_cons, mem_insertBy lt x y zs]
      constructor
      · rintro (h | h | h)
        · exact Or.inr (Or.inl h)
        · exact Or.inl h
        · exact Or.inr (Or.inr h)
      · rintro (h | h | h)
        · exact Or.inr (Or.inl h)
        · exact Or.inl h
        · exact Or.inr (Or.inr h)

theorem mem_sortBy {α : Type} (lt : α → α → Bool) (y : α) : ∀ xs : List α, y ∈ sortBy lt xs ↔ y ∈ xs
  | [] => by simp [sortBy]
  | x :: xs => by
    unfold sortBy
    rw [mem_insertBy, mem_sortBy lt y xs]
    simp

theorem mem_spanName (name : Bytes) (y : Fld) : ∀ fs : List Fld, y ∈ (spanName name fs).2 → y ∈ fs
  | [], h => by simp [spanName] at h
  | f :: fs, h => by
    unfold spanName at h
    split at h
    · simp only at h
      exact List.mem_cons_of_mem _ (mem_spanName name y fs h)
    · exact h

theorem mem_dominate (y : Fld) : ∀ (fuel : Nat) (fs : List Fld), y ∈ dominate fuel fs → y ∈ fs
  | 0, _, h => by simp [dominate] at h
  | _ + 1, [], h => by simp [dominate] at h
  | fuel + 1, f :: fs, h => by
    unfold dominate at h
    simp only at h
    split at h
    · rename_i hs
      rcases List.mem_cons.mp h with rfl | h'
      · exact List.mem_cons_self
      · exact List.mem_cons_of_mem _ (mem_spanName _ y fs (mem_dominate y fuel _ h'))
    · split at h
      · exact List.mem_cons_of_mem _ (mem_spanName _ y fs (mem_dominate y fuel _ h))
      · rcases List.mem_cons.mp h with rfl | h'
        · exact List.mem_cons_self
        · exact List.mem_cons_of_mem _ (mem_spanName _ y fs (mem_dominate y fuel _ h'))


theorem stripPtr_eq_derefT (t : GoType) : stripPtr t = derefT t := by cases t <;> rfl

/-- what the scan keeps true: recorded fields and queued embedded structs sit at existing paths of `σ` -/
def InvS (σ : GoType) (st : Scan) : Prop :=
  (∀ fld ∈ st.fields, (typeAt fld.index σ).isSome) ∧
  (∀ e ∈ st.next, ∃ ty, typeAt e.2 σ = some ty ∧ derefT ty = e.1)

theorem typeAt_snoc (σ tyP : GoType) (idx : List Nat) (nm : Bytes) (all : List (FieldInfo × GoType)) (i : Nat)
    (sf : FieldInfo) (ty : GoType) (hp : typeAt idx σ = some tyP) (hd : derefT tyP = .struct nm all)
    (hi : all[i]? = some (sf, ty)) : typeAt (idx ++ [i]) σ = some ty := by
  rw [typeAt_append, hp]
  simp only [Option.bind_some, typeAt, hd, hi]

theorem scanAct_record (idx : List Nat) (i : Nat) (sf : FieldInfo) (ty : GoType) (fld : Fld)
    (h : scanAct idx i sf ty = .record fld) : fld.index = idx ++ [i] := by
  revert h
  unfold scanAct
  split
  · intro h; cases h
  · split
    · intro h; cases h
    · split
      · intro h
        simp only [ScanAct.record.injEq] at h
        rw [← h]; rfl
      · intro h; cases h

theorem scanAct_queue (idx : List Nat) (i : Nat) (sf : FieldInfo) (ty ft : GoType) (index : List Nat)
    (h : scanAct idx i sf ty = .queue ft index) : index = idx ++ [i] ∧ ft = stripPtr ty := by
  revert h
  unfold scanAct
  split
  · intro h; cases h
  · split
    · intro h; cases h
    · split
      · intro h; cases h
      · intro h
        simp only [ScanAct.queue.injEq] at h
        exact ⟨h.2.symm, h.1.symm⟩

theorem scanFields_inv (σ tyP : GoType) (dup : Bool) (idx : List Nat) (nm : Bytes) (all : List (FieldInfo × GoType))
    (hp : typeAt idx σ = some tyP) (hd : derefT tyP = .struct nm all) :
    ∀ (rest : List (FieldInfo × GoType)) (i : Nat) (st : Scan), all.drop i = rest → InvS σ st →
      InvS σ (scanFields dup idx i rest st)
  | [], _, st, _, h => by unfold scanFields; exact h
  | (sf, ty) :: rest, i, st, hdrop, h => by
    have hi : all[i]? = some (sf, ty) := by
      have := congrArg List.head? hdrop
      simpa [List.head?_drop] using this
    have hrest : all.drop (i + 1) = rest := by
      have := congrArg List.tail hdrop
      simpa [List.tail_drop] using this
    have hty := typeAt_snoc σ tyP idx nm all i sf ty hp hd hi
    have ih := scanFields_inv σ tyP dup idx nm all hp hd rest (i + 1)
    unfold scanFields
    split
    · exact ih st hrest h
    · rename_i fld hact
      apply ih _ hrest
      refine ⟨?_, h.2⟩
      intro f hf
      simp only [List.mem_append] at hf
      rcases hf with h1 | h1
      · exact h.1 f h1
      · have hfe : f = fld := by
          split at h1
          · simp only [List.mem_cons, List.mem_nil_iff, or_false, or_self] at h1; exact h1
          · simp only [List.mem_singleton] at h1; exact h1
        rw [hfe, scanAct_record idx i sf ty fld hact, hty]; rfl
    · rename_i ft index hact
      obtain ⟨hidx, hft⟩ := scanAct_queue idx i sf ty ft index hact
      simp only
      split
      · apply ih _ hrest
        refine ⟨h.1, ?_⟩
        intro e he
        simp only [List.mem_append, List.mem_singleton] at he
        rcases he with h1 | rfl
        · exact h.2 e h1
        · exact ⟨ty, by rw [hidx]; exact hty, by rw [hft, stripPtr_eq_derefT]⟩
      · exact ih _ hrest ⟨h.1, h.2⟩

theorem scanLevel_inv (σ : GoType) (count : List (GoType × Nat)) :
    ∀ (cur : List (GoType × List Nat)) (visited : List GoType) (st : Scan),
      (∀ e ∈ cur, ∃ ty, typeAt e.2 σ = some ty ∧ derefT ty = e.1) → InvS σ st →
      InvS σ (scanLevel count cur visited st).1
  | [], _, st, _, h => by unfold scanLevel; exact h
  | (t, idx) :: cur, visited, st, hc, h => by
    have hcur : ∀ e ∈ cur, ∃ ty, typeAt e.2 σ = some ty ∧ derefT ty = e.1 := fun e he => hc e (List.mem_cons_of_mem _ he)
    unfold scanLevel
    split
    · exact scanLevel_inv σ count cur visited st hcur h
    · apply scanLevel_inv σ count cur _ _ hcur
      obtain ⟨tyP, hp, hd⟩ := hc (t, idx) (List.mem_cons_self)
      simp only at hp hd
      cases t with
      | struct nm all =>
        simp only [structFieldsOf]
        exact scanFields_inv σ tyP _ idx nm all hp hd all 0 st (by simp) h
      | _ => simp only [structFieldsOf]; unfold scanFields; exact h

theorem scanAll_inv (σ : GoType) : ∀ (fuel : Nat) (cur : List (GoType × List Nat)) (count : List (GoType × Nat))
    (visited : List GoType) (acc : List Fld),
      (∀ e ∈ cur, ∃ ty, typeAt e.2 σ = some ty ∧ derefT ty = e.1) → (∀ fld ∈ acc, (typeAt fld.index σ).isSome) →
      ∀ fld ∈ scanAll fuel cur count visited acc, (typeAt fld.index σ).isSome
  | 0, _, _, _, acc, _, ha => by unfold scanAll; exact ha
  | fuel + 1, cur, count, visited, acc, hc, ha => by
    unfold scanAll
    split
    · exact ha
    · have hinv := scanLevel_inv σ count cur visited { fields := acc } hc ⟨ha, by intro e he; cases he⟩
      simp only
      exact scanAll_inv σ fuel _ _ _ _ hinv.2 hinv.1

/-- every index path of a field table exists in the struct type -/
theorem typeFields_paths (n : Bytes) (fields : List (FieldInfo × GoType)) :
    ∀ fld ∈ typeFields (.struct n fields), PathOKT fld.index (.struct n fields) := by
  intro fld hfld
  unfold typeFields at hfld
  simp only at hfld
  rw [mem_sortBy] at hfld
  have h2 := mem_dominate fld _ _ hfld
  rw [mem_sortBy] at h2
  apply pathOKT_of_typeAt
  refine scanAll_inv (.struct n fields) _ [(.struct n fields, [])] [] [] [] ?_ (by intro f hf; cases hf) fld h2
  intro e he
  simp only [List.mem_singleton] at he
  subst he
  exact ⟨.struct n fields, rfl, rfl⟩

mutual
  theorem tablesOK_all : ∀ t : GoType, TablesOK t
    | .slice e | .array _ e | .map e | .ptr e => by simp only [TablesOK]; exact tablesOK_all e
    | .struct n fields => by
      simp only [TablesOK]
      exact ⟨typeFields_paths n fields, tablesOKFields_all fields⟩
    | .bool | .int _ | .f32 | .f64 | .str | .iface | .raw | .snbt | .dyn => by simp [TablesOK]
  theorem tablesOKFields_all : ∀ fs : List (FieldInfo × GoType), TablesOKFields fs
    | [] => by simp [TablesOKFields]
    | (_, t) :: fs => by simp only [TablesOKFields]; exact ⟨tablesOK_all t, tablesOKFields_all fs⟩
end


/-- `Decode(&v)` into a fresh variable of ANY type of the universe never panics (given that the two foreign
carriers' decoders do not) -/
theorem decodeTyped_total (cx : SnbtCarrier) (network disallow : Bool) (ty : GoType)
    (hdyn : ∀ tag, NoPanic (DynBT.unmarshal tag)) (hsn : ∀ tag, NoPanic (cx.unmarshal tag)) (s : Stream) :
    (decodeTyped cx network disallow ty s).1 ≠ Res.panic :=
  decodeTyped_noPanic cx network disallow ty hdyn hsn (tablesOK_all ty) s

end GoMC.Lemmas.NBTTotal
