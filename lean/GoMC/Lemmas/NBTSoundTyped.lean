/-
  Soundness of the TYPED decoder: whenever `unmarshal` into a destination of any type of the universe
  (`Model/GoVal`) holding any well-shaped value returns, the bytes it consumed are the payload of a well-formed tree
  with the tag it was called with. `Snd` is the consumed-bytes postcondition of `Lemmas/NBTSound`; the shape of the
  destination (`Good`) along the way is what `Lemmas/NBTTotal` establishes (`safe_unmarshal`).
-/
import GoMC.Lemmas.NBTSound
import GoMC.Lemmas.NBTTotal
import GoMC.Lemmas.DynBT
set_option linter.unusedSimpArgs false
namespace GoMC.Lemmas.NBTSound
open GoMC GoMC.Rd GoMC.Model GoMC.Model.NBT GoMC.Model.Go GoMC.Lemmas.NBTDecode GoMC.Lemmas.NBTTyped GoMC.Lemmas.NBTTotal
open GoMC.Spec (NBT encPayload encList encKvs encString encDoc be16 be32 be64 beBytes beVal Format docName)

/-- the bytes are the payload of a well-formed tree with this tag -/
def PayQ (tag : Byte) (enc : Bytes) : Prop := ∃ t : NBT, t.tag = tag ∧ t.WF ∧ S15 t ∧ enc = encPayload t
/-- … the elements of a list of `n` trees of tag `lt` -/
def ListPQ (lt : Byte) (n : Nat) (enc : Bytes) : Prop :=
  ∃ ts : List NBT, ts.length = n ∧ NBT.WFList lt ts ∧ S15List ts ∧ enc = encList ts
/-- … the entries of a compound, with the End byte -/
def KvsPQ (enc : Bytes) : Prop := ∃ kvs : List (Bytes × NBT), NBT.WFKvs kvs ∧ S15Kvs kvs ∧ enc = encKvs kvs

/-- the consumed-bytes postcondition alone -/
abbrev SndB {α : Type} (Q : Bytes → Prop) (p : Rd α) : Prop := Snd (fun _ enc => Q enc) p

theorem snd_crash {α : Type} (Q : α → Bytes → Prop) : Snd Q (Rd.crash : Rd α) := by
  intro s v s' h; simp [Rd.crash] at h

theorem snd_then_fail {α β : Type} (Q : β → Bytes → Prop) (p : Rd α) : Snd Q (p >>= fun _ => (Rd.fail : Rd β)) := by
  intro s v s' h
  rw [Rd.bind_apply] at h
  rcases hps : p s with ⟨r, s1⟩
  rw [hps] at h
  cases r <;> simp [Rd.fail] at h

theorem snd_refuseG {α : Type} (Q : α → Bytes → Prop) (tag : Byte) : Snd Q (refuseG tag : Rd α) := by
  unfold refuseG; exact snd_then_fail Q _

/-- the invariant a successful run establishes can be added to what it consumed -/
theorem snd_with_post {α : Type} {Q : α → Bytes → Prop} {G : α → Prop} {p : Rd α} (hs : Snd Q p) (hp : Post G p) :
    Snd (fun v enc => Q v enc ∧ G v) p := by
  intro s v s' h
  obtain ⟨enc, h1, h2, h3⟩ := hs s v s' h
  exact ⟨enc, h1, h2, h3, hp s v s' h⟩

theorem payQ_of_any {tag : Byte} {v : GoAny} {enc : Bytes} (h : AnyQ tag v enc) : PayQ tag enc := by
  obtain ⟨t, h1, h2, h3, h4, _⟩ := h; exact ⟨t, h1, h2, h3, h4⟩
theorem payQ_of_raw {tag : Byte} {bs enc : Bytes} (h : RawQ tag bs enc) : PayQ tag enc := by
  obtain ⟨rfl, t, h1, h2, h3, h4⟩ := h; exact ⟨t, h1, h2, h3, h4⟩

theorem sndB_any (fuel : Nat) (tag : Byte) : SndB (PayQ tag) (unmarshalAny fuel tag) :=
  snd_mono (fun _ _ h => payQ_of_any h) ((snd_all fuel).1 tag)
theorem sndB_raw (fuel : Nat) (tag : Byte) : SndB (PayQ tag) (rawRead fuel tag) :=
  snd_mono (fun _ _ h => payQ_of_raw h) ((snd_raw_all fuel).1 tag)

/-- … or nothing at all for the tag End: a lone End byte is "no value", which `dynbt.Value` accepts -/
def PayQ0 (tag : Byte) (enc : Bytes) : Prop := PayQ tag enc ∨ (tag = 0#8 ∧ enc = [])

theorem payQ_of_ne {tag : Byte} {enc : Bytes} (hne : tag ≠ 0#8) (h : PayQ0 tag enc) : PayQ tag enc := by
  rcases h with h | ⟨h0, _⟩
  · exact h
  · exact absurd h0 hne

/-! ### `dynbt.Value` -/

theorem toSigned2_nonneg (n : Nat) (hn : n < 65536) (h : ¬ DynBT.toSigned 2 n < 0) :
    n < 32768 ∧ (DynBT.toSigned 2 n).toNat = n ∧ DynBT.toSigned 2 n = n := by
  unfold DynBT.toSigned at h ⊢
  split <;> simp_all <;> omega
theorem toSigned4_nonneg (n : Nat) (hn : n < 4294967296) (h : ¬ DynBT.toSigned 4 n < 0) :
    n < 2147483648 ∧ (DynBT.toSigned 4 n).toNat = n ∧ DynBT.toSigned 4 n = n := by
  unfold DynBT.toSigned at h ⊢
  split <;> simp_all <;> omega

theorem snd_dynInt16 : Snd (fun n enc => enc.length = 2 ∧ n = DynBT.toSigned 2 (beVal enc)) DynBT.readInt16 := by
  unfold DynBT.readInt16
  refine snd_mono ?_ (snd_bind (snd_readFull 2) (fun h => snd_pure (DynBT.toSigned 2 (beVal h))))
  rintro v enc ⟨h, e1, e2, rfl, ⟨rfl, hl⟩, rfl, rfl⟩
  simp [hl]
theorem snd_dynInt32 : Snd (fun n enc => enc.length = 4 ∧ n = DynBT.toSigned 4 (beVal enc)) DynBT.readInt32 := by
  unfold DynBT.readInt32
  refine snd_mono ?_ (snd_bind (snd_readFull 4) (fun h => snd_pure (DynBT.toSigned 4 (beVal h))))
  rintro v enc ⟨h, e1, e2, rfl, ⟨rfl, hl⟩, rfl, rfl⟩
  simp [hl]

/-- a byte string of `k·n` bytes is the concatenation of `n` big-endian words -/
theorem words32 : ∀ (n : Nat) (d : Bytes), d.length = 4 * n → ∃ xs : List (BitVec 32), xs.length = n ∧ (xs.map be32).flatten = d
  | 0, d, h => ⟨[], rfl, by simp [List.length_eq_zero_iff.mp (by omega : d.length = 0)]⟩
  | n + 1, d, h => by
    obtain ⟨xs, hl, hx⟩ := words32 n (d.drop 4) (by simp; omega)
    refine ⟨beWord 32 (d.take 4) :: xs, by simp [hl], ?_⟩
    simp only [List.map_cons, List.flatten_cons, hx, be32_beWord (d.take 4) (by simp; omega), List.take_append_drop]
theorem words64 : ∀ (n : Nat) (d : Bytes), d.length = 8 * n → ∃ xs : List (BitVec 64), xs.length = n ∧ (xs.map be64).flatten = d
  | 0, d, h => ⟨[], rfl, by simp [List.length_eq_zero_iff.mp (by omega : d.length = 0)]⟩
  | n + 1, d, h => by
    obtain ⟨xs, hl, hx⟩ := words64 n (d.drop 8) (by simp; omega)
    refine ⟨beWord 64 (d.take 8) :: xs, by simp [hl], ?_⟩
    simp only [List.map_cons, List.flatten_cons, hx, be64_beWord (d.take 8) (by simp; omega), List.take_append_drop]

theorem beBytes4_self (h : Bytes) (hl : h.length = 4) : beBytes 4 (beVal h) = h := by
  rw [← hl]; exact beBytes_beVal h
theorem beBytes2_self (h : Bytes) (hl : h.length = 2) : beBytes 2 (beVal h) = h := by
  rw [← hl]; exact beBytes_beVal h

/-- the array branches: a non-negative count, then `k` bytes per element -/
theorem snd_dynArray (tag : Byte) (k : Nat) :
    SndB (fun enc => ∃ (h d : Bytes), enc = h ++ d ∧ h.length = 4 ∧ beVal h < 2147483648 ∧ d.length = beVal h * k)
      (DynBT.unmArray tag k) := by
  unfold DynBT.unmArray
  refine snd_mono ?_ (snd_bind snd_dynInt32 (fun n => snd_guard (fun _ =>
    snd_bind (Q := fun (_ : Unit) enc => enc = []) (Q' := fun _ (_ : DynBT.Val) enc => ∃ d : Bytes, enc = d ∧ d.length = (4 + n * k - 4).toNat)
      (by unfold DynBT.goMake; exact snd_ite (fun _ => snd_crash _) (fun _ => snd_mono (fun _ _ h => h.2) (snd_pure ())))
      (fun _ => snd_ite (fun _ => snd_crash _) (fun _ => snd_mono (fun v enc hh => by
          obtain ⟨d, e1, e2, rfl, ⟨rfl, hl⟩, _, rfl⟩ := hh
          exact ⟨e1, by simp, hl⟩)
        (snd_bind (snd_readFull _) (fun d => snd_pure (DynBT.Val.leaf tag (beBytes 4 n.toNat ++ d)))))))))
  rintro v enc ⟨n, h, e2, rfl, ⟨hl, rfl⟩, hn, _, e3, e4, rfl, rfl, d, rfl, hd⟩
  have hlt := GoMC.Spec.beVal_lt h
  rw [hl] at hlt
  obtain ⟨h1, h2, h3⟩ := toSigned4_nonneg (beVal h) (by omega) hn
  refine ⟨h, e4, by simp, hl, h1, ?_⟩
  rw [hd, h3]
  have : ((4 : Int) + (beVal h : Int) * (k : Int) - 4) = ((beVal h * k : Nat) : Int) := by push_cast; omega
  rw [this]; exact Int.toNat_natCast _

theorem snd_dynString (tag : Byte) :
    SndB (fun enc => ∃ (h d : Bytes), enc = h ++ d ∧ h.length = 2 ∧ beVal h < 32768 ∧ d.length = beVal h) (DynBT.unmString tag) := by
  unfold DynBT.unmString
  refine snd_mono ?_ (snd_bind snd_dynInt16 (fun n => snd_guard (fun _ =>
    snd_bind (Q := fun (_ : Unit) enc => enc = []) (Q' := fun _ (_ : DynBT.Val) enc => ∃ d : Bytes, enc = d ∧ d.length = (2 + n - 2).toNat)
      (by unfold DynBT.goMake; exact snd_ite (fun _ => snd_crash _) (fun _ => snd_mono (fun _ _ h => h.2) (snd_pure ())))
      (fun _ => snd_ite (fun _ => snd_crash _) (fun _ => snd_mono (fun v enc hh => by
          obtain ⟨d, e1, e2, rfl, ⟨rfl, hl⟩, _, rfl⟩ := hh
          exact ⟨e1, by simp, hl⟩)
        (snd_bind (snd_readFull _) (fun d => snd_pure (DynBT.Val.leaf tag (beBytes 2 n.toNat ++ d)))))))))
  rintro v enc ⟨n, h, e2, rfl, ⟨hl, rfl⟩, hn, _, e3, e4, rfl, rfl, d, rfl, hd⟩
  have hlt := GoMC.Spec.beVal_lt h
  rw [hl] at hlt
  obtain ⟨h1, h2, h3⟩ := toSigned2_nonneg (beVal h) (by omega) hn
  refine ⟨h, e4, by simp, hl, h1, ?_⟩
  rw [hd, h3]
  have : ((2 : Int) + (beVal h : Int) - 2) = ((beVal h : Nat) : Int) := by omega
  rw [this]; exact Int.toNat_natCast _

/-! ### headers and loops -/

theorem snd_arrayLen : Snd (fun n enc => n < 2147483648 ∧ enc = beBytes 4 n) arrayLen := by
  unfold arrayLen
  refine snd_mono ?_ (snd_bind snd_readInt32 (fun n => snd_guard (fun _ => snd_pure n.toNat)))
  rintro v enc ⟨n, e1, e2, rfl, rfl, hm, rfl, rfl⟩
  have hm' : n.msb = false := by simpa using hm
  exact ⟨msb32_lt n hm', by simp [be32]⟩

theorem snd_listHeader :
    Snd (fun (r : Byte × Nat) enc => r.1.toNat ≤ 12 ∧ r.2 < 2147483648 ∧ (r.1 = 0#8 → r.2 = 0) ∧ enc = r.1 :: beBytes 4 r.2)
      listHeader := by
  unfold listHeader
  refine snd_mono ?_ (snd_bind snd_readByte (fun lt => snd_guard (fun _ => snd_bind snd_readInt32 (fun n =>
    snd_guard (fun _ => snd_guard (fun _ => snd_pure (lt, n.toNat)))))))
  rintro ⟨lt', n'⟩ enc ⟨lt, e1, e2, rfl, rfl, hle, n, e3, e4, rfl, rfl, hm, hne, h, rfl⟩
  simp only [Prod.mk.injEq] at h
  obtain ⟨rfl, rfl⟩ := h
  have hm' : n.msb = false := by simpa using hm
  refine ⟨by simp only; omega, msb32_lt n hm', fun h0 => ?_, by simp [be32]⟩
  have : ¬ n.toNat > 0 := fun hp => hne ⟨h0, hp⟩
  simp only; omega

theorem snd_rdRepeat {α : Type} (lt : Byte) (p : Rd α) (hp : lt ≠ 0#8 → SndB (PayQ lt) p) :
    ∀ n, (lt = 0#8 → n = 0) → SndB (ListPQ lt n) (rdRepeat p n)
  | 0, _ => by
    unfold rdRepeat
    exact snd_mono (fun v enc h => ⟨[], rfl, trivial, trivial, by rw [h.2]; rfl⟩) (snd_pure [])
  | n + 1, h0 => by
    have hne : lt ≠ 0#8 := fun e => by have := h0 e; omega
    unfold rdRepeat
    refine snd_mono ?_ (snd_bind (hp hne) (fun x => snd_bind (snd_rdRepeat lt p hp n (fun e => absurd e hne)) (fun xs => snd_pure (x :: xs))))
    rintro v enc ⟨x, e1, e2, rfl, ⟨t, htag, hwf, hs, rfl⟩, xs, e3, e4, rfl, ⟨ts, hl, hw, hss, rfl⟩, rfl, rfl⟩
    exact ⟨t :: ts, by simp [hl], ⟨htag, hwf, hw⟩, ⟨hs, hss⟩, by simp [encList]⟩

theorem snd_rdMapFirst (lt : Byte) (k : GoVal → Rd GoVal) : ∀ (n : Nat) (xs : List GoVal),
    (lt ≠ 0#8 → ∀ x ∈ xs, SndB (PayQ lt) (k x)) → n ≤ xs.length → (lt = 0#8 → n = 0) → SndB (ListPQ lt n) (rdMapFirst k n xs)
  | 0, xs, _, _, _ => by
    unfold rdMapFirst
    exact snd_mono (fun v enc h => ⟨[], rfl, trivial, trivial, by rw [h.2]; rfl⟩) (snd_pure xs)
  | n + 1, [], _, hl, _ => by simp at hl
  | n + 1, x :: xs, hk, hl, h0 => by
    have hne : lt ≠ 0#8 := fun e => by have := h0 e; omega
    unfold rdMapFirst
    refine snd_mono ?_ (snd_bind (hk hne x List.mem_cons_self) (fun y =>
      snd_bind (snd_rdMapFirst lt k n xs (fun hn x' hx' => hk hn x' (List.mem_cons_of_mem _ hx')) (by simpa using hl)
        (fun e => absurd e hne)) (fun ys => snd_pure (y :: ys))))
    rintro v enc ⟨y, e1, e2, rfl, ⟨t, htag, hwf, hs, rfl⟩, ys, e3, e4, rfl, ⟨ts, hl', hw, hss, rfl⟩, rfl, rfl⟩
    exact ⟨t :: ts, by simp [hl'], ⟨htag, hwf, hw⟩, ⟨hs, hss⟩, by simp [encList]⟩

/-- `bind` where the continuation is only known on the values the first program can return -/
theorem snd_bind_of {α β : Type} {Q : α → Bytes → Prop} {G : α → Prop} {Q' : α → β → Bytes → Prop} {p : Rd α} {f : α → Rd β}
    (hp : Snd Q p) (hG : ∀ a e, Q a e → G a) (hf : ∀ a, G a → Snd (Q' a) (f a)) :
    Snd (fun b enc => ∃ a e1 e2, enc = e1 ++ e2 ∧ Q a e1 ∧ Q' a b e2) (p >>= f) := by
  intro s v s' h
  rw [Rd.bind_apply] at h
  rcases hps : p s with ⟨r, s1⟩
  rw [hps] at h
  cases r with
  | ok a =>
    simp only at h
    obtain ⟨e1, h1, h2, h3⟩ := hp s a s1 hps
    obtain ⟨e2, g1, g2, g3⟩ := hf a (hG a e1 h3) s1 v s' h
    exact ⟨e1 ++ e2, by rw [h1, g1, List.append_assoc], by rw [g2, h2], a, e1, e2, rfl, h3, g3⟩
  | err => simp at h
  | panic => simp at h

/-- the compound loop, for a step that keeps an invariant of the state and consumes one payload -/
theorem snd_kvLoop {σ : Type} (Inv : σ → Prop) (step : Byte → Bytes → σ → Rd σ)
    (hstep : ∀ tt tn st, tt ≠ 0#8 → Inv st → SndB (PayQ tt) (step tt tn st) ∧ Post Inv (step tt tn st)) :
    ∀ (w : Nat) (st : σ), Inv st → SndB KvsPQ (kvLoop step w st)
  | 0, _, _ => by unfold kvLoop; exact snd_fail _
  | w + 1, st, hst => by
    unfold kvLoop
    refine snd_mono ?_ (snd_bind snd_readTag (fun r =>
      snd_ite (Q := fun (_ : σ) enc => (r.1 = 0#8 ∧ enc = []) ∨
          (r.1 ≠ 0#8 ∧ ∃ (t : NBT) (kvs : List (Bytes × NBT)), t.tag = r.1 ∧ t.WF ∧ S15 t ∧ NBT.WFKvs kvs ∧ S15Kvs kvs ∧
            enc = encPayload t ++ encKvs kvs))
        (fun h0 => snd_mono (fun v enc h => Or.inl ⟨h0, h.2⟩) (snd_pure st))
        (fun h0 => snd_mono (fun v enc hh => by
            obtain ⟨st', e1, e2, rfl, ⟨⟨t, htag, hwf, hs, rfl⟩, _⟩, kvs, hw, hss, rfl⟩ := hh
            exact Or.inr ⟨h0, t, kvs, htag, hwf, hs, hw, hss, rfl⟩)
          (snd_bind_of (G := Inv) (snd_with_post (hstep r.1 r.2 st h0 hst).1 (hstep r.1 r.2 st h0 hst).2) (fun _ _ h => h.2)
            (fun st' hi => snd_kvLoop Inv step hstep w st' hi)))))
    rintro v enc ⟨⟨tt, tn⟩, e1, e2, rfl, hhdr, hres⟩
    rcases hres with ⟨h0, rfl⟩ | ⟨h0, t, kvs, htag, hwf, hs, hw, hss, rfl⟩
    · rcases hhdr with ⟨_, _, rfl⟩ | ⟨hne, _⟩
      · exact ⟨[], trivial, trivial, by simp [encKvs, NBT.tagEnd]⟩
      · exact absurd h0 hne
    · rcases hhdr with ⟨h0', _⟩ | ⟨_, _, _, rfl, hl⟩
      · exact absurd h0' h0
      · refine ⟨(tn, t) :: kvs, ⟨by simp only at hl; omega, hwf, hw⟩, ⟨hl, hs, hss⟩, ?_⟩
        simp only at htag
        simp [encKvs, htag]

theorem sndB_map {α β : Type} {Q : Bytes → Prop} {p : Rd α} (hp : SndB Q p) (g : α → β) :
    SndB Q (p >>= fun a => (Pure.pure (g a) : Rd β)) := by
  refine snd_mono ?_ (snd_bind hp (fun a => snd_pure (g a)))
  rintro v enc ⟨a, e1, e2, rfl, h, _, rfl⟩
  simpa using h

theorem sndB_updField (Q : Bytes → Prop) (rec : Bool → GoVal → Rd GoVal) (i : Nat) (n : Bytes)
    (fields : List (FieldInfo × GoType)) (fs : List GoVal) (info : FieldInfo) (ty : GoType)
    (hf : fields[i]? = some (info, ty)) (hg : GoodFields fields fs)
    (hr : ∀ fv, Good ty fv → SndB Q (rec info.exported fv)) :
    SndB Q (updField rec i (.struct n fields fs)) := by
  obtain ⟨fv, hfv, hgood⟩ := goodFields_get hg hf
  unfold updField
  simp only [hfv, hf]
  exact sndB_map (hr fv hgood) _

theorem sndB_updAt (Q : Bytes → Prop) (k : GoVal → Rd GoVal) (hk : ∀ τ' x, Good τ' x → SndB Q (k x)) :
    ∀ (path : List Nat) (τ : GoType) (v : GoVal) (settable : Bool), PathOKT path τ → Good τ v →
      SndB Q (updAt k path settable v)
  | [], τ, v, _, _, hg => by unfold updAt; exact hk τ v hg
  | i :: is, τ, v, settable, hp, hg => by
    unfold updAt
    cases τ with
    | struct n fields =>
      obtain ⟨fs, rfl, hgf⟩ := good_struct_inv hg
      simp only [PathOKT, derefT] at hp
      obtain ⟨info, ty, hf, hp'⟩ := hp
      simp only
      exact sndB_updField Q _ i n fields fs info ty hf hgf
        (fun fv hfv => sndB_updAt Q k hk is ty fv info.exported hp' hfv)
    | ptr e =>
      simp only [PathOKT, derefT] at hp
      cases e with
      | struct n fields =>
        obtain ⟨info, ty, hf, hp'⟩ := hp
        have hstep : ∀ fs, GoodFields fields fs → SndB Q (updField (updAt k is) i (.struct n fields fs)) :=
          fun fs hgf => sndB_updField Q _ i n fields fs info ty hf hgf
            (fun fv hfv => sndB_updAt Q k hk is ty fv info.exported hp' hfv)
        rcases good_ptr_inv hg with rfl | ⟨x, rfl, hx⟩
        · simp only
          refine snd_ite (fun _ => snd_fail _) (fun _ => ?_)
          have hz := zero_good (.struct n fields)
          obtain ⟨fs, hzs, hgf⟩ := good_struct_inv hz
          rw [hzs]
          exact sndB_map (hstep fs hgf) _
        · simp only
          obtain ⟨fs, rfl, hgf⟩ := good_struct_inv hx
          exact sndB_map (hstep fs hgf) _
      | _ => simp at hp
    | _ => simp [PathOKT, derefT] at hp

/-! ### the branches of `unmarshal` -/

/-- what the induction over the fuel knows of the decoder one level down -/
abbrev RecSnd (rec : Rec) : Prop := ∀ ty old tag, Good ty old → SndB (PayQ0 tag) (rec ty old tag)

theorem RecSnd.ne {rec : Rec} (hr : RecSnd rec) (ty : GoType) (old : GoVal) (tag : Byte) (hg : Good ty old) (hne : tag ≠ 0#8) :
    SndB (PayQ tag) (rec ty old tag) := snd_mono (fun _ _ h => payQ_of_ne hne h) (hr ty old tag hg)

theorem pay_byte (b : Byte) (tag : Byte) (h : tag.toNat = 1) : PayQ tag [b] :=
  ⟨.byte b, (tag_of_toNat tag 1 (by decide) h).symm, trivial, trivial, by simp [encPayload]⟩
theorem pay_short (v : BitVec 16) (tag : Byte) (h : tag.toNat = 2) : PayQ tag (be16 v) :=
  ⟨.short v, (tag_of_toNat tag 2 (by decide) h).symm, trivial, trivial, by simp [encPayload]⟩
theorem pay_int (v : BitVec 32) (tag : Byte) (h : tag.toNat = 3) : PayQ tag (be32 v) :=
  ⟨.int v, (tag_of_toNat tag 3 (by decide) h).symm, trivial, trivial, by simp [encPayload]⟩
theorem pay_long (v : BitVec 64) (tag : Byte) (h : tag.toNat = 4) : PayQ tag (be64 v) :=
  ⟨.long v, (tag_of_toNat tag 4 (by decide) h).symm, trivial, trivial, by simp [encPayload]⟩
theorem pay_float (v : BitVec 32) (tag : Byte) (h : tag.toNat = 5) : PayQ tag (be32 v) :=
  ⟨.float v, (tag_of_toNat tag 5 (by decide) h).symm, trivial, trivial, by simp [encPayload]⟩
theorem pay_double (v : BitVec 64) (tag : Byte) (h : tag.toNat = 6) : PayQ tag (be64 v) :=
  ⟨.double v, (tag_of_toNat tag 6 (by decide) h).symm, trivial, trivial, by simp [encPayload]⟩

theorem sndB_rd8 {β : Type} (tag : Byte) (h : tag.toNat = 1) (g : BitVec 8 → β) :
    SndB (PayQ tag) (readInt8 >>= fun v => (Pure.pure (g v) : Rd β)) :=
  sndB_map (snd_mono (fun v enc he => by rw [he]; exact pay_byte v tag h) (show Snd _ readInt8 from snd_readByte)) g
theorem sndB_rd16 {β : Type} (tag : Byte) (h : tag.toNat = 2) (g : BitVec 16 → β) :
    SndB (PayQ tag) (readInt16 >>= fun v => (Pure.pure (g v) : Rd β)) :=
  sndB_map (snd_mono (fun v enc he => by rw [he]; exact pay_short v tag h) snd_readInt16) g
theorem sndB_rd32 {β : Type} (tag : Byte) (h : tag.toNat = 3) (g : BitVec 32 → β) :
    SndB (PayQ tag) (readInt32 >>= fun v => (Pure.pure (g v) : Rd β)) :=
  sndB_map (snd_mono (fun v enc he => by rw [he]; exact pay_int v tag h) snd_readInt32) g
theorem sndB_rd64 {β : Type} (tag : Byte) (h : tag.toNat = 4) (g : BitVec 64 → β) :
    SndB (PayQ tag) (readInt64 >>= fun v => (Pure.pure (g v) : Rd β)) :=
  sndB_map (snd_mono (fun v enc he => by rw [he]; exact pay_long v tag h) snd_readInt64) g
theorem sndB_rdF32 {β : Type} (tag : Byte) (h : tag.toNat = 5) (g : BitVec 32 → β) :
    SndB (PayQ tag) (readInt32 >>= fun v => (Pure.pure (g v) : Rd β)) :=
  sndB_map (snd_mono (fun v enc he => by rw [he]; exact pay_float v tag h) snd_readInt32) g
theorem sndB_rdF64 {β : Type} (tag : Byte) (h : tag.toNat = 6) (g : BitVec 64 → β) :
    SndB (PayQ tag) (readInt64 >>= fun v => (Pure.pure (g v) : Rd β)) :=
  sndB_map (snd_mono (fun v enc he => by rw [he]; exact pay_double v tag h) snd_readInt64) g

theorem sndB_umBool (tag : Byte) : SndB (PayQ tag) (umBool tag) := by
  unfold umBool
  split
  next h => exact sndB_rd8 tag h _
  next => exact snd_refuseG _ tag

theorem sndB_umInt (k : IK) (tag : Byte) : SndB (PayQ tag) (umInt k tag) := by
  unfold umInt
  refine snd_ite (fun hacc => ?_) (fun _ => snd_refuseG _ tag)
  split
  next h => exact sndB_rd8 tag h _
  next h => exact sndB_rd16 tag h _
  next h => exact sndB_rd32 tag h _
  next h1 h2 h3 =>
    have h4 : tag.toNat = 4 := by
      unfold intAccepts at hacc
      split at hacc <;> simp_all
    exact sndB_rd64 tag h4 _

theorem sndB_umF32 (tag : Byte) : SndB (PayQ tag) (umF32 tag) := by
  unfold umF32
  split
  next h => exact sndB_rdF32 tag h _
  next => exact snd_refuseG _ tag

theorem sndB_umF64 (tag : Byte) : SndB (PayQ tag) (umF64 tag) := by
  unfold umF64
  split
  next h => exact sndB_rdF32 tag h _
  next h => exact sndB_rdF64 tag h _
  next => exact snd_refuseG _ tag

theorem sndB_umStr (tag : Byte) : SndB (PayQ tag) (umStr tag) := by
  unfold umStr
  split
  next h =>
    refine sndB_map (snd_mono (fun v enc he => ?_) snd_readString) _
    obtain ⟨rfl, hl⟩ := he
    exact ⟨.string v, (tag_of_toNat tag 8 (by decide) h).symm, by simp only [NBT.WF]; omega, by simpa [S15] using hl,
      by simp [encPayload]⟩
  next => exact snd_refuseG _ tag

theorem pay_byteArray (ba : Bytes) (tag : Byte) (h : tag.toNat = 7) (hl : ba.length < 2147483648) :
    PayQ tag (beBytes 4 ba.length ++ ba) :=
  ⟨.byteArray ba, (tag_of_toNat tag 7 (by decide) h).symm, by simp only [NBT.WF]; omega, trivial, by simp [encPayload]⟩
theorem pay_intArray (xs : List (BitVec 32)) (tag : Byte) (h : tag.toNat = 11) (hl : xs.length < 2147483648) :
    PayQ tag (beBytes 4 xs.length ++ (xs.map be32).flatten) :=
  ⟨.intArray xs, (tag_of_toNat tag 11 (by decide) h).symm, by simp only [NBT.WF]; omega, trivial, by simp [encPayload]⟩
theorem pay_longArray (xs : List (BitVec 64)) (tag : Byte) (h : tag.toNat = 12) (hl : xs.length < 2147483648) :
    PayQ tag (beBytes 4 xs.length ++ (xs.map be64).flatten) :=
  ⟨.longArray xs, (tag_of_toNat tag 12 (by decide) h).symm, by simp only [NBT.WF]; omega, trivial, by simp [encPayload]⟩

theorem pay_list (tag lt : Byte) (n : Nat) (enc : Bytes) (h : tag.toNat = 9) (hle : lt.toNat ≤ 12) (hn : n < 2147483648)
    (h0 : lt = 0#8 → n = 0) (hl : ListPQ lt n enc) : PayQ tag (lt :: beBytes 4 n ++ enc) := by
  obtain ⟨ts, hlen, hw, hs, rfl⟩ := hl
  refine ⟨.list lt ts, (tag_of_toNat tag 9 (by decide) h).symm, ?_, by simpa [S15] using hs, by simp [encPayload, hlen]⟩
  simp only [NBT.WF, two31]
  refine ⟨by omega, ?_, hle, hw⟩
  by_cases hz : lt = 0#8
  · left; exact List.length_eq_zero_iff.mp (by rw [hlen]; exact h0 hz)
  · right; exact hz

theorem pay_compound (tag : Byte) (enc : Bytes) (h : tag.toNat = 10) (hk : KvsPQ enc) : PayQ tag enc := by
  obtain ⟨kvs, hw, hs, rfl⟩ := hk
  exact ⟨.compound kvs, (tag_of_toNat tag 10 (by decide) h).symm, by simpa [NBT.WF] using hw, by simpa [S15] using hs,
    by simp [encPayload]⟩

/-- the three typed-array readers: a length, then that many elements -/
theorem sndB_bytes {β : Type} (tag : Byte) (h : tag.toNat = 7) (g : Bytes → β) :
    SndB (PayQ tag) (arrayLen >>= fun n => Rd.readFull n >>= fun ba => (Pure.pure (g ba) : Rd β)) := by
  refine snd_mono ?_ (snd_bind snd_arrayLen (fun n => snd_bind (snd_readFull n) (fun ba => snd_pure (g ba))))
  rintro v enc ⟨n, e1, e2, rfl, ⟨hn, rfl⟩, ba, e3, e4, rfl, ⟨rfl, hl⟩, _, rfl⟩
  have := pay_byteArray e3 tag h (by omega)
  simpa [hl] using this
theorem sndB_ints {β : Type} (tag : Byte) (h : tag.toNat = 11) (g : List (BitVec 32) → β) :
    SndB (PayQ tag) (arrayLen >>= fun n => readInts n >>= fun xs => (Pure.pure (g xs) : Rd β)) := by
  refine snd_mono ?_ (snd_bind snd_arrayLen (fun n => snd_bind (snd_readInts n) (fun xs => snd_pure (g xs))))
  rintro v enc ⟨n, e1, e2, rfl, ⟨hn, rfl⟩, xs, e3, e4, rfl, ⟨rfl, hl⟩, _, rfl⟩
  have := pay_intArray xs tag h (by omega)
  simpa [hl] using this
theorem sndB_longs {β : Type} (tag : Byte) (h : tag.toNat = 12) (g : List (BitVec 64) → β) :
    SndB (PayQ tag) (arrayLen >>= fun n => readLongs n >>= fun xs => (Pure.pure (g xs) : Rd β)) := by
  refine snd_mono ?_ (snd_bind snd_arrayLen (fun n => snd_bind (snd_readLongs n) (fun xs => snd_pure (g xs))))
  rintro v enc ⟨n, e1, e2, rfl, ⟨hn, rfl⟩, xs, e3, e4, rfl, ⟨rfl, hl⟩, _, rfl⟩
  have := pay_longArray xs tag h (by omega)
  simpa [hl] using this

theorem sndB_umSlice (rec : Rec) (hr : RecSnd rec) (e : GoType) (old : GoVal) (tag : Byte) :
    SndB (PayQ tag) (umSlice rec e old tag) := by
  unfold umSlice
  split
  next h => exact snd_ite (fun _ => sndB_bytes tag h _) (fun _ => snd_refuseG _ tag)
  next h => exact snd_ite (fun _ => sndB_ints tag h _) (fun _ => snd_refuseG _ tag)
  next h => exact snd_ite (fun _ => sndB_longs tag h _) (fun _ => snd_refuseG _ tag)
  next h =>
    refine snd_mono ?_ (snd_bind_of (G := fun (r : Byte × Nat) => r.1 = 0#8 → r.2 = 0) snd_listHeader (fun _ _ hh => hh.2.2.1) (fun r hr0 =>
      snd_bind (snd_rdRepeat r.1 (rec e e.zero r.1) (fun hne => hr.ne e e.zero r.1 (zero_good e) hne) r.2 hr0) (fun xs => snd_pure (GoVal.slice e false xs))))
    rintro v enc ⟨⟨lt, n⟩, e1, e2, rfl, ⟨hle, hn, h0, rfl⟩, xs, e3, e4, rfl, hl, _, rfl⟩
    have := pay_list tag lt n e3 h hle hn h0 hl
    simpa using this
  next => exact snd_refuseG _ tag

theorem sndB_umArray (rec : Rec) (hr : RecSnd rec) (len : Nat) (e : GoType) (old : GoVal) (tag : Byte)
    (hold : Good (.array len e) old) : SndB (PayQ tag) (umArray rec len e old tag) := by
  obtain ⟨olds, rfl, holen, hog⟩ := good_array_inv hold
  unfold umArray
  split
  next h =>
    refine snd_mono ?_ (snd_bind snd_arrayLen (fun n => snd_bind (snd_readFull n) (fun ba =>
      snd_guard (fun _ => snd_guard (fun _ => snd_pure (GoVal.array e (ba.filterMap (byteElem e))))))))
    rintro v enc ⟨n, e1, e2, rfl, ⟨hn, rfl⟩, ba, e3, e4, rfl, ⟨rfl, hl⟩, _, _, _, rfl⟩
    have := pay_byteArray e3 tag h (by omega)
    simpa [hl] using this
  next h =>
    refine snd_mono ?_ (snd_bind snd_arrayLen (fun n => snd_guard (fun _ => snd_guard (fun _ =>
      snd_bind (snd_readInts n) (fun xs => snd_pure (GoVal.array e (xs.filterMap (intElem e))))))))
    rintro v enc ⟨n, e1, e2, rfl, ⟨hn, rfl⟩, _, _, xs, e3, e4, rfl, ⟨rfl, hl⟩, _, rfl⟩
    have := pay_intArray xs tag h (by omega)
    simpa [hl] using this
  next h =>
    refine snd_mono ?_ (snd_bind snd_arrayLen (fun n => snd_guard (fun _ => snd_guard (fun _ =>
      snd_bind (snd_readLongs n) (fun xs => snd_pure (GoVal.array e (xs.filterMap (longElem e))))))))
    rintro v enc ⟨n, e1, e2, rfl, ⟨hn, rfl⟩, _, _, xs, e3, e4, rfl, ⟨rfl, hl⟩, _, rfl⟩
    have := pay_longArray xs tag h (by omega)
    simpa [hl] using this
  next h =>
    refine snd_mono ?_ (snd_bind_of (G := fun (r : Byte × Nat) => r.1 = 0#8 → r.2 = 0) snd_listHeader (fun _ _ hh => hh.2.2.1)
      (fun r hr0 => snd_guard (fun hlt =>
      snd_bind (snd_rdMapFirst r.1 (fun x => rec e x r.1) r.2 olds (fun hne x hx => hr.ne e x r.1 (goodList_mem hog x hx) hne)
        (by omega) hr0) (fun xs => snd_pure (GoVal.array e xs)))))
    rintro v enc ⟨⟨lt, n⟩, e1, e2, rfl, ⟨hle, hn, h0, rfl⟩, _, xs, e3, e4, rfl, hl, _, rfl⟩
    have := pay_list tag lt n e3 h hle hn h0 hl
    simpa using this
  next => exact snd_refuseG _ tag

theorem sndB_umMap (rec : Rec) (hr : RecSnd rec) (fuel : Nat) (e : GoType) (old : GoVal) (tag : Byte) :
    SndB (PayQ tag) (umMap rec fuel e old tag) := by
  unfold umMap
  split
  next h =>
    refine snd_mono (fun v enc hh => ?_) (sndB_map (snd_kvLoop (fun _ => True) _ (fun tt tn acc hne _ =>
      ⟨sndB_map (hr.ne e e.zero tt (zero_good e) hne) _, post_true _⟩) fuel (mapEntries old) trivial) (fun kvs => GoVal.map e false kvs))
    exact pay_compound tag enc h hh
  next => exact snd_refuseG _ tag

theorem sndB_structStep (rec : Rec) (hr : RecSnd rec) (disallow : Bool) (fuel : Nat) (n : Bytes)
    (fields : List (FieldInfo × GoType)) (tt : Byte) (tn : Bytes) (sv : GoVal) (hne : tt ≠ 0#8) (hsv : Good (.struct n fields) sv) :
    SndB (PayQ tt) (structStep rec disallow fuel (typeFields (.struct n fields)) tt tn sv) := by
  unfold structStep
  split
  · rename_i i hi
    have hlt := lookupField_lt _ _ _ hi
    have hget : (typeFields (.struct n fields))[i]? = some ((typeFields (.struct n fields))[i]) := List.getElem?_eq_getElem hlt
    rw [hget]
    simp only
    have hpath : PathOKT ((typeFields (.struct n fields))[i]).index (.struct n fields) :=
      typeFields_paths n fields _ (List.getElem_mem hlt)
    refine sndB_updAt _ _ (fun τ' x hx => ?_) _ _ sv true hpath hsv
    rw [good_typeOf τ' x hx]
    exact hr.ne τ' x tt hx hne
  · exact snd_ite (fun _ => snd_fail _) (fun _ => sndB_map (sndB_raw fuel tt) _)

theorem sndB_umStruct (rec : Rec) (hr : RecSnd rec) (hs : RecSafe rec) (disallow : Bool) (fuel : Nat) (n : Bytes)
    (fields : List (FieldInfo × GoType)) (old : GoVal) (tag : Byte) (hold : Good (.struct n fields) old) :
    SndB (PayQ tag) (umStruct rec disallow fuel n fields old tag) := by
  unfold umStruct
  split
  next h =>
    have hso : structOr (.struct n fields) old = old := by
      obtain ⟨fs, rfl, _⟩ := good_struct_inv hold
      rfl
    rw [hso]
    refine snd_mono (fun v enc hh => pay_compound tag enc h hh) (snd_kvLoop (Good (.struct n fields)) _ (fun tt tn sv hne hsv =>
      ⟨sndB_structStep rec hr disallow fuel n fields tt tn sv hne hsv,
       (safe_structStep rec hs disallow fuel n fields tt tn sv (tablesOK_all _) hsv).2⟩) fuel old hold)
  next => exact snd_refuseG _ tag

theorem sndB_umPtr (rec : Rec) (hr : RecSnd rec) (e : GoType) (old : GoVal) (tag : Byte) (hold : Good (.ptr e) old) :
    SndB (PayQ tag) (umPtr rec e old tag) := by
  unfold umPtr
  refine snd_ite (fun _ => snd_fail _) (fun hne => ?_)
  have hin : Good e (ptrInner e old) := by
    rcases good_ptr_inv hold with rfl | ⟨x, rfl, hx⟩
    · exact zero_good e
    · exact hx
  exact sndB_map (hr.ne e _ tag hin hne) _

theorem sndB_umIface (rec : Rec) (hr : RecSnd rec) (fuel : Nat) (old : GoVal) (tag : Byte) (hold : Good .iface old) :
    SndB (PayQ tag) (umIface rec fuel old tag) := by
  unfold umIface
  refine snd_ite (fun _ => snd_fail _) (fun hne => ?_)
  split
  · rename_i e x
    simp only [Good, GoVal.typeOf, true_and] at hold
    exact sndB_map (hr.ne e x tag hold.1 hne) _
  · rename_i x _
    exact sndB_map (hr.ne x.typeOf _ tag (zero_good _) hne) _
  · exact sndB_map (sndB_any fuel tag) _

theorem sndB_umCarrier (cx : SnbtCarrier) (hdyn : ∀ tag, SndB (PayQ0 tag) (DynBT.unmarshal tag))
    (hsn : ∀ tag, SndB (PayQ tag) (cx.unmarshal tag)) (fuel : Nat) (ty : GoType) (tag : Byte) :
    SndB (PayQ0 tag) (umCarrier cx fuel ty tag) := by
  unfold umCarrier
  split
  · exact sndB_map (hdyn tag) _
  · exact snd_ite (fun _ => snd_fail _) (fun _ => snd_mono (fun _ _ h => Or.inl h) (sndB_map (sndB_raw fuel tag) _))
  · exact snd_ite (fun _ => snd_fail _) (fun _ => snd_mono (fun _ _ h => Or.inl h) (sndB_map (hsn tag) _))

theorem sndB_dynLeaf (tag : Byte) : SndB (PayQ0 tag) (DynBT.unmLeaf tag) := by
  unfold DynBT.unmLeaf
  split
  next h =>
    exact snd_mono (fun v enc hh => Or.inr ⟨tag_of_toNat tag 0 (by decide) h, hh.2⟩) (snd_pure _)
  next h =>
    exact snd_mono (fun v enc hh => Or.inl hh) (sndB_map (snd_mono (fun b enc he => by rw [he]; exact pay_byte b tag h) snd_readByte) _)
  next h =>
    refine snd_mono (fun v enc hh => Or.inl hh) (sndB_map (snd_mono (fun d enc he => ?_) (snd_readFull 2)) _)
    obtain ⟨rfl, hl⟩ := he
    have := pay_short (beWord 16 enc) tag h
    rwa [be16_beWord enc hl] at this
  next h =>
    refine snd_mono (fun v enc hh => Or.inl hh) (sndB_map (snd_mono (fun d enc he => ?_) (snd_readFull 4)) _)
    obtain ⟨rfl, hl⟩ := he
    have := pay_int (beWord 32 enc) tag h
    rwa [be32_beWord enc hl] at this
  next h =>
    refine snd_mono (fun v enc hh => Or.inl hh) (sndB_map (snd_mono (fun d enc he => ?_) (snd_readFull 4)) _)
    obtain ⟨rfl, hl⟩ := he
    have := pay_float (beWord 32 enc) tag h
    rwa [be32_beWord enc hl] at this
  next h =>
    refine snd_mono (fun v enc hh => Or.inl hh) (sndB_map (snd_mono (fun d enc he => ?_) (snd_readFull 8)) _)
    obtain ⟨rfl, hl⟩ := he
    have := pay_long (beWord 64 enc) tag h
    rwa [be64_beWord enc hl] at this
  next h =>
    refine snd_mono (fun v enc hh => Or.inl hh) (sndB_map (snd_mono (fun d enc he => ?_) (snd_readFull 8)) _)
    obtain ⟨rfl, hl⟩ := he
    have := pay_double (beWord 64 enc) tag h
    rwa [be64_beWord enc hl] at this
  next h =>
    refine snd_mono (fun v enc hh => ?_) (snd_dynArray tag 1)
    obtain ⟨hd, d, rfl, hl, hn, hdl⟩ := hh
    left
    have := pay_byteArray d tag h (by omega)
    rwa [hdl, Nat.mul_one, beBytes4_self hd hl] at this
  next h =>
    refine snd_mono (fun v enc hh => ?_) (snd_dynString tag)
    obtain ⟨hd, d, rfl, hl, hn, hdl⟩ := hh
    left
    refine ⟨.string d, (tag_of_toNat tag 8 (by decide) h).symm, by simp only [NBT.WF]; omega, by simp only [S15]; omega, ?_⟩
    simp only [encPayload, encString, hdl, beBytes2_self hd hl]
  next h =>
    refine snd_mono (fun v enc hh => ?_) (snd_dynArray tag 4)
    obtain ⟨hd, d, rfl, hl, hn, hdl⟩ := hh
    left
    obtain ⟨xs, hxl, rfl⟩ := words32 (beVal hd) d (by omega)
    have := pay_intArray xs tag h (by omega)
    rwa [hxl, beBytes4_self hd hl] at this
  next h =>
    refine snd_mono (fun v enc hh => ?_) (snd_dynArray tag 8)
    obtain ⟨hd, d, rfl, hl, hn, hdl⟩ := hh
    left
    obtain ⟨xs, hxl, rfl⟩ := words64 (beVal hd) d (by omega)
    have := pay_longArray xs tag h (by omega)
    rwa [hxl, beBytes4_self hd hl] at this
  next => exact snd_fail _

theorem snd_dynListHdr :
    Snd (fun (r : Byte × Nat) enc => r.1.toNat ≤ 12 ∧ r.2 < 2147483648 ∧ (r.1 = 0#8 → r.2 = 0) ∧ enc = r.1 :: beBytes 4 r.2)
      DynBT.listHdr := by
  unfold DynBT.listHdr
  refine snd_mono ?_ (snd_bind snd_readByte (fun t => snd_bind snd_dynInt32 (fun n =>
    snd_guard (fun _ => snd_guard (fun _ => snd_guard (fun _ => snd_pure (t, n.toNat)))))))
  rintro ⟨t', n'⟩ enc ⟨t, e1, e2, rfl, rfl, n, hd, e4, rfl, ⟨hl, rfl⟩, hn, hle, hne, h, rfl⟩
  simp only [Prod.mk.injEq] at h
  obtain ⟨rfl, rfl⟩ := h
  have hlt := GoMC.Spec.beVal_lt hd
  rw [hl] at hlt
  obtain ⟨h1, h2, h3⟩ := toSigned4_nonneg (beVal hd) (by omega) hn
  refine ⟨by simp only; omega, by simp only; omega, fun h0 => ?_, by simp [h2, beBytes4_self hd hl]⟩
  have : ¬ (DynBT.toSigned 4 (beVal hd) > 0) := fun hp => hne ⟨h0, hp⟩
  simp only; omega

theorem snd_dynLoopList (lt : Byte) (rec : Rd DynBT.Val) (hp : lt ≠ 0#8 → SndB (PayQ lt) rec) :
    ∀ n, (lt = 0#8 → n = 0) → SndB (ListPQ lt n) (DynBT.loopList rec n)
  | 0, _ => by
    unfold DynBT.loopList
    exact snd_mono (fun v enc h => ⟨[], rfl, trivial, trivial, by rw [h.2]; rfl⟩) (snd_pure [])
  | n + 1, h0 => by
    have hne : lt ≠ 0#8 := fun e => by have := h0 e; omega
    unfold DynBT.loopList
    refine snd_mono ?_ (snd_bind (hp hne) (fun x => snd_bind (snd_dynLoopList lt rec hp n (fun e => absurd e hne)) (fun xs => snd_pure (x :: xs))))
    rintro v enc ⟨x, e1, e2, rfl, ⟨t, htag, hwf, hs, rfl⟩, xs, e3, e4, rfl, ⟨ts, hl, hw, hss, rfl⟩, rfl, rfl⟩
    exact ⟨t :: ts, by simp [hl], ⟨htag, hwf, hw⟩, ⟨hs, hss⟩, by simp [encList]⟩

theorem snd_dynReadTag : Snd (fun (r : Byte × Bytes) enc => (r.1 = 0#8 ∧ enc = [0#8]) ∨
    (r.1 ≠ 0#8 ∧ enc = r.1 :: encString r.2 ∧ r.2.length < 32768)) DynBT.readTag := by
  unfold DynBT.readTag DynBT.readString
  refine snd_mono ?_ (snd_bind snd_readByte (fun t => snd_ite
    (Q := fun (r : Byte × Bytes) enc => r.1 = t ∧ ((t = 0#8 ∧ enc = []) ∨ (t ≠ 0#8 ∧ enc = encString r.2 ∧ r.2.length < 32768)))
    (fun h0 => snd_mono (fun v enc h => by rw [h.1]; exact ⟨rfl, Or.inl ⟨h0, h.2⟩⟩) (snd_pure (t, ([] : Bytes))))
    (fun h0 => snd_mono (fun v enc hh => by
        obtain ⟨name, e1, e2, rfl, ⟨n, hd, e4, rfl, ⟨hl, rfl⟩, hn, hname⟩, rfl, rfl⟩ := hh
        have hlt := GoMC.Spec.beVal_lt hd
        rw [hl] at hlt
        obtain ⟨h1, h2, h3⟩ := toSigned2_nonneg (beVal hd) (by omega) hn
        refine ⟨rfl, Or.inr ⟨h0, ?_, ?_⟩⟩
        · obtain ⟨rfl, hnl⟩ := hname
          simp only [encString, hnl, h2, beBytes2_self hd hl, List.append_nil]
        · obtain ⟨rfl, hnl⟩ := hname
          simp only; omega)
      (snd_bind (snd_bind snd_dynInt16 (fun n => snd_guard (fun _ =>
          snd_ite (Q := fun (nm : Bytes) enc => enc = nm ∧ nm.length = n.toNat) (fun _ => snd_readFull n.toNat)
            (fun hz => snd_mono (fun v enc h => ⟨by rw [h.1, h.2], by rw [h.1]; simp; omega⟩) (snd_pure [])))))
        (fun name => snd_pure (t, name))))))
  rintro ⟨t', name⟩ enc ⟨t, e1, e2, rfl, rfl, rfl, h⟩
  rcases h with ⟨h0, rfl⟩ | ⟨h0, rfl, hl⟩
  · left; exact ⟨h0, by simp at h0; simp [h0]⟩
  · right; exact ⟨h0, rfl, hl⟩

theorem snd_dynLoopKvs (rec : Byte → Rd DynBT.Val) (hr : ∀ t, t ≠ 0#8 → SndB (PayQ t) (rec t)) :
    ∀ w, SndB KvsPQ (DynBT.loopKvs rec w)
  | 0 => by unfold DynBT.loopKvs; exact snd_crash _
  | w + 1 => by
    unfold DynBT.loopKvs
    refine snd_mono ?_ (snd_bind snd_dynReadTag (fun r =>
      snd_ite (Q := fun (_ : List (Bytes × DynBT.Val)) enc => (r.1 = 0#8 ∧ enc = []) ∨
          (r.1 ≠ 0#8 ∧ ∃ (t : NBT) (kvs : List (Bytes × NBT)), t.tag = r.1 ∧ t.WF ∧ S15 t ∧ NBT.WFKvs kvs ∧ S15Kvs kvs ∧
            enc = encPayload t ++ encKvs kvs))
        (fun h0 => snd_mono (fun v enc h => Or.inl ⟨h0, h.2⟩) (snd_pure []))
        (fun h0 => snd_mono (fun v enc hh => by
            obtain ⟨x, e1, e2, rfl, ⟨t, htag, hwf, hs, rfl⟩, kvs', e3, e4, rfl, ⟨kvs, hw, hss, rfl⟩, _, rfl⟩ := hh
            exact Or.inr ⟨h0, t, kvs, htag, hwf, hs, hw, hss, by simp⟩)
          (snd_bind (hr r.1 h0) (fun v => snd_bind (snd_dynLoopKvs rec hr w) (fun kvs => snd_pure ((r.2, v) :: kvs)))))))
    rintro v enc ⟨⟨tt, tn⟩, e1, e2, rfl, hhdr, hres⟩
    rcases hres with ⟨h0, rfl⟩ | ⟨h0, t, kvs, htag, hwf, hs, hw, hss, rfl⟩
    · rcases hhdr with ⟨_, rfl⟩ | ⟨hne, _⟩
      · exact ⟨[], trivial, trivial, by simp [encKvs, NBT.tagEnd]⟩
      · exact absurd h0 hne
    · rcases hhdr with ⟨h0', _⟩ | ⟨_, rfl, hl⟩
      · exact absurd h0' h0
      · refine ⟨(tn, t) :: kvs, ⟨by simp only at hl; omega, hwf, hw⟩, ⟨hl, hs, hss⟩, ?_⟩
        simp only at htag
        simp [encKvs, htag]

/-- `(*dynbt.Value).UnmarshalNBT` is sound, at every fuel -/
theorem sndB_dynUnm : ∀ (fuel : Nat) (tag : Byte), SndB (PayQ0 tag) (DynBT.unm fuel tag)
  | 0, _ => by unfold DynBT.unm; exact snd_crash _
  | f + 1, tag => by
    unfold DynBT.unm
    refine snd_ite (fun h9 => ?_) (fun _ => snd_ite (fun h10 => ?_) (fun _ => sndB_dynLeaf tag))
    · have h : tag.toNat = 9 := by rw [h9]; rfl
      refine snd_mono ?_ (snd_bind_of (G := fun (r : Byte × Nat) => r.1 = 0#8 → r.2 = 0) snd_dynListHdr (fun _ _ hh => hh.2.2.1)
        (fun r hr0 => snd_bind (snd_dynLoopList r.1 (DynBT.unm f r.1)
          (fun hne => snd_mono (fun _ _ hh => payQ_of_ne hne hh) (sndB_dynUnm f r.1)) r.2 hr0) (fun xs => snd_pure (DynBT.Val.list r.1 xs))))
      rintro v enc ⟨⟨lt, n⟩, e1, e2, rfl, ⟨hle, hn, h0, rfl⟩, xs, e3, e4, rfl, hl, _, rfl⟩
      left
      have := pay_list tag lt n e3 h hle hn h0 hl
      simpa using this
    · have h : tag.toNat = 10 := by rw [h10]; rfl
      refine snd_mono (fun v enc hh => Or.inl (pay_compound tag enc h hh)) (sndB_map (snd_dynLoopKvs (DynBT.unm f)
        (fun t hne => snd_mono (fun _ _ hh => payQ_of_ne hne hh) (sndB_dynUnm f t)) f) _)

theorem sndB_dynUnmarshal (tag : Byte) : SndB (PayQ0 tag) (DynBT.unmarshal tag) := by
  intro s v s' h
  exact sndB_dynUnm (s.flat.length + 2) tag s v s' h

/-- **The typed decoder is sound.** For every destination type of the universe, every well-shaped value the
destination holds, every tag, every fuel and every source: whenever `unmarshal` returns, the bytes it consumed are
the payload of a well-formed tree of that tag (strings and names below 2^15 bytes) — or nothing, for the tag End,
which only a `dynbt.Value` destination accepts ("no value") —, given the same of `StringifiedMessage`'s decoder. -/
theorem sndB_unmarshal (cx : SnbtCarrier) (disallow : Bool)
    (hsnNP : ∀ tag, NoPanic (cx.unmarshal tag)) (hsn : ∀ tag, SndB (PayQ tag) (cx.unmarshal tag)) :
    ∀ fuel, RecSnd (unmarshal cx disallow fuel) := by
  intro fuel
  induction fuel with
  | zero => intro ty old tag _; unfold unmarshal; exact snd_fail _
  | succ f ih =>
    intro ty old tag hold
    have hsafe := safe_unmarshal cx disallow (fun tag s => GoMC.Lemmas.DynBT.unm_ne_panic (s.flat.length + 2) tag s (Nat.le_refl _)) hsnNP f
    have inl : ∀ {p : Rd GoVal}, SndB (PayQ tag) p → SndB (PayQ0 tag) p := fun h => snd_mono (fun _ _ hh => Or.inl hh) h
    unfold unmarshal
    split
    · exact sndB_umCarrier cx sndB_dynUnmarshal hsn _ _ _
    · exact sndB_umCarrier cx sndB_dynUnmarshal hsn _ _ _
    · exact sndB_umCarrier cx sndB_dynUnmarshal hsn _ _ _
    · exact inl (sndB_umPtr _ ih _ _ _ hold)
    · exact inl (sndB_umIface _ ih _ _ _ hold)
    · exact inl (sndB_umBool _)
    · exact inl (sndB_umInt _ _)
    · exact inl (sndB_umF32 _)
    · exact inl (sndB_umF64 _)
    · exact inl (sndB_umStr _)
    · exact inl (sndB_umSlice _ ih _ _ _)
    · exact inl (sndB_umArray _ ih _ _ _ _ hold)
    · exact inl (sndB_umMap _ ih _ _ _ _)
    · exact inl (sndB_umStruct _ ih hsafe _ _ _ _ _ _ hold)

/-! ### whole documents -/

/-- **Soundness of `Decode` into a destination of any type.** Whenever `Decode(&v)` — `v` of any type of the
universe, holding any well-shaped value — returns, the bytes it consumed are the document `nm : t` of a well-formed
tree `t`, the name returned is the root name, and what follows the document is untouched. (The one other thing a
decoder accepts is a lone End byte, "no value", and only a `dynbt.Value` destination does.) -/
theorem decodeInto_sound (cx : SnbtCarrier) (hsnNP : ∀ tag, NoPanic (cx.unmarshal tag))
    (hsn : ∀ tag, SndB (PayQ tag) (cx.unmarshal tag)) (fmt : Format) (disallow : Bool) (ty : GoType) (old : GoVal)
    (hold : Good ty old) (s s' : Stream) (v : GoVal) (name : Bytes)
    (h : decodeInto cx (isNet fmt) disallow ty old s = (Res.ok (v, name), s')) :
    ∃ nm : Bytes, nm.length < 32768 ∧ name = docName fmt nm ∧ s'.failing = s.failing ∧
      ((∃ t : NBT, t.WF ∧ S15 t ∧ s.flat = encDoc fmt nm t ++ s'.flat) ∨ s.flat = 0#8 :: s'.flat) := by
  have hsnd := snd_bind (snd_readHead fmt) (fun r =>
    snd_bind (sndB_unmarshal cx disallow hsnNP hsn (typedFuel s ty old) ty old r.1 hold) (fun v => snd_pure (v, r.2)))
  obtain ⟨enc, hflat, hfail, ⟨tt, tn⟩, e1, e2, rfl, ⟨nm, hnm, hname, hhdr, hend⟩, x, e3, e4, rfl, hpay, hv, rfl⟩ :=
    hsnd s (v, name) s' h
  simp only [Prod.mk.injEq] at hv
  obtain ⟨rfl, rfl⟩ := hv
  simp only at hname hhdr hpay hend
  refine ⟨nm, hnm, hname, hfail, ?_⟩
  rcases hpay with ⟨t, htag, hwf, hs15, rfl⟩ | ⟨h0, rfl⟩
  · left
    refine ⟨t, hwf, hs15, ?_⟩
    rcases hhdr with h0 | rfl
    · exact absurd (htag.trans h0) (tag_not_magic t).1
    · rw [hflat, encDoc_split, htag]
      cases fmt <;> simp
  · right
    rw [hflat, hend h0]; simp

/-! ### which tag a destination accepts (the table of B.1) -/

/-- the tags a destination of a static type accepts; pointers are followed, an interface decides dynamically -/
def Accepts : GoType → Byte → Prop
  | .bool, tag => tag.toNat = 1
  | .int k, tag => intAccepts tag.toNat k = true
  | .f32, tag => tag.toNat = 5
  | .f64, tag => tag.toNat = 5 ∨ tag.toNat = 6
  | .str, tag => tag.toNat = 8
  | .slice e, tag | .array _ e, tag =>
    tag.toNat = 9 ∨ (tag.toNat = 7 ∧ isByteLike e = true) ∨ (tag.toNat = 11 ∧ isIntLike e = true) ∨ (tag.toNat = 12 ∧ isLongLike e = true)
  | .map _, tag | .struct _ _, tag => tag.toNat = 10
  | .ptr e, tag => tag ≠ 0#8 ∧ Accepts e tag
  | .iface, tag | .raw, tag | .snbt, tag => tag ≠ 0#8
  | .dyn, _ => True

theorem post_of_never {α : Type} {P : Prop} (p : Rd α) (h : ∀ s a s', p s ≠ (Res.ok a, s')) : Post (fun _ => P) p :=
  fun s a s' hs => absurd hs (h s a s')

theorem post_guard {α : Type} {Q : α → Prop} {c : Prop} [Decidable c] {p : Rd α} (hp : ¬ c → Post Q p) :
    Post Q (if c then Rd.fail else p) := by
  by_cases h : c
  · rw [if_pos h]; exact post_fail
  · rw [if_neg h]; exact hp h

theorem post_const {α : Type} {P : Prop} (p : Rd α) (h : P) : Post (fun _ => P) p := fun _ _ _ _ => h

/-- whenever `unmarshal` into a destination of static type `ty` returns, the tag is one the type accepts -/
theorem accepts_unmarshal (cx : SnbtCarrier) (disallow : Bool) :
    ∀ (fuel : Nat) (ty : GoType) (old : GoVal) (tag : Byte), Post (fun _ => Accepts ty tag) (unmarshal cx disallow fuel ty old tag)
  | 0, _, _, _ => by unfold unmarshal; exact post_fail
  | f + 1, ty, old, tag => by
    unfold unmarshal
    split
    · exact fun _ _ _ _ => trivial
    · unfold umCarrier; simp only; exact post_guard (fun hne => post_const _ (by simpa [Accepts] using hne))
    · unfold umCarrier; simp only; exact post_guard (fun hne => post_const _ (by simpa [Accepts] using hne))
    · unfold umPtr
      exact post_guard (fun hne => post_bind (accepts_unmarshal cx disallow f _ _ tag) (fun _ ha => post_pure ⟨hne, ha⟩))
    · unfold umIface
      exact post_guard (fun hne => post_const _ (by simpa [Accepts] using hne))
    · unfold umBool; split
      next h => exact post_const _ h
      next => exact post_refuseG tag
    · unfold umInt
      by_cases h : intAccepts tag.toNat ‹IK› = true
      · rw [if_pos h]; exact post_const _ h
      · rw [if_neg h]; exact post_refuseG tag
    · unfold umF32; split
      next h => exact post_const _ h
      next => exact post_refuseG tag
    · unfold umF64; split
      next h => exact post_const _ (Or.inl h)
      next h => exact post_const _ (Or.inr h)
      next => exact post_refuseG tag
    · unfold umStr; split
      next h => exact post_const _ h
      next => exact post_refuseG tag
    · unfold umSlice; split
      next h =>
        by_cases hb : isByteLike ‹GoType› = true
        · rw [if_pos hb]; exact post_const _ (Or.inr (Or.inl ⟨h, hb⟩))
        · rw [if_neg hb]; exact post_refuseG tag
      next h =>
        by_cases hb : isIntLike ‹GoType› = true
        · rw [if_pos hb]; exact post_const _ (Or.inr (Or.inr (Or.inl ⟨h, hb⟩)))
        · rw [if_neg hb]; exact post_refuseG tag
      next h =>
        by_cases hb : isLongLike ‹GoType› = true
        · rw [if_pos hb]; exact post_const _ (Or.inr (Or.inr (Or.inr ⟨h, hb⟩)))
        · rw [if_neg hb]; exact post_refuseG tag
      next h => exact post_const _ (Or.inl h)
      next => exact post_refuseG tag
    · unfold umArray; split
      next h =>
        exact post_bind (post_true _) (fun _ _ => post_bind (post_true _) (fun _ _ => post_guard (fun hb =>
          post_const _ (Or.inr (Or.inl ⟨h, by simpa using hb⟩)))))
      next h =>
        exact post_bind (post_true _) (fun _ _ => post_guard (fun _ => post_guard (fun hb =>
          post_const _ (Or.inr (Or.inr (Or.inl ⟨h, by simpa using hb⟩))))))
      next h =>
        exact post_bind (post_true _) (fun _ _ => post_guard (fun _ => post_guard (fun hb =>
          post_const _ (Or.inr (Or.inr (Or.inr ⟨h, by simpa using hb⟩))))))
      next h => exact post_const _ (Or.inl h)
      next => exact post_refuseG tag
    · unfold umMap; split
      next h => exact post_const _ h
      next => exact post_refuseG tag
    · unfold umStruct; split
      next h => exact post_const _ h
      next => exact post_refuseG tag

end GoMC.Lemmas.NBTSound
