/-
  GoMC.Lemmas.Dispatch — the insertion-sort model of `sort.SliceStable` produces the dispatch order of
  `Spec/Dispatch.lean`; the registration invariant of `bot.Events`; unfolding lemmas for the game loop.
-/
import GoMC.Model.Dispatch
import GoMC.Spec.Dispatch
namespace GoMC.Lemmas.Dispatch
open GoMC GoMC.Model.Dispatch GoMC.Spec.Dispatch

variable {α : Type}

/-! ### insertion sort -/

theorem orderedInsert_perm (prio : α → Int) (a : α) (l : List α) : (orderedInsert prio a l).Perm (a :: l) := by
  induction l with
  | nil => exact List.Perm.refl _
  | cons b l ih =>
    unfold orderedInsert
    split
    · exact List.Perm.refl _
    · exact (List.Perm.cons b ih).trans (List.Perm.swap a b l)

theorem stableSort_cons (prio : α → Int) (a : α) (l : List α) :
    stableSort prio (a :: l) = orderedInsert prio a (stableSort prio l) := rfl

theorem stableSort_perm (prio : α → Int) (l : List α) : (stableSort prio l).Perm l := by
  induction l with
  | nil => exact List.Perm.refl _
  | cons a l ih =>
    rw [stableSort_cons]
    exact (orderedInsert_perm prio a _).trans (List.Perm.cons a ih)

/-- sorting tagged elements by the priority of the element commutes with forgetting the tags -/
theorem orderedInsert_map (prio : α → Int) (a : α × Nat) (l : List (α × Nat)) :
    (orderedInsert (fun x => prio x.1) a l).map (·.1) = orderedInsert prio a.1 (l.map (·.1)) := by
  induction l with
  | nil => rfl
  | cons b l ih =>
    simp only [orderedInsert, List.map_cons]
    split
    · rfl
    · simp only [List.map_cons, ih]

theorem stableSort_map (prio : α → Int) (l : List (α × Nat)) :
    (stableSort (fun x => prio x.1) l).map (·.1) = stableSort prio (l.map (·.1)) := by
  induction l with
  | nil => rfl
  | cons a l ih =>
    rw [stableSort_cons, orderedInsert_map, ih]
    rfl

/-- ties appear in increasing tag order -/
def TieOrdered (prio : α → Int) (l : List (α × Nat)) : Prop :=
  l.Pairwise (fun a b => prio a.1 = prio b.1 → a.2 < b.2)

theorem orderedInsert_sorted (prio : α → Int) (a : α × Nat) (l : List (α × Nat))
    (hs : l.Pairwise (LexBefore prio)) (ha : ∀ b ∈ l, prio a.1 = prio b.1 → a.2 < b.2) :
    (orderedInsert (fun x => prio x.1) a l).Pairwise (LexBefore prio) := by
  induction l with
  | nil => simp [orderedInsert]
  | cons b l ih =>
    have hb := List.pairwise_cons.mp hs
    unfold orderedInsert
    split
    · rename_i hle
      refine List.pairwise_cons.mpr ⟨?_, hs⟩
      intro c hc
      have hbc : prio c.1 ≤ prio b.1 := by
        rcases List.mem_cons.mp hc with rfl | hc'
        · exact Int.le_refl _
        · have := hb.1 c hc'
          unfold LexBefore at this
          omega
      have := ha c hc
      unfold LexBefore
      omega
    · rename_i hnle
      refine List.pairwise_cons.mpr ⟨?_, ih hb.2 (fun c hc => ha c (List.mem_cons_of_mem _ hc))⟩
      intro c hc
      rcases List.mem_cons.mp ((orderedInsert_perm _ a l).subset hc) with rfl | hc'
      · unfold LexBefore
        omega
      · exact hb.1 c hc'

theorem stableSort_sorted (prio : α → Int) (l : List (α × Nat)) (h : TieOrdered prio l) :
    (stableSort (fun x => prio x.1) l).Pairwise (LexBefore prio) := by
  induction l with
  | nil => exact List.Pairwise.nil
  | cons a l ih =>
    have ha := List.pairwise_cons.mp h
    rw [stableSort_cons]
    refine orderedInsert_sorted prio a _ (ih ha.2) ?_
    intro b hb
    exact ha.1 b ((stableSort_perm _ l).subset hb)

theorem tieOrdered_zipIdx (prio : α → Int) (l : List α) (n : Nat) : TieOrdered prio (l.zipIdx n) := by
  induction l generalizing n with
  | nil => exact List.Pairwise.nil
  | cons a l ih =>
    simp only [List.zipIdx_cons]
    refine List.pairwise_cons.mpr ⟨?_, ih (n + 1)⟩
    intro b hb _
    have := List.mem_zipIdx hb
    simp only
    omega

/-- the step every registration makes: appending new registrations to an arranged slice and stable-sorting
    it arranges the longer history -/
theorem isPriorityOrder_append_sort (prio : α → Int) (regs o ls : List α) (h : IsPriorityOrder prio regs o) :
    IsPriorityOrder prio (regs ++ ls) (stableSort prio (o ++ ls)) := by
  obtain ⟨tagged, hp, hs, rfl⟩ := h
  let news := ls.zipIdx regs.length
  refine ⟨stableSort (fun x => prio x.1) (tagged ++ news), ?_, ?_, ?_⟩
  · refine (stableSort_perm _ _).trans ?_
    rw [List.zipIdx_append]
    simp only [Nat.zero_add]
    exact List.Perm.append_right _ hp
  · apply stableSort_sorted
    unfold TieOrdered
    rw [List.pairwise_append]
    refine ⟨hs.imp ?_, tieOrdered_zipIdx prio ls regs.length, ?_⟩
    · intro a b hab heq
      unfold LexBefore at hab
      omega
    · intro a ha b hb _
      have h1 := List.mem_zipIdx (hp.subset ha)
      have h2 := List.mem_zipIdx hb
      omega
  · rw [stableSort_map]
    congr 1
    simp only [List.map_append, news]
    congr 1
    exact (List.zipIdx_map_fst _ _).symm

theorem isPriorityOrder_nil (prio : α → Int) : IsPriorityOrder prio [] [] :=
  ⟨[], List.Perm.refl _, List.Pairwise.nil, rfl⟩

/-- core's stable merge sort on descending priority produces the dispatch order -/
theorem isPriorityOrder_mergeSort {α : Type} (prio : α → Int) (regs : List α) :
    IsPriorityOrder prio regs (regs.mergeSort (fun a b => decide (prio a ≥ prio b))) := by
  let le : α → α → Bool := fun a b => decide (prio a ≥ prio b)
  have htrans : ∀ a b c, le a b → le b c → le a c := by
    intro a b c h1 h2
    simp only [le, decide_eq_true_eq] at *
    omega
  have htotal : ∀ a b, le a b || le b a := by
    intro a b
    simp only [le, Bool.or_eq_true, decide_eq_true_eq]
    omega
  refine ⟨List.mergeSort regs.zipIdx (List.zipIdxLE le), List.mergeSort_perm _ _, ?_, List.mergeSort_zipIdx.symm⟩
  have hs := List.pairwise_mergeSort (List.zipIdxLE_trans htrans) (List.zipIdxLE_total htotal) regs.zipIdx
  have hnd : ((List.mergeSort regs.zipIdx (List.zipIdxLE le)).map (·.2)).Nodup :=
    ((List.mergeSort_perm regs.zipIdx (List.zipIdxLE le)).map (fun x : α × Nat => x.2)).nodup_iff.mpr (zipIdx_tags_nodup regs 0)
  have hne : (List.mergeSort regs.zipIdx (List.zipIdxLE le)).Pairwise (fun a b => a.2 ≠ b.2) := by
    rw [List.nodup_iff_pairwise_ne, List.pairwise_map] at hnd
    exact hnd
  refine (hs.and hne).imp ?_
  intro a b ⟨h1, h2⟩
  simp only [List.zipIdxLE, le] at h1
  unfold LexBefore
  split at h1
  · split at h1
    · rename_i x y
      simp only [decide_eq_true_eq] at x y h1
      omega
    · rename_i x y
      simp only [decide_eq_true_eq] at x y
      omega
  · cases h1

/-! ### the registration invariant of `bot.Events` -/

variable {σ ε : Type}

/-- the registrations made so far, oldest first, flattened: (is generic, handler) -/
abbrev Regs (σ ε : Type) := List (Bool × Handler σ ε)

def genericRegs (fl : Regs σ ε) : List (Handler σ ε) := (fl.filter (·.1)).map (·.2)
def listenerRegs (fl : Regs σ ε) (k : Nat) : List (Handler σ ε) :=
  (fl.filter (fun x => !x.1 && x.2.id == (k : Int))).map (·.2)

def flatCall : RegCall σ ε → Regs σ ε
  | .listener ls => ls.map (false, ·)
  | .generic ls => ls.map (true, ·)

def flatCalls (cs : List (RegCall σ ε)) : Regs σ ε := cs.flatMap flatCall

structure Inv (guard : Nat) (fl : Regs σ ε) (e : Events σ ε) : Prop where
  len : e.handlers.length = guard
  gen : IsPriorityOrder Handler.prio (genericRegs fl) e.generic
  slot : ∀ k, k < guard → IsPriorityOrder Handler.prio (listenerRegs fl k) (e.handlers.getD k [])

theorem inv_new (guard : Nat) : Inv guard ([] : Regs σ ε) (newEvents guard) := by
  refine ⟨by simp [newEvents], isPriorityOrder_nil _, ?_⟩
  intro k hk
  simp only [newEvents, listenerRegs, List.filter_nil, List.map_nil]
  rw [List.getD_eq_getElem?_getD]
  simp [hk, isPriorityOrder_nil]

theorem stableSort_singleton (prio : α → Int) (a : α) : stableSort prio [a] = [a] := rfl

theorem inv_addOne (guard : Nat) (fl : Regs σ ε) (e e' : Events σ ε) (l : Handler σ ε)
    (hi : Inv guard fl e) (h : addOne e l = .ok e') : Inv guard (fl ++ [(false, l)]) e' := by
  unfold addOne at h
  split at h
  · cases h
  · rename_i hr
    simp only [Res.ok.injEq] at h
    subst h
    have hlen := hi.len
    have hid0 : 0 ≤ l.id := by omega
    have hidlt : l.id.toNat < guard := by omega
    -- both branches of the nil test are the sort of the appended slice
    have hs : (if (e.handlers.getD l.id.toNat []).isEmpty then [l]
        else sortPacketHandlers (e.handlers.getD l.id.toNat [] ++ [l]))
        = stableSort Handler.prio (e.handlers.getD l.id.toNat [] ++ [l]) := by
      split
      · rename_i hemp
        rw [List.isEmpty_iff.mp hemp]
        rfl
      · rfl
    refine ⟨by simp [hlen], ?_, ?_⟩
    · have : genericRegs (fl ++ [(false, l)]) = genericRegs fl := by
        simp [genericRegs, List.filter_append]
      rw [this]
      exact hi.gen
    · intro k hk
      simp only
      rw [hs]
      by_cases hkl : k = l.id.toNat
      · subst hkl
        have : listenerRegs (fl ++ [(false, l)]) l.id.toNat = listenerRegs fl l.id.toNat ++ [l] := by
          have : ((l.id.toNat : Nat) : Int) = l.id := Int.toNat_of_nonneg hid0
          simp [listenerRegs, List.filter_append, this]
        rw [this]
        rw [List.getD_eq_getElem?_getD, List.getElem?_set_self (by omega)]
        simp only [Option.getD_some]
        exact isPriorityOrder_append_sort _ _ _ _ (hi.slot _ hk)
      · have : listenerRegs (fl ++ [(false, l)]) k = listenerRegs fl k := by
          have : ¬ (l.id = (k : Int)) := by omega
          simp [listenerRegs, List.filter_append, this]
        rw [this]
        rw [List.getD_eq_getElem?_getD, List.getElem?_set_ne (by omega), ← List.getD_eq_getElem?_getD]
        exact hi.slot k hk

theorem inv_addListener (guard : Nat) (ls : List (Handler σ ε)) :
    ∀ (fl : Regs σ ε) (e e' : Events σ ε), Inv guard fl e → addListener e ls = .ok e' →
      Inv guard (fl ++ ls.map (false, ·)) e' := by
  induction ls with
  | nil =>
    intro fl e e' hi h
    simp only [addListener, Res.ok.injEq] at h
    subst h
    simpa using hi
  | cons l ls ih =>
    intro fl e e' hi h
    unfold addListener at h
    cases h1 : addOne e l with
    | ok e1 =>
      rw [h1] at h
      have := ih (fl ++ [(false, l)]) e1 e' (inv_addOne guard fl e e1 l hi h1) h
      simpa using this
    | err => rw [h1] at h; cases h
    | panic => rw [h1] at h; cases h

theorem inv_addGeneric (guard : Nat) (fl : Regs σ ε) (e : Events σ ε) (ls : List (Handler σ ε))
    (hi : Inv guard fl e) : Inv guard (fl ++ ls.map (true, ·)) (addGeneric e ls) := by
  refine ⟨hi.len, ?_, ?_⟩
  · have : genericRegs (fl ++ ls.map (true, ·)) = genericRegs fl ++ ls := by
      simp [genericRegs, List.filter_append, List.filter_map, Function.comp_def]
    rw [this]
    exact isPriorityOrder_append_sort _ _ _ _ hi.gen
  · intro k hk
    have : listenerRegs (fl ++ ls.map (true, ·)) k = listenerRegs fl k := by
      simp [listenerRegs, List.filter_append, List.filter_map, Function.comp_def]
    rw [this]
    exact hi.slot k hk

theorem inv_register (guard : Nat) (cs : List (RegCall σ ε)) :
    ∀ (fl : Regs σ ε) (e e' : Events σ ε), Inv guard fl e → register e cs = .ok e' →
      Inv guard (fl ++ flatCalls cs) e' := by
  induction cs with
  | nil =>
    intro fl e e' hi h
    simp only [register, Res.ok.injEq] at h
    subst h
    simpa [flatCalls] using hi
  | cons c cs ih =>
    intro fl e e' hi h
    cases c with
    | listener ls =>
      unfold register at h
      cases h1 : addListener e ls with
      | ok e1 =>
        rw [h1] at h
        have := ih _ e1 e' (inv_addListener guard ls fl e e1 hi h1) h
        simpa [flatCalls, flatCall, List.append_assoc] using this
      | err => rw [h1] at h; cases h
      | panic => rw [h1] at h; cases h
    | generic ls =>
      unfold register at h
      have := ih _ _ e' (inv_addGeneric guard fl e ls hi) h
      simpa [flatCalls, flatCall, List.append_assoc] using this

/-! ### running handlers -/

theorem runHandlers_eq_runSeq (hs : List (Handler σ ε)) (p : Pkt) (st : σ) :
    runHandlers hs p st = runSeq (fun h => h.f p) hs st := by
  induction hs generalizing st with
  | nil => rfl
  | cons h hs ih =>
    unfold runHandlers runSeq
    cases h.f p st with
    | mk s o =>
      cases o with
      | none => exact ih s
      | some e => rfl

theorem runSeq_append (apply : α → σ → σ × Option ε) (a b : List α) (st : σ) :
    runSeq apply (a ++ b) st =
      match runSeq apply a st with
      | (st', some e) => (st', some e)
      | (st', none) => runSeq apply b st' := by
  induction a generalizing st with
  | nil => rfl
  | cons h a ih =>
    simp only [List.cons_append, runSeq]
    cases apply h st with
    | mk s o =>
      cases o with
      | none => exact ih s
      | some e => rfl

/-! ### the bundle collector and the game loop -/

/-- no packet of `l` is the bundle delimiter -/
def NoDelim (l : List Pkt) : Prop := ∀ p ∈ l, p.id ≠ bundleDelimiter

theorem collect_closed (inner : List Pkt) :
    ∀ (n : Nat) (acc : List Pkt) (d : Pkt) (rest : List Pkt), NoDelim inner → d.id = bundleDelimiter →
      inner.length < n → collect n acc (inner ++ d :: rest) = .closed (acc ++ inner) rest := by
  induction inner with
  | nil =>
    intro n acc d rest _ hd hl
    cases n with
    | zero => omega
    | succ n => simp [collect, hd]
  | cons p inner ih =>
    intro n acc d rest hn hd hl
    cases n with
    | zero => simp at hl
    | succ n =>
      have hp : p.id ≠ bundleDelimiter := hn p List.mem_cons_self
      simp only [List.cons_append, collect, hp, if_false]
      rw [ih n (acc ++ [p]) d rest (fun q hq => hn q (List.mem_cons_of_mem _ hq)) hd (by simpa using hl)]
      simp

theorem collect_readErr (inner : List Pkt) :
    ∀ (n : Nat) (acc : List Pkt), NoDelim inner → inner.length < n → collect n acc inner = .readErr := by
  induction inner with
  | nil =>
    intro n acc _ hl
    cases n with
    | zero => omega
    | succ n => rfl
  | cons p inner ih =>
    intro n acc hn hl
    cases n with
    | zero => simp at hl
    | succ n =>
      have hp : p.id ≠ bundleDelimiter := hn p List.mem_cons_self
      simp only [collect, hp, if_false]
      exact ih n _ (fun q hq => hn q (List.mem_cons_of_mem _ hq)) (by simpa using hl)

theorem collect_limit (inner : List Pkt) :
    ∀ (n : Nat) (acc more : List Pkt), NoDelim inner → inner.length = n → collect n acc (inner ++ more) = .limit := by
  induction inner with
  | nil =>
    intro n acc more _ hl
    simp only [List.length_nil] at hl
    subst hl
    simp [collect]
  | cons p inner ih =>
    intro n acc more hn hl
    cases n with
    | zero => simp at hl
    | succ n =>
      have hp : p.id ≠ bundleDelimiter := hn p List.mem_cons_self
      simp only [List.cons_append, collect, hp, if_false]
      exact ih n _ more (fun q hq => hn q (List.mem_cons_of_mem _ hq)) (by simpa using hl)

theorem collect_rest_length :
    ∀ (n : Nat) (acc ps inner rest : List Pkt), collect n acc ps = .closed inner rest → rest.length < ps.length := by
  intro n
  induction n with
  | zero => intro acc ps inner rest h; simp [collect] at h
  | succ n ih =>
    intro acc ps inner rest h
    cases ps with
    | nil => simp [collect] at h
    | cons p ps =>
      simp only [collect] at h
      split at h
      · simp only [Collected.closed.injEq] at h
        simp [← h.2]
      · have := ih _ _ _ _ h
        simp only [List.length_cons]
        omega

/-- the fuel of `handleGameF` is irrelevant once it exceeds the number of packets -/
theorem handleGameF_fuel (e : Events σ ε) :
    ∀ (f1 f2 : Nat) (ps : List Pkt) (st : σ), ps.length < f1 → ps.length < f2 →
      handleGameF e f1 ps st = handleGameF e f2 ps st := by
  intro f1
  induction f1 with
  | zero => intro f2 ps st h; omega
  | succ f1 ih =>
    intro f2 ps st h1 h2
    cases f2 with
    | zero => omega
    | succ f2 =>
      cases ps with
      | nil => rfl
      | cons p ps =>
        simp only [handleGameF]
        simp only [List.length_cons] at h1 h2
        split
        · cases hc : collect bundleLimit [] ps with
          | readErr => rfl
          | limit => rfl
          | closed inner rest =>
            have hr := collect_rest_length _ _ _ _ _ hc
            simp only
            cases handleAll e inner st with
            | mk s o =>
              cases o with
              | some x => rfl
              | none => exact ih f2 rest s (by omega) (by omega)
        · cases handlePacket e p st with
          | mk s o =>
            cases o with
            | some x => rfl
            | none => exact ih f2 ps s (by omega) (by omega)

theorem handleGame_nil (e : Events σ ε) (st : σ) : handleGame e [] st = (st, .readErr) := rfl

theorem handleGame_plain (e : Events σ ε) (p : Pkt) (ps : List Pkt) (st : σ) (hp : p.id ≠ bundleDelimiter) :
    handleGame e (p :: ps) st =
      match handlePacket e p st with
      | (st', some x) => (st', x)
      | (st', none) => handleGame e ps st' := by
  simp only [handleGame, List.length_cons, handleGameF, hp, if_false]
  cases handlePacket e p st with
  | mk s o =>
    cases o with
    | some x => rfl
    | none => rfl

/-! ### resumed runs -/

theorem handleAll_fail (e : Events σ ε) (pre : List Pkt) :
    ∀ (q : Pkt) (post : List Pkt) (st st1 st2 : σ) (x : End ε), handleAll e pre st = (st1, none) →
      handlePacket e q st1 = (st2, some x) → handleAll e (pre ++ q :: post) st = (st2, some x) := by
  induction pre with
  | nil =>
    intro q post st st1 st2 x hpre hq
    simp only [handleAll, Prod.mk.injEq, and_true] at hpre
    subst hpre
    simp only [List.nil_append, handleAll, hq]
  | cons p pre ih =>
    intro q post st st1 st2 x hpre hq
    simp only [List.cons_append, handleAll] at hpre ⊢
    cases hp : handlePacket e p st with
    | mk s o =>
      rw [hp] at hpre
      cases o with
      | some y => simp at hpre
      | none => exact ih q post s st1 st2 x hpre hq

/-- `handleGameR` is `handleGameF` plus the remaining packets -/
theorem handleGameR_proj (e : Events σ ε) :
    ∀ (f : Nat) (ps : List Pkt) (st : σ),
      ((handleGameR e f ps st).1, (handleGameR e f ps st).2.1) = handleGameF e f ps st := by
  intro f
  induction f with
  | zero => intro ps st; rfl
  | succ f ih =>
    intro ps st
    cases ps with
    | nil => rfl
    | cons p ps =>
      simp only [handleGameR, handleGameF]
      split
      · cases collect bundleLimit [] ps with
        | readErr => rfl
        | limit => rfl
        | closed inner rest =>
          simp only
          cases handleAll e inner st with
          | mk s o =>
            cases o with
            | some x => rfl
            | none => exact ih rest s
      · cases handlePacket e p st with
        | mk s o =>
          cases o with
          | some x => rfl
          | none => exact ih ps s

theorem handleGameRest_bundle_error (e : Events σ ε) (d d' q : Pkt) (pre post rest : List Pkt) (st st1 st2 : σ)
    (x : End ε) (hd : d.id = bundleDelimiter) (hd' : d'.id = bundleDelimiter) (hn : NoDelim (pre ++ q :: post))
    (hl : (pre ++ q :: post).length < bundleLimit)
    (hpre : handleAll e pre st = (st1, none)) (hq : handlePacket e q st1 = (st2, some x)) :
    handleGameRest e (d :: ((pre ++ q :: post) ++ d' :: rest)) st = (st2, x, rest) := by
  simp only [handleGameRest, List.length_cons, handleGameR, hd, if_true]
  rw [collect_closed (pre ++ q :: post) bundleLimit [] d' rest hn hd' hl]
  simp only [List.nil_append]
  rw [handleAll_fail e pre q post st st1 st2 x hpre hq]

end GoMC.Lemmas.Dispatch
