/-
  Lemma for C04_tagtype_agrees: the tag `TagType()` announces for a text is the tag the emitter itself writes in
  front of the same value (`writeValue` with `ifWriteTag = true`).
-/
import GoMC.Lemmas.SNBTFuel
namespace GoMC.Model.SNBT
open GoMC Scanner DState

theorem hdr_true (t : Byte) : hdr true t [] = [t, 0, 0] := by
  simp [hdr, writeTag, Spec.beBytes]

theorem readLiteral_ok_inv (d d' : DState) (lit : Bytes) (h : readLiteral d = .ok (d', lit)) :
    d' = scanWhile .cont d ∧ (d'.opcode == Op.error) = false ∧ d'.slice d.readIndex d'.readIndex = some lit := by
  unfold readLiteral at h
  dsimp only at h
  split at h
  · cases h
  · rename_i hne
    split at h
    · cases h
    · rename_i l hs
      injection h with h; injection h with e1 e2
      subst e1; subst e2
      exact ⟨rfl, by simpa using hne, hs⟩

/-- the tag `TagType()` announces is the tag the emitter itself writes for the value (the tag it puts in front
of the same value inside a compound), whenever the emitter produces a document -/
theorem tagType_agrees (fo : FloatOracle) (fuel : Nat) (text : Bytes) (d : DState) (out : Bytes)
    (h : writeValue fo fuel { data := text, scan := Scanner.reset } false [] = .ok (d, out)) :
    ∃ t, tagType fo text = .ok t ∧
      writeValue fo fuel { data := text, scan := Scanner.reset } true [] = .ok (d, t :: 0 :: 0 :: out) := by
  cases fuel with
  | zero => simp [writeValue] at h
  | succ f =>
    unfold writeValue at h ⊢
    unfold tagType
    dsimp only at h ⊢
    have h1 := skipBV [] { data := text, scan := Scanner.reset } reset_BV reset_good
    generalize scanWhile .skipSpace { data := text, scan := Scanner.reset } = d1 at h h1 ⊢
    obtain ⟨hg1, ho1, ob, hp, hb1, hb2⟩ := h1
    rcases hp with e | ⟨e, hl⟩ | ⟨e, hce⟩ | ⟨e, hla⟩
    · rw [e] at h; cases h
    · rw [e] at h ⊢; dsimp only at h ⊢
      cases hr : readLiteral d1 with
      | err => rw [hr] at h; cases h
      | panic => rw [hr] at h; cases h
      | fuel => rw [hr] at h; cases h
      | ok p =>
        obtain ⟨d2, lit⟩ := p
        rw [hr] at h; dsimp only at h ⊢
        obtain ⟨e2, hne, hsl⟩ := readLiteral_ok_inv d1 d2 lit hr
        subst e2
        rw [hne, hsl]
        dsimp only
        cases hpl : parseLiteral fo lit with
        | err => rw [hpl] at h; cases h
        | panic => rw [hpl] at h; cases h
        | fuel => rw [hpl] at h; cases h
        | ok q =>
          obtain ⟨t, v⟩ := q
          rw [hpl] at h
          cases v with
          | none => cases h
          | some v =>
            dsimp only at h ⊢
            by_cases hok : litOk v = true
            case neg => rw [if_pos (by simp [hok])] at h; cases h
            simp only [hok, Bool.not_true, Bool.false_eq_true, if_false] at h ⊢
            injection h with h; injection h with e1 e2
            subst e1
            refine ⟨t, by simp, ?_⟩
            rw [← e2, hdr_true]; simp [hdr]
    · rw [e] at h ⊢; dsimp only at h ⊢
      cases hr : compLoop fo f d1 [] with
      | err => rw [hr] at h; cases h
      | panic => rw [hr] at h; cases h
      | fuel => rw [hr] at h; cases h
      | ok p =>
        obtain ⟨d2, o⟩ := p
        rw [hr] at h; dsimp only at h ⊢
        injection h with h; injection h with e1 e2
        subst e1
        refine ⟨tagCompound, rfl, ?_⟩
        rw [← e2, hdr_true]; simp [hdr]
    · rw [e] at h ⊢; dsimp only at h ⊢
      cases hr : writeListOrArray fo f d1 false [] with
      | err => rw [hr] at h; cases h
      | panic => rw [hr] at h; cases h
      | fuel => rw [hr] at h; cases h
      | ok p =>
        obtain ⟨d2, t, o⟩ := p
        rw [hr] at h; dsimp only at h
        injection h with h; injection h with e1 e2
        subst e1; subst e2
        cases f with
        | zero => simp [writeListOrArray] at hr
        | succ f =>
          unfold writeListOrArray at hr ⊢
          dsimp only at hr ⊢
          have h3 := skipLA [] d1 hla hg1
          generalize scanWhile .skipSpace d1 = d3 at hr h3 ⊢
          obtain ⟨hg3, ho3, ob3, hp3, hc1, hc2⟩ := h3
          by_cases hend : d3.opcode = .endValue
          · rw [if_pos (show (d3.opcode == Op.endValue) = true by simp [hend])] at hr ⊢
            injection hr with hr; injection hr with e1 e2; injection e2 with e2 e3
            subst e1; subst e2
            refine ⟨tagList, by rw [hend]; simp, ?_⟩
            rw [← e3, hdr_true]; simp [hdr]
          · rw [if_neg (show ¬ (d3.opcode == Op.endValue) = true by simp [hend])] at hr ⊢
            have hp' : d3.opcode = .error ∨ BVOk true [.listValue] d3.scan d3.opcode ob3 := by
              rcases hp3 with e | ⟨e, _⟩ | hb
              · exact Or.inl e
              · exact absurd e hend
              · exact Or.inr hb
            rcases hp' with e | ⟨e, hl⟩ | ⟨e, _⟩ | ⟨e, _⟩
            · rw [e] at hr; cases hr
            · -- first element is a literal
              rw [e] at hr ⊢; dsimp only at hr ⊢
              simp only [beq_self_eq_true, if_true]
              cases hrl : readLiteral d3 with
              | err => rw [hrl] at hr; cases hr
              | panic => rw [hrl] at hr; cases hr
              | fuel => rw [hrl] at hr; cases hr
              | ok p =>
                obtain ⟨d4, lit⟩ := p
                rw [hrl] at hr; dsimp only at hr ⊢
                obtain ⟨e4, hne, hsl⟩ := readLiteral_ok_inv d3 d4 lit hrl
                subst e4
                rw [hne, hsl]
                dsimp only
                generalize skip (scanWhile .cont d3) = d5 at hr ⊢
                by_cases e5 : d5.opcode = .error
                · rw [if_pos (by simp [e5])] at hr; cases hr
                · rw [if_neg (show ¬ (d5.opcode == Op.error) = true by simp [e5])] at hr ⊢
                  by_cases elt : d5.opcode = .listType
                  · rw [if_pos (show (d5.opcode == Op.listType) = true by simp [elt])] at hr ⊢
                    rw [if_pos (show (d5.opcode == Op.listType) = true by simp [elt])]
                    cases lit with
                    | nil => cases hr
                    | cons c0 rest =>
                      dsimp only at hr ⊢
                      by_cases c1 : (c0 == 66) = true
                      · simp only [c1, if_true] at hr ⊢
                        cases hw : writeArray fo f d5 tagByte with
                        | err => rw [hw] at hr; cases hr
                        | panic => rw [hw] at hr; cases hr
                        | fuel => rw [hw] at hr; cases hr
                        | ok p =>
                          obtain ⟨d6, o6⟩ := p
                          rw [hw] at hr; dsimp only at hr ⊢
                          injection hr with hr; injection hr with a1 a2; injection a2 with a2 a3
                          subst a1; subst a2
                          refine ⟨tagByteArray, by simp, ?_⟩
                          rw [← a3, hdr_true]; simp [hdr]
                      · by_cases c2 : (c0 == 73) = true
                        · simp only [c1, c2, if_true, Bool.false_eq_true, if_false] at hr ⊢
                          cases hw : writeArray fo f d5 tagInt with
                          | err => rw [hw] at hr; cases hr
                          | panic => rw [hw] at hr; cases hr
                          | fuel => rw [hw] at hr; cases hr
                          | ok p =>
                            obtain ⟨d6, o6⟩ := p
                            rw [hw] at hr; dsimp only at hr ⊢
                            injection hr with hr; injection hr with a1 a2; injection a2 with a2 a3
                            subst a1; subst a2
                            refine ⟨tagIntArray, by simp, ?_⟩
                            rw [← a3, hdr_true]; simp [hdr]
                        · by_cases c3 : (c0 == 76) = true
                          · simp only [c1, c2, c3, if_true, Bool.false_eq_true, if_false] at hr ⊢
                            cases hw : writeArray fo f d5 tagLong with
                            | err => rw [hw] at hr; cases hr
                            | panic => rw [hw] at hr; cases hr
                            | fuel => rw [hw] at hr; cases hr
                            | ok p =>
                              obtain ⟨d6, o6⟩ := p
                              rw [hw] at hr; dsimp only at hr ⊢
                              injection hr with hr; injection hr with a1 a2; injection a2 with a2 a3
                              subst a1; subst a2
                              refine ⟨tagLongArray, by simp, ?_⟩
                              rw [← a3, hdr_true]; simp [hdr]
                          · simp only [c1, c2, c3, Bool.false_eq_true, if_false] at hr
                            cases hr
                  · rw [if_neg (show ¬ (d5.opcode == Op.listType) = true by simp [elt])] at hr ⊢
                    rw [if_neg (show ¬ (d5.opcode == Op.listType) = true by simp [elt])]
                    split at hr
                    · cases hr
                    · cases hll : litListLoop fo f d5 lit 0 0 [] with
                      | err => rw [hll] at hr; cases hr
                      | panic => rw [hll] at hr; cases hr
                      | fuel => rw [hll] at hr; cases hr
                      | ok p =>
                        obtain ⟨d6, o6⟩ := p
                        rw [hll] at hr; dsimp only at hr
                        injection hr with hr; injection hr with a1 a2; injection a2 with a2 a3
                        subst a1; subst a2
                        refine ⟨tagList, rfl, ?_⟩
                        rename_i hx
                        rw [if_neg hx]
                        dsimp only
                        rw [← a3, hdr_true]; simp [hdr]
            · -- list of compounds
              rw [e] at hr ⊢; dsimp only at hr ⊢
              cases hll : compListLoop fo f d3 0 [] with
              | err => rw [hll] at hr; cases hr
              | panic => rw [hll] at hr; cases hr
              | fuel => rw [hll] at hr; cases hr
              | ok p =>
                obtain ⟨d6, o6⟩ := p
                rw [hll] at hr; dsimp only at hr ⊢
                injection hr with hr; injection hr with a1 a2; injection a2 with a2 a3
                subst a1; subst a2
                refine ⟨tagList, by simp, ?_⟩
                rw [← a3, hdr_true]; simp [hdr]
            · -- list of lists
              rw [e] at hr ⊢; dsimp only at hr ⊢
              cases hll : listListLoop fo f d3 0 0 [] with
              | err => rw [hll] at hr; cases hr
              | panic => rw [hll] at hr; cases hr
              | fuel => rw [hll] at hr; cases hr
              | ok p =>
                obtain ⟨d6, o6⟩ := p
                rw [hll] at hr; dsimp only at hr ⊢
                injection hr with hr; injection hr with a1 a2; injection a2 with a2 a3
                subst a1; subst a2
                refine ⟨tagList, by simp, ?_⟩
                rw [← a3, hdr_true]; simp [hdr]

end GoMC.Model.SNBT
