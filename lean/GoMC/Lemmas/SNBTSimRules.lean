import GoMC.Lemmas.SNBTSimBase
import GoMC.Lemmas.SNBTTag
namespace GoMC.Model.SNBT
open GoMC Scanner DState Spec
open GoMC.Spec.SNBT (isWs isDigit isLetter isTokenByte skipWs spanToken spanDigits digitsVal stripSign inRange lower
  classify readQuoted readKey arrayElem mkArray readArrayElems readValue readEntries readElems FloatSem Tok)

/-! ### positions -/

theorem pend_of_some (d : DState) (c : Byte) (h1 : 1 ≤ d.off) (h2 : d.data[d.off - 1]? = some c) :
    d.pend = c :: d.next ∧ d.off ≤ d.data.length := by
  have hlt : d.off - 1 < d.data.length := by
    apply Classical.byContradiction; intro hn
    rw [List.getElem?_eq_none (by omega)] at h2; cases h2
  refine ⟨?_, by omega⟩
  unfold DState.pend DState.next
  rw [List.drop_eq_getElem_cons hlt]
  have : d.data[d.off - 1] = c := by
    rw [List.getElem?_eq_getElem hlt] at h2; exact Option.some.inj h2
  rw [this]
  congr 2; omega

theorem pend_length (d : DState) (h : d.off ≤ d.data.length + 1) (h1 : 1 ≤ d.off) :
    d.pend.length = d.data.length + 1 - d.off := by
  unfold DState.pend; simp; omega

theorem next_length (d : DState) : d.next.length = d.data.length - d.off := by
  unfold DState.next; simp

/-- the `At` facts about the pending byte -/
theorem at_pend {P : Scanner → Op → Option Byte → Prop} {d : DState} (h : d.At P) :
    ∃ ob, P d.scan d.opcode ob ∧ ((∃ c, ob = some c ∧ d.pend = c :: d.next ∧ d.off ≤ d.data.length ∧ 1 ≤ d.off) ∨
      (ob = none ∧ d.pend = [] ∧ d.next = [] ∧ d.off = d.data.length + 1)) := by
  obtain ⟨_, ho, ob, hp, h1, h2⟩ := h
  refine ⟨ob, hp, ?_⟩
  cases ob with
  | some c =>
    obtain ⟨a, b⟩ := h1 c rfl
    obtain ⟨e1, e2⟩ := pend_of_some d c a b
    exact Or.inl ⟨c, rfl, e1, e2, a⟩
  | none =>
    have := h2 rfl
    refine Or.inr ⟨rfl, ?_, ?_, this⟩
    · unfold DState.pend; rw [this]; simp
    · unfold DState.next; rw [this]; simp

/-- `d.scanNext()`: the pending text becomes what was the next text -/
theorem scanNext_text (d : DState) (ho : d.off ≤ d.data.length + 1) :
    d.scanNext.data = d.data ∧ d.scanNext.pend = d.next ∧ (d.off ≤ d.data.length → d.off = d.scanNext.off - 1) ∧
    d.scanNext.off ≤ d.data.length + 1 ∧ 1 ≤ d.scanNext.off := by
  unfold DState.scanNext
  cases hc : d.data[d.off]? with
  | some c =>
    have hlt : d.off < d.data.length := by
      apply Classical.byContradiction; intro hn
      rw [List.getElem?_eq_none (by omega)] at hc; cases hc
    simp only
    refine ⟨trivial, ?_, fun _ => by simp, by simp; omega, by simp⟩
    unfold DState.pend DState.next; simp
  | none =>
    have hge : d.data.length ≤ d.off := by
      apply Classical.byContradiction; intro hn
      rw [List.getElem?_eq_getElem (by omega)] at hc; cases hc
    simp only
    refine ⟨trivial, ?_, fun h => by simp; omega, by simp, by simp⟩
    unfold DState.pend DState.next
    simp
    exact hge

/-- `scanNext` after a closing bracket: the opcode tells whether the byte consumed is white space -/
theorem nextPopped_wsrel (σ : List PS) (d : DState) (h : ListClosed σ d) :
    ∀ x k, d.scanNext.pend = x :: k → WsRel σ d.scanNext.opcode x := by
  obtain ⟨_, ho, _, ⟨_, hpop⟩, _, _⟩ := h
  obtain ⟨_, hpend, _, _, _⟩ := scanNext_text d ho
  intro x k hx
  rw [hpend] at hx
  unfold DState.scanNext
  have hlt : d.off < d.data.length := by
    apply Classical.byContradiction; intro hn
    unfold DState.next at hx
    rw [List.drop_eq_nil_of_le (by omega)] at hx; cases hx
  have hc : d.data[d.off]? = some x := by
    unfold DState.next at hx
    rw [List.drop_eq_getElem_cons hlt] at hx
    injection hx with hx _
    rw [List.getElem?_eq_getElem hlt, hx]
  rw [hc]
  simp only
  obtain ⟨hst, hcase⟩ := hpop
  rcases hcase with ⟨e, hs, _⟩ | ⟨hne, hs, _⟩
  · subst e
    have key : d.scan.step x = stEndTop d.scan x := by unfold Scanner.step; rw [hs]
    rw [key]
    unfold stEndTop
    refine ⟨?_, fun _ h => absurd rfl h, ?_, ?_, ?_, ?_⟩ <;> (split <;> simp)
  · have key : d.scan.step x = stEndValue d.scan x := by unfold Scanner.step; rw [hs]
    rw [key]
    exact stEndValue_WsRel σ d.scan x hst

/-! ### which byte produced which opcode -/

/-- a value begins: the opening brackets -/
def BegRel (o : Op) (c : Byte) : Prop := (o = .beginCompound → c = 123) ∧ (o = .beginList → c = 91)

theorem push_ops (s : Scanner) (p : PS) (op : Op) : (Scanner.push s p op).2 = op ∨ (Scanner.push s p op).2 = .error := by
  unfold Scanner.push
  dsimp only
  split <;> simp [Scanner.error]

theorem stBeginString_ops (s : Scanner) (c : Byte) :
    (stBeginString s c).2 = .skipSpace ∨ (stBeginString s c).2 = .beginLiteral ∨ (stBeginString s c).2 = .error := by
  unfold stBeginString
  (repeat' split) <;> simp [Scanner.error]

theorem stBeginValue_BegRel (s : Scanner) (c : Byte) : BegRel (stBeginValue s c).2 c := by
  unfold stBeginValue
  split
  · exact ⟨by simp, by simp⟩
  · split
    · rename_i h
      have hc : c = 123 := eq_of_beq h
      refine ⟨fun _ => hc, ?_⟩
      intro h2
      rcases push_ops { s with st := .compoundOrEmpty } .compoundName .beginCompound with e | e <;> rw [e] at h2 <;> cases h2
    · split
      · rename_i h
        have hc : c = 91 := eq_of_beq h
        refine ⟨?_, fun _ => hc⟩
        intro h2
        rcases push_ops { s with st := .listOrArray } .listValue .beginList with e | e <;> rw [e] at h2 <;> cases h2
      · have hbs : BegRel (stBeginString s c).2 c := by
          rcases stBeginString_ops s c with e | e | e <;> rw [e] <;> exact ⟨by simp, by simp⟩
        split
        · exact hbs
        · split
          · exact ⟨by simp, by simp⟩
          · split
            · exact hbs
            · exact ⟨by simp [Scanner.error], by simp [Scanner.error]⟩

/-- the byte on which `d.scanWhile(scanSkipSpace)` stopped, related to the opcode by `Q` -/
theorem skipSpace_char (d : DState) (X : Scanner → Prop) (Q : Op → Byte → Prop)
    (hX : ∀ s c, X s → ((s.step c).2 = .skipSpace → X (s.step c).1) ∧ Q (s.step c).2 c)
    (h : X d.scan) (hg : d.scan.Good) :
    ∀ x k, (scanWhile .skipSpace d).pend = x :: k → Q (scanWhile .skipSpace d).opcode x := by
  have hat := (scanWhile_spec .skipSpace d (fun s _ => X s) (fun _ o _ ob => ∀ x, ob = some x → Q o x)
    (fun s _ c hI => ⟨(hX s c hI).1, fun _ x hx => by cases hx; exact (hX s c hI).2⟩)
    (fun _ _ _ => by intro x hx; cases hx) [] h hg).2.2
  obtain ⟨ob, hq, hcase⟩ := at_pend hat
  intro x k hx
  rcases hcase with ⟨c, hob, hpe, _, _⟩ | ⟨_, hpe, _, _⟩
  · rw [hpe] at hx
    injection hx with hx _
    rw [← hx]; exact hq c hob
  · rw [hpe] at hx; cases hx

theorem skipBV_char (σ : List PS) (d : DState) (h : BV σ d.scan) (hg : d.scan.Good) :
    ∀ x k, (scanWhile .skipSpace d).pend = x :: k → BegRel (scanWhile .skipSpace d).opcode x :=
  skipSpace_char d (BV σ) BegRel (fun s c hs => ⟨(BV_step σ s c hs).1, by
    have key : s.step c = stBeginValue s c := by unfold Scanner.step; rw [hs.1]
    rw [key]; exact stBeginValue_BegRel s c⟩) h hg

theorem skipEV_char (σ : List PS) (d : DState) (h : EV σ d.scan) (hg : d.scan.Good) :
    ∀ x k, (scanWhile .skipSpace d).pend = x :: k → WsRel σ (scanWhile .skipSpace d).opcode x :=
  skipSpace_char d (EV σ) (WsRel σ) (fun s c hs => ⟨(EV_step σ s c hs).1, by
    have key : s.step c = stEndValue s c := by unfold Scanner.step; rw [hs.1]
    rw [key]; exact stEndValue_WsRel σ s c hs.2.1⟩) h hg

/-- at the end of the text `scanWhile` answers `scanError` or `scanEnd` -/
theorem scanWhile_eof_op (op : Op) (d : DState) (hg : d.scan.Good) (h : (scanWhile op d).pend = []) :
    (scanWhile op d).opcode = .error ∨ (scanWhile op d).opcode = .end_ := by
  have hat := (scanWhile_spec op d (fun _ _ => True) (fun _ o _ ob => ob = none → (o = .error ∨ o = .end_))
    (fun s _ c _ => ⟨fun _ => trivial, by intro _ h; cases h⟩)
    (fun s _ _ => fun _ => Scanner.eof_op s) [] trivial hg).2.2
  obtain ⟨ob, hq, hcase⟩ := at_pend hat
  rcases hcase with ⟨c, _, hpe, _, _⟩ | ⟨hob, _, _, _⟩
  · rw [hpe] at h; cases h
  · exact hq hob

theorem scanNext_eof_op (d : DState) (h : d.scanNext.pend = []) (ho : d.off ≤ d.data.length + 1) :
    d.scanNext.opcode = .error ∨ d.scanNext.opcode = .end_ := by
  obtain ⟨_, hpend, _, _, _⟩ := scanNext_text d ho
  rw [hpend] at h
  unfold DState.scanNext
  have : d.data[d.off]? = none := by
    apply List.getElem?_eq_none
    unfold DState.next at h
    have := congrArg List.length h
    simp at this; omega
  rw [this]
  exact Scanner.eof_op d.scan

/-- what is known about the byte on which a value ended: its relation to the opcode, and at the end of the text
the opcode is `scanError` or `scanEnd` -/
def ExitRel (σ : List PS) (d : DState) : Prop :=
  (∀ x k, d.pend = x :: k → WsRel σ d.opcode x) ∧ (d.pend = [] → d.opcode = .error ∨ d.opcode = .end_) ∧
  (∀ x k, d.pend = x :: k → TopSt σ d.scan x)

/-- `if d.opcode == scanSkipSpace { d.scanWhile(scanSkipSpace) }` after a value: the grammar's `ws*` -/
theorem skip_text (σ : List PS) (d : DState) (hσ : σ ≠ []) (h : AfterV σ d) (hx : ExitRel σ d) :
    (skip d).data = d.data ∧ skipWs d.pend = (skip d).pend ∧ d.off ≤ (skip d).off ∧ ExitRel σ (skip d) := by
  obtain ⟨hw, hxe, htp⟩ := hx
  have hvac : ∀ (dd : DState), ∀ x k, dd.pend = x :: k → TopSt σ dd.scan x := fun _ _ _ _ h => absurd h hσ
  obtain ⟨ob, hp, hcase⟩ := at_pend h
  obtain ⟨hg, _, _⟩ := h
  unfold skip
  split
  · rename_i hop
    have hop' : d.opcode = .skipSpace := by simpa using hop
    rcases hp with ⟨_, hev⟩ | he | he
    · rcases hcase with ⟨c, _, hpe, hle, h1⟩ | ⟨_, hpe, _, hoff⟩
      · have hws : isSpace c = true := (hw c _ hpe).1 hop'
        obtain ⟨t1, t2, t3⟩ := skipSpace_text d (Or.inr (Or.inr (Or.inr (Or.inr (Or.inr ⟨hev.1, by rw [hev.2.1]; exact hσ⟩)))))
          hg hle
        refine ⟨t1, ?_, by omega, skipEV_char σ d hev hg, scanWhile_eof_op .skipSpace d hg, hvac _⟩
        rw [hpe, skipWs, (spec_classes c).2.2, hws]
        simp only [if_true]
        exact t2
      · -- end of text: nothing left on either side
        have hnil : d.data.drop d.off = [] := List.drop_eq_nil_of_le (by omega)
        have hsw : scanWhile .skipSpace d =
            { data := d.data, off := d.data.length + 1, opcode := d.scan.eof.2, scan := d.scan.eof.1 } := by
          unfold scanWhile; rw [hnil]; rfl
        rw [hsw]
        refine ⟨rfl, ?_, by simp only; omega, ?_⟩
        · rw [hpe]
          unfold DState.pend
          simp [skipWs]
        · refine ⟨?_, fun _ => Scanner.eof_op d.scan, hvac _⟩
          intro x k hx
          unfold DState.pend at hx
          simp at hx
    · rw [he] at hop'; cases hop'
    · exfalso; revert he; rw [hop']
      cases σ with
      | nil => simp [EndOk]
      | cons ps r => cases ps <;> simp [EndOk]
  · rename_i hop
    refine ⟨rfl, ?_, Nat.le_refl _, hw, hxe, htp⟩
    have hop' : d.opcode ≠ .skipSpace := by simpa using hop
    apply skipWs_fix
    intro c k hck
    exact (hw c k hck).2.1 hop' hσ




/-- the exit facts after a literal -/
theorem readLiteral_exit (arr : Bool) (σ : List PS) (d : DState) (c : Byte)
    (hs : LitStart arr σ d.scan c) (hg : d.scan.Good) (hoff : 1 ≤ d.off) (hc : d.data[d.off - 1]? = some c)
    (d' : DState) (lit : Bytes) (hr : readLiteral d = .ok (d', lit)) : ExitRel σ d' := by
  have hcore := readLiteral_core arr σ d c hs hg hoff hc
  rw [hr] at hcore
  obtain ⟨_, _, hdata, _, _, _, hws, _, htp⟩ := hcore
  obtain ⟨e, _, _⟩ := readLiteral_ok_inv d d' lit hr
  refine ⟨fun x k hx => hws x k (by unfold DState.pend at hx; rw [hdata] at hx; exact hx), fun hp => ?_,
    fun x k hx => htp x k (by unfold DState.pend at hx; rw [hdata] at hx; exact hx)⟩
  rw [e] at hp ⊢
  exact scanWhile_eof_op .cont d hg hp

/-- the exit facts after a closing bracket -/
theorem nextPopped_top (σ : List PS) (d : DState) (h : ListClosed σ d) :
    ∀ x k, d.scanNext.pend = x :: k → TopSt σ d.scanNext.scan x := by
  obtain ⟨_, ho, _, ⟨_, hpop⟩, _, _⟩ := h
  obtain ⟨_, hpend, _, _, _⟩ := scanNext_text d ho
  intro x k hx hσ
  rw [hpend] at hx
  unfold DState.scanNext
  have hlt : d.off < d.data.length := by
    apply Classical.byContradiction; intro hn
    unfold DState.next at hx
    rw [List.drop_eq_nil_of_le (by omega)] at hx; cases hx
  have hc : d.data[d.off]? = some x := by
    unfold DState.next at hx
    rw [List.drop_eq_getElem_cons hlt] at hx
    injection hx with hx _
    rw [List.getElem?_eq_getElem hlt, hx]
  rw [hc]
  simp only
  obtain ⟨hst, hcase⟩ := hpop
  rcases hcase with ⟨_, hs, _⟩ | ⟨hne, _, _⟩
  · have key : d.scan.step x = stEndTop d.scan x := by unfold Scanner.step; rw [hs]
    rw [key]
    unfold stEndTop
    by_cases hsp : isSpace x = true
    · simp [hsp, hs]
    · simp [hsp, Scanner.error]
  · exact absurd hσ hne

theorem nextPopped_exit (σ : List PS) (d : DState) (h : ListClosed σ d) : ExitRel σ d.scanNext :=
  ⟨nextPopped_wsrel σ d h, fun hp => scanNext_eof_op d hp h.2.1, nextPopped_top σ d h⟩

/-- the byte on which a value ended, when the opcode is neither `scanError` nor `scanEnd` -/
theorem exit_delim {P : Scanner → Op → Option Byte → Prop} (σ : List PS) (d : DState) (hat : d.At P)
    (hx : ExitRel σ d) (h1 : d.opcode ≠ .error) (h2 : d.opcode ≠ .end_) :
    ∃ c, d.pend = c :: d.next ∧ d.off ≤ d.data.length ∧ 1 ≤ d.off ∧ WsRel σ d.opcode c := by
  obtain ⟨ob, _, hcase⟩ := at_pend hat
  rcases hcase with ⟨c, _, hpe, hle, h1o⟩ | ⟨_, hpe, _, _⟩
  · exact ⟨c, hpe, hle, h1o, hx.1 c _ hpe⟩
  · rcases hx.2.1 hpe with h | h
    · exact absurd h h1
    · exact absurd h h2

end GoMC.Model.SNBT
