/-
  C04_roundtrip, typed arrays: exact evaluation of `writeArray` / `arrayLoop` on `[X;e1,e2,…]`.
-/
import GoMC.Lemmas.SNBTRoundScalar
namespace GoMC.Model.SNBT
open GoMC Scanner DState Spec

/-! ### delimiters inside a list / array -/

theorem stEndValue_comma_list (s : Scanner) (σ : List PS) (h : s.stack = .listValue :: σ) :
    stEndValue s 44 = ({ s with st := .beginValue }, .listValue) := by
  unfold stEndValue; rw [h]; simp [isSpace]

theorem stEndValue_close_list (s : Scanner) (σ : List PS) (h : s.stack = .listValue :: σ) :
    stEndValue s 93 = (pop s, .endValue) := by
  unfold stEndValue; rw [h]; simp [isSpace]

theorem pop_nil (s : Scanner) (ps : PS) (h : s.stack = [ps]) :
    pop s = { s with stack := [], st := .endTop, endTop := true } := by
  obtain ⟨st, stack, err, endTop, oob⟩ := s
  simp only at h; subst h; rfl

theorem pop_cons (s : Scanner) (ps a : PS) (r : List PS) (h : s.stack = ps :: a :: r) :
    pop s = { s with stack := a :: r, st := .endValue } := by
  obtain ⟨st, stack, err, endTop, oob⟩ := s
  simp only at h; subst h; rfl

/-- one step after a closing bracket = `stateEndValue` of the enclosing context -/
theorem step_after_pop (s : Scanner) (ps : PS) (σ : List PS) (h : s.stack = ps :: σ) (ht : s.endTop = false)
    (c : Byte) : (pop s).step c = stEndValue { s with stack := σ } c := by
  cases σ with
  | nil =>
    rw [pop_nil s ps h]
    unfold Scanner.step
    simp only
    unfold stEndValue
    simp
  | cons a r =>
    rw [pop_cons s ps a r h]
    unfold Scanner.step
    simp only
    exact stEndValue_st_irrel { s with stack := a :: r } .endValue c

theorem eof_after_pop (s : Scanner) (ps : PS) (σ : List PS) (h : s.stack = ps :: σ) (he : s.err = false)
    (ht : s.endTop = false) : (pop s).eof = Scanner.eof { s with stack := σ, st := .endValue } := by
  cases σ with
  | nil =>
    rw [pop_nil s ps h]
    rw [eof_of { s with stack := [], st := .endValue } he ht]
    have : ({ s with stack := [], st := St.endValue } : Scanner).step 32#8 =
        ({ s with stack := [], st := .endTop, endTop := true }, .end_) := by
      rw [step_end _ (Or.inr (Or.inr (Or.inr rfl))) _ not_allowed_32, stEndValue_space_nil _ rfl]
    rw [this]
    unfold Scanner.eof
    simp [he]
  | cons a r => rw [pop_cons s ps a r h]



theorem pop_st_irrel (s : Scanner) (x : St) : pop { s with st := x } = pop s := by
  unfold pop
  cases hs : s.stack with
  | nil => simp [hs]  -- both raise oob with st := error
  | cons a r => cases r <;> simp [hs]

/-- `d.scanNext()` right after the closing bracket: the byte after the bracket is judged in the enclosing context -/
theorem scanNext_after_pop (s : Scanner) (ps : PS) (σ : List PS) (h : s.stack = ps :: σ) (he : s.err = false)
    (ht : s.endTop = false) (pre' k : Bytes) (o : Op) :
    (DState.mk (pre' ++ k) pre'.length o (pop s)).scanNext =
      DState.mk (pre' ++ k) (pre'.length + 1) (finish { s with stack := σ } k).2 (finish { s with stack := σ } k).1 := by
  unfold scanNext
  cases k with
  | nil =>
    simp only [List.append_nil, List.getElem?_eq_none (Nat.le_refl _)]
    rw [eof_after_pop s ps σ h he ht]
    rfl
  | cons c k' =>
    have : (pre' ++ c :: k')[pre'.length]? = some c := by simp
    simp only [this]
    rw [step_after_pop s ps σ h ht c]
    rfl

/-- texts of array / list elements joined by commas -/
def joinElems : List Bytes → Bytes
  | [] => []
  | [w] => w
  | w :: w' :: r => w ++ [44] ++ joinElems (w' :: r)

/-- an element of a typed array: its text `w` is one token that `parseLiteral` reads as a value of the element
type, whose bytes are `bs` -/
def ArrEl (fo : FloatOracle) (et : Byte) (w bs : Bytes) : Prop :=
  IsTok w ∧ ∃ v, parseLiteral fo w = .ok (et, some v) ∧
    ((et = tagByte ∧ ∃ x, v = .i8 x ∧ bs = [x]) ∨ (et = tagInt ∧ ∃ x, v = .i32 x ∧ bs = beBytes 4 x.toNat) ∨
     (et = tagLong ∧ ∃ x, v = .i64 x ∧ bs = beBytes 8 x.toNat))

theorem isTok_ne93 {w : Bytes} (hw : IsTok w) : ∀ c rest, w = c :: rest → c ≠ 93 := by
  intro c rest e
  obtain ⟨c0, ws, st0, stE, hw', hbeg, _, _⟩ := hw
  rw [e] at hw'
  injection hw' with h1 _
  subst h1
  intro h93; subst h93
  have := hbeg Scanner.reset
  simp [stBeginValue, isSpace, isNumber, isSign, isAllowedInUnquotedString, isUpper, isLower, Scanner.error] at this

theorem skip_mk (D : Bytes) (p : Nat) (o : Op) (sc : Scanner) (h : o ≠ .skipSpace) :
    skip (DState.mk D p o sc) = DState.mk D p o sc := by
  unfold skip
  have : (o == Op.skipSpace) = false := by simpa using h
  simp [this]

theorem arrayLoop_spec (fo : FloatOracle) (et : Byte) :
    ∀ (elems : List (Bytes × Bytes)), elems ≠ [] → (∀ e ∈ elems, ArrEl fo et e.1 e.2) →
    ∀ (pre k : Bytes) (s : Scanner) (σ : List PS) (o : Op) (count : Nat) (buf : Bytes) (f : Nat),
      s.stack = .listValue :: σ → s.err = false → s.endTop = false →
      (∀ c, isSpace c = false → c ≠ 93 → s.step c = stBeginValue s c) → elems.length ≤ f →
      arrayLoop fo et f
          (scanWhile .skipSpace (DState.mk (pre ++ joinElems (elems.map (·.1)) ++ 93 :: k) pre.length o s)) count buf =
        .ok (DState.mk (pre ++ joinElems (elems.map (·.1)) ++ 93 :: k)
               (pre.length + (joinElems (elems.map (·.1))).length + 1) .endValue (pop s),
             beBytes 4 (count + elems.length) ++ (buf ++ (elems.map (·.2)).flatten)) := by
  intro elems
  induction elems with
  | nil => intro h; exact absurd rfl h
  | cons e rest ih =>
    intro _ hel pre k s σ o count buf f hst he ht hs hf
    obtain ⟨w, bs⟩ := e
    obtain ⟨htok, v, hpl, hv⟩ := hel (w, bs) (by simp)
    cases f with
    | zero => simp at hf
    | succ f =>
      unfold arrayLoop
      dsimp only
      -- the rest of the text after this element
      cases rest with
      | nil =>
        simp only [List.map_cons, List.map_nil, joinElems, List.flatten_cons, List.flatten_nil, List.append_nil,
          List.length_cons, List.length_nil]
        obtain ⟨h1, h2⟩ := tok_read' w htok pre (93 :: k) (by simp [Delim, isAllowedInUnquotedString, isNumber, isUpper, isLower])
          s hs (isTok_ne93 htok) he ht o
        have hfin : finish s (93 :: k) = (pop s, .endValue) := stEndValue_close_list s σ hst
        rw [hfin] at h2
        simp only [show (Op.endValue == Op.error) = false by decide, Bool.false_eq_true, if_false] at h2
        have hsk : skip (scanWhile .skipSpace (DState.mk (pre ++ w ++ 93 :: k) pre.length o s)) =
            scanWhile .skipSpace (DState.mk (pre ++ w ++ 93 :: k) pre.length o s) := by
          unfold skip; rw [h1]; simp
        rw [hsk, h1]
        simp only [show (Op.beginLiteral != Op.beginLiteral) = false by decide, Bool.false_eq_true, if_false]
        rw [h2]
        dsimp only
        rw [hpl]
        dsimp only
        simp only [bne_self_eq_false, Bool.false_eq_true, if_false]
        rcases hv with ⟨e1, x, e2, e3⟩ | ⟨e1, x, e2, e3⟩ | ⟨e1, x, e2, e3⟩ <;> subst e1 <;> subst e2 <;> subst e3 <;>
          simp [skip_mk, tagByte, tagInt, tagLong]
      | cons e' rest' =>
        have ihr := ih (by simp) (fun e he => hel e (by simp [he]))
        generalize hJ : joinElems ((e' :: rest').map (·.1)) = J at ihr
        have hjoin : joinElems (((w, bs) :: e' :: rest').map (·.1)) = w ++ [44] ++ J := by
          simp only [List.map_cons, joinElems] at hJ ⊢; rw [hJ]
        rw [hjoin]
        have hD : pre ++ (w ++ [44] ++ J) ++ 93 :: k = pre ++ w ++ 44 :: (J ++ 93 :: k) := by simp
        rw [hD]
        obtain ⟨h1, h2⟩ := tok_read' w htok pre (44 :: (J ++ 93 :: k))
          (by simp [Delim, isAllowedInUnquotedString, isNumber, isUpper, isLower]) s hs (isTok_ne93 htok) he ht o
        have hfin : finish s (44 :: (J ++ 93 :: k)) = ({ s with st := .beginValue }, .listValue) :=
          stEndValue_comma_list s σ hst
        rw [hfin] at h2
        simp only [show (Op.listValue == Op.error) = false by decide, Bool.false_eq_true, if_false] at h2
        have hsk : skip (scanWhile .skipSpace (DState.mk (pre ++ w ++ 44 :: (J ++ 93 :: k)) pre.length o s)) =
            scanWhile .skipSpace (DState.mk (pre ++ w ++ 44 :: (J ++ 93 :: k)) pre.length o s) := by
          unfold skip; rw [h1]; simp
        rw [hsk, h1]
        simp only [show (Op.beginLiteral != Op.beginLiteral) = false by decide, Bool.false_eq_true, if_false]
        rw [h2]
        dsimp only
        rw [hpl]
        dsimp only
        simp only [bne_self_eq_false, Bool.false_eq_true, if_false]
        have hD2 : pre ++ w ++ 44 :: (J ++ 93 :: k) = (pre ++ w ++ [44]) ++ J ++ 93 :: k := by simp
        have hlen : (pre ++ w ++ [44]).length = pre.length + w.length + 1 := by simp [List.length_append]; omega
        have hrec := ihr (pre ++ w ++ [44]) k { s with st := .beginValue } σ .listValue (count + 1) (buf ++ bs) f hst he ht
          (fun c _ _ => by unfold Scanner.step; rfl) (by simp at hf ⊢; omega)
        rw [← hD2, hlen, pop_st_irrel] at hrec
        have hoff : pre.length + w.length + 1 + J.length + 1 = pre.length + (w ++ [44] ++ J).length + 1 := by
          simp [List.length_append]; omega
        have hcnt : count + 1 + (e' :: rest').length = count + ((w, bs) :: e' :: rest').length := by
          simp; omega
        have hbuf : buf ++ bs ++ ((e' :: rest').map (·.2)).flatten =
            buf ++ (((w, bs) :: e' :: rest').map (·.2)).flatten := by simp
        rw [hoff, hcnt, hbuf] at hrec
        rcases hv with ⟨e1, x, e2, e3⟩ | ⟨e1, x, e2, e3⟩ | ⟨e1, x, e2, e3⟩ <;> subst e1 <;> subst e2 <;>
          simp only at e3 <;> subst e3 <;> simp [skip_mk, tagByte, tagInt, tagLong] <;>
          simpa [tagByte, tagInt, tagLong] using hrec



theorem finish_st_irrel (s : Scanner) (x : St) (k : Bytes) : finish { s with st := x } k = finish s k := by
  cases k with
  | nil => rfl
  | cons c k' => exact stEndValue_st_irrel s x c

/-- `[` where a value begins opens a list (the nesting limit permitting) -/
theorem stBeginValue_open_list (s : Scanner) (h : s.stack.length ≤ maxNestingDepth) :
    stBeginValue s 91 = ({ s with st := .listOrArray, stack := .listValue :: s.stack }, .beginList) := by
  unfold stBeginValue push
  simp [isSpace, h]

theorem step_la_BIL (s : Scanner) (h : s.st = .listOrArray) (x : Byte) (hx : x = 66 ∨ x = 73 ∨ x = 76) :
    s.step x = ({ s with st := .listOrArrayT }, .beginLiteral) := by
  unfold Scanner.step; rw [h]; dsimp only
  rcases hx with e | e | e <;> subst e <;> simp [isSpace]

theorem step_lat_semicolon (s : Scanner) (h : s.st = .listOrArrayT) :
    s.step 59 = ({ s with st := .arrayT }, .listType) := by
  unfold Scanner.step; rw [h]; simp

theorem step_at_close (s : Scanner) (h : s.st = .arrayT) : s.step 93 = stEndValue s 93 := by
  unfold Scanner.step; rw [h]; simp [isSpace]

theorem step_at_begin (s : Scanner) (h : s.st = .arrayT) (c : Byte) (h1 : isSpace c = false) (h2 : c ≠ 93) :
    s.step c = stBeginValue s c := by
  unfold Scanner.step; rw [h]; dsimp only
  have : (c == 93) = false := by simpa using h2
  simp only [h1, this, Bool.false_eq_true, if_false]

/-- the text after the first element: nothing, or a comma and the rest -/
def sepJoin : List Bytes → Bytes
  | [] => []
  | w :: r => 44 :: joinElems (w :: r)

theorem joinElems_cons (w : Bytes) (r : List Bytes) : joinElems (w :: r) = w ++ sepJoin r := by
  cases r <;> simp [joinElems, sepJoin]

theorem sepJoin_delim (r : List Bytes) (k : Bytes) : Delim (sepJoin r ++ 93 :: k) := by
  cases r <;> simp [sepJoin, Delim, isAllowedInUnquotedString, isNumber, isUpper, isLower]

/-- exact evaluation of `writeValue` on the text of a typed array `[X;e1,…,en]` in any context -/
theorem array_value (fo : FloatOracle) (x et tt : Byte)
    (hx : (x = 66 ∧ et = tagByte ∧ tt = tagByteArray) ∨ (x = 73 ∧ et = tagInt ∧ tt = tagIntArray) ∨
          (x = 76 ∧ et = tagLong ∧ tt = tagLongArray))
    (elems : List (Bytes × Bytes)) (hel : ∀ e ∈ elems, ArrEl fo et e.1 e.2)
    (pre k : Bytes) (s : Scanner) (o : Op) (ifw : Bool) (name : Bytes) (f : Nat)
    (hst : s.st = .beginValue) (he : s.err = false) (ht : s.endTop = false)
    (hdepth : s.stack.length ≤ maxNestingDepth) (hf : elems.length + 3 ≤ f) :
    writeValue fo f (DState.mk (pre ++ ([91, x, 59] ++ joinElems (elems.map (fun e : Bytes × Bytes => e.1)) ++ [93]) ++ k) pre.length o s)
        ifw name =
      .ok (DState.mk (pre ++ ([91, x, 59] ++ joinElems (elems.map (fun e : Bytes × Bytes => e.1)) ++ [93]) ++ k)
             (pre.length + ([91, x, 59] ++ joinElems (elems.map (fun e : Bytes × Bytes => e.1)) ++ [93]).length + 1)
             (finish s k).2 (finish s k).1,
           hdr ifw tt name ++ (beBytes 4 elems.length ++ (elems.map (fun e : Bytes × Bytes => e.2)).flatten)) := by
  obtain ⟨f, rfl⟩ : ∃ f', f = f' + 3 := ⟨f - 3, by omega⟩
  generalize hJ : joinElems (elems.map (fun e : Bytes × Bytes => e.1)) = J
  have hD : pre ++ ([91, x, 59] ++ J ++ [93]) ++ k = pre ++ 91 :: x :: 59 :: (J ++ 93 :: k) := by simp
  rw [hD]
  have hxx : x = 66 ∨ x = 73 ∨ x = 76 := by rcases hx with h | h | h <;> simp [h.1]
  -- scanner states
  have e0 : s.step 91 = ({ s with st := .listOrArray, stack := .listValue :: s.stack }, .beginList) := by
    unfold Scanner.step; rw [hst]; exact stBeginValue_open_list s hdepth
  unfold writeValue
  dsimp only
  have hs1 : scanWhile .skipSpace (DState.mk (pre ++ 91 :: x :: 59 :: (J ++ 93 :: k)) pre.length o s) =
      DState.mk (pre ++ 91 :: x :: 59 :: (J ++ 93 :: k)) (pre.length + 1) .beginList
        { s with st := .listOrArray, stack := .listValue :: s.stack } := by
    unfold scanWhile
    simp only [List.drop_left]
    rw [scanLoop_stop _ _ _ _ _ _ (by rw [e0]; simp), e0]
  rw [hs1]
  dsimp only
  unfold writeListOrArray
  dsimp only
  have e1 := step_la_BIL { s with st := .listOrArray, stack := .listValue :: s.stack } rfl x hxx
  have hs2 : scanWhile .skipSpace (DState.mk (pre ++ 91 :: x :: 59 :: (J ++ 93 :: k)) (pre.length + 1) .beginList
        { s with st := .listOrArray, stack := .listValue :: s.stack }) =
      DState.mk (pre ++ 91 :: x :: 59 :: (J ++ 93 :: k)) (pre.length + 2) .beginLiteral
        { s with st := .listOrArrayT, stack := .listValue :: s.stack } := by
    unfold scanWhile
    have : (pre ++ 91 :: x :: 59 :: (J ++ 93 :: k)).drop (pre.length + 1) = x :: 59 :: (J ++ 93 :: k) := by
      have : pre ++ 91 :: x :: 59 :: (J ++ 93 :: k) = (pre ++ [91]) ++ x :: 59 :: (J ++ 93 :: k) := by simp
      rw [this]
      have hl : pre.length + 1 = (pre ++ [91]).length := by simp
      rw [hl, List.drop_left]
    dsimp only
    rw [this, scanLoop_stop _ _ _ _ _ _ (by rw [e1]; simp), e1]
  rw [hs2]
  simp only [show (Op.beginLiteral == Op.endValue) = false by decide, Bool.false_eq_true, if_false]
  -- the array prefix `X;`
  have e2 := step_lat_semicolon { s with st := .listOrArrayT, stack := .listValue :: s.stack } rfl
  have hrl : readLiteral (DState.mk (pre ++ 91 :: x :: 59 :: (J ++ 93 :: k)) (pre.length + 2) .beginLiteral
        { s with st := .listOrArrayT, stack := .listValue :: s.stack }) =
      .ok (DState.mk (pre ++ 91 :: x :: 59 :: (J ++ 93 :: k)) (pre.length + 3) .listType
        { s with st := .arrayT, stack := .listValue :: s.stack }, [x]) := by
    unfold readLiteral
    dsimp only
    have hsc : scanWhile .cont (DState.mk (pre ++ 91 :: x :: 59 :: (J ++ 93 :: k)) (pre.length + 2) .beginLiteral
          { s with st := .listOrArrayT, stack := .listValue :: s.stack }) =
        DState.mk (pre ++ 91 :: x :: 59 :: (J ++ 93 :: k)) (pre.length + 3) .listType
          { s with st := .arrayT, stack := .listValue :: s.stack } := by
      unfold scanWhile
      have : (pre ++ 91 :: x :: 59 :: (J ++ 93 :: k)).drop (pre.length + 2) = 59 :: (J ++ 93 :: k) := by
        have : pre ++ 91 :: x :: 59 :: (J ++ 93 :: k) = (pre ++ [91, x]) ++ 59 :: (J ++ 93 :: k) := by simp
        rw [this]
        have hl : pre.length + 2 = (pre ++ [91, x]).length := by simp
        rw [hl, List.drop_left]
      dsimp only
      rw [this, scanLoop_stop _ _ _ _ _ _ (by rw [e2]; simp), e2]
    rw [hsc]
    dsimp only
    simp only [show (Op.listType == Op.error) = false by decide, Bool.false_eq_true, if_false]
    have hsl : (DState.mk (pre ++ 91 :: x :: 59 :: (J ++ 93 :: k)) (pre.length + 3) .listType
          { s with st := .arrayT, stack := .listValue :: s.stack }).slice
          (DState.mk (pre ++ 91 :: x :: 59 :: (J ++ 93 :: k)) (pre.length + 2) .beginLiteral
            { s with st := .listOrArrayT, stack := .listValue :: s.stack }).readIndex
          (DState.mk (pre ++ 91 :: x :: 59 :: (J ++ 93 :: k)) (pre.length + 3) .listType
            { s with st := .arrayT, stack := .listValue :: s.stack }).readIndex = some [x] := by
      unfold DState.slice DState.readIndex
      dsimp only
      have h1 : pre.length + 2 - 1 = pre.length + 1 := by omega
      have h2 : pre.length + 3 - 1 = pre.length + 2 := by omega
      rw [h1, h2, if_pos (by simp)]
      congr 1
      have : pre ++ 91 :: x :: 59 :: (J ++ 93 :: k) = (pre ++ [91]) ++ x :: 59 :: (J ++ 93 :: k) := by simp
      rw [this]
      have hl : pre.length + 1 = (pre ++ [91]).length := by simp
      rw [hl, List.drop_left]
      have : (pre ++ [91]).length + 1 - (pre ++ [91]).length = 1 := by omega
      simp
    rw [hsl]
  rw [hrl]
  dsimp only
  rw [skip_mk _ _ _ _ (by decide)]
  simp only [show (Op.listType == Op.error) = false by decide, Bool.false_eq_true, if_false, beq_self_eq_true, if_true]
  -- the elements
  have harr : writeArray fo (f + 1) (DState.mk (pre ++ 91 :: x :: 59 :: (J ++ 93 :: k)) (pre.length + 3) .listType
        { s with st := .arrayT, stack := .listValue :: s.stack }) et =
      .ok (DState.mk (pre ++ 91 :: x :: 59 :: (J ++ 93 :: k)) (pre.length + 3 + J.length + 1) .endValue
            (pop { s with st := .arrayT, stack := .listValue :: s.stack }),
           beBytes 4 elems.length ++ (elems.map (fun e : Bytes × Bytes => e.2)).flatten) := by
    unfold writeArray
    dsimp only
    rw [skip_mk _ _ _ _ (by decide)]
    have hD3 : pre ++ 91 :: x :: 59 :: (J ++ 93 :: k) = (pre ++ [91, x, 59]) ++ J ++ 93 :: k := by simp
    have hl3 : pre.length + 3 = (pre ++ [91, x, 59]).length := by simp
    cases helems : elems with
    | nil =>
      subst helems
      simp only [List.map_nil, joinElems] at hJ
      subst hJ
      have e3 : ({ s with st := St.arrayT, stack := PS.listValue :: s.stack } : Scanner).step 93 =
          (pop { s with st := .arrayT, stack := .listValue :: s.stack }, .endValue) := by
        rw [step_at_close _ rfl]
        exact stEndValue_close_list _ s.stack rfl
      have hsc : scanWhile .skipSpace (DState.mk (pre ++ 91 :: x :: 59 :: ([] ++ 93 :: k)) (pre.length + 3) .listType
            { s with st := .arrayT, stack := .listValue :: s.stack }) =
          DState.mk (pre ++ 91 :: x :: 59 :: ([] ++ 93 :: k)) (pre.length + 3 + 1) .endValue
            (pop { s with st := .arrayT, stack := .listValue :: s.stack }) := by
        unfold scanWhile
        dsimp only
        rw [hD3, hl3, List.append_assoc, List.drop_left]
        simp only [List.nil_append]
        rw [scanLoop_stop _ _ _ _ _ _ (by rw [e3]; simp), e3]
      rw [hsc]
      simp
    | cons e0 rest0 =>
      rw [← helems]
      have hspec := arrayLoop_spec fo et elems (by rw [helems]; simp) hel (pre ++ [91, x, 59]) k
        { s with st := .arrayT, stack := .listValue :: s.stack } s.stack .listType 0 [] (f + 1) rfl he ht
        (fun c h1 h2 => step_at_begin _ rfl c h1 h2) (by omega)
      rw [hJ, ← hD3, ← hl3] at hspec
      -- the first `scanWhile` does not end on `]`
      have hop : (scanWhile .skipSpace (DState.mk (pre ++ 91 :: x :: 59 :: (J ++ 93 :: k)) (pre.length + 3) .listType
          { s with st := .arrayT, stack := .listValue :: s.stack })).opcode = .beginLiteral := by
        obtain ⟨w0, b0⟩ := e0
        have hw0 := (hel (w0, b0) (by rw [helems]; simp)).1
        have hJ' : J = w0 ++ sepJoin (rest0.map (fun e : Bytes × Bytes => e.1)) := by
          rw [← hJ, helems, List.map_cons, joinElems_cons]
        have := (tok_read' w0 hw0 (pre ++ [91, x, 59])
          (sepJoin (rest0.map (fun e : Bytes × Bytes => e.1)) ++ 93 :: k) (sepJoin_delim _ _)
          { s with st := .arrayT, stack := .listValue :: s.stack } (fun c h1 h2 => step_at_begin _ rfl c h1 h2)
          (isTok_ne93 hw0) he ht .listType).1
        rw [hD3, hl3, hJ']
        simpa [List.append_assoc] using this
      rw [hop]
      simp only [show (Op.beginLiteral == Op.endValue) = false by decide, Bool.false_eq_true, if_false]
      rw [hspec]
      simp
  have hte : (if (x == 66) = true then some (tagByteArray, tagByte)
      else if (x == 73) = true then some (tagIntArray, tagInt)
      else if (x == 76) = true then some (tagLongArray, tagLong) else none) = some (tt, et) := by
    rcases hx with ⟨a, b, c⟩ | ⟨a, b, c⟩ | ⟨a, b, c⟩ <;> subst a <;> subst b <;> subst c <;> simp
  rw [hte]
  dsimp only
  rw [harr]
  dsimp only
  -- the byte after `]`
  have hD4 : pre ++ 91 :: x :: 59 :: (J ++ 93 :: k) = (pre ++ 91 :: x :: 59 :: (J ++ [93])) ++ k := by simp
  have hl4 : pre.length + 3 + J.length + 1 = (pre ++ 91 :: x :: 59 :: (J ++ [93])).length := by simp; omega
  have hnext := scanNext_after_pop { s with st := .arrayT, stack := .listValue :: s.stack } .listValue s.stack rfl he ht
    (pre ++ 91 :: x :: 59 :: (J ++ [93])) k .endValue
  rw [← hD4, ← hl4] at hnext
  rw [hnext]
  have hfin : finish ({ { s with st := St.arrayT, stack := PS.listValue :: s.stack } with stack := s.stack } : Scanner) k =
      finish s k := by
    have : ({ { s with st := St.arrayT, stack := PS.listValue :: s.stack } with stack := s.stack } : Scanner) =
        { s with st := .arrayT } := rfl
    rw [this, finish_st_irrel]
  rw [hfin]
  congr 2
  simp [List.length_append]; omega




/-- a top-level value that ends exactly at the end of the text: `MarshalNBT` returns its bytes -/
theorem marshal_of_writeValue (fo : FloatOracle) (w out : Bytes)
    (h : writeValue fo (parseFuel w) (DState.mk ([] ++ w ++ []) ([] : Bytes).length .cont Scanner.reset) false [] =
      .ok (DState.mk ([] ++ w ++ []) (([] : Bytes).length + w.length + 1) (finish Scanner.reset []).2
            (finish Scanner.reset []).1, out)) :
    marshal fo w = .ok out := by
  unfold marshal marshalWith
  dsimp only
  simp only [List.nil_append, List.append_nil, List.length_nil, Nat.zero_add, finish_reset_nil] at h
  have e0 : ({ data := w, scan := Scanner.reset } : DState) = DState.mk w 0 .cont Scanner.reset := rfl
  rw [e0, h]
  dsimp only
  have e3 : scanWhile .end_ (DState.mk w (w.length + 1) .end_ topDone) =
      DState.mk w (w.length + 1) .end_ topDone := by
    unfold scanWhile
    dsimp only
    rw [List.drop_eq_nil_of_le (by omega), scanLoop_nil, topDone_eof]
  rw [e3]
  simp [topDone]

/-- the text the writer prints for a typed array -/
def arrayText (t : NBT) : Option Bytes :=
  match t with
  | .byteArray xs => some ([91, 66, 59] ++ joinElems (xs.map fun x => formatInt x.toInt ++ [66]) ++ [93])
  | .intArray xs => some ([91, 73, 59] ++ joinElems (xs.map fun x => formatInt x.toInt ++ [73]) ++ [93])
  | .longArray xs => some ([91, 76, 59] ++ joinElems (xs.map fun x => formatInt x.toInt ++ [76]) ++ [93])
  | _ => none

theorem arrEl_byte (fo : FloatOracle) (x : BitVec 8) : ArrEl fo tagByte (formatInt x.toInt ++ [66]) [x] := by
  refine ⟨isTok_int _ _ (Or.inr (Or.inl rfl)), .i8 x, ?_, Or.inl ⟨rfl, x, rfl, rfl⟩⟩
  have hp := parseLiteral_int_suffix fo x.toInt 66 (Or.inl rfl)
  simp only [if_true, parseInt_toInt (by decide : 0 < 8) x, Option.map_some] at hp
  rw [hp]; simp

theorem arrEl_int (fo : FloatOracle) (x : BitVec 32) : ArrEl fo tagInt (formatInt x.toInt ++ [73]) (be32 x) := by
  refine ⟨isTok_int _ _ (Or.inr (Or.inr (Or.inr (Or.inr rfl)))), .i32 x, ?_, Or.inr (Or.inl ⟨rfl, x, rfl, rfl⟩)⟩
  have hp := parseLiteral_int_suffix fo x.toInt 73 (Or.inr (Or.inr (Or.inr rfl)))
  simp only [show ¬ ((73 : Byte) = 66) by decide, show ¬ ((73 : Byte) = 83) by decide,
    show ¬ ((73 : Byte) = 76) by decide, if_false, parseInt_toInt (by decide : 0 < 32) x, Option.map_some] at hp
  rw [hp]; simp

theorem arrEl_long (fo : FloatOracle) (x : BitVec 64) : ArrEl fo tagLong (formatInt x.toInt ++ [76]) (be64 x) := by
  refine ⟨isTok_int _ _ (Or.inr (Or.inr (Or.inr (Or.inl rfl)))), .i64 x, ?_, Or.inr (Or.inr ⟨rfl, x, rfl, rfl⟩)⟩
  have hp := parseLiteral_int_suffix fo x.toInt 76 (Or.inr (Or.inr (Or.inl rfl)))
  simp only [show ¬ ((76 : Byte) = 66) by decide, show ¬ ((76 : Byte) = 83) by decide, if_false, if_true,
    parseInt_toInt (by decide : 0 < 64) x, Option.map_some] at hp
  rw [hp]; simp

theorem joinElems_length_ge (ws : List Bytes) : ws.length ≤ (joinElems ws).length + 1 := by
  induction ws with
  | nil => simp
  | cons w r ih =>
    rw [joinElems_cons]
    cases r with
    | nil => simp [sepJoin]
    | cons w' r' => simp [sepJoin] at ih ⊢; omega

theorem flatten_singletons {α} (r : List α) : (r.map fun x => [x]).flatten = r := by
  induction r with
  | nil => rfl
  | cons x r ih => simp [ih]

/-- text → binary for typed arrays: `MarshalNBT` of the writer's text gives back the payload -/
theorem marshal_array (fo : FloatOracle) (t : NBT) (w : Bytes) (hw : arrayText t = some w) :
    marshal fo w = .ok (encPayload t) := by
  apply marshal_of_writeValue
  cases t with
  | byteArray xs =>
    simp only [arrayText, Option.some.injEq] at hw; subst hw
    have h := array_value fo 66 tagByte tagByteArray (Or.inl ⟨rfl, rfl, rfl⟩)
      (xs.map fun x => (formatInt x.toInt ++ [66], [x]))
      (by intro e he; simp only [List.mem_map] at he; obtain ⟨x, _, rfl⟩ := he; exact arrEl_byte fo x)
      [] [] Scanner.reset .cont false []
      (parseFuel ([91, 66, 59] ++ joinElems (xs.map fun x => formatInt x.toInt ++ [66]) ++ [93]))
      rfl rfl rfl (by simp [Scanner.reset, maxNestingDepth])
      (by
        have := joinElems_length_ge (xs.map fun x => formatInt x.toInt ++ [66])
        simp only [List.length_map] at this ⊢
        unfold parseFuel; simp only [List.length_append]; omega)
    simp only [List.map_map, Function.comp_def] at h
    rw [h]
    simp [hdr, encPayload, flatten_singletons]
  | intArray xs =>
    simp only [arrayText, Option.some.injEq] at hw; subst hw
    have h := array_value fo 73 tagInt tagIntArray (Or.inr (Or.inl ⟨rfl, rfl, rfl⟩))
      (xs.map fun x => (formatInt x.toInt ++ [73], be32 x))
      (by intro e he; simp only [List.mem_map] at he; obtain ⟨x, _, rfl⟩ := he; exact arrEl_int fo x)
      [] [] Scanner.reset .cont false []
      (parseFuel ([91, 73, 59] ++ joinElems (xs.map fun x => formatInt x.toInt ++ [73]) ++ [93]))
      rfl rfl rfl (by simp [Scanner.reset, maxNestingDepth])
      (by
        have := joinElems_length_ge (xs.map fun x => formatInt x.toInt ++ [73])
        simp only [List.length_map] at this ⊢
        unfold parseFuel; simp only [List.length_append]; omega)
    simp only [List.map_map, Function.comp_def] at h
    rw [h]
    simp [hdr, encPayload]
  | longArray xs =>
    simp only [arrayText, Option.some.injEq] at hw; subst hw
    have h := array_value fo 76 tagLong tagLongArray (Or.inr (Or.inr ⟨rfl, rfl, rfl⟩))
      (xs.map fun x => (formatInt x.toInt ++ [76], be64 x))
      (by intro e he; simp only [List.mem_map] at he; obtain ⟨x, _, rfl⟩ := he; exact arrEl_long fo x)
      [] [] Scanner.reset .cont false []
      (parseFuel ([91, 76, 59] ++ joinElems (xs.map fun x => formatInt x.toInt ++ [76]) ++ [93]))
      rfl rfl rfl (by simp [Scanner.reset, maxNestingDepth])
      (by
        have := joinElems_length_ge (xs.map fun x => formatInt x.toInt ++ [76])
        simp only [List.length_map] at this ⊢
        unfold parseFuel; simp only [List.length_append]; omega)
    simp only [List.map_map, Function.comp_def] at h
    rw [h]
    simp [hdr, encPayload]
  | _ => simp [arrayText] at hw



/-! ### the walker on typed arrays -/

theorem byteLoop_ok (xs : List (BitVec 8)) : ∀ (first : Bool) (acc rest : Bytes) (s : Stream),
    s.flat = xs ++ rest →
    ∃ s', byteLoop xs.length first acc s =
        (Res.ok (acc ++ (match xs with
          | [] => []
          | _ :: _ => sepIf first ++ joinElems (xs.map fun x => formatInt x.toInt ++ [66]))), s') ∧
      s'.flat = rest := by
  induction xs with
  | nil => intro first acc rest s hs; exact ⟨s, by simp [byteLoop], by simpa using hs⟩
  | cons x r ih =>
    intro first acc rest s hs
    simp only [List.length_cons, byteLoop]
    rw [Rd.bind_ok (readByte_cons s x (r ++ rest) (by simpa using hs))]
    obtain ⟨s', h1, h2⟩ := ih false (acc ++ sepIf first ++ formatInt (signed8 x) ++ [66]) rest (s.drop 1)
      (by rw [Stream.flat_drop, hs]; simp)
    refine ⟨s', ?_, h2⟩
    rw [h1]
    congr 2
    cases r with
    | nil => simp [joinElems, signed8]
    | cons y r' => simp [joinElems, sepIf, signed8, List.append_assoc]

theorem numLoop_ok (k : Nat) (hk : 0 < k) (suf : Byte) (xs : List (BitVec (8 * k))) :
    ∀ (first : Bool) (acc rest : Bytes) (s : Stream),
    s.flat = (xs.map fun x => beBytes k x.toNat).flatten ++ rest →
    ∃ s', numLoop k suf xs.length first acc s =
        (Res.ok (acc ++ (match xs with
          | [] => []
          | _ :: _ => sepIf first ++ joinElems (xs.map fun x => formatInt x.toInt ++ [suf]))), s') ∧
      s'.flat = rest := by
  induction xs with
  | nil => intro first acc rest s hs; exact ⟨s, by simp [numLoop], by simpa using hs⟩
  | cons x r ih =>
    intro first acc rest s hs
    simp only [List.length_cons, numLoop]
    have hr := readIntBE_be k hk x s ((r.map fun x => beBytes k x.toNat).flatten ++ rest) (by simpa using hs)
    rw [Rd.bind_ok hr]
    obtain ⟨s', h1, h2⟩ := ih false (acc ++ sepIf first ++ formatInt x.toInt ++ [suf]) rest (s.drop k)
      (by rw [Stream.flat_drop, hs]; simp [List.drop_append_of_le_length, beBytes_length])
    refine ⟨s', ?_, h2⟩
    rw [h1]
    congr 2
    cases r with
    | nil => simp [joinElems]
    | cons y r' => simp [joinElems, sepIf, List.append_assoc]



theorem readCount_ok (n : Nat) (hn : n < 2 ^ 31) (s : Stream) (rest : Bytes) (hs : s.flat = beBytes 4 n ++ rest) :
    readIntBE 4 s = (Res.ok (n : Int), s.drop 4) := by
  have h1 := readIntBE_be 4 (by decide) (BitVec.ofNat 32 n) s rest (by
    rw [hs]; simp only [BitVec.toNat_ofNat]; rw [Nat.mod_eq_of_lt (by omega)])
  have : (BitVec.ofNat 32 n).toInt = (n : Int) := by
    rw [BitVec.toInt_eq_toNat_cond]
    simp only [BitVec.toNat_ofNat]
    rw [Nat.mod_eq_of_lt (by omega)]
    have : 2 * n < 2 ^ 32 := by omega
    simp [this]
  rw [this] at h1
  exact h1

/-- binary → text for typed arrays: the walker prints `arrayText` and consumes exactly the payload -/
theorem walker_array (fm : FmtOracle) (t : NBT) (w : Bytes) (hw : arrayText t = some w) (hwf : t.WF)
    (f : Nat) (s : Stream) (rest : Bytes) (hs : s.flat = encPayload t ++ rest) :
    ∃ s', encode fm (f + 1) t.tag s = (Res.ok w, s') ∧ s'.flat = rest := by
  cases t with
  | byteArray xs =>
    simp only [arrayText, Option.some.injEq] at hw; subst hw
    have hn : xs.length < 2 ^ 31 := hwf
    have hc := readCount_ok xs.length hn s (xs ++ rest) (by simpa [encPayload] using hs)
    obtain ⟨s', h1, h2⟩ := byteLoop_ok xs true [] rest (s.drop 4) (by
      rw [Stream.flat_drop, hs]; simp [encPayload, List.drop_append_of_le_length, beBytes_length])
    unfold encode
    simp only [NBT.tag, NBT.tagByteArray, show (7 : BitVec 8).toNat = 7 from rfl]
    rw [Rd.bind_ok hc]
    have : ¬ ((xs.length : Int) < 0) := by omega
    simp only [this, if_false, Int.toNat_natCast]
    rw [Rd.bind_ok h1]
    refine ⟨s', ?_, h2⟩
    cases xs <;> simp [joinElems, sepIf]
  | intArray xs =>
    simp only [arrayText, Option.some.injEq] at hw; subst hw
    have hn : xs.length < 2 ^ 31 := hwf
    have hc := readCount_ok xs.length hn s ((xs.map be32).flatten ++ rest) (by simpa [encPayload] using hs)
    obtain ⟨s', h1, h2⟩ := numLoop_ok 4 (by decide) 73 xs true [] rest (s.drop 4) (by
      rw [Stream.flat_drop, hs]; simp [encPayload, List.drop_append_of_le_length, beBytes_length]; rfl)
    unfold encode
    simp only [NBT.tag, NBT.tagIntArray, show (11 : BitVec 8).toNat = 11 from rfl]
    rw [Rd.bind_ok hc]
    have : ¬ ((xs.length : Int) < 0) := by omega
    simp only [this, if_false, Int.toNat_natCast]
    rw [Rd.bind_ok h1]
    refine ⟨s', ?_, h2⟩
    cases xs <;> simp [joinElems, sepIf]
  | longArray xs =>
    simp only [arrayText, Option.some.injEq] at hw; subst hw
    have hn : xs.length < 2 ^ 31 := hwf
    have hc := readCount_ok xs.length hn s ((xs.map be64).flatten ++ rest) (by simpa [encPayload] using hs)
    obtain ⟨s', h1, h2⟩ := numLoop_ok 8 (by decide) 76 xs true [] rest (s.drop 4) (by
      rw [Stream.flat_drop, hs]; simp [encPayload, List.drop_append_of_le_length, beBytes_length]; rfl)
    unfold encode
    simp only [NBT.tag, NBT.tagLongArray, show (12 : BitVec 8).toNat = 12 from rfl]
    rw [Rd.bind_ok hc]
    have : ¬ ((xs.length : Int) < 0) := by omega
    simp only [this, if_false, Int.toNat_natCast]
    rw [Rd.bind_ok h1]
    refine ⟨s', ?_, h2⟩
    cases xs <;> simp [joinElems, sepIf]
  | _ => simp [arrayText] at hw


end GoMC.Model.SNBT
