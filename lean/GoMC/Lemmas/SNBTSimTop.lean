/-
  Lemmas for C04_parse_sound, final part: the simulation assembled over the fuel, the end of the text, and the
  theorem `marshalWith_sound` — every text `MarshalNBT` accepts is read by the grammar reader as the document written
  (or as something the grammar leaves unspecified), never as malformed.
-/
import GoMC.Lemmas.SNBTSimWL
import GoMC.Lemmas.SNBTWF
namespace GoMC.Model.SNBT
open GoMC Scanner DState Spec
open GoMC.Spec.SNBT (isWs isDigit isLetter isTokenByte skipWs spanToken spanDigits digitsVal stripSign inRange lower
  classify readQuoted readKey arrayElem mkArray readArrayElems readValue readEntries readElems FloatSem Tok)

/-! ### the simulation, assembled -/

theorem sim_all (fs : FloatSem) : ∀ f, SimWV fs f ∧ SimCL fs f ∧ SimWL fs f ∧ SimLL fs f ∧ SimCLL fs f := by
  intro f
  induction f with
  | zero =>
    refine ⟨?_, ?_, ?_, ?_, ?_⟩
    · intro d σ ifw name d' out _ _ _ hrun; simp [writeValue] at hrun
    · intro d σ acc d' out _ _ _ hrun; simp [compLoop] at hrun
    · intro d σ ifw name d' t out _ _ _ hrun; simp [writeListOrArray] at hrun
    · intro d σ et count buf d' out T acc0 u0 _ _ hrun _; simp [listListLoop] at hrun
    · intro d σ count buf d' out T acc0 u0 _ _ hrun _; simp [compListLoop] at hrun
  | succ f ih =>
    obtain ⟨hWV, hCL, hWL, hLL, hCLL⟩ := ih
    exact ⟨SimWV_step fs f hCL hWL, SimCL_step fs f hWV hCL, SimWL_step fs f hLL hCLL, SimLL_step fs f hWL hLL,
      SimCLL_step fs f hCL hCLL⟩

/-! ### the end of the text -/

theorem skipWs_all_ws (t : Bytes) (h : ∀ c ∈ t, isSpace c = true) : skipWs t = [] := by
  have := skipWs_append_ws t [] h
  simpa [skipWs] using this

/-- the final `scanWhile(scanEnd)` answers `scanEnd` only if nothing but white space is left -/
theorem end_scan (d : DState) (hg : d.scan.Good) (hlen : d.off ≤ d.data.length + 1)
    (hI : d.scan.st = .endTop ∨ (d.scan.st = .error ∧ d.scan.err = true))
    (hop : (scanWhile .end_ d).opcode = .end_) : d.scan.st = .endTop ∧ ∀ c ∈ d.next, isSpace c = true := by
  obtain ⟨hdata, hprog, hat⟩ :=
    scanWhile_spec .end_ d
      (fun s acc => (s.st = .endTop ∧ ∀ c ∈ acc, isSpace c = true) ∨ (s.st = .error ∧ s.err = true))
      (fun _ o acc ob => o = .end_ → (∀ c ∈ acc, isSpace c = true) ∧ ob = none)
      (fun s acc c hI => by
        rcases hI with ⟨hst, hall⟩ | ⟨hst, herr⟩
        · have key : s.step c = stEndTop s c := by unfold Scanner.step; rw [hst]
          rw [key]
          unfold stEndTop
          by_cases hsp : isSpace c = true
          · simp only [hsp, Bool.not_true, Bool.false_eq_true, if_false]
            refine ⟨fun _ => Or.inl ⟨hst, ?_⟩, fun h => absurd rfl h⟩
            intro x hx
            rcases List.mem_append.mp hx with h | h
            · exact hall x h
            · simp at h; rw [h]; exact hsp
          · simp only [hsp, Bool.not_false, if_true]
            refine ⟨fun _ => Or.inr ⟨?_, ?_⟩, fun h => absurd rfl h⟩ <;> simp [Scanner.error]
        · have key : s.step c = (s, .error) := by unfold Scanner.step; rw [hst]
          rw [key]
          exact ⟨(by intro h; cases h), fun _ => (by intro h; cases h)⟩)
      (fun s acc hI => by
        intro ho
        rcases hI with ⟨hst, hall⟩ | ⟨_, herr⟩
        · exact ⟨hall, rfl⟩
        · unfold Scanner.eof at ho
          rw [if_pos herr] at ho
          cases ho)
      [] (by
        rcases hI with h | h
        · exact Or.inl ⟨h, by simp⟩
        · exact Or.inr h) hg
  obtain ⟨_, ho', ob, hR, h1, h2⟩ := hat
  obtain ⟨hall, hob⟩ := hR hop
  have hoff := h2 hob
  rw [hdata] at hoff
  have hstart : d.scan.st = .endTop := by
    rcases hI with h | ⟨h, _⟩
    · exact h
    · -- from the error state the loop cannot end in the waiting state: every step and `eof` keep the state
      exfalso
      have hat2 :=
        (scanWhile_spec .end_ d (fun s _ => s.st = .error ∧ s.err = true) (fun _ o _ _ => o ≠ .end_)
          (fun s _ c hI => by
            have key : s.step c = (s, .error) := by unfold Scanner.step; rw [hI.1]
            rw [key]; exact ⟨(by intro h; cases h), fun _ => by simp⟩)
          (fun s _ hI => by unfold Scanner.eof; rw [if_pos hI.2]; simp) [] ⟨h, by assumption⟩ hg).2.2
      obtain ⟨_, _, _, hne, _, _⟩ := hat2
      exact hne hop
  refine ⟨hstart, ?_⟩
  simp only [List.nil_append] at hall
  intro c hc
  apply hall c
  have : (d.data.drop d.off).take ((scanWhile .end_ d).off - 1 - d.off) = d.data.drop d.off := by
    apply List.take_of_length_le
    simp; omega
  rw [this]
  exact hc


/-! ### `C04_parse_sound` -/

/-- a successful `MarshalNBT`: the top-level `writeValue` succeeded and the final `scanWhile(scanEnd)` answered
`scanEnd` -/
theorem marshalWith_ok_inv2 (fo : FloatOracle) (fuel : Nat) (text bs : Bytes)
    (hm : marshalWith fo fuel text = .ok bs) :
    ∃ d, writeValue fo fuel { data := text, scan := Scanner.reset } false [] = .ok (d, bs) ∧
      (scanWhile .end_ d).opcode = .end_ := by
  unfold marshalWith at hm
  dsimp only at hm
  cases hr : writeValue fo fuel { data := text, scan := Scanner.reset } false [] with
  | err => rw [hr] at hm; cases hm
  | fuel => rw [hr] at hm; cases hm
  | panic => rw [hr] at hm; cases hm
  | ok p =>
    obtain ⟨d, out⟩ := p
    rw [hr] at hm
    dsimp only at hm
    split at hm
    · cases hm
    · rename_i hop
      split at hm
      · cases hm
      · injection hm with hm; rw [← hm]; exact ⟨d, rfl, by simpa using hop⟩

/-- **the parser is sound with respect to the grammar** (any fuel): whenever `MarshalNBT` accepts a text, the
independent grammar reader either reads that text as a document whose payload is exactly what was written, or says
that the text uses a form the grammar leaves unspecified; it never says `malformed` -/
theorem marshalWith_sound (fs : FloatSem) (fuel : Nat) (text bs : Bytes)
    (hm : marshalWith (semOracle fs) fuel text = .ok bs) :
    (∃ t, GoMC.Spec.SNBT.read fs text = .ok t ∧ bs = encPayload t) ∨ GoMC.Spec.SNBT.read fs text = .unspecified := by
  obtain ⟨d', hrun, hfin⟩ := marshalWith_ok_inv2 (semOracle fs) fuel text bs hm
  have hsafe := (emitters_safe (semOracle fs) fuel).1 { data := text, scan := Scanner.reset } [] false [] reset_BV reset_good
  rw [hrun] at hsafe
  obtain ⟨hav, _⟩ := hsafe
  obtain ⟨⟨a1, a2, a3, a4⟩, hexit, hsim⟩ :=
    (sim_all fs fuel).1 { data := text, scan := Scanner.reset } [] false [] d' bs reset_BV reset_good
      (by simp) hrun
  -- what is left after the value is white space
  have hrest : skipWs d'.pend = [] := by
    cases hp : d'.pend with
    | nil => rfl
    | cons x k =>
      have htop := hexit.2.2 x k hp rfl
      have hnext : k = d'.next := by
        obtain ⟨ob, _, hcase⟩ := at_pend hav
        rcases hcase with ⟨c, _, hpe, _, _⟩ | ⟨_, hpe, _, _⟩
        · rw [hpe] at hp; injection hp with _ h; exact h.symm
        · rw [hpe] at hp; cases hp
      have hI : d'.scan.st = .endTop ∨ (d'.scan.st = .error ∧ d'.scan.err = true) := by
        rcases htop with ⟨_, h⟩ | h
        · exact Or.inl h
        · exact Or.inr h
      obtain ⟨hst, hall⟩ := end_scan d' hav.1 (by rw [a1]; exact a4) hI hfin
      have hx : isSpace x = true := by
        rcases htop with ⟨h, _⟩ | ⟨h, _⟩
        · exact h
        · rw [hst] at h; cases h
      apply skipWs_all_ws
      intro c hc
      rcases List.mem_cons.mp hc with e | e
      · rw [e]; exact hx
      · exact hall c (by rw [← hnext]; exact e)
  have htokend : TokEnd d'.pend := by
    cases hp : d'.pend with
    | nil => trivial
    | cons x k =>
      rw [hp] at hrest
      have hx : isSpace x = true := by
        apply Classical.byContradiction; intro hn
        have hn' : isSpace x = false := by simpa using hn
        rw [skipWs_cons x k hn'] at hrest; cases hrest
      have : ∀ n : Fin (2^8), (let c : Byte := BitVec.ofFin n; isSpace c = true → isAllowedInUnquotedString c = false) := by
        decide +kernel
      exact this x.toFin hx
  obtain ⟨t, u, hrv, hout⟩ := hsim (fun _ => htokend)
  have hnx : ({ data := text, scan := Scanner.reset } : DState).next = text := by
    unfold DState.next; simp
  have hread := hrv (text.length + 2) (by
    have : ({ data := text, scan := Scanner.reset } : DState).data.length = text.length := rfl
    simp only at a4 ⊢
    omega)
  rw [hnx] at hread
  unfold GoMC.Spec.SNBT.read
  rw [hread]
  simp only [hrest, List.isEmpty_nil, Bool.not_true, Bool.false_eq_true, if_false]
  by_cases hu : (u || !GoMC.Spec.SNBT.fits t) = true
  · right; simp [hu]
  · left
    have hu' : (u || !GoMC.Spec.SNBT.fits t) = false := by simpa using hu
    refine ⟨t, by simp [hu'], ?_⟩
    have : u = false := by cases u <;> simp at hu' ⊢
    rw [hout this]; simp [hdr]

end GoMC.Model.SNBT
