/-
  Helper lemmas for C18: the text `VerifySignature` hashes, in closed form.
  `lineBreaker` fed by the base64 streaming encoder produces the standard base64 of the key in lines of
  76 characters, every line (including the last, possibly shorter one) ended by "\n" — whatever the
  sizes of the individual `Write` calls.
-/
import GoMC.Model.Digest
namespace GoMC.Lemmas
open GoMC GoMC.Model

/-- lines of 76 characters, each ended by "\n" -/
def wrapLines (t : Bytes) : Bytes :=
  if _h : t = [] then [] else t.take 76 ++ 0x0a#8 :: wrapLines (t.drop 76)
termination_by t.length
decreasing_by
  have := List.length_pos_iff.mpr _h
  simp only [List.length_drop]; omega

theorem wrapLines_nil : wrapLines [] = [] := by rw [wrapLines]; simp

theorem wrapLines_short (t : Bytes) (h0 : t ≠ []) (h : t.length ≤ 76) : wrapLines t = t ++ [0x0a#8] := by
  rw [wrapLines]
  simp only [h0, dite_false]
  rw [List.take_of_length_le h, List.drop_eq_nil_of_le h, wrapLines_nil]

theorem wrapLines_full_append (x t : Bytes) (hx : x.length = 76) : wrapLines (x ++ t) = x ++ 0x0a#8 :: wrapLines t := by
  rw [wrapLines]
  have hne : x ++ t ≠ [] := by
    intro h; have := congrArg List.length h; simp [hx] at this
  simp only [hne, dite_false]
  rw [List.take_left' hx, List.drop_left' hx]

/-- whole lines first: wrapping distributes over the concatenation -/
theorem wrapLines_append (a t : Bytes) (ha : a.length % 76 = 0) : wrapLines (a ++ t) = wrapLines a ++ wrapLines t := by
  induction hn : a.length using Nat.strongRecOn generalizing a with
  | _ n ih =>
    by_cases h0 : a = []
    · simp [h0, wrapLines_nil]
    · have hpos := List.length_pos_iff.mpr h0
      have h76 : 76 ≤ a.length := by omega
      have hs : a = a.take 76 ++ a.drop 76 := (List.take_append_drop 76 a).symm
      have ht : (a.take 76).length = 76 := by simp [List.length_take]; omega
      rw [hs, List.append_assoc, wrapLines_full_append _ _ ht, wrapLines_full_append _ _ ht]
      rw [ih (a.drop 76).length (by simp [List.length_drop]; omega) (a.drop 76) (by simp [List.length_drop]; omega) rfl]
      simp

/-! ### base64: the streaming encoder's writes concatenate to the one-shot encoding -/

theorem b64Std_append (a b : Bytes) (ha : a.length % 3 = 0) : b64Std (a ++ b) = b64Std a ++ b64Std b := by
  induction hn : a.length using Nat.strongRecOn generalizing a with
  | _ n ih =>
    match a, hn with
    | [], _ => simp [b64Std]
    | [_], hn => simp at ha
    | [_, _], hn => simp at ha
    | x :: y :: z :: rest, hn =>
      have hr : rest.length % 3 = 0 := by simp at ha; omega
      simp only [List.cons_append, b64Std]
      rw [ih rest.length (by simp at hn; omega) rest hr rfl]

theorem encWrites_flatten (fuel : Nat) (p : Bytes) (hf : p.length < fuel) : (encWrites fuel p).flatten = b64Std p := by
  induction fuel generalizing p with
  | zero => omega
  | succ fuel ih =>
    unfold encWrites
    by_cases h3 : 3 ≤ p.length
    · simp only [h3, if_true]
      generalize hnn : (if 768 > p.length then p.length - p.length % 3 else 768) = nn
      have hnn3 : nn % 3 = 0 := by
        rw [← hnn]; split <;> omega
      have hnnle : nn ≤ p.length := by
        rw [← hnn]; split <;> omega
      have hnnpos : 3 ≤ nn := by
        rw [← hnn]; split <;> omega
      rw [List.flatten_cons, ih (p.drop nn) (by simp [List.length_drop]; omega)]
      rw [← b64Std_append _ _ (by simp [List.length_take]; omega), List.take_append_drop]
    · simp only [h3, if_false]
      by_cases he : p = []
      · simp [he, b64Std]
      · have : p.isEmpty = false := by cases p <;> simp_all
        simp [this]

/-! ### the line breaker -/

/-- what the breaker has seen so far is `s`: whole lines went out (wrapped), the rest is in `line` -/
def LbInv (l : LineBreaker) (s : Bytes) : Prop :=
  l.line.length < 76 ∧ ∃ a : Bytes, s = a ++ l.line ∧ a.length % 76 = 0 ∧ l.out = wrapLines a

theorem lbWrite_inv (fuel : Nat) (l : LineBreaker) (s b : Bytes) (h : LbInv l s) (hf : b.length < fuel) :
    ∃ l', lbWrite fuel l b = .ok l' ∧ LbInv l' (s ++ b) := by
  induction fuel generalizing l s b with
  | zero => omega
  | succ fuel ih =>
    obtain ⟨hl, a, hs, ha, ho⟩ := h
    unfold lbWrite
    simp only [pemLineLength]
    by_cases hc : l.line.length + b.length < 76
    · simp only [hc, if_true]
      refine ⟨_, rfl, ?_, a, ?_, ha, ho⟩
      · simp; omega
      · simp [hs]
    · simp only [hc, if_false]
      have hnp : ¬ (76 < l.line.length) := by omega
      simp only [hnp, if_false]
      have hex : 76 - l.line.length ≤ b.length := by omega
      have hx : (l.line ++ b.take (76 - l.line.length)).length = 76 := by
        simp [List.length_take]; omega
      have hxne : l.line ++ b.take (76 - l.line.length) ≠ [] := by
        intro h; have := congrArg List.length h; rw [hx] at this; simp at this
      have hinv : LbInv { line := [], out := l.out ++ l.line ++ b.take (76 - l.line.length) ++ [0x0a#8] }
          (a ++ (l.line ++ b.take (76 - l.line.length))) := by
        refine ⟨by simp, a ++ (l.line ++ b.take (76 - l.line.length)), by simp, ?_, ?_⟩
        · rw [List.length_append, hx]; omega
        · show l.out ++ l.line ++ b.take (76 - l.line.length) ++ [0x0a#8] = _
          rw [wrapLines_append a _ ha, wrapLines_short _ hxne (by rw [hx]; omega), ho]
          simp [List.append_assoc]
      obtain ⟨l', h1, h2⟩ := ih _ _ (b.drop (76 - l.line.length)) hinv (by simp only [List.length_drop]; omega)
      refine ⟨l', h1, ?_⟩
      have e : a ++ (l.line ++ b.take (76 - l.line.length)) ++ b.drop (76 - l.line.length) = s ++ b := by
        rw [hs]; simp [List.append_assoc, List.take_append_drop]
      rw [← e]; exact h2

theorem lbWriteAll_inv (ws : List Bytes) (l : LineBreaker) (s : Bytes) (h : LbInv l s) :
    ∃ l', lbWriteAll l ws = .ok l' ∧ LbInv l' (s ++ ws.flatten) := by
  induction ws generalizing l s with
  | nil => exact ⟨l, rfl, by simpa using h⟩
  | cons w ws ih =>
    obtain ⟨l1, h1, i1⟩ := lbWrite_inv (w.length + 1) l s w h (by omega)
    obtain ⟨l2, h2, i2⟩ := ih l1 (s ++ w) i1
    refine ⟨l2, ?_, by simpa [List.append_assoc] using i2⟩
    simp only [lbWriteAll, h1, Res.bind_ok, h2]

theorem lbClose_inv (l : LineBreaker) (s : Bytes) (h : LbInv l s) : lbClose l = wrapLines s := by
  obtain ⟨hl, a, hs, ha, ho⟩ := h
  unfold lbClose
  by_cases h0 : l.line = []
  · simp [h0, ho, hs]
  · have hp := List.length_pos_iff.mpr h0
    simp only [hp, if_true]
    rw [hs, wrapLines_append _ _ ha, wrapLines_short _ h0 (by omega), ho]
    simp

/-! ### the text determines the key -/

theorem b64Byte_inj (i j : Nat) (hi : i < 64) (hj : j < 64) (h : b64Byte i = b64Byte j) : i = j := by
  have : ∀ a b : Fin 64, b64Byte a.val = b64Byte b.val → a.val = b.val := by decide +kernel
  exact this ⟨i, hi⟩ ⟨j, hj⟩ h

theorem b64Byte_ne_pad (i : Nat) (hi : i < 64) : b64Byte i ≠ 0x3d#8 := by
  have : ∀ a : Fin 64, b64Byte a.val ≠ 0x3d#8 := by decide +kernel
  exact this ⟨i, hi⟩

theorem b64Byte_ne_nl (i : Nat) : b64Byte i ≠ 0x0a#8 := by
  by_cases hi : i < 64
  · have : ∀ a : Fin 64, b64Byte a.val ≠ 0x0a#8 := by decide +kernel
    exact this ⟨i, hi⟩
  · unfold b64Byte
    have h1 : ¬ i < 26 := by omega
    have h2 : ¬ i < 52 := by omega
    have h3 : ¬ i < 62 := by omega
    have h4 : ¬ i = 62 := by omega
    simp [h1, h2, h3, h4]

theorem byte_eq_of_toNat {x y : Byte} (h : x.toNat = y.toNat) : x = y := BitVec.eq_of_toNat_eq h

theorem b64Std_inj (a b : Bytes) (h : b64Std a = b64Std b) : a = b := by
  induction hn : a.length using Nat.strongRecOn generalizing a b with
  | _ n ih =>
    match a, b, h with
    | [], [], _ => rfl
    | [], [_], h => simp [b64Std] at h
    | [], [_, _], h => simp [b64Std] at h
    | [], _ :: _ :: _ :: _, h => simp [b64Std] at h
    | [_], [], h => simp [b64Std] at h
    | [_, _], [], h => simp [b64Std] at h
    | _ :: _ :: _ :: _, [], h => simp [b64Std] at h
    | [x], [x'], h =>
      simp only [b64Std, List.cons.injEq, and_true] at h
      have hx := x.isLt; have hx' := x'.isLt
      have e1 := b64Byte_inj _ _ (by omega) (by omega) h.1
      have e2 := b64Byte_inj _ _ (by omega) (by omega) h.2
      rw [byte_eq_of_toNat (x := x) (y := x') (by omega)]
    | [x], [x', y'], h =>
      simp only [b64Std, List.cons.injEq, and_true] at h
      have hy' := y'.isLt
      exact absurd h.2.2.symm (b64Byte_ne_pad _ (by omega))
    | [x, y], [x'], h =>
      simp only [b64Std, List.cons.injEq, and_true] at h
      have hy := y.isLt
      exact absurd h.2.2 (b64Byte_ne_pad _ (by omega))
    | [x, y], [x', y'], h =>
      simp only [b64Std, List.cons.injEq, and_true] at h
      have hx := x.isLt; have hx' := x'.isLt; have hy := y.isLt; have hy' := y'.isLt
      have e1 := b64Byte_inj _ _ (by omega) (by omega) h.1
      have e2 := b64Byte_inj _ _ (by omega) (by omega) h.2.1
      have e3 := b64Byte_inj _ _ (by omega) (by omega) h.2.2
      rw [byte_eq_of_toNat (x := x) (y := x') (by omega), byte_eq_of_toNat (x := y) (y := y') (by omega)]
    | [x], x' :: y' :: z' :: r', h =>
      simp only [b64Std, List.cons.injEq] at h
      have hy' := y'.isLt; have hz' := z'.isLt
      exact absurd h.2.2.1.symm (b64Byte_ne_pad _ (by omega))
    | [x, y], x' :: y' :: z' :: r', h =>
      simp only [b64Std, List.cons.injEq] at h
      have hz' := z'.isLt
      exact absurd h.2.2.2.1.symm (b64Byte_ne_pad _ (by omega))
    | x :: y :: z :: r, [x'], h =>
      simp only [b64Std, List.cons.injEq] at h
      have hy := y.isLt; have hz := z.isLt
      exact absurd h.2.2.1 (b64Byte_ne_pad _ (by omega))
    | x :: y :: z :: r, [x', y'], h =>
      simp only [b64Std, List.cons.injEq] at h
      have hz := z.isLt
      exact absurd h.2.2.2.1 (b64Byte_ne_pad _ (by omega))
    | x :: y :: z :: r, x' :: y' :: z' :: r', h =>
      simp only [b64Std, List.cons.injEq] at h
      have hx := x.isLt; have hx' := x'.isLt; have hy := y.isLt; have hy' := y'.isLt
      have hz := z.isLt; have hz' := z'.isLt
      have e1 := b64Byte_inj _ _ (by omega) (by omega) h.1
      have e2 := b64Byte_inj _ _ (by omega) (by omega) h.2.1
      have e3 := b64Byte_inj _ _ (by omega) (by omega) h.2.2.1
      have e4 := b64Byte_inj _ _ (by omega) (by omega) h.2.2.2.1
      have hr := ih r.length (by simp at hn; omega) r r' h.2.2.2.2 rfl
      rw [byte_eq_of_toNat (x := x) (y := x') (by omega), byte_eq_of_toNat (x := y) (y := y') (by omega),
        byte_eq_of_toNat (x := z) (y := z') (by omega), hr]

/-- no base64 character is a line feed -/
theorem b64Std_no_nl (a : Bytes) : ∀ c ∈ b64Std a, c ≠ 0x0a#8 := by
  induction hn : a.length using Nat.strongRecOn generalizing a with
  | _ n ih =>
    match a with
    | [] => simp [b64Std]
    | [x] =>
      intro c hc
      simp only [b64Std, List.mem_cons, List.not_mem_nil, or_false] at hc
      rcases hc with rfl | rfl | rfl | rfl
      · exact b64Byte_ne_nl _
      · exact b64Byte_ne_nl _
      · decide
      · decide
    | [x, y] =>
      intro c hc
      simp only [b64Std, List.mem_cons, List.not_mem_nil, or_false] at hc
      rcases hc with rfl | rfl | rfl | rfl
      · exact b64Byte_ne_nl _
      · exact b64Byte_ne_nl _
      · exact b64Byte_ne_nl _
      · decide
    | x :: y :: z :: r =>
      intro c hc
      simp only [b64Std, List.mem_cons] at hc
      rcases hc with rfl | rfl | rfl | rfl | hc
      · exact b64Byte_ne_nl _
      · exact b64Byte_ne_nl _
      · exact b64Byte_ne_nl _
      · exact b64Byte_ne_nl _
      · exact ih r.length (by simp at hn; omega) r rfl c hc

/-- removing the line feeds from the wrapped text gives the text back -/
theorem filter_wrapLines (t : Bytes) (h : ∀ c ∈ t, c ≠ 0x0a#8) :
    (wrapLines t).filter (fun c => c != 0x0a#8) = t := by
  induction hn : t.length using Nat.strongRecOn generalizing t with
  | _ n ih =>
    by_cases h0 : t = []
    · simp [h0, wrapLines_nil]
    · rw [wrapLines]
      simp only [h0, dite_false, List.filter_append, List.filter_cons]
      have hpos := List.length_pos_iff.mpr h0
      have ht : (t.take 76).filter (fun c => c != 0x0a#8) = t.take 76 := by
        apply List.filter_eq_self.mpr
        intro c hc
        simpa using h c (List.mem_of_mem_take hc)
      have hd := ih (t.drop 76).length (by simp only [List.length_drop]; omega) (t.drop 76)
        (fun c hc => h c (List.mem_of_mem_drop hc)) rfl
      simp [ht, hd]

theorem wrapLines_inj (s t : Bytes) (hs : ∀ c ∈ s, c ≠ 0x0a#8) (ht : ∀ c ∈ t, c ≠ 0x0a#8)
    (h : wrapLines s = wrapLines t) : s = t := by
  rw [← filter_wrapLines s hs, ← filter_wrapLines t ht, h]

end GoMC.Lemmas
