/-
  Lemmas for C04_roundtrip: exact evaluation of the scanner and of `decodeState.scanWhile` on the tokens the
  writer prints (decimal integers with suffix, float texts of the 'f' format, bare and quoted strings), and of
  `parseLiteral` on them.
-/
import GoMC.Lemmas.SNBTFuel
namespace GoMC.Model.SNBT
open GoMC Scanner DState

/-- every step over `bs` returns `op` -/
def AllOp (op : Op) : Scanner → Bytes → Prop
  | _, [] => True
  | s, c :: cs => (s.step c).2 = op ∧ AllOp op (s.step c).1 cs

/-- the scanner after `bs` -/
def run : Scanner → Bytes → Scanner
  | s, [] => s
  | s, c :: cs => run (s.step c).1 cs

theorem AllOp_append {op : Op} {s : Scanner} {as bs : Bytes} (h1 : AllOp op s as) (h2 : AllOp op (run s as) bs) :
    AllOp op s (as ++ bs) := by
  induction as generalizing s with
  | nil => exact h2
  | cons c cs ih => exact ⟨h1.1, ih h1.2 h2⟩

theorem run_append (s : Scanner) (as bs : Bytes) : run s (as ++ bs) = run (run s as) bs := by
  induction as generalizing s with
  | nil => rfl
  | cons c cs ih => exact ih _

/-- `scanWhile(op)` runs through a block of bytes on which every step returns `op` -/
theorem scanLoop_run (op : Op) (data : Bytes) (bs rest : Bytes) (s : Scanner) (i : Nat) (h : AllOp op s bs) :
    scanLoop op data s (bs ++ rest) i = scanLoop op data (run s bs) rest (i + bs.length) := by
  induction bs generalizing s i with
  | nil => rfl
  | cons c cs ih =>
    simp only [List.cons_append, List.length_cons]
    rw [scanLoop]
    simp only [h.1, bne_self_eq_false, Bool.false_eq_true, if_false]
    rw [ih _ _ h.2]
    simp only [run]
    congr 1; omega

theorem scanLoop_stop (op : Op) (data : Bytes) (c : Byte) (rest : Bytes) (s : Scanner) (i : Nat)
    (h : (s.step c).2 ≠ op) :
    scanLoop op data s (c :: rest) i = { data, off := i + 1, opcode := (s.step c).2, scan := (s.step c).1 } := by
  rw [scanLoop]
  simp [h]

theorem scanLoop_nil (op : Op) (data : Bytes) (s : Scanner) (i : Nat) :
    scanLoop op data s [] i = { data, off := data.length + 1, opcode := s.eof.2, scan := s.eof.1 } := by
  rw [scanLoop]

/-- `scanWhile` on a state positioned in front of `bs ++ rest` -/
theorem scanWhile_at (op : Op) (d : DState) (pre bs rest : Bytes) (hd : d.data = pre ++ bs ++ rest)
    (ho : d.off = pre.length) (h : AllOp op d.scan bs) :
    scanWhile op d = scanLoop op d.data (run d.scan bs) rest (pre.length + bs.length) := by
  unfold scanWhile
  have : d.data.drop d.off = bs ++ rest := by
    rw [hd, ho, List.append_assoc, List.drop_left]
  rw [this, scanLoop_run op d.data bs rest d.scan d.off h, ho]



theorem set_st_eq (s : Scanner) (x : St) (h : s.st = x) : { s with st := x } = s := by
  cases s; simp at h; simp [h]

/-- byte facts about the first byte of a number -/
theorem numstart_facts (c : Byte) (h : (isNumber c || isSign c) = true) :
    isSpace c = false ∧ (c == 123) = false ∧ (c == 91) = false ∧ (c == 34 || c == 39) = false := by
  have : ∀ n : Fin (2^8), (let c : Byte := BitVec.ofFin n
      (isNumber c || isSign c) = true →
      isSpace c = false ∧ (c == 123) = false ∧ (c == 91) = false ∧ (c == 34 || c == 39) = false) := by decide +kernel
  exact this c.toFin h

/-- a digit or sign where a value begins: a number literal begins -/
theorem stBeginValue_num (s : Scanner) (c : Byte) (h : (isNumber c || isSign c) = true) :
    stBeginValue s c = ({ s with st := .num1 }, .beginLiteral) := by
  obtain ⟨h1, h2, h3, h4⟩ := numstart_facts c h
  unfold stBeginValue
  have h' : (isNumber c = true ∨ isSign c = true) := by simpa using h
  simp only [h1, h2, h3, h4, Bool.false_eq_true, if_false]
  unfold stNum0
  simp [h']

theorem step_num1_digit (s : Scanner) (h : s.st = .num1) (c : Byte) (hc : isNumber c = true) :
    s.step c = (s, .cont) := by
  unfold Scanner.step; rw [h]; simp only [hc, if_true]
  rw [set_st_eq s _ h]

theorem AllOp_digits (s : Scanner) (h : s.st = .num1) (ds : Bytes) (hd : ∀ c ∈ ds, isNumber c = true) :
    AllOp .cont s ds ∧ run s ds = s := by
  induction ds with
  | nil => exact ⟨trivial, rfl⟩
  | cons c cs ih =>
    have := step_num1_digit s h c (hd c (by simp))
    have ih' := ih (fun x hx => hd x (by simp [hx]))
    refine ⟨⟨by rw [this], by rw [this]; exact ih'.1⟩, by simp only [run]; rw [this]; exact ih'.2⟩

theorem natDigits_isNumber (f n : Nat) : ∀ c ∈ natDigits f n, isNumber c = true := by
  induction f generalizing n with
  | zero => intro c h; simp [natDigits] at h
  | succ f ih =>
    intro c h
    unfold natDigits at h
    split at h
    · rename_i hn
      simp at h; rw [h]; exact (digit_facts ⟨n, hn⟩).1
    · rcases List.mem_append.mp h with h | h
      · exact ih _ c h
      · simp at h; rw [h]; exact (digit_facts ⟨n % 10, Nat.mod_lt _ (by decide)⟩).1

theorem natDigits_ne_nil (f n : Nat) (h : n < f) : natDigits f n ≠ [] := by
  obtain ⟨d, rest, he, _⟩ := natDigits_head f n h
  rw [he]; simp

/-- the text of an integer: a first byte that begins a number, then digits only -/
theorem formatInt_shape (v : Int) : ∃ c0 ds, formatInt v = c0 :: ds ∧ (isNumber c0 || isSign c0) = true ∧
    (∀ c ∈ ds, isNumber c = true) ∧ (c0 == 45) = decide (v < 0) ∧ (c0 == 43) = false := by
  unfold formatInt
  by_cases hv : v < 0
  · simp only [hv, if_true]
    refine ⟨45, formatNat v.natAbs, rfl, by decide, natDigits_isNumber _ _, by simp [hv], by decide⟩
  · simp only [hv, if_false]
    obtain ⟨d, rest, he, h43, h45⟩ := natDigits_head (v.toNat + 1) v.toNat (by omega)
    have hall := natDigits_isNumber (v.toNat + 1) v.toNat
    unfold formatNat
    rw [he] at hall ⊢
    refine ⟨d, rest, rfl, by simp [hall d (by simp)], fun c hc => hall c (by simp [hc]), by rw [h45]; simp [hv], h43⟩



/-- scanner states in which a byte outside the unquoted class ends the value -/
def EndSt (st : St) : Prop := st = .num1 ∨ st = .numDot0 ∨ st = .inUnquoted ∨ st = .endValue

theorem not_allowed_facts (c : Byte) (h : isAllowedInUnquotedString c = false) :
    isNumber c = false ∧ (c == 46) = false ∧ (c == 101 || c == 69) = false ∧
    (c == 102 || c == 70 || c == 100 || c == 68) = false ∧
    (c == 98 || c == 66 || c == 115 || c == 83 || c == 108 || c == 76) = false := by
  have : ∀ n : Fin (2^8), (let c : Byte := BitVec.ofFin n
      isAllowedInUnquotedString c = false →
      isNumber c = false ∧ (c == 46) = false ∧ (c == 101 || c == 69) = false ∧
      (c == 102 || c == 70 || c == 100 || c == 68) = false ∧
      (c == 98 || c == 66 || c == 115 || c == 83 || c == 108 || c == 76) = false) := by decide +kernel
  exact this c.toFin h

theorem step_end (s : Scanner) (h : EndSt s.st) (c : Byte) (hc : isAllowedInUnquotedString c = false) :
    s.step c = stEndValue s c := by
  obtain ⟨h1, h2, h3, h4, h5⟩ := not_allowed_facts c hc
  unfold Scanner.step
  rcases h with h | h | h | h <;> rw [h] <;> dsimp only
  · simp only [h1, h2, Bool.false_eq_true, if_false]
    unfold stEndNumValue
    simp only [h5, h4, hc, Bool.false_eq_true, if_false]
  · simp only [h1, h3, Bool.false_eq_true, if_false]
    unfold stEndNumDotValue
    simp only [h4, Bool.false_eq_true, if_false]
  · unfold stInUnquoted
    simp only [hc, Bool.false_eq_true, if_false]

/-- what ends a value: the delimiter `c` handed to `stateEndValue`, or the end of input -/
def finish (s : Scanner) : Bytes → Scanner × Op
  | c :: _ => stEndValue s c
  | [] => Scanner.eof { s with st := .endValue }

/-- the rest of the text after a value: nothing, or a byte that cannot continue a literal -/
def Delim : Bytes → Prop
  | [] => True
  | c :: _ => isAllowedInUnquotedString c = false

theorem eof_of (s : Scanner) (he : s.err = false) (ht : s.endTop = false) :
    s.eof = (if (s.step 32#8).1.endTop then ((s.step 32#8).1, Op.end_)
             else ({ (s.step 32#8).1 with err := true }, Op.error)) := by
  unfold Scanner.eof
  rw [if_neg (by rw [he]; simp), if_neg (by rw [ht]; simp)]
  rfl

theorem eof_end_irrel (s : Scanner) (x : St) (hx : EndSt x) (he : s.err = false) (ht : s.endTop = false) :
    Scanner.eof { s with st := x } = Scanner.eof { s with st := .endValue } := by
  have h1 : ({ s with st := x } : Scanner).step 32#8 = stEndValue s 32#8 := by
    rw [step_end _ hx _ not_allowed_32, stEndValue_st_irrel]
  have h2 : ({ s with st := .endValue } : Scanner).step 32#8 = stEndValue s 32#8 := by
    rw [step_end _ (Or.inr (Or.inr (Or.inr rfl))) _ not_allowed_32, stEndValue_st_irrel]
  rw [eof_of { s with st := x } he ht, eof_of { s with st := .endValue } he ht, h1, h2]

/-- `w` is scanned as exactly one literal token -/
def IsTok (w : Bytes) : Prop :=
  ∃ c0 ws st0 stE, w = c0 :: ws ∧ (∀ s, stBeginValue s c0 = ({ s with st := st0 }, .beginLiteral)) ∧
    (∀ s : Scanner, s.st = st0 → AllOp .cont s ws ∧ run s ws = { s with st := stE }) ∧ EndSt stE

theorem stEndValue_ne_cont (s : Scanner) (c : Byte) : (stEndValue s c).2 ≠ .cont := by
  unfold stEndValue
  split
  · unfold stEndTop; split <;> simp
  · split
    · simp
    · rename_i ps _ _ _
      cases ps <;> dsimp only <;> (repeat' split) <;> simp [Scanner.error]

/-- reading a token `c0 :: ws` whose first byte begins a literal in the current state, followed by `k` -/
theorem tok_read_core (c0 : Byte) (ws : Bytes) (st0 stE : St)
    (hrun : ∀ s : Scanner, s.st = st0 → AllOp .cont s ws ∧ run s ws = { s with st := stE }) (hend : EndSt stE)
    (pre k : Bytes) (hk : Delim k) (s : Scanner)
    (hstep0 : s.step c0 = ({ s with st := st0 }, .beginLiteral))
    (he : s.err = false) (ht : s.endTop = false) (o : Op) :
    (scanWhile .skipSpace (DState.mk (pre ++ (c0 :: ws) ++ k) pre.length o s)).opcode = .beginLiteral ∧
    readLiteral (scanWhile .skipSpace (DState.mk (pre ++ (c0 :: ws) ++ k) pre.length o s)) =
      (if (finish s k).2 == .error then .err
       else .ok (DState.mk (pre ++ (c0 :: ws) ++ k) (pre.length + (c0 :: ws).length + 1) (finish s k).2 (finish s k).1,
                  c0 :: ws)) := by
  have e1 : scanWhile .skipSpace (DState.mk (pre ++ c0 :: ws ++ k) pre.length o s) =
      DState.mk (pre ++ c0 :: ws ++ k) (pre.length + 1) .beginLiteral { s with st := st0 } := by
    unfold scanWhile
    simp only [List.append_assoc, List.drop_left, List.cons_append]
    rw [scanLoop_stop _ _ _ _ _ _ (by rw [hstep0]; simp), hstep0]
  rw [e1]
  refine ⟨rfl, ?_⟩
  obtain ⟨hall, hr⟩ := hrun { s with st := st0 } rfl
  have e2 : scanWhile .cont (DState.mk (pre ++ c0 :: ws ++ k) (pre.length + 1) .beginLiteral { s with st := st0 }) =
      DState.mk (pre ++ c0 :: ws ++ k) (pre.length + (c0 :: ws).length + 1) (finish s k).2 (finish s k).1 := by
    rw [scanWhile_at .cont _ (pre ++ [c0]) ws k (by simp) (by simp) hall]
    dsimp only
    rw [hr]
    cases k with
    | nil =>
      rw [scanLoop_nil]
      simp only [finish]
      have := eof_end_irrel s stE hend he ht
      rw [this]
      have hl : (pre ++ c0 :: ws ++ ([] : Bytes)).length + 1 = pre.length + (c0 :: ws).length + 1 := by
        simp
      rw [hl]
    | cons c k' =>
      have hc : isAllowedInUnquotedString c = false := hk
      have hst : ({ s with st := stE } : Scanner).step c = stEndValue s c := by
        rw [step_end _ hend c hc, stEndValue_st_irrel]
      have hne : (({ s with st := stE } : Scanner).step c).2 ≠ .cont := by
        rw [hst]; exact stEndValue_ne_cont s c
      rw [scanLoop_stop _ _ _ _ _ _ hne, hst]
      simp [finish]; omega
  unfold readLiteral
  dsimp only
  rw [e2]
  dsimp only
  split
  · rfl
  · have hsl : (DState.mk (pre ++ c0 :: ws ++ k) (pre.length + (c0 :: ws).length + 1) (finish s k).2 (finish s k).1).slice
        (DState.mk (pre ++ c0 :: ws ++ k) (pre.length + 1) .beginLiteral { s with st := st0 }).readIndex
        (DState.mk (pre ++ c0 :: ws ++ k) (pre.length + (c0 :: ws).length + 1) (finish s k).2 (finish s k).1).readIndex
        = some (c0 :: ws) := by
      unfold DState.slice DState.readIndex
      dsimp only
      have h1 : pre.length + 1 - 1 = pre.length := by omega
      have h2 : pre.length + (c0 :: ws).length + 1 - 1 = pre.length + (c0 :: ws).length := by omega
      rw [h1, h2]
      rw [if_pos (by simp)]
      congr 1
      rw [List.append_assoc, List.drop_left, Nat.add_sub_cancel_left, List.take_left]
    rw [hsl]




/-- reading a token `w` that stands where a value begins, followed by `k` -/
theorem tok_read' (w : Bytes) (hw : IsTok w) (pre k : Bytes) (hk : Delim k) (s : Scanner)
    (hs : ∀ c, isSpace c = false → c ≠ 93 → s.step c = stBeginValue s c) (hw0 : ∀ c rest, w = c :: rest → c ≠ 93)
    (he : s.err = false) (ht : s.endTop = false) (o : Op) :
    (scanWhile .skipSpace (DState.mk (pre ++ w ++ k) pre.length o s)).opcode = .beginLiteral ∧
    readLiteral (scanWhile .skipSpace (DState.mk (pre ++ w ++ k) pre.length o s)) =
      (if (finish s k).2 == .error then .err
       else .ok (DState.mk (pre ++ w ++ k) (pre.length + w.length + 1) (finish s k).2 (finish s k).1, w)) := by
  obtain ⟨c0, ws, st0, stE, hw, hbeg, hrun, hend⟩ := hw
  subst hw
  have hstep0 : s.step c0 = ({ s with st := st0 }, .beginLiteral) := by
    have hsp : isSpace c0 = false := by
      have := hbeg s
      unfold stBeginValue at this
      by_cases h : isSpace c0 = true
      · simp [h] at this
      · simpa using h
    rw [hs c0 hsp (hw0 c0 ws rfl)]; exact hbeg s
  exact tok_read_core c0 ws st0 stE hrun hend pre k hk s hstep0 he ht o

/-- reading a token `w` that stands where a value begins (`stateBeginValue`), followed by `k` -/
theorem tok_read (w : Bytes) (hw : IsTok w) (pre k : Bytes) (hk : Delim k) (s : Scanner) (hs : s.st = .beginValue)
    (he : s.err = false) (ht : s.endTop = false) (o : Op) :
    (scanWhile .skipSpace (DState.mk (pre ++ w ++ k) pre.length o s)).opcode = .beginLiteral ∧
    readLiteral (scanWhile .skipSpace (DState.mk (pre ++ w ++ k) pre.length o s)) =
      (if (finish s k).2 == .error then .err
       else .ok (DState.mk (pre ++ w ++ k) (pre.length + w.length + 1) (finish s k).2 (finish s k).1, w)) := by
  have hw0 : ∀ c rest, w = c :: rest → c ≠ 93 := by
    intro c rest e
    obtain ⟨c0, ws, st0, stE, hw', hbeg, _, _⟩ := hw
    rw [e] at hw'
    injection hw' with h1 _
    subst h1
    intro h93; subst h93
    have := hbeg Scanner.reset
    simp [stBeginValue, isSpace, isNumber, isSign, isAllowedInUnquotedString, isUpper, isLower, Scanner.error] at this
  exact tok_read' w hw pre k hk s (fun c _ _ => by unfold Scanner.step; rw [hs]) hw0 he ht o

theorem step_num1_bsl (s : Scanner) (h : s.st = .num1) (c : Byte) (hc : c = 66 ∨ c = 83 ∨ c = 76) :
    s.step c = ({ s with st := .endValue }, .cont) := by
  unfold Scanner.step; rw [h]; dsimp only
  rcases hc with e | e | e <;> subst e <;> simp [isNumber, stEndNumValue]

theorem step_num1_I (s : Scanner) (h : s.st = .num1) : s.step 73 = ({ s with st := .inUnquoted }, .cont) := by
  unfold Scanner.step; rw [h]; dsimp only
  simp [isNumber, stEndNumValue, stEndNumDotValue, isAllowedInUnquotedString, isUpper, isLower]

/-- the suffix letters the writer uses after an integer -/
def IntSuffix (suf : Bytes) : Prop := suf = [] ∨ suf = [66] ∨ suf = [83] ∨ suf = [76] ∨ suf = [73]

/-- `FormatInt(v) ++ suffix` is one literal token -/
theorem isTok_int (v : Int) (suf : Bytes) (hs : IntSuffix suf) : IsTok (formatInt v ++ suf) := by
  obtain ⟨c0, ds, he, hc0, hds, _, _⟩ := formatInt_shape v
  rw [he]
  have hdig : ∀ s : Scanner, s.st = .num1 → AllOp .cont s ds ∧ run s ds = s := fun s h => AllOp_digits s h ds hds
  rcases hs with e | e | e | e | e <;> subst e
  · refine ⟨c0, ds ++ [], .num1, .num1, by simp, fun s => stBeginValue_num s c0 hc0, fun s h => ?_, Or.inl rfl⟩
    simp only [List.append_nil]
    exact ⟨(hdig s h).1, by rw [(hdig s h).2, set_st_eq s _ h]⟩
  · refine ⟨c0, ds ++ [66], .num1, .endValue, by simp, fun s => stBeginValue_num s c0 hc0, fun s h => ?_,
      Or.inr (Or.inr (Or.inr rfl))⟩
    have hl := step_num1_bsl s h 66 (Or.inl rfl)
    refine ⟨AllOp_append (hdig s h).1 ?_, ?_⟩
    · rw [(hdig s h).2]; exact ⟨by rw [hl], trivial⟩
    · rw [run_append, (hdig s h).2]; simp only [run]; rw [hl]
  · refine ⟨c0, ds ++ [83], .num1, .endValue, by simp, fun s => stBeginValue_num s c0 hc0, fun s h => ?_,
      Or.inr (Or.inr (Or.inr rfl))⟩
    have hl := step_num1_bsl s h 83 (Or.inr (Or.inl rfl))
    refine ⟨AllOp_append (hdig s h).1 ?_, ?_⟩
    · rw [(hdig s h).2]; exact ⟨by rw [hl], trivial⟩
    · rw [run_append, (hdig s h).2]; simp only [run]; rw [hl]
  · refine ⟨c0, ds ++ [76], .num1, .endValue, by simp, fun s => stBeginValue_num s c0 hc0, fun s h => ?_,
      Or.inr (Or.inr (Or.inr rfl))⟩
    have hl := step_num1_bsl s h 76 (Or.inr (Or.inr rfl))
    refine ⟨AllOp_append (hdig s h).1 ?_, ?_⟩
    · rw [(hdig s h).2]; exact ⟨by rw [hl], trivial⟩
    · rw [run_append, (hdig s h).2]; simp only [run]; rw [hl]
  · refine ⟨c0, ds ++ [73], .num1, .inUnquoted, by simp, fun s => stBeginValue_num s c0 hc0, fun s h => ?_,
      Or.inr (Or.inr (Or.inl rfl))⟩
    have hl := step_num1_I s h
    refine ⟨AllOp_append (hdig s h).1 ?_, ?_⟩
    · rw [(hdig s h).2]; exact ⟨by rw [hl], trivial⟩
    · rw [run_append, (hdig s h).2]; simp only [run]; rw [hl]



theorem clsLoop_digits (k : Cls) (i : Nat) (ds : Bytes) (hd : ∀ c ∈ ds, isNumber c = true) :
    clsLoop k i ds = k := by
  induction ds generalizing i with
  | nil => rfl
  | cons c cs ih =>
    unfold clsLoop
    have : clsStep k i c = k := by unfold clsStep; simp [hd c (by simp)]
    rw [this]
    exact ih _ (fun x hx => hd x (by simp [hx]))

theorem clsLoop_append (k : Cls) (i : Nat) (as bs : Bytes) :
    clsLoop k i (as ++ bs) = clsLoop (clsLoop k i as) (i + as.length) bs := by
  induction as generalizing k i with
  | nil => rfl
  | cons c cs ih =>
    simp only [List.cons_append, clsLoop, List.length_cons]
    rw [ih]
    congr 1; omega

/-- the classification loop on the text of an integer leaves the initial state -/
theorem clsLoop_formatInt (n : Nat) (v : Int) : clsLoop { strlen := n } 0 (formatInt v) = { strlen := n } := by
  obtain ⟨c0, ds, he, hc0, hds, h45, h43⟩ := formatInt_shape v
  rw [he]
  unfold clsLoop
  have : clsStep { strlen := n } 0 c0 = { strlen := n } := by
    unfold clsStep
    by_cases hn : isNumber c0 = true
    · simp [hn]
    · have hs : isSign c0 = true := by simpa [hn] using hc0
      have : c0 = 45 := by
        unfold isSign at hs
        rcases Bool.or_eq_true _ _ |>.mp hs with h | h
        · simpa using h
        · rw [h43] at h; cases h
      subst this
      simp [isNumber]
  rw [this]
  exact clsLoop_digits _ _ ds hds

theorem formatInt_not_quote (v : Int) : ∃ c0 ds, formatInt v = c0 :: ds ∧ (c0 == 34 || c0 == 39) = false := by
  obtain ⟨c0, ds, he, hc0, _, _, _⟩ := formatInt_shape v
  exact ⟨c0, ds, he, (numstart_facts c0 hc0).2.2.2⟩

theorem formatInt_length_pos (v : Int) : 0 < (formatInt v).length := by
  obtain ⟨c0, ds, he, _⟩ := formatInt_shape v
  rw [he]; simp

/-- `parseLiteral` on an integer text without suffix: `ParseInt(…, 32)` -/
theorem parseLiteral_int_plain (fo : FloatOracle) (v : Int) :
    parseLiteral fo (formatInt v) =
      .ok (tagInt, (parseInt 32 (formatInt v)).map fun x => .i32 (BitVec.ofInt 32 x)) := by
  obtain ⟨c0, ds, he, hq⟩ := formatInt_not_quote v
  have hc := clsLoop_formatInt (formatInt v).length v
  unfold parseLiteral
  rw [he] at hc ⊢
  simp only [hq, Bool.false_eq_true, if_false]
  rw [hc]
  simp

/-- `parseLiteral` on an integer text with one of the suffix letters the writer uses -/
theorem parseLiteral_int_suffix (fo : FloatOracle) (v : Int) (l : Byte) (hl : l = 66 ∨ l = 83 ∨ l = 76 ∨ l = 73) :
    parseLiteral fo (formatInt v ++ [l]) =
      (if l = 66 then .ok (tagByte, (parseInt 8 (formatInt v)).map fun x => .i8 (BitVec.ofInt 8 x))
       else if l = 83 then .ok (tagShort, (parseInt 16 (formatInt v)).map fun x => .i16 (BitVec.ofInt 16 x))
       else if l = 76 then .ok (tagLong, (parseInt 64 (formatInt v)).map fun x => .i64 (BitVec.ofInt 64 x))
       else .ok (tagInt, (parseInt 32 (formatInt v)).map fun x => .i32 (BitVec.ofInt 32 x))) := by
  obtain ⟨c0, ds, he, hq⟩ := formatInt_not_quote v
  have hpos := formatInt_length_pos v
  have hc : clsLoop { strlen := (formatInt v ++ [l]).length } 0 (formatInt v ++ [l]) =
      { strlen := (formatInt v).length, numberType := l } := by
    rw [clsLoop_append, clsLoop_formatInt]
    simp only [clsLoop, Nat.zero_add]
    unfold clsStep
    have hn : isNumber l = false := by rcases hl with e | e | e | e <;> subst e <;> decide
    have hi : isIntegerType l = true := by rcases hl with e | e | e | e <;> subst e <;> decide
    simp [hn, hi]
    intro h; rw [h] at hpos; simp at hpos
  unfold parseLiteral
  rw [he] at hc ⊢
  simp only [List.cons_append, hq, Bool.false_eq_true, if_false] at hc ⊢
  rw [hc]
  have htake : List.take (c0 :: ds).length (c0 :: (ds ++ [l])) = c0 :: ds := by
    have : c0 :: (ds ++ [l]) = (c0 :: ds) ++ [l] := by simp
    rw [this, List.take_left]
  simp only [htake]
  rcases hl with e | e | e | e <;> subst e <;> simp



/-- the scanner after a complete top-level value and the end of input -/
def topDone : Scanner := { st := .endTop, stack := [], err := false, endTop := true, oob := false }

theorem finish_reset_nil : finish Scanner.reset [] = (topDone, .end_) := by
  unfold finish
  rw [eof_of _ rfl rfl]
  have : ({ Scanner.reset with st := St.endValue } : Scanner).step 32#8 =
      ({ Scanner.reset with st := .endTop, endTop := true }, .end_) := by
    rw [step_end _ (Or.inr (Or.inr (Or.inr rfl))) _ not_allowed_32, stEndValue_st_irrel,
      stEndValue_space_nil _ rfl]
  rw [this]
  rfl

theorem topDone_eof : topDone.eof = (topDone, .end_) := by
  unfold Scanner.eof; simp [topDone]

/-- a text that is exactly one literal token is parsed to the payload of that literal -/
theorem marshal_tok (fo : FloatOracle) (w : Bytes) (hw : IsTok w) (tag : Byte) (v : Lit)
    (hp : parseLiteral fo w = .ok (tag, some v)) (hok : litOk v = true) : marshal fo w = .ok (litPayload v) := by
  unfold marshal marshalWith
  dsimp only
  have hfuel : parseFuel w = (parseFuel w - 1) + 1 := by unfold parseFuel; omega
  rw [hfuel]
  unfold writeValue
  dsimp only
  obtain ⟨h1, h2⟩ := tok_read w hw [] [] trivial Scanner.reset rfl rfl rfl .cont
  simp only [List.nil_append, List.append_nil, List.length_nil, Nat.zero_add] at h1 h2
  have e0 : ({ data := w, scan := Scanner.reset } : DState) = DState.mk w 0 .cont Scanner.reset := rfl
  rw [e0, h1]
  dsimp only
  rw [h2, finish_reset_nil]
  simp only [show (Op.end_ == Op.error) = false by decide, Bool.false_eq_true, if_false]
  rw [hp]
  dsimp only
  simp only [hok, Bool.not_true, Bool.false_eq_true, if_false]
  -- the trailing `scanWhile(scanEnd)`
  have e3 : scanWhile .end_ (DState.mk w (w.length + 1) .end_ topDone) =
      DState.mk w (w.length + 1) .end_ topDone := by
    unfold scanWhile
    dsimp only
    rw [List.drop_eq_nil_of_le (by omega), scanLoop_nil, topDone_eof]
  rw [e3]
  simp [hdr, topDone]




theorem allowed_start_facts (c : Byte) (h : isAllowedInUnquotedString c = true) :
    isSpace c = false ∧ (c == 123) = false ∧ (c == 91) = false ∧ (c == 34 || c == 39) = false ∧
    (c == 39) = false ∧ (c == 34) = false := by
  have : ∀ n : Fin (2^8), (let c : Byte := BitVec.ofFin n
      isAllowedInUnquotedString c = true →
      isSpace c = false ∧ (c == 123) = false ∧ (c == 91) = false ∧ (c == 34 || c == 39) = false ∧
      (c == 39) = false ∧ (c == 34) = false) := by decide +kernel
  exact this c.toFin h

/-- a byte of the unquoted class that does not begin a number, where a value begins: a bare string begins -/
theorem stBeginValue_bare (s : Scanner) (c : Byte) (h : isAllowedInUnquotedString c = true)
    (hn : isNumber c = false) (h45 : (c == 45) = false) (h43 : (c == 43) = false) :
    stBeginValue s c = ({ s with st := .inUnquoted }, .beginLiteral) := by
  obtain ⟨h1, h2, h3, h4, h5, h6⟩ := allowed_start_facts c h
  unfold stBeginValue
  have hs : isSign c = false := by unfold isSign; rw [h45, h43]; rfl
  simp only [h1, h2, h3, h4, hn, hs, h, Bool.or_self, Bool.false_eq_true, if_false, if_true]
  unfold stBeginString
  simp only [h1, h5, h6, h, Bool.false_eq_true, if_false, if_true]

theorem stBeginValue_quote (s : Scanner) (q : Byte) (hq : q = 34 ∨ q = 39) :
    stBeginValue s q = ({ s with st := if q = 34 then .inDq else .inSq }, .beginLiteral) := by
  rcases hq with e | e <;> subst e <;>
    simp [stBeginValue, stBeginString, isSpace]

theorem step_unq (s : Scanner) (h : s.st = .inUnquoted) (c : Byte) (hc : isAllowedInUnquotedString c = true) :
    s.step c = (s, .cont) := by
  unfold Scanner.step; rw [h]; dsimp only
  unfold stInUnquoted; simp [hc]

theorem AllOp_unq (s : Scanner) (h : s.st = .inUnquoted) (cs : Bytes)
    (hd : ∀ c ∈ cs, isAllowedInUnquotedString c = true) : AllOp .cont s cs ∧ run s cs = s := by
  induction cs with
  | nil => exact ⟨trivial, rfl⟩
  | cons c cs ih =>
    have := step_unq s h c (hd c (by simp))
    have ih' := ih (fun x hx => hd x (by simp [hx]))
    refine ⟨⟨by rw [this], by rw [this]; exact ih'.1⟩, by simp only [run]; rw [this]; exact ih'.2⟩

/-- scanning the escaped body of a quoted string keeps the scanner inside the string -/
theorem AllOp_escape (q : Byte) (hq : q = 34 ∨ q = 39) (str : Bytes) (s : Scanner)
    (h : s.st = (if q = 34 then St.inDq else St.inSq)) :
    AllOp .cont s (escapeWith q str) ∧ run s (escapeWith q str) = s := by
  induction str with
  | nil => exact ⟨trivial, rfl⟩
  | cons c cs ih =>
    unfold escapeWith
    -- one source byte: [\\, q], [\\, \\] or [c]
    have hone : AllOp .cont s (if c == q then [92, q] else if c == 92 then [92, 92] else [c]) ∧
        run s (if c == q then [92, q] else if c == 92 then [92, 92] else [c]) = s := by
      rcases hq with e | e <;> subst e
      · -- double quoted
        simp only [if_true] at h
        have hs : ∀ x, ({ s with st := x } : Scanner) = { s with st := x } := fun _ => rfl
        by_cases h1 : (c == 34) = true
        · simp only [h1, if_true]
          have e1 : s.step 92 = ({ s with st := .inDqEsc }, .cont) := by
            unfold Scanner.step; rw [h]; simp
          have e2 : ({ s with st := .inDqEsc } : Scanner).step 34 = (s, .cont) := by
            unfold Scanner.step; simp; exact set_st_eq s _ h
          exact ⟨⟨by rw [e1], by rw [e1]; exact ⟨by rw [e2], trivial⟩⟩, by simp only [run]; rw [e1, e2]⟩
        · by_cases h2 : (c == 92) = true
          · simp only [h1, h2, if_true, Bool.false_eq_true, if_false]
            have e1 : s.step 92 = ({ s with st := .inDqEsc }, .cont) := by
              unfold Scanner.step; rw [h]; simp
            have e2 : ({ s with st := .inDqEsc } : Scanner).step 92 = (s, .cont) := by
              unfold Scanner.step; simp; exact set_st_eq s _ h
            exact ⟨⟨by rw [e1], by rw [e1]; exact ⟨by rw [e2], trivial⟩⟩, by simp only [run]; rw [e1, e2]⟩
          · simp only [h1, h2, Bool.false_eq_true, if_false]
            have e1 : s.step c = (s, .cont) := by
              unfold Scanner.step; rw [h]; simp only [h1, h2, Bool.false_eq_true, if_false]
            exact ⟨⟨by rw [e1], by rw [e1]; trivial⟩, by simp only [run]; rw [e1]⟩
      · -- single quoted
        simp only [show ¬ ((39 : Byte) = 34) by decide, if_false] at h
        by_cases h1 : (c == 39) = true
        · simp only [h1, if_true]
          have e1 : s.step 92 = ({ s with st := .inSqEsc }, .cont) := by
            unfold Scanner.step; rw [h]; simp
          have e2 : ({ s with st := .inSqEsc } : Scanner).step 39 = (s, .cont) := by
            unfold Scanner.step; simp; exact set_st_eq s _ h
          exact ⟨⟨by rw [e1], by rw [e1]; exact ⟨by rw [e2], trivial⟩⟩, by simp only [run]; rw [e1, e2]⟩
        · by_cases h2 : (c == 92) = true
          · simp only [h1, h2, if_true, Bool.false_eq_true, if_false]
            have e1 : s.step 92 = ({ s with st := .inSqEsc }, .cont) := by
              unfold Scanner.step; rw [h]; simp
            have e2 : ({ s with st := .inSqEsc } : Scanner).step 92 = (s, .cont) := by
              unfold Scanner.step; simp; exact set_st_eq s _ h
            exact ⟨⟨by rw [e1], by rw [e1]; exact ⟨by rw [e2], trivial⟩⟩, by simp only [run]; rw [e1, e2]⟩
          · simp only [h1, h2, Bool.false_eq_true, if_false]
            have e1 : s.step c = (s, .cont) := by
              unfold Scanner.step; rw [h]; simp only [h1, h2, Bool.false_eq_true, if_false]
            exact ⟨⟨by rw [e1], by rw [e1]; trivial⟩, by simp only [run]; rw [e1]⟩
    refine ⟨AllOp_append hone.1 (by rw [hone.2]; exact ih.1), ?_⟩
    rw [run_append, hone.2]; exact ih.2



theorem step_close (q : Byte) (hq : q = 34 ∨ q = 39) (s : Scanner)
    (h : s.st = (if q = 34 then St.inDq else St.inSq)) : s.step q = ({ s with st := .endValue }, .cont) := by
  rcases hq with e | e <;> subst e
  · simp only [if_true] at h
    unfold Scanner.step; rw [h]; simp
  · simp only [show ¬ ((39 : Byte) = 34) by decide, if_false] at h
    unfold Scanner.step; rw [h]; simp

/-- whatever `writeEscapeStr` prints is one literal token -/
theorem isTok_str (str : Bytes) : IsTok (writeEscapeStr str) := by
  unfold writeEscapeStr
  by_cases hq : needQuote str = true
  · simp only [hq, Bool.not_true, Bool.false_eq_true, if_false]
    have key : ∀ q : Byte, (q = 34 ∨ q = 39) → IsTok ([q] ++ escapeWith q str ++ [q]) := by
      intro q hqq
      refine ⟨q, escapeWith q str ++ [q], (if q = 34 then .inDq else .inSq), .endValue, by simp,
        fun s => stBeginValue_quote s q hqq, fun s h => ?_, Or.inr (Or.inr (Or.inr rfl))⟩
      obtain ⟨a, b⟩ := AllOp_escape q hqq str s h
      have hc := step_close q hqq s h
      refine ⟨AllOp_append a ?_, ?_⟩
      · rw [b]; exact ⟨by rw [hc], trivial⟩
      · rw [run_append, b]; simp only [run]; rw [hc]
    split
    · exact key 39 (Or.inr rfl)
    · exact key 34 (Or.inl rfl)
  · have hq' : needQuote str = false := by simpa using hq
    simp only [hq', Bool.not_false, if_true]
    unfold needQuote at hq'
    cases str with
    | nil => simp at hq'
    | cons c cs =>
      simp only [Bool.or_eq_false_iff, List.any_eq_false, Bool.not_eq_true', Bool.not_eq_false] at hq'
      obtain ⟨⟨⟨⟨hn, h45⟩, h43⟩, _⟩, hall⟩ := hq'
      have hall' : ∀ x ∈ c :: cs, isAllowedInUnquotedString x = true := by
        intro x hx; have := hall x hx; simpa using this
      refine ⟨c, cs, .inUnquoted, .inUnquoted, rfl,
        fun s => stBeginValue_bare s c (hall' c (by simp)) hn h45 h43, fun s h => ?_, Or.inr (Or.inr (Or.inl rfl))⟩
      obtain ⟨a, b⟩ := AllOp_unq s h cs (fun x hx => hall' x (by simp [hx]))
      exact ⟨a, by rw [b, set_st_eq s _ h]⟩




/-- the shape of `strconv.FormatFloat(x, 'f', -1, bits)` for a finite `x`: `[-]digits[.digits]` -/
def FloatText (w : Bytes) : Prop :=
  ∃ c0 ip fd, (isNumber c0 = true ∨ (c0 = 45 ∧ ip ≠ [])) ∧ (∀ c ∈ ip, isNumber c = true) ∧
    (∀ c ∈ fd, isNumber c = true) ∧ (w = c0 :: ip ∨ (fd ≠ [] ∧ w = c0 :: ip ++ 46 :: fd))

theorem step_num1_fd (s : Scanner) (h : s.st = .num1) (c : Byte) (hc : c = 70 ∨ c = 68) :
    s.step c = ({ s with st := .endValue }, .cont) := by
  unfold Scanner.step; rw [h]; dsimp only
  rcases hc with e | e <;> subst e <;> simp [isNumber, stEndNumValue, stEndNumDotValue]

theorem step_num1_dot (s : Scanner) (h : s.st = .num1) : s.step 46 = ({ s with st := .numDot }, .cont) := by
  unfold Scanner.step; rw [h]; simp [isNumber]

theorem step_numDot_digit (s : Scanner) (h : s.st = .numDot) (c : Byte) (hc : isNumber c = true) :
    s.step c = ({ s with st := .numDot0 }, .cont) := by
  unfold Scanner.step; rw [h]; simp [hc]

theorem step_numDot0_digit (s : Scanner) (h : s.st = .numDot0) (c : Byte) (hc : isNumber c = true) :
    s.step c = (s, .cont) := by
  unfold Scanner.step; rw [h]; simp only [hc, if_true]; rw [set_st_eq s _ h]

theorem step_numDot0_fd (s : Scanner) (h : s.st = .numDot0) (c : Byte) (hc : c = 70 ∨ c = 68) :
    s.step c = ({ s with st := .endValue }, .cont) := by
  unfold Scanner.step; rw [h]; dsimp only
  rcases hc with e | e <;> subst e <;> simp [isNumber, stEndNumDotValue]

theorem AllOp_digits0 (s : Scanner) (h : s.st = .numDot0) (ds : Bytes) (hd : ∀ c ∈ ds, isNumber c = true) :
    AllOp .cont s ds ∧ run s ds = s := by
  induction ds with
  | nil => exact ⟨trivial, rfl⟩
  | cons c cs ih =>
    have := step_numDot0_digit s h c (hd c (by simp))
    have ih' := ih (fun x hx => hd x (by simp [hx]))
    refine ⟨⟨by rw [this], by rw [this]; exact ih'.1⟩, by simp only [run]; rw [this]; exact ih'.2⟩

/-- a float text followed by `F` or `D` is one literal token -/
theorem isTok_float (w : Bytes) (hw : FloatText w) (l : Byte) (hl : l = 70 ∨ l = 68) : IsTok (w ++ [l]) := by
  obtain ⟨c0, ip, fd, hc0, hip, hfd, hshape⟩ := hw
  have hstart : (isNumber c0 || isSign c0) = true := by
    rcases hc0 with h | ⟨h, _⟩
    · simp [h]
    · subst h; decide
  rcases hshape with e | ⟨hne, e⟩
  · subst e
    refine ⟨c0, ip ++ [l], .num1, .endValue, by simp, fun s => stBeginValue_num s c0 hstart, fun s h => ?_,
      Or.inr (Or.inr (Or.inr rfl))⟩
    obtain ⟨a, b⟩ := AllOp_digits s h ip hip
    have hc := step_num1_fd s h l hl
    refine ⟨AllOp_append a ?_, ?_⟩
    · rw [b]; exact ⟨by rw [hc], trivial⟩
    · rw [run_append, b]; simp only [run]; rw [hc]
  · subst e
    cases fd with
    | nil => exact absurd rfl hne
    | cons f0 fs =>
      refine ⟨c0, ip ++ 46 :: f0 :: fs ++ [l], .num1, .endValue, by simp, fun s => stBeginValue_num s c0 hstart,
        fun s h => ?_, Or.inr (Or.inr (Or.inr rfl))⟩
      obtain ⟨a, b⟩ := AllOp_digits s h ip hip
      have e1 := step_num1_dot s h
      have e2 := step_numDot_digit { s with st := .numDot } rfl f0 (hfd f0 (by simp))
      obtain ⟨a3, b3⟩ := AllOp_digits0 { s with st := .numDot0 } rfl fs (fun x hx => hfd x (by simp [hx]))
      have e4 := step_numDot0_fd { s with st := .numDot0 } rfl l hl
      have htail : AllOp .cont s (46 :: f0 :: fs ++ [l]) ∧ run s (46 :: f0 :: fs ++ [l]) = { s with st := .endValue } := by
        simp only [List.cons_append]
        refine ⟨⟨by rw [e1], ?_⟩, ?_⟩
        · rw [e1]; refine ⟨by rw [e2], ?_⟩
          rw [e2]
          exact AllOp_append a3 (by rw [b3]; exact ⟨by rw [e4], trivial⟩)
        · simp only [run]; rw [e1, e2, run_append, b3]; simp only [run]; rw [e4]
      rw [List.append_assoc]
      refine ⟨AllOp_append a (by rw [b]; exact htail.1), ?_⟩
      rw [run_append, b]; exact htail.2



theorem clsStep_first_num (k : Cls) (c0 : Byte) (h : isNumber c0 = true ∨ c0 = 45) (hk : k.integer = true) :
    clsStep k 0 c0 = k := by
  unfold clsStep
  rcases h with h | h
  · simp [h]
  · subst h; simp [isNumber, hk]

/-- `parseLiteral` on a float text with suffix: `ParseFloat` of the text, 32 or 64 bits -/
theorem parseLiteral_float (fo : FloatOracle) (w : Bytes) (hw : FloatText w) (l : Byte) (hl : l = 70 ∨ l = 68) :
    parseLiteral fo (w ++ [l]) =
      (if l = 70 then .ok (tagFloat, (fo.pf32 w).map .f32) else .ok (tagDouble, (fo.pf64 w).map .f64)) := by
  obtain ⟨c0, ip, fd, hc0, hip, hfd, hshape⟩ := hw
  have hc0' : isNumber c0 = true ∨ c0 = 45 := by
    rcases hc0 with h | ⟨h, _⟩
    · exact Or.inl h
    · exact Or.inr h
  have hstart : (isNumber c0 || isSign c0) = true := by
    rcases hc0' with h | h
    · simp [h]
    · subst h; decide
  have hq : (c0 == 34 || c0 == 39) = false := (numstart_facts c0 hstart).2.2.2
  have hnl : isNumber l = false := by rcases hl with e | e <;> subst e <;> decide
  have hil : isIntegerType l = true := by rcases hl with e | e <;> subst e <;> decide
  have hfl : isFloatType l = true := by rcases hl with e | e <;> subst e <;> decide
  rcases hshape with e | ⟨hne, e⟩
  · subst e
    have hc : clsLoop { strlen := (c0 :: ip ++ [l]).length } 0 (c0 :: ip ++ [l]) =
        { strlen := (c0 :: ip).length, numberType := l } := by
      rw [clsLoop_append]
      have h1 : clsLoop { strlen := (c0 :: ip ++ [l]).length } 0 (c0 :: ip) = { strlen := (c0 :: ip ++ [l]).length } := by
        unfold clsLoop
        rw [clsStep_first_num _ c0 hc0' rfl]
        exact clsLoop_digits _ _ ip hip
      rw [h1]
      simp only [clsLoop, Nat.zero_add]
      unfold clsStep
      simp [hnl, hil]
    unfold parseLiteral
    simp only [List.cons_append, hq, Bool.false_eq_true, if_false] at hc ⊢
    rw [hc]
    have htake : List.take (c0 :: ip).length (c0 :: (ip ++ [l])) = c0 :: ip := by
      have : c0 :: (ip ++ [l]) = (c0 :: ip) ++ [l] := by simp
      rw [this, List.take_left]
    simp only [htake]
    rcases hl with e | e <;> subst e <;> simp
  · subst e
    have hc : clsLoop { strlen := (c0 :: ip ++ 46 :: fd ++ [l]).length } 0 (c0 :: ip ++ 46 :: fd ++ [l]) =
        { strlen := (c0 :: ip ++ 46 :: fd).length, integer := false, numberType := l } := by
      rw [clsLoop_append, clsLoop_append]
      have h1 : clsLoop { strlen := (c0 :: ip ++ 46 :: fd ++ [l]).length } 0 (c0 :: ip) =
          { strlen := (c0 :: ip ++ 46 :: fd ++ [l]).length } := by
        unfold clsLoop
        rw [clsStep_first_num _ c0 hc0' rfl]
        exact clsLoop_digits _ _ ip hip
      rw [h1]
      have h2 : clsLoop { strlen := (c0 :: ip ++ 46 :: fd ++ [l]).length } (0 + (c0 :: ip).length) (46 :: fd) =
          { strlen := (c0 :: ip ++ 46 :: fd ++ [l]).length, integer := false } := by
        unfold clsLoop
        have : clsStep { strlen := (c0 :: ip ++ 46 :: fd ++ [l]).length } (0 + (c0 :: ip).length) 46 =
            { strlen := (c0 :: ip ++ 46 :: fd ++ [l]).length, integer := false } := by
          unfold clsStep
          have hfl : 0 < fd.length := by
            cases fd with
            | nil => exact absurd rfl hne
            | cons _ _ => simp
          simp [isNumber]
        rw [this]
        exact clsLoop_digits _ _ fd hfd
      rw [h2]
      simp only [clsLoop]
      unfold clsStep
      simp [hnl, hfl]
      rcases hl with e | e <;> subst e <;> simp <;>
        (rw [if_pos (by omega)]; simp only [Cls.mk.injEq, and_true, true_and]; omega)
    unfold parseLiteral
    simp only [List.cons_append, hq, Bool.false_eq_true, if_false] at hc ⊢
    rw [hc]
    have htake : List.take (c0 :: ip ++ 46 :: fd).length (c0 :: (ip ++ 46 :: fd ++ [l])) = c0 :: ip ++ 46 :: fd := by
      have : c0 :: (ip ++ 46 :: fd ++ [l]) = (c0 :: ip ++ 46 :: fd) ++ [l] := by simp
      rw [this, List.take_left]
    simp only [List.cons_append] at htake
    simp only [htake]
    rcases hl with e | e <;> subst e <;> simp


end GoMC.Model.SNBT
