/-
  Histories of `Marshal` / `Encoder.Encode` calls (Model/NBTEncode: `marshalHist`, `encoderHist`): result `i` of a
  history is the encoding of value `i` alone — whatever was encoded before it and whatever is encoded after it —
  both for `Marshal` results held by the caller and for the stretch of the writer that call `i` of ONE reused
  `Encoder` filled, also when calls in between fail after having written a part of their output.
-/
import GoMC.Model.NBTEncode
namespace GoMC.Lemmas.NBTHistory
open GoMC GoMC.Model GoMC.Model.Go

theorem marshalHist_getElem (cx : SnbtCarrier) (pre post : List EncCall) (c : EncCall) :
    (marshalHist cx (pre ++ c :: post))[pre.length]? = some (encode cx c.network c.name c.v) := by
  simp [marshalHist]

theorem marshalHist_length (cx : SnbtCarrier) (calls : List EncCall) : (marshalHist cx calls).length = calls.length := by
  simp [marshalHist]

/-- the writer after a history: what it held, then what each call appended, in order -/
theorem encoderHist_eq (cx : SnbtCarrier) (part : EncCall → Bytes) (w : Bytes) (calls : List EncCall) :
    encoderHist cx part w calls = w ++ (calls.map (encWritten cx part)).flatten := by
  induction calls generalizing w with
  | nil => simp [encoderHist]
  | cons c cs ih => simp [encoderHist, ih, List.append_assoc]

/-- where call number `pre.length` starts writing -/
def offset (cx : SnbtCarrier) (part : EncCall → Bytes) (w : Bytes) (pre : List EncCall) : Nat :=
  (encoderHist cx part w pre).length

/-- the stretch of the final writer contents that a successful call filled is that call's own document -/
theorem encoderHist_slice (cx : SnbtCarrier) (part : EncCall → Bytes) (w : Bytes) (pre post : List EncCall) (c : EncCall)
    (bs : Bytes) (h : encode cx c.network c.name c.v = .ok bs) :
    ((encoderHist cx part w (pre ++ c :: post)).drop (offset cx part w pre)).take bs.length = bs := by
  have hw : encWritten cx part c = bs := by simp [encWritten, h]
  simp only [offset, encoderHist_eq, List.map_append, List.map_cons, List.flatten_append, List.flatten_cons, hw]
  rw [← List.append_assoc, ← List.append_assoc, List.append_assoc (w ++ _), List.drop_left, List.take_left]

/-- … and it does not depend on the other calls at all: two histories that agree on call `i` agree on its stretch -/
theorem encoderHist_independent (cx : SnbtCarrier) (part part' : EncCall → Bytes) (w w' : Bytes)
    (pre post pre' post' : List EncCall) (c : EncCall) (bs : Bytes) (h : encode cx c.network c.name c.v = .ok bs) :
    ((encoderHist cx part w (pre ++ c :: post)).drop (offset cx part w pre)).take bs.length =
    ((encoderHist cx part' w' (pre' ++ c :: post')).drop (offset cx part' w' pre')).take bs.length := by
  rw [encoderHist_slice cx part w pre post c bs h, encoderHist_slice cx part' w' pre' post' c bs h]

/-! ### examples -/

/-- a carrier context for the examples (no `StringifiedMessage` in them) -/
def cx0 : SnbtCarrier := ⟨fun _ => 8, fun _ => .err, fun _ => Rd.fail⟩

def i8 (n : Int) : GoVal := .int .i8 n
def fld (n : Bytes) : FieldInfo := { name := n, anonymous := false, exported := true }

/-- `[3]int8{-1, 2, 3}` -/
def arr3 : GoVal := .array (.int .i8) [i8 (-1), i8 2, i8 3]
/-- `[]any{false, true}`: written as a byte array (`TagByteArray`), elements `00 01` -/
def bools : GoVal := .slice .iface false [.iface (some (.bool false)), .iface (some (.bool true))]
/-- `[]uint{1}`: no tag for `uint` — refused -/
def refused : GoVal := .slice (.int .uint) false [.int .uint 1]
/-- `struct{A [3]int8; B []any}{…}`: two byte arrays in one document, the larger non-zero one first -/
def two : GoVal := .struct [] [(fld [65], .array 3 (.int .i8)), (fld [66], .slice .iface)] [arr3, bools]

def calls : List EncCall := [⟨true, [], some arr3⟩, ⟨true, [], some refused⟩, ⟨true, [], some bools⟩, ⟨true, [], some two⟩,
  ⟨true, [], some bools⟩]

example : marshalHist cx0 calls =
    [.ok [7, 0, 0, 0, 3, 0xff, 2, 3], .err, .ok [7, 0, 0, 0, 2, 0, 1],
     .ok [10, 7, 0, 1, 65, 0, 0, 0, 3, 0xff, 2, 3, 7, 0, 1, 66, 0, 0, 0, 2, 0, 1, 0], .ok [7, 0, 0, 0, 2, 0, 1]] := by
  decide

/-- the same calls on one Encoder whose refused call leaves `de ad` behind: call 2 (after the larger array and the
failed call) and call 4 filled their stretches with `[]any{false, true}` as a byte array of `00 01` -/
example : encoderHist cx0 (fun _ => [0xde, 0xad]) [] calls =
    [7, 0, 0, 0, 3, 0xff, 2, 3] ++ [0xde, 0xad] ++ [7, 0, 0, 0, 2, 0, 1] ++
    [10, 7, 0, 1, 65, 0, 0, 0, 3, 0xff, 2, 3, 7, 0, 1, 66, 0, 0, 0, 2, 0, 1, 0] ++ [7, 0, 0, 0, 2, 0, 1] := by
  decide

end GoMC.Lemmas.NBTHistory
