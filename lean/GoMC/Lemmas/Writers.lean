/-
  Lemmas for C09, writer side.

  New generic notion for the `Wr` monad (not in Basic/Writer): `Wr.Exact e r bs` — "`e` returns `r` having
  written exactly `bs`, whatever the sink held before; with a budget of at least `|bs|` bytes it behaves the
  same; with any smaller budget its result is `err`".  It is `Wr.Faithful` with the witnesses named and
  uniform in the previous sink content, so it composes (`exact_bind`) AND ties the `Wr` model to the bytes of
  the pure encoder models.  From it: `Exact.faithful`, `Exact.run`, `Exact.fault`, `Exact.enough`.

  Then one `exact_…` lemma per encoder model of `Model/Writers.lean`.
-/
import GoMC.Model.Writers
import GoMC.Lemmas.Fields
namespace GoMC
namespace Wr

def Exact {α} (e : Wr α) (r : Res α) (bs : Bytes) : Prop :=
  ∀ out : Bytes,
    e ⟨out, none⟩ = (r, ⟨out ++ bs, none⟩) ∧
    ∀ k : Nat,
      (bs.length ≤ k → e ⟨out, some k⟩ = (r, ⟨out ++ bs, some (k - bs.length)⟩)) ∧
      (k < bs.length → (e ⟨out, some k⟩).1 = Res.err)

theorem Exact.faithful {α} {e : Wr α} {r : Res α} {bs : Bytes} (h : Exact e r bs) : Faithful e :=
  fun out => ⟨r, bs, (h out).1, (h out).2⟩

/-- on the unlimited sink: the result and exactly the bytes -/
theorem Exact.run {α} {e : Wr α} {r : Res α} {bs : Bytes} (h : Exact e r bs) : Wr.run e = (r, bs) := by
  unfold Wr.run
  rw [(h []).1]
  simp

/-- a sink that accepts fewer bytes than the encoding: the result is an error -/
theorem Exact.fault {α} {e : Wr α} {r : Res α} {bs : Bytes} (h : Exact e r bs) (k : Nat) (hk : k < bs.length) :
    (e ⟨[], some k⟩).1 = Res.err := ((h []).2 k).2 hk

/-- a sink that accepts at least the encoding: the same result, the same bytes -/
theorem Exact.enough {α} {e : Wr α} {r : Res α} {bs : Bytes} (h : Exact e r bs) (k : Nat) (hk : bs.length ≤ k) :
    e ⟨[], some k⟩ = (r, ⟨bs, some (k - bs.length)⟩) := by
  have := ((h []).2 k).1 hk
  simpa using this

theorem Exact.congr {α} {e : Wr α} {r r' : Res α} {bs bs' : Bytes} (h : Exact e r bs) (hr : r = r') (hb : bs = bs') :
    Exact e r' bs' := by subst hr; subst hb; exact h

theorem exact_pure {α} (a : α) : Exact (Pure.pure a : Wr α) (Res.ok a) [] := by
  intro out
  refine ⟨by simp, fun k => ⟨fun _ => by simp, fun h => by simp at h⟩⟩

theorem exact_fail {α} : Exact (fail : Wr α) Res.err [] := by
  intro out
  refine ⟨by simp [fail], fun k => ⟨fun _ => by simp [fail], fun h => by simp at h⟩⟩

theorem exact_crash {α} : Exact (crash : Wr α) Res.panic [] := by
  intro out
  refine ⟨by simp [crash], fun k => ⟨fun _ => by simp [crash], fun h => by simp at h⟩⟩

theorem exact_write (bs : Bytes) : Exact (write bs) (Res.ok bs.length) bs := by
  intro out
  refine ⟨by simp [write], fun k => ⟨fun h => by simp [write, h], fun h => ?_⟩⟩
  have : ¬ bs.length ≤ k := by omega
  simp [write, this]

theorem exact_bind {α β} {e : Wr α} {f : α → Wr β} {a : α} {r : Res β} {bs1 bs2 : Bytes}
    (he : Exact e (Res.ok a) bs1) (hf : Exact (f a) r bs2) : Exact (e >>= f) r (bs1 ++ bs2) := by
  intro out
  obtain ⟨h0, hk⟩ := he out
  obtain ⟨g0, gk⟩ := hf (out ++ bs1)
  refine ⟨?_, fun k => ⟨fun hle => ?_, fun hlt => ?_⟩⟩
  · rw [bind_apply, h0]; simp only; rw [g0, List.append_assoc]
  · simp only [List.length_append] at hle
    have h1 := (hk k).1 (by omega)
    have h2 := (gk (k - bs1.length)).1 (by omega)
    rw [bind_apply, h1]; simp only
    rw [h2, List.append_assoc]
    simp only [List.length_append, Nat.sub_sub]
  · simp only [List.length_append] at hlt
    by_cases hb : bs1.length ≤ k
    · have h1 := (hk k).1 hb
      have h2 := (gk (k - bs1.length)).2 (by omega)
      rw [bind_apply, h1]; simpa using h2
    · have h1 := (hk k).2 (by omega)
      rw [bind_apply]
      rcases hr : e ⟨out, some k⟩ with ⟨r', st'⟩
      rw [hr] at h1
      simp only at h1
      subst h1
      rfl

/-- an encoder error (not a sink failure) before `f`: nothing more is written -/
theorem exact_bind_err {α β} {e : Wr α} {f : α → Wr β} {bs : Bytes}
    (he : Exact e Res.err bs) : Exact (e >>= f) Res.err bs := by
  intro out
  obtain ⟨h0, hk⟩ := he out
  refine ⟨by rw [bind_apply, h0], fun k => ⟨fun hle => by rw [bind_apply, (hk k).1 hle], fun hlt => ?_⟩⟩
  have h1 := (hk k).2 hlt
  rw [bind_apply]
  rcases hr : e ⟨out, some k⟩ with ⟨r', st'⟩
  rw [hr] at h1
  simp only at h1
  subst h1
  rfl

/-- `do let x ← e; pure (g x)` -/
theorem exact_map {α β} {e : Wr α} {a : α} {bs : Bytes} (g : α → β) (he : Exact e (Res.ok a) bs) :
    Exact (e >>= fun x => (Pure.pure (g x) : Wr β)) (Res.ok (g a)) bs :=
  (exact_bind he (exact_pure (g a))).congr rfl (List.append_nil _)

/-- the shape of almost every `WriteTo`: two parts in sequence, counts added -/
theorem exact_seq2 {e1 e2 : Wr Nat} {n1 n2 : Nat} {b1 b2 : Bytes}
    (h1 : Exact e1 (Res.ok n1) b1) (h2 : Exact e2 (Res.ok n2) b2) :
    Exact (e1 >>= fun x => e2 >>= fun y => (Pure.pure (x + y) : Wr Nat)) (Res.ok (n1 + n2)) (b1 ++ b2) :=
  exact_bind h1 (exact_map (fun y => n1 + y) h2)

theorem exact_ite {α} {c : Prop} [Decidable c] {p q : Wr α} {r : Res α} {bs : Bytes}
    (hp : c → Exact p r bs) (hq : ¬ c → Exact q r bs) : Exact (if c then p else q) r bs := by
  split
  · exact hp ‹_›
  · exact hq ‹_›

end Wr

namespace Lemmas
open GoMC.Model GoMC.Spec Wr

/-! ### net/packet/types.go -/

theorem exact_wBool (b : Bool) : Exact (wBool b) (Res.ok (boolEnc b).2) (boolEnc b).1 := exact_write _
theorem exact_wByte (b : BitVec 8) : Exact (wByte b) (Res.ok (byteEnc b).2) (byteEnc b).1 := exact_write _
theorem exact_wFix (k : Nat) (v : BitVec (8 * k)) : Exact (wFix k v) (Res.ok (fixEnc k v).2) (fixEnc k v).1 :=
  exact_write _
theorem exact_wVarInt (v : BitVec 32) : Exact (wVarInt v) (Res.ok (varIntEnc v).2) (varIntEnc v).1 := exact_write _
theorem exact_wVarLong (v : BitVec 64) : Exact (wVarLong v) (Res.ok (varLongEnc v).2) (varLongEnc v).1 :=
  exact_write _
theorem exact_wPlugin (p : Bytes) : Exact (wPlugin p) (Res.ok (pluginEnc p).2) (pluginEnc p).1 := exact_write _
theorem exact_wPosition (p : Pos) : Exact (wPosition p) (Res.ok (positionEnc p).2) (positionEnc p).1 :=
  exact_write _

theorem exact_wString (s : Bytes) : Exact (wString s) (Res.ok (stringEnc s).2) (stringEnc s).1 :=
  exact_seq2 (exact_wVarInt _) (exact_write s)

theorem exact_wByteArray (b : Slice Byte) : Exact (wByteArray b) (Res.ok (byteArrayEnc b).2) (byteArrayEnc b).1 :=
  exact_seq2 (exact_wVarInt _) (exact_write b.elems)

theorem longsEnc_cons (x : BitVec 64) (xs : List (BitVec 64)) :
    longsEnc (x :: xs) = ((longC.enc x).1 ++ (longsEnc xs).1, (longC.enc x).2 + (longsEnc xs).2) := by
  simp [longsEnc]

theorem exact_wLongs (xs : List (BitVec 64)) : Exact (wLongs xs) (Res.ok (longsEnc xs).2) (longsEnc xs).1 := by
  induction xs with
  | nil => exact exact_pure 0
  | cons x xs ih =>
    rw [longsEnc_cons]
    exact exact_seq2 (exact_wFix 8 x) ih

theorem bitSetEnc_eq (b : Slice (BitVec 64)) :
    bitSetEnc b = ((varIntEnc (BitVec.ofNat 32 b.elems.length)).1 ++ (longsEnc b.elems).1,
      (varIntEnc (BitVec.ofNat 32 b.elems.length)).2 + (longsEnc b.elems).2) := by
  simp [bitSetEnc]

theorem exact_wBitSet (b : Slice (BitVec 64)) : Exact (wBitSet b) (Res.ok (bitSetEnc b).2) (bitSetEnc b).1 := by
  rw [bitSetEnc_eq]
  exact exact_seq2 (exact_wVarInt _) (exact_wLongs _)

/-! ### net/packet/util.go -/

theorem exact_wLen (l : LenKind) (n : Nat) : Exact (wLen l n) (Res.ok (lenEnc l n).2) (lenEnc l n).1 := by
  cases l <;> exact exact_write _

theorem encElems_cons' {α} (c : Codec α) (x : α) (xs : List α) :
    encElems c (x :: xs) = ((c.enc x).1 ++ (encElems c xs).1, (c.enc x).2 + (encElems c xs).2) := by
  simp [encElems]

theorem exact_wElems {α} (f : α → Wr Nat) (c : Codec α)
    (hf : ∀ x, Exact (f x) (Res.ok (c.enc x).2) (c.enc x).1) (xs : List α) :
    Exact (wElems f xs) (Res.ok (encElems c xs).2) (encElems c xs).1 := by
  induction xs with
  | nil => exact exact_pure 0
  | cons x xs ih =>
    rw [encElems_cons']
    exact exact_seq2 (hf x) ih

theorem aryEnc_eq {α} (l : LenKind) (c : Codec α) (a : Slice α) :
    aryEnc l c a = ((lenEnc l a.elems.length).1 ++ (encElems c a.elems).1,
      (lenEnc l a.elems.length).2 + (encElems c a.elems).2) := by
  simp [aryEnc]

theorem exact_wAry {α} (l : LenKind) (f : α → Wr Nat) (c : Codec α)
    (hf : ∀ x, Exact (f x) (Res.ok (c.enc x).2) (c.enc x).1) (a : Slice α) :
    Exact (wAry l f a) (Res.ok (aryEnc l c a).2) (aryEnc l c a).1 := by
  rw [aryEnc_eq]
  exact exact_seq2 (exact_wLen l _) (exact_wElems f c hf _)

theorem exact_wOption {α} (f : α → Wr Nat) (c : Codec α)
    (hf : ∀ x, Exact (f x) (Res.ok (c.enc x).2) (c.enc x).1) (o : Bool × α) :
    Exact (wOption f o) (Res.ok (optionEnc c o).2) (optionEnc c o).1 := by
  obtain ⟨h, x⟩ := o
  cases h
  · -- Has = false: one write, then `return n1, nil`
    have : optionEnc c (false, x) = boolEnc false := by simp [optionEnc]
    rw [this]
    exact exact_map (fun n1 => n1) (exact_wBool false)
  · have : optionEnc c (true, x) = ((boolEnc true).1 ++ (c.enc x).1, (boolEnc true).2 + (c.enc x).2) := by
      simp [optionEnc]
    rw [this]
    exact exact_seq2 (exact_wBool true) (hf x)

theorem pairEnc_eq {α β} (a : Codec α) (b : Codec β) (v : α × β) :
    pairEnc a b v = ((a.enc v.1).1 ++ (b.enc v.2).1, (a.enc v.1).2 + (b.enc v.2).2) := by
  simp [pairEnc]

theorem exact_wPair {α β} (f : α → Wr Nat) (g : β → Wr Nat) (a : Codec α) (b : Codec β)
    (hf : ∀ x, Exact (f x) (Res.ok (a.enc x).2) (a.enc x).1)
    (hg : ∀ y, Exact (g y) (Res.ok (b.enc y).2) (b.enc y).1) (v : α × β) :
    Exact (wPair f g v) (Res.ok (pairEnc a b v).2) (pairEnc a b v).1 := by
  rw [pairEnc_eq]
  exact exact_seq2 (hf v.1) (hg v.2)

/-- every type of the term language: the `Wr` model writes exactly the bytes of the C06 encoder model and
returns its count; with a smaller budget it fails -/
theorem exact_wcodec : ∀ (t : Ty) (v : Rep t), Exact (wcodec t v) (Res.ok ((codec t).enc v).2) ((codec t).enc v).1
  | .bool, v => exact_wBool v
  | .byte, v | .ubyte, v | .angle, v => exact_wByte v
  | .short, v | .ushort, v => exact_wFix 2 v
  | .int, v | .float, v => exact_wFix 4 v
  | .long, v | .double, v => exact_wFix 8 v
  | .varint, v => exact_wVarInt v
  | .varlong, v => exact_wVarLong v
  | .string, v => exact_wString v
  | .pluginmsg, v => exact_wPlugin v
  | .bytearray, v => exact_wByteArray v
  | .position, v => exact_wPosition v
  | .uuid, v => exact_wFix 16 v
  | .bitset, v => exact_wBitSet v
  | .fixedbits n, v => exact_wFix n v
  | .unit, _ => exact_pure 0
  | .pair a b, v => exact_wPair _ _ (codec a) (codec b) (exact_wcodec a) (exact_wcodec b) v
  | .option t, v => exact_wOption _ (codec t) (exact_wcodec t) v
  | .opt1 t, v => exact_wcodec t v
  | .opt0 _, _ => exact_pure 0
  | .ary l t, v => exact_wAry l _ (codec t) (exact_wcodec t) v

/-! ### Packet.Pack, RCON WritePacket -/

theorem exact_wPack (Z : ZLib) (t : Int) (p : Pkt) (pool : Pool) (frame : Bytes) (h : pack Z t p pool = Res.ok frame) :
    Exact (wPack Z t p pool) (Res.ok ()) frame := by
  unfold wPack
  rw [h]
  exact exact_map (fun _ => ()) (exact_write frame)

/-- whatever `pack` does, `wPack` is faithful -/
theorem faithful_wPack (Z : ZLib) (t : Int) (p : Pkt) (pool : Pool) : Faithful (wPack Z t p pool) := by
  unfold wPack
  cases pack Z t p pool with
  | ok frame => exact (exact_map (fun _ => ()) (exact_write frame)).faithful
  | err => exact faithful_fail
  | panic => exact faithful_crash

theorem exact_wRcon (id typ : BitVec 32) (payload : Bytes) :
    Exact (wRcon id typ payload) (Res.ok ()) (RCON.packetBytes id typ payload) :=
  exact_map (fun _ => ()) (exact_write _)

/-! ### BitStorage.WriteTo -/

theorem exact_wCells (vs : List (BitVec 64)) :
    Exact (wCells vs) (Res.ok (8 * vs.length)) (vs.flatMap be64Bytes) := by
  induction vs with
  | nil => exact exact_pure 0
  | cons v vs ih =>
    have h := exact_seq2 (exact_write (be64Bytes v)) ih
    refine h.congr ?_ ?_
    · simp [be64Bytes]; omega
    · simp

theorem exact_wBits (st : BitStorage) :
    Exact (wBits st) (Res.ok st.writeTo.length) st.writeTo := by
  have h := exact_seq2 (exact_wVarInt (BitVec.ofNat 32 st.data.length)) (exact_wCells st.data)
  refine h.congr ?_ rfl
  have hl : ∀ vs : List (BitVec 64), (vs.flatMap be64Bytes).length = 8 * vs.length := by
    intro vs
    induction vs with
    | nil => rfl
    | cons v vs ih => simp [be64Bytes, ih]; omega
  simp [BitStorage.writeTo, varIntEnc, wr, hl]

end Lemmas
end GoMC

/-! ### dynbt `Value.MarshalNBT` -/

namespace GoMC.Lemmas
open GoMC.Model GoMC.Model.DynBT GoMC.Wr

theorem faithful_wTag (t : Byte) (name : Bytes) : Faithful (wTag t name) :=
  faithful_bind (faithful_write _) fun _ => faithful_bind (faithful_write _) fun _ =>
    faithful_bind (faithful_write _) fun _ => faithful_pure _

theorem exact_wTag (t : Byte) (name : Bytes) : Exact (wTag t name) (Res.ok ()) (t :: be16len name.length ++ name) := by
  refine Exact.congr (bs := [t] ++ (be16len name.length ++ name)) ?_ rfl (by simp)
  unfold wTag
  exact exact_bind (exact_write [t]) (exact_bind (exact_write (be16len name.length))
    (exact_map (fun _ => ()) (exact_write name)))

mutual
  /-- `MarshalNBT` never swallows a sink failure, for every `Value` (also ill-formed ones) -/
  theorem faithful_wMarshal : ∀ v : Val, Faithful (wMarshal v)
    | .leaf t d => by
      unfold wMarshal
      refine faithful_ite (faithful_bind (faithful_write _) fun _ => faithful_pure _) ?_
      refine faithful_ite (faithful_bind (faithful_write _) fun _ =>
        faithful_bind (faithful_write _) fun _ => faithful_pure _) ?_
      refine faithful_ite (faithful_bind (faithful_write _) fun _ => faithful_pure _) ?_
      exact faithful_ite (faithful_bind (faithful_write _) fun _ => faithful_pure _) faithful_fail
    | .list e xs => by
      unfold wMarshal
      exact faithful_bind (faithful_write _) fun _ => faithful_bind (faithful_write _) fun _ =>
        faithful_wMarshalList xs
    | .comp kvs => by
      unfold wMarshal
      exact faithful_wMarshalKvs kvs
  theorem faithful_wMarshalList : ∀ xs : List Val, Faithful (wMarshalList xs)
    | [] => by unfold wMarshalList; exact faithful_pure _
    | x :: xs => by
      unfold wMarshalList
      exact faithful_bind (faithful_wMarshal x) fun _ => faithful_wMarshalList xs
  theorem faithful_wMarshalKvs : ∀ kvs : List (Bytes × Val), Faithful (wMarshalKvs kvs)
    | [] => by unfold wMarshalKvs; exact faithful_bind (faithful_write _) fun _ => faithful_pure _
    | (k, v) :: kvs => by
      unfold wMarshalKvs
      exact faithful_bind (faithful_wTag _ _) fun _ => faithful_bind (faithful_wMarshal v) fun _ =>
        faithful_wMarshalKvs kvs
end

mutual
  /-- when the pure encoder model succeeds with `out`, the `Wr` model writes exactly `out` -/
  theorem exact_wMarshal : ∀ (v : Val) (out : Bytes), DynBT.marshal v = Res.ok out → Exact (wMarshal v) (Res.ok ()) out
    | .leaf t d, out, h => by
      unfold DynBT.marshal at h
      unfold wMarshal
      by_cases h0 : t = 0
      · simp only [h0, if_true, Res.ok.injEq] at h ⊢
        subst h
        exact exact_map (fun _ => ()) (exact_write _)
      · simp only [h0, if_false] at h ⊢
        by_cases h9 : t = 9
        · simp only [h9, if_true, Res.ok.injEq] at h ⊢
          subst h
          refine Exact.congr (bs := [0] ++ be32len 0) ?_ rfl rfl
          exact exact_bind (exact_write [0]) (exact_map (fun _ => ()) (exact_write (be32len 0)))
        · simp only [h9, if_false] at h ⊢
          by_cases h10 : t = 10
          · simp only [h10, if_true, Res.ok.injEq] at h ⊢
            subst h
            exact exact_map (fun _ => ()) (exact_write _)
          · simp only [h10, if_false] at h ⊢
            by_cases h12 : t.toNat ≤ 12
            · simp only [h12, if_true, Res.ok.injEq] at h ⊢
              subst h
              exact exact_map (fun _ => ()) (exact_write _)
            · simp [h12] at h
    | .list e xs, out, h => by
      unfold DynBT.marshal at h
      unfold wMarshal
      cases hl : marshalList xs with
      | ok bs =>
        rw [hl] at h
        simp only [Res.ok.injEq] at h
        subst h
        refine Exact.congr (bs := [match xs with | [] => e | x :: _ => x.tag] ++ (be32len xs.length ++ bs)) ?_ rfl
          (by cases xs <;> simp)
        exact exact_bind (exact_write [_]) (exact_bind (exact_write (be32len xs.length))
          (exact_wMarshalList xs bs hl))
      | err => rw [hl] at h; simp at h
      | panic => rw [hl] at h; simp at h
    | .comp kvs, out, h => by
      unfold DynBT.marshal at h
      unfold wMarshal
      exact exact_wMarshalKvs kvs out h
  theorem exact_wMarshalList : ∀ (xs : List Val) (out : Bytes), marshalList xs = Res.ok out →
      Exact (wMarshalList xs) (Res.ok ()) out
    | [], out, h => by
      unfold marshalList at h
      simp only [Res.ok.injEq] at h
      subst h
      unfold wMarshalList
      exact exact_pure ()
    | x :: xs, out, h => by
      unfold marshalList at h
      unfold wMarshalList
      cases hx : DynBT.marshal x with
      | ok a =>
        rw [hx] at h
        cases hl : marshalList xs with
        | ok b =>
          rw [hl] at h
          simp only [Res.ok.injEq] at h
          subst h
          exact exact_bind (exact_wMarshal x a hx) (exact_wMarshalList xs b hl)
        | err => rw [hl] at h; simp at h
        | panic => rw [hl] at h; simp at h
      | err => rw [hx] at h; simp at h
      | panic => rw [hx] at h; simp at h
  theorem exact_wMarshalKvs : ∀ (kvs : List (Bytes × Val)) (out : Bytes), marshalKvs kvs = Res.ok out →
      Exact (wMarshalKvs kvs) (Res.ok ()) out
    | [], out, h => by
      unfold marshalKvs at h
      simp only [Res.ok.injEq] at h
      subst h
      unfold wMarshalKvs
      exact exact_map (fun _ => ()) (exact_write _)
    | (k, v) :: kvs, out, h => by
      unfold marshalKvs at h
      unfold wMarshalKvs
      cases hx : DynBT.marshal v with
      | ok a =>
        rw [hx] at h
        cases hl : marshalKvs kvs with
        | ok b =>
          rw [hl] at h
          simp only [Res.ok.injEq] at h
          subst h
          refine Exact.congr (bs := (v.tag :: be16len k.length ++ k) ++ (a ++ b)) ?_ rfl (by simp)
          exact exact_bind (exact_wTag v.tag k) (exact_bind (exact_wMarshal v a hx)
            (exact_wMarshalKvs kvs b hl))
        | err => rw [hl] at h; simp at h
        | panic => rw [hl] at h; simp at h
      | err => rw [hx] at h; simp at h
      | panic => rw [hx] at h; simp at h
end

end GoMC.Lemmas
