/-
  The fuel of the models is not a bound on the behaviour: a run that returns a value returns the same value, at the
  same place, with any larger fuel (`Le`, for every decoder: any, raw, typed), and for the tree-level decoders every
  run — failing ones included — is the same for every fuel above the input length + 3 (`any_indep`, `raw_indep`).
  Consequences: the entry points (whose fuel depends on the input) are extension stable, not only the decoders at a
  fixed fuel.
-/
import GoMC.Lemmas.NBTSoundTyped
import GoMC.Lemmas.NBTField
set_option linter.unusedSimpArgs false
namespace GoMC.Lemmas.NBTFuel
open GoMC GoMC.Rd GoMC.Model GoMC.Model.NBT GoMC.Model.Go GoMC.Lemmas.NBTDecode GoMC.Lemmas.NBTTyped
open GoMC.Spec (NBT encPayload encList encKvs encString encDoc Format docName)

/-- whenever `p` returns a value, `p'` returns the same value and leaves the same source -/
def Le {α : Type} (p p' : Rd α) : Prop := ∀ s v s', p s = (Res.ok v, s') → p' s = (Res.ok v, s')

theorem le_refl {α : Type} (p : Rd α) : Le p p := fun _ _ _ h => h
theorem le_trans {α : Type} {p q r : Rd α} (h1 : Le p q) (h2 : Le q r) : Le p r := fun s v s' h => h2 s v s' (h1 s v s' h)
theorem le_fail {α : Type} (p : Rd α) : Le (Rd.fail : Rd α) p := fun s v s' h => by simp [Rd.fail] at h
theorem le_crash {α : Type} (p : Rd α) : Le (Rd.crash : Rd α) p := fun s v s' h => by simp [Rd.crash] at h

theorem le_bind {α β : Type} {p p' : Rd α} {f f' : α → Rd β} (hp : Le p p') (hf : ∀ a, Le (f a) (f' a)) :
    Le (p >>= f) (p' >>= f') := by
  intro s v s' h
  rw [Rd.bind_apply] at h
  rcases hps : p s with ⟨r, s1⟩
  rw [hps] at h
  cases r with
  | ok a =>
    simp only at h
    rw [Rd.bind_apply, hp s a s1 hps]
    exact hf a s1 v s' h
  | err => simp at h
  | panic => simp at h

theorem le_ite {α : Type} {c : Prop} [Decidable c] {p p' q q' : Rd α} (hp : Le p p') (hq : Le q q') :
    Le (if c then p else q) (if c then p' else q') := by
  split
  · exact hp
  · exact hq

/-! ### `unmarshal` into a nil `any`, `rawRead` -/

theorem any_leaf_eq (f g : Nat) (tag : Byte) (h9 : tag.toNat ≠ 9) (h10 : tag.toNat ≠ 10) :
    unmarshalAny (f + 1) tag = unmarshalAny (g + 1) tag := by
  unfold unmarshalAny
  split <;> first | rfl | (exfalso; omega)

theorem raw_leaf_eq (f g : Nat) (tag : Byte) (h9 : tag.toNat ≠ 9) (h10 : tag.toNat ≠ 10) :
    rawRead (f + 1) tag = rawRead (g + 1) tag := by
  unfold rawRead
  split <;> first | rfl | (exfalso; omega)

theorem any_list_eq (f : Nat) (tag : Byte) (h : tag.toNat = 9) : unmarshalAny (f + 1) tag = (do
    let lt ← Rd.readByte
    if lt.toNat > 12 then Rd.fail else do
    let n ← readInt32
    if n.msb then Rd.fail else
    if lt = 0#8 ∧ n.toNat > 0 then Rd.fail else do
    let xs ← anyListLoop f lt n.toNat
    Pure.pure (.list xs)) := by
  unfold unmarshalAny; simp only [h]

theorem any_map_eq (f : Nat) (tag : Byte) (h : tag.toNat = 10) : unmarshalAny (f + 1) tag = (do
    let kvs ← anyMapLoop f []
    Pure.pure (.map kvs)) := by
  unfold unmarshalAny; simp only [h]

/-- a successful `unmarshal` into a nil `any` (and its loops) is the same with one more unit of fuel -/
theorem le_any_succ : ∀ f : Nat, (∀ tag, Le (unmarshalAny f tag) (unmarshalAny (f + 1) tag)) ∧
    (∀ lt n, Le (anyListLoop f lt n) (anyListLoop (f + 1) lt n)) ∧ (∀ acc, Le (anyMapLoop f acc) (anyMapLoop (f + 1) acc))
  | 0 => by
    refine ⟨fun tag => by unfold unmarshalAny; exact le_fail _, fun lt n => ?_, fun acc => by unfold anyMapLoop; exact le_fail _⟩
    cases n with
    | zero => unfold anyListLoop; exact le_refl _
    | succ n => rw [show anyListLoop 0 lt (n + 1) = Rd.fail by unfold anyListLoop; rfl]; exact le_fail _
  | f + 1 => by
    obtain ⟨ihA, ihL, ihM⟩ := le_any_succ f
    refine ⟨fun tag => ?_, fun lt n => ?_, fun acc => ?_⟩
    · by_cases h9 : tag.toNat = 9
      · rw [any_list_eq f tag h9, any_list_eq (f + 1) tag h9]
        exact le_bind (le_refl _) (fun lt => le_ite (le_refl _) (le_bind (le_refl _) (fun n =>
          le_ite (le_refl _) (le_ite (le_refl _) (le_bind (ihL lt n.toNat) (fun _ => le_refl _))))))
      · by_cases h10 : tag.toNat = 10
        · rw [any_map_eq f tag h10, any_map_eq (f + 1) tag h10]
          exact le_bind (ihM []) (fun _ => le_refl _)
        · rw [any_leaf_eq f (f + 1) tag h9 h10]; exact le_refl _
    · cases n with
      | zero => unfold anyListLoop; exact le_refl _
      | succ n =>
        rw [show anyListLoop (f + 1) lt (n + 1) = (do let x ← unmarshalAny f lt; let xs ← anyListLoop f lt n; Pure.pure (x :: xs)) by
              conv => lhs; unfold anyListLoop,
            show anyListLoop (f + 2) lt (n + 1) = (do let x ← unmarshalAny (f + 1) lt; let xs ← anyListLoop (f + 1) lt n; Pure.pure (x :: xs)) by
              conv => lhs; unfold anyListLoop]
        exact le_bind (ihA lt) (fun _ => le_bind (ihL lt n) (fun _ => le_refl _))
    · rw [show anyMapLoop (f + 1) acc = (do
            let (tt, tn) ← readTag
            if tt = 0#8 then Pure.pure acc else do
            let v ← unmarshalAny f tt
            anyMapLoop f (mapSet acc tn v)) by conv => lhs; unfold anyMapLoop,
          show anyMapLoop (f + 2) acc = (do
            let (tt, tn) ← readTag
            if tt = 0#8 then Pure.pure acc else do
            let v ← unmarshalAny (f + 1) tt
            anyMapLoop (f + 1) (mapSet acc tn v)) by conv => lhs; unfold anyMapLoop]
      exact le_bind (le_refl _) (fun r => le_ite (le_refl _) (le_bind (ihA r.1) (fun v => ihM _)))

theorem le_any {f f' : Nat} (h : f ≤ f') (tag : Byte) : Le (unmarshalAny f tag) (unmarshalAny f' tag) := by
  induction h with
  | refl => exact le_refl _
  | step _ ih => exact le_trans ih ((le_any_succ _).1 tag)

theorem raw_list_eq (f : Nat) (tag : Byte) (h : tag.toNat = 9) : rawRead (f + 1) tag = (do
    let lt ← Rd.readByte
    if lt.toNat > 12 then Rd.fail else do
    let hd ← Rd.readFull 4
    if (beWord 32 hd).msb then Rd.fail else do
    let body ← rawListLoop f lt (beWord 32 hd).toNat
    Pure.pure (lt :: hd ++ body)) := by
  unfold rawRead; simp only [h]

theorem raw_map_eq (f : Nat) (tag : Byte) (h : tag.toNat = 10) : rawRead (f + 1) tag = rawCompoundLoop f := by
  unfold rawRead; simp only [h]

theorem le_raw_succ : ∀ f : Nat, (∀ tag, Le (rawRead f tag) (rawRead (f + 1) tag)) ∧
    (∀ lt n, Le (rawListLoop f lt n) (rawListLoop (f + 1) lt n)) ∧ Le (rawCompoundLoop f) (rawCompoundLoop (f + 1))
  | 0 => by
    refine ⟨fun tag => by unfold rawRead; exact le_fail _, fun lt n => ?_, by unfold rawCompoundLoop; exact le_fail _⟩
    cases n with
    | zero => unfold rawListLoop; exact le_refl _
    | succ n => rw [show rawListLoop 0 lt (n + 1) = Rd.fail by unfold rawListLoop; rfl]; exact le_fail _
  | f + 1 => by
    obtain ⟨ihA, ihL, ihM⟩ := le_raw_succ f
    refine ⟨fun tag => ?_, fun lt n => ?_, ?_⟩
    · by_cases h9 : tag.toNat = 9
      · rw [raw_list_eq f tag h9, raw_list_eq (f + 1) tag h9]
        exact le_bind (le_refl _) (fun lt => le_ite (le_refl _) (le_bind (le_refl _) (fun hd =>
          le_ite (le_refl _) (le_bind (ihL lt _) (fun _ => le_refl _)))))
      · by_cases h10 : tag.toNat = 10
        · rw [raw_map_eq f tag h10, raw_map_eq (f + 1) tag h10]; exact ihM
        · rw [raw_leaf_eq f (f + 1) tag h9 h10]; exact le_refl _
    · cases n with
      | zero => unfold rawListLoop; exact le_refl _
      | succ n =>
        rw [show rawListLoop (f + 1) lt (n + 1) = (do let x ← rawRead f lt; let xs ← rawListLoop f lt n; Pure.pure (x ++ xs)) by
              conv => lhs; unfold rawListLoop,
            show rawListLoop (f + 2) lt (n + 1) = (do let x ← rawRead (f + 1) lt; let xs ← rawListLoop (f + 1) lt n; Pure.pure (x ++ xs)) by
              conv => lhs; unfold rawListLoop]
        exact le_bind (ihA lt) (fun _ => le_bind (ihL lt n) (fun _ => le_refl _))
    · rw [show rawCompoundLoop (f + 1) = (do
            let t ← Rd.readByte
            if t = 0x1f#8 ∨ t = 0x78#8 then Rd.fail
            else if t = 0#8 then Pure.pure [t] else do
            let hd ← Rd.readFull 2
            if (beWord 16 hd).msb then Rd.fail else do
            let name ← (if (beWord 16 hd).toNat > 0 then Rd.readFull (beWord 16 hd).toNat else Pure.pure [])
            let v ← rawRead f t
            let rest ← rawCompoundLoop f
            Pure.pure (t :: hd ++ name ++ v ++ rest)) by conv => lhs; unfold rawCompoundLoop,
          show rawCompoundLoop (f + 2) = (do
            let t ← Rd.readByte
            if t = 0x1f#8 ∨ t = 0x78#8 then Rd.fail
            else if t = 0#8 then Pure.pure [t] else do
            let hd ← Rd.readFull 2
            if (beWord 16 hd).msb then Rd.fail else do
            let name ← (if (beWord 16 hd).toNat > 0 then Rd.readFull (beWord 16 hd).toNat else Pure.pure [])
            let v ← rawRead (f + 1) t
            let rest ← rawCompoundLoop (f + 1)
            Pure.pure (t :: hd ++ name ++ v ++ rest)) by conv => lhs; unfold rawCompoundLoop]
      exact le_bind (le_refl _) (fun t => le_ite (le_refl _) (le_ite (le_refl _) (le_bind (le_refl _) (fun hd =>
        le_ite (le_refl _) (le_bind (le_refl _) (fun name => le_bind (ihA t) (fun v => le_bind ihM (fun _ => le_refl _))))))))

theorem le_raw {f f' : Nat} (h : f ≤ f') (tag : Byte) : Le (rawRead f tag) (rawRead f' tag) := by
  induction h with
  | refl => exact le_refl _
  | step _ ih => exact le_trans ih ((le_raw_succ _).1 tag)

/-! ### the typed decoder -/

theorem le_rdRepeat {α : Type} {p p' : Rd α} (h : Le p p') : ∀ n, Le (rdRepeat p n) (rdRepeat p' n)
  | 0 => by unfold rdRepeat; exact le_refl _
  | n + 1 => by
    unfold rdRepeat
    exact le_bind h (fun _ => le_bind (le_rdRepeat h n) (fun _ => le_refl _))

theorem le_rdMapFirst {k k' : GoVal → Rd GoVal} (h : ∀ x, Le (k x) (k' x)) :
    ∀ (n : Nat) (xs : List GoVal), Le (rdMapFirst k n xs) (rdMapFirst k' n xs)
  | 0, xs => by unfold rdMapFirst; exact le_refl _
  | n + 1, [] => by unfold rdMapFirst; exact le_refl _
  | n + 1, x :: xs => by
    unfold rdMapFirst
    exact le_bind (h x) (fun _ => le_bind (le_rdMapFirst h n xs) (fun _ => le_refl _))

theorem le_kvLoop {σ : Type} {step step' : Byte → Bytes → σ → Rd σ} (h : ∀ a b c, Le (step a b c) (step' a b c)) :
    ∀ (w w' : Nat) (st : σ), w ≤ w' → Le (kvLoop step w st) (kvLoop step' w' st)
  | 0, _, _, _ => by unfold kvLoop; exact le_fail _
  | w + 1, 0, _, hw => by omega
  | w + 1, w' + 1, st, hw => by
    rw [show kvLoop step (w + 1) st = (do
          let (tt, tn) ← NBT.readTag
          if tt = 0#8 then Pure.pure st else do
          let st' ← step tt tn st
          kvLoop step w st') by conv => lhs; unfold kvLoop,
        show kvLoop step' (w' + 1) st = (do
          let (tt, tn) ← NBT.readTag
          if tt = 0#8 then Pure.pure st else do
          let st' ← step' tt tn st
          kvLoop step' w' st') by conv => lhs; unfold kvLoop]
    exact le_bind (le_refl _) (fun r => le_ite (le_refl _) (le_bind (h r.1 r.2 st) (fun st' => le_kvLoop h w w' st' (by omega))))

theorem le_updField {rec rec' : Bool → GoVal → Rd GoVal} (h : ∀ b x, Le (rec b x) (rec' b x)) (i : Nat) (v : GoVal) :
    Le (updField rec i v) (updField rec' i v) := by
  unfold updField
  split
  · split
    · exact le_bind (h _ _) (fun _ => le_refl _)
    · exact le_refl _
  · exact le_refl _

theorem le_updAt {k k' : GoVal → Rd GoVal} (h : ∀ x, Le (k x) (k' x)) :
    ∀ (path : List Nat) (st : Bool) (v : GoVal), Le (updAt k path st v) (updAt k' path st v)
  | [], st, v => by unfold updAt; exact h v
  | i :: is, st, v => by
    unfold updAt
    split
    · exact le_ite (le_refl _) (le_bind (le_updField (fun b x => le_updAt h is b x) i _) (fun _ => le_refl _))
    · exact le_bind (le_updField (fun b x => le_updAt h is b x) i _) (fun _ => le_refl _)
    · exact le_updField (fun b x => le_updAt h is b x) i _

/-- the decoder one level down, with less and with more fuel -/
abbrev RecLe (rec rec' : Rec) : Prop := ∀ ty old tag, Le (rec ty old tag) (rec' ty old tag)

theorem le_umSlice {rec rec' : Rec} (h : RecLe rec rec') (e : GoType) (old : GoVal) (tag : Byte) :
    Le (umSlice rec e old tag) (umSlice rec' e old tag) := by
  unfold umSlice
  split
  · exact le_refl _
  · exact le_refl _
  · exact le_refl _
  · exact le_bind (le_refl _) (fun r => le_bind (le_rdRepeat (h e e.zero r.1) r.2) (fun _ => le_refl _))
  · exact le_refl _

theorem le_umArray {rec rec' : Rec} (h : RecLe rec rec') (len : Nat) (e : GoType) (old : GoVal) (tag : Byte) :
    Le (umArray rec len e old tag) (umArray rec' len e old tag) := by
  unfold umArray
  split
  · exact le_refl _
  · exact le_refl _
  · exact le_refl _
  · exact le_bind (le_refl _) (fun r => le_ite (le_refl _) (le_bind (le_rdMapFirst (fun x => h e x r.1) r.2 _) (fun _ => le_refl _)))
  · exact le_refl _

theorem le_umMap {rec rec' : Rec} (h : RecLe rec rec') (f f' : Nat) (hf : f ≤ f') (e : GoType) (old : GoVal) (tag : Byte) :
    Le (umMap rec f e old tag) (umMap rec' f' e old tag) := by
  unfold umMap
  split
  · exact le_bind (le_kvLoop (fun tt tn acc => le_bind (h e e.zero tt) (fun _ => le_refl _)) f f' _ hf) (fun _ => le_refl _)
  · exact le_refl _

theorem le_structStep {rec rec' : Rec} (h : RecLe rec rec') (d : Bool) (f f' : Nat) (hf : f ≤ f') (flds : List Fld)
    (tt : Byte) (tn : Bytes) (sv : GoVal) : Le (structStep rec d f flds tt tn sv) (structStep rec' d f' flds tt tn sv) := by
  unfold structStep
  split
  · split
    · exact le_updAt (fun fv => h _ fv tt) _ _ _
    · exact le_refl _
  · exact le_ite (le_refl _) (le_bind (le_raw hf tt) (fun _ => le_refl _))

theorem le_umStruct {rec rec' : Rec} (h : RecLe rec rec') (d : Bool) (f f' : Nat) (hf : f ≤ f') (n : Bytes)
    (fields : List (FieldInfo × GoType)) (old : GoVal) (tag : Byte) :
    Le (umStruct rec d f n fields old tag) (umStruct rec' d f' n fields old tag) := by
  unfold umStruct
  split
  · exact le_kvLoop (fun tt tn sv => le_structStep h d f f' hf _ tt tn sv) f f' _ hf
  · exact le_refl _

theorem le_umPtr {rec rec' : Rec} (h : RecLe rec rec') (e : GoType) (old : GoVal) (tag : Byte) :
    Le (umPtr rec e old tag) (umPtr rec' e old tag) := by
  unfold umPtr
  exact le_ite (le_refl _) (le_bind (h _ _ _) (fun _ => le_refl _))

theorem le_umIface {rec rec' : Rec} (h : RecLe rec rec') (f f' : Nat) (hf : f ≤ f') (old : GoVal) (tag : Byte) :
    Le (umIface rec f old tag) (umIface rec' f' old tag) := by
  unfold umIface
  refine le_ite (le_refl _) ?_
  split
  · exact le_bind (h _ _ _) (fun _ => le_refl _)
  · exact le_bind (h _ _ _) (fun _ => le_refl _)
  · exact le_bind (le_any hf tag) (fun _ => le_refl _)

theorem le_umCarrier (cx : SnbtCarrier) (f f' : Nat) (hf : f ≤ f') (ty : GoType) (tag : Byte) :
    Le (umCarrier cx f ty tag) (umCarrier cx f' ty tag) := by
  unfold umCarrier
  split
  · exact le_refl _
  · exact le_ite (le_refl _) (le_bind (le_raw hf tag) (fun _ => le_refl _))
  · exact le_refl _

/-- a successful typed `unmarshal` is the same with one more unit of fuel -/
theorem le_unmarshal_succ (cx : SnbtCarrier) (d : Bool) : ∀ f, RecLe (unmarshal cx d f) (unmarshal cx d (f + 1))
  | 0 => fun ty old tag => by rw [show unmarshal cx d 0 ty old tag = Rd.fail by unfold unmarshal; rfl]; exact le_fail _
  | f + 1 => fun ty old tag => by
    have ih := le_unmarshal_succ cx d f
    unfold unmarshal
    split
    · exact le_umCarrier cx _ _ (by omega) _ _
    · exact le_umCarrier cx _ _ (by omega) _ _
    · exact le_umCarrier cx _ _ (by omega) _ _
    · exact le_umPtr ih _ _ _
    · exact le_umIface ih _ _ (by omega) _ _
    · exact le_refl _
    · exact le_refl _
    · exact le_refl _
    · exact le_refl _
    · exact le_refl _
    · exact le_umSlice ih _ _ _
    · exact le_umArray ih _ _ _ _
    · exact le_umMap ih _ _ (by omega) _ _ _
    · exact le_umStruct ih _ _ _ (by omega) _ _ _ _

/-- … with any larger fuel -/
theorem le_unmarshal (cx : SnbtCarrier) (d : Bool) {f f' : Nat} (h : f ≤ f') : RecLe (unmarshal cx d f) (unmarshal cx d f') := by
  induction h with
  | refl => exact fun _ _ _ => le_refl _
  | step _ ih => exact fun ty old tag => le_trans (ih ty old tag) (le_unmarshal_succ cx d _ ty old tag)

/-! ### the entry points, whose fuel depends on the input -/

/-- an entry point that runs `F` with a fuel growing with the input is extension stable when `F` is, at every
fuel, and successful runs do not depend on the fuel -/
theorem extStable_entry {α : Type} (F : Nat → Rd α) (fuelOf : Stream → Nat)
    (hmono : ∀ s t : Stream, s.flat.length ≤ t.flat.length → fuelOf s ≤ fuelOf t)
    (hext : ∀ f, Rd.ExtStable (F f)) (hle : ∀ f f', f ≤ f' → Le (F f) (F f')) :
    Rd.ExtStable (fun s => F (fuelOf s) s) := by
  intro s a s' h t extra ht
  obtain ⟨t', h1, h2, h3⟩ := hext (fuelOf s) s a s' h t extra ht
  exact ⟨t', hle _ _ (hmono s t (by rw [ht]; simp)) t a t' h1, h2, h3⟩

theorem le_decodeTypedBody (cx : SnbtCarrier) (net d : Bool) (ty : GoType) (old : GoVal) {f f' : Nat} (h : f ≤ f') :
    Le (do let (t, name) ← NBT.readHead net; let v ← unmarshal cx d f ty old t; Pure.pure (v, name))
       (do let (t, name) ← NBT.readHead net; let v ← unmarshal cx d f' ty old t; Pure.pure (v, name)) :=
  le_bind (le_refl _) (fun r => le_bind (le_unmarshal cx d h ty old r.1) (fun _ => le_refl _))

/-- **`Decode` into a destination of any type is extension stable** — the entry point itself, with the fuel it
chooses from its input, not only the decoder at a fixed fuel: a successful decode never depends on what follows the
bytes it consumed. -/
theorem extStable_decodeInto (cx : SnbtCarrier) (hsn : ∀ tag, Rd.ExtStable (cx.unmarshal tag))
    (net d : Bool) (ty : GoType) (old : GoVal) : Rd.ExtStable (decodeInto cx net d ty old) := by
  have := extStable_entry
    (fun f => (do let (t, name) ← NBT.readHead net; let v ← unmarshal cx d f ty old t; Pure.pure (v, name) : Rd (GoVal × Bytes)))
    (fun s => typedFuel s ty old)
    (fun s t h => by unfold typedFuel fuelFor; omega)
    (fun f => by
      have hh := closed_readHead closed_extStable net
      have hu := closedC_typed closed_extStable Rd.extStable_crash cx d (fun tag => GoMC.Lemmas.DynBT.extStable_unmarshal tag) hsn f
      exact closed_extStable.bind hh (fun x => by
        obtain ⟨tg, nm⟩ := x
        exact closed_extStable.bind (hu ty old tg) (fun _ => closed_extStable.pure _)))
    (fun f f' h => le_decodeTypedBody cx net d ty old h)
  exact this

theorem extStable_decodeTyped (cx : SnbtCarrier) (hsn : ∀ tag, Rd.ExtStable (cx.unmarshal tag))
    (net d : Bool) (ty : GoType) : Rd.ExtStable (decodeTyped cx net d ty) :=
  extStable_decodeInto cx hsn net d ty ty.zero

/-- a successful `Decode` is the same with any fuel above the one the entry point takes -/
theorem decodeInto_any_fuel (cx : SnbtCarrier) (net d : Bool) (ty : GoType) (old : GoVal) (s s' : Stream)
    (r : GoVal × Bytes) (h : decodeInto cx net d ty old s = (Res.ok r, s')) (f : Nat) (hf : typedFuel s ty old ≤ f) :
    (do let (t, name) ← NBT.readHead net; let v ← unmarshal cx d f ty old t; Pure.pure (v, name) : Rd (GoVal × Bytes)) s
      = (Res.ok r, s') :=
  le_decodeTypedBody cx net d ty old hf s r s' h

theorem extStable_decodeAny (net : Bool) : Rd.ExtStable (decodeAny net) := by
  have := extStable_entry (fun f => decodeAnyF f net) fuelFor (fun s t h => by unfold fuelFor; omega)
    (fun f => closed_decodeAnyF closed_extStable f net)
    (fun f f' h => by
      unfold decodeAnyF
      exact le_bind (le_refl _) (fun r => le_bind (le_any h r.1) (fun _ => le_refl _)))
  exact this

/-! ### every run: the tree-level decoders do not depend on the fuel above the input length + 3 -/

open GoMC.Lemmas.NBTSound in
theorem snd_len {α : Type} {Q : α → Bytes → Prop} {p : Rd α} (hp : Snd Q p) {s s1 : Stream} {a : α}
    (h : p s = (Res.ok a, s1)) : ∃ enc, Q a enc ∧ s1.flat.length + enc.length = s.flat.length := by
  obtain ⟨enc, h1, _, h3⟩ := hp s a s1 h
  exact ⟨enc, h3, by rw [h1]; simp; omega⟩

theorem bind_congr_at {α β : Type} {p : Rd α} {k k' : α → Rd β} {s : Stream}
    (h : ∀ a s1, p s = (Res.ok a, s1) → k a s1 = k' a s1) : (p >>= k) s = (p >>= k') s := by
  rw [Rd.bind_apply, Rd.bind_apply]
  rcases hps : p s with ⟨r, s1⟩
  cases r with
  | ok a => exact h a s1 hps
  | err => rfl
  | panic => rfl

theorem bind_congr_left_at {α β : Type} {p p' : Rd α} {k : α → Rd β} {s : Stream} (h : p s = p' s) :
    (p >>= k) s = (p' >>= k) s := by
  rw [Rd.bind_apply, Rd.bind_apply, h]

theorem payload_pos (t : NBT) : 1 ≤ (encPayload t).length :=
  Nat.le_trans (GoMC.Spec.depth_pos t) (GoMC.Spec.depth_le_length t)

open GoMC.Lemmas.NBTSound in
/-- a successful `unmarshal` into a nil `any` consumes at least one byte -/
theorem any_progress {f : Nat} {tag : Byte} {s s1 : Stream} {v : GoAny} (h : unmarshalAny f tag s = (Res.ok v, s1)) :
    s1.flat.length + 1 ≤ s.flat.length := by
  obtain ⟨enc, ⟨t, _, _, _, rfl, _⟩, hl⟩ := snd_len ((snd_all f).1 tag) h
  have := payload_pos t
  omega

open GoMC.Lemmas.NBTSound in
theorem readByte_len {s s1 : Stream} {b : Byte} (h : Rd.readByte s = (Res.ok b, s1)) : s1.flat.length + 1 = s.flat.length := by
  obtain ⟨enc, rfl, hl⟩ := snd_len snd_readByte h
  simpa using hl

open GoMC.Lemmas.NBTSound in
theorem readInt32_len {s s1 : Stream} {v : BitVec 32} (h : readInt32 s = (Res.ok v, s1)) : s1.flat.length + 4 = s.flat.length := by
  obtain ⟨enc, rfl, hl⟩ := snd_len snd_readInt32 h
  simpa [GoMC.Spec.be32, GoMC.Spec.beBytes_length] using hl

open GoMC.Lemmas.NBTSound in
theorem readTag_len {s s1 : Stream} {r : Byte × Bytes} (h : readTag s = (Res.ok r, s1)) (hne : r.1 ≠ 0#8) :
    s1.flat.length + 3 ≤ s.flat.length := by
  obtain ⟨enc, hq, hl⟩ := snd_len snd_readTag h
  rcases hq with ⟨h0, _⟩ | ⟨_, _, _, rfl, _⟩
  · exact absurd h0 hne
  · simp [encString, GoMC.Spec.beBytes_length] at hl; omega

theorem any_indep : ∀ f : Nat,
    (∀ tag s, s.flat.length + 3 ≤ f → unmarshalAny f tag s = unmarshalAny (f + 1) tag s) ∧
    (∀ lt n s, s.flat.length + 4 ≤ f → anyListLoop f lt n s = anyListLoop (f + 1) lt n s) ∧
    (∀ acc s, s.flat.length + 2 ≤ f → anyMapLoop f acc s = anyMapLoop (f + 1) acc s)
  | 0 => ⟨fun _ _ h => by omega, fun _ _ _ h => by omega, fun _ _ h => by omega⟩
  | f + 1 => by
    obtain ⟨ihA, ihL, ihM⟩ := any_indep f
    refine ⟨fun tag s hs => ?_, fun lt n s hs => ?_, fun acc s hs => ?_⟩
    · by_cases h9 : tag.toNat = 9
      · rw [any_list_eq f tag h9, any_list_eq (f + 1) tag h9]
        refine bind_congr_at (fun lt s1 h1 => ?_)
        have l1 := readByte_len h1
        by_cases c1 : lt.toNat > 12
        · simp only [c1, if_true]
        · simp only [c1, if_false]
          refine bind_congr_at (fun n s2 h2 => ?_)
          have l2 := readInt32_len h2
          by_cases c2 : n.msb = true
          · simp only [c2, if_true]
          · simp only [c2, if_false]
            by_cases c3 : lt = 0#8 ∧ n.toNat > 0
            · rw [if_pos c3, if_pos c3]
            · rw [if_neg c3, if_neg c3]
              exact bind_congr_left_at (ihL lt n.toNat s2 (by omega))
      · by_cases h10 : tag.toNat = 10
        · rw [any_map_eq f tag h10, any_map_eq (f + 1) tag h10]
          exact bind_congr_left_at (ihM [] s (by omega))
        · rw [any_leaf_eq f (f + 1) tag h9 h10]
    · cases n with
      | zero => unfold anyListLoop; rfl
      | succ n =>
        rw [show anyListLoop (f + 1) lt (n + 1) = (do let x ← unmarshalAny f lt; let xs ← anyListLoop f lt n; Pure.pure (x :: xs)) by
              conv => lhs; unfold anyListLoop,
            show anyListLoop (f + 2) lt (n + 1) = (do let x ← unmarshalAny (f + 1) lt; let xs ← anyListLoop (f + 1) lt n; Pure.pure (x :: xs)) by
              conv => lhs; unfold anyListLoop]
        rw [bind_congr_left_at (ihA lt s (by omega))]
        refine bind_congr_at (fun x s1 h1 => ?_)
        have := any_progress h1
        exact bind_congr_left_at (ihL lt n s1 (by omega))
    · rw [show anyMapLoop (f + 1) acc = (do
            let (tt, tn) ← readTag
            if tt = 0#8 then Pure.pure acc else do
            let v ← unmarshalAny f tt
            anyMapLoop f (mapSet acc tn v)) by conv => lhs; unfold anyMapLoop,
          show anyMapLoop (f + 2) acc = (do
            let (tt, tn) ← readTag
            if tt = 0#8 then Pure.pure acc else do
            let v ← unmarshalAny (f + 1) tt
            anyMapLoop (f + 1) (mapSet acc tn v)) by conv => lhs; unfold anyMapLoop]
      refine bind_congr_at (fun r s1 h1 => ?_)
      obtain ⟨tt, tn⟩ := r
      by_cases c : tt = 0#8
      · simp only [c, if_true]
      · simp only [c, if_false]
        have l1 := readTag_len h1 c
        rw [bind_congr_left_at (ihA tt s1 (by omega))]
        refine bind_congr_at (fun v s2 h2 => ?_)
        have := any_progress h2
        exact ihM _ s2 (by omega)

/-- **Fuel independence of `Decode` into a nil `any`, on every run** — successful or not: with ANY fuel above the
input length + 3 the model returns the same outcome and leaves the same source as the entry point does. The fuel is
a termination device of the model, never the reason for an outcome; equivalently, no run performs more nested
calls and loop iterations than the input has bytes, plus three. -/
theorem decodeAny_indep (net : Bool) (s : Stream) (f : Nat) (hf : fuelFor s ≤ f) : decodeAnyF f net s = decodeAny net s := by
  induction hf with
  | refl => rfl
  | @step m hm ih =>
    rw [← ih]
    unfold decodeAnyF
    refine bind_congr_at (fun r s1 h1 => ?_)
    obtain ⟨t, name⟩ := r
    have hl : s1.flat.length ≤ s.flat.length := by
      have := (closed_readHead GoMC.Lemmas.NBTField.closed_suffix net) s
      obtain ⟨k, hk, hfl, _⟩ := this
      rw [h1] at hfl
      simp only at hfl
      rw [hfl]; simp
    simp only
    have hm' : s.flat.length + 3 ≤ m := hm
    exact (bind_congr_left_at ((any_indep m).1 t s1 (by omega))).symm

open GoMC.Lemmas.NBTSound in
theorem raw_progress {f : Nat} {tag : Byte} {s s1 : Stream} {v : Bytes} (h : rawRead f tag s = (Res.ok v, s1)) :
    s1.flat.length + 1 ≤ s.flat.length := by
  obtain ⟨enc, ⟨rfl, t, _, _, _, rfl⟩, hl⟩ := snd_len ((snd_raw_all f).1 tag) h
  have := payload_pos t
  omega

open GoMC.Lemmas.NBTSound in
theorem readFull_len {n : Nat} {s s1 : Stream} {v : Bytes} (h : Rd.readFull n s = (Res.ok v, s1)) :
    s1.flat.length + n = s.flat.length := by
  obtain ⟨enc, ⟨rfl, hl'⟩, hl⟩ := snd_len (snd_readFull n) h
  omega

theorem raw_indep : ∀ f : Nat,
    (∀ tag s, s.flat.length + 3 ≤ f → rawRead f tag s = rawRead (f + 1) tag s) ∧
    (∀ lt n s, s.flat.length + 4 ≤ f → rawListLoop f lt n s = rawListLoop (f + 1) lt n s) ∧
    (∀ s, s.flat.length + 2 ≤ f → rawCompoundLoop f s = rawCompoundLoop (f + 1) s)
  | 0 => ⟨fun _ _ h => by omega, fun _ _ _ h => by omega, fun _ h => by omega⟩
  | f + 1 => by
    obtain ⟨ihA, ihL, ihM⟩ := raw_indep f
    refine ⟨fun tag s hs => ?_, fun lt n s hs => ?_, fun s hs => ?_⟩
    · by_cases h9 : tag.toNat = 9
      · rw [raw_list_eq f tag h9, raw_list_eq (f + 1) tag h9]
        refine bind_congr_at (fun lt s1 h1 => ?_)
        have l1 := readByte_len h1
        by_cases c1 : lt.toNat > 12
        · simp only [c1, if_true]
        · simp only [c1, if_false]
          refine bind_congr_at (fun hd s2 h2 => ?_)
          have l2 := readFull_len h2
          by_cases c2 : (beWord 32 hd).msb = true
          · simp only [c2, if_true]
          · simp only [c2, if_false]
            exact bind_congr_left_at (ihL lt _ s2 (by omega))
      · by_cases h10 : tag.toNat = 10
        · rw [raw_map_eq f tag h10, raw_map_eq (f + 1) tag h10]
          exact ihM s (by omega)
        · rw [raw_leaf_eq f (f + 1) tag h9 h10]
    · cases n with
      | zero => unfold rawListLoop; rfl
      | succ n =>
        rw [show rawListLoop (f + 1) lt (n + 1) = (do let x ← rawRead f lt; let xs ← rawListLoop f lt n; Pure.pure (x ++ xs)) by
              conv => lhs; unfold rawListLoop,
            show rawListLoop (f + 2) lt (n + 1) = (do let x ← rawRead (f + 1) lt; let xs ← rawListLoop (f + 1) lt n; Pure.pure (x ++ xs)) by
              conv => lhs; unfold rawListLoop]
        rw [bind_congr_left_at (ihA lt s (by omega))]
        refine bind_congr_at (fun x s1 h1 => ?_)
        have := raw_progress h1
        exact bind_congr_left_at (ihL lt n s1 (by omega))
    · rw [show rawCompoundLoop (f + 1) = (do
            let t ← Rd.readByte
            if t = 0x1f#8 ∨ t = 0x78#8 then Rd.fail
            else if t = 0#8 then Pure.pure [t] else do
            let hd ← Rd.readFull 2
            if (beWord 16 hd).msb then Rd.fail else do
            let name ← (if (beWord 16 hd).toNat > 0 then Rd.readFull (beWord 16 hd).toNat else Pure.pure [])
            let v ← rawRead f t
            let rest ← rawCompoundLoop f
            Pure.pure (t :: hd ++ name ++ v ++ rest)) by conv => lhs; unfold rawCompoundLoop,
          show rawCompoundLoop (f + 2) = (do
            let t ← Rd.readByte
            if t = 0x1f#8 ∨ t = 0x78#8 then Rd.fail
            else if t = 0#8 then Pure.pure [t] else do
            let hd ← Rd.readFull 2
            if (beWord 16 hd).msb then Rd.fail else do
            let name ← (if (beWord 16 hd).toNat > 0 then Rd.readFull (beWord 16 hd).toNat else Pure.pure [])
            let v ← rawRead (f + 1) t
            let rest ← rawCompoundLoop (f + 1)
            Pure.pure (t :: hd ++ name ++ v ++ rest)) by conv => lhs; unfold rawCompoundLoop]
      refine bind_congr_at (fun t s1 h1 => ?_)
      have l1 := readByte_len h1
      by_cases c1 : t = 0x1f#8 ∨ t = 0x78#8
      · rw [if_pos c1, if_pos c1]
      · rw [if_neg c1, if_neg c1]
        by_cases c2 : t = 0#8
        · rw [if_pos c2, if_pos c2]
        · rw [if_neg c2, if_neg c2]
          refine bind_congr_at (fun hd s2 h2 => ?_)
          have l2 := readFull_len h2
          by_cases c3 : (beWord 16 hd).msb = true
          · simp only [c3, if_true]
          · simp only [c3, if_false]
            refine bind_congr_at (fun name s3 h3 => ?_)
            have l3 : s3.flat.length ≤ s2.flat.length := by
              by_cases c4 : (beWord 16 hd).toNat > 0
              · rw [if_pos c4] at h3
                have := readFull_len h3; omega
              · rw [if_neg c4] at h3
                simp only [Rd.pure_apply, Prod.mk.injEq] at h3
                rw [h3.2]; exact Nat.le_refl _
            rw [bind_congr_left_at (ihA t s3 (by omega))]
            refine bind_congr_at (fun v s4 h4 => ?_)
            have := raw_progress h4
            exact bind_congr_left_at (ihM s4 (by omega))

/-- `rawRead` (skipping a value, `RawMessage`): every run is the same with any fuel above the input length + 3 -/
theorem rawRead_indep (tag : Byte) (s : Stream) (f : Nat) (hf : s.flat.length + 3 ≤ f) :
    rawRead f tag s = rawRead (s.flat.length + 3) tag s := by
  induction hf with
  | refl => rfl
  | @step m hm ih => rw [← ih]; exact ((raw_indep m).1 tag s hm).symm

theorem unmarshalAny_indep (tag : Byte) (s : Stream) (f : Nat) (hf : s.flat.length + 3 ≤ f) :
    unmarshalAny f tag s = unmarshalAny (s.flat.length + 3) tag s := by
  induction hf with
  | refl => rfl
  | @step m hm ih => rw [← ih]; exact ((any_indep m).1 tag s hm).symm

end GoMC.Lemmas.NBTFuel
