/-
  Helper lemmas for C18: big-endian / little-endian magnitudes, the carry loop of `twosComplement`,
  hexadecimal rendering and zero trimming.
-/
import GoMC.Model.Digest
import GoMC.Spec.JavaBigInt
namespace GoMC.Lemmas
open GoMC GoMC.Model GoMC.Spec

/-! ### magnitudes -/

/-- little-endian magnitude (the order in which `twosComplement` walks) -/
def leNat : Bytes → Nat
  | [] => 0
  | b :: bs => b.toNat + 256 * leNat bs

theorem beNat_nil : beNat [] = 0 := rfl

theorem beNat_snoc (d : Bytes) (b : Byte) : beNat (d ++ [b]) = beNat d * 256 + b.toNat := by
  simp [beNat, List.foldl_append]

theorem leNat_eq_beNat_reverse (l : Bytes) : leNat l = beNat l.reverse := by
  induction l with
  | nil => rfl
  | cons b bs ih => simp only [leNat, List.reverse_cons, beNat_snoc, ← ih]; omega

theorem beNat_eq_leNat_reverse (d : Bytes) : beNat d = leNat d.reverse := by
  rw [leNat_eq_beNat_reverse, List.reverse_reverse]

theorem leNat_lt (l : Bytes) : leNat l < 256 ^ l.length := by
  induction l with
  | nil => simp [leNat]
  | cons b bs ih =>
    simp only [leNat, List.length_cons, Nat.pow_succ]
    have := b.isLt
    omega

theorem beNat_lt (d : Bytes) : beNat d < 256 ^ d.length := by
  rw [beNat_eq_leNat_reverse]; simpa using leNat_lt d.reverse

theorem leNat_append (l : Bytes) (b : Byte) : leNat (l ++ [b]) = leNat l + 256 ^ l.length * b.toNat := by
  induction l with
  | nil => simp [leNat]
  | cons c cs ih =>
    simp only [List.cons_append, leNat, ih, List.length_cons, Nat.pow_succ]
    rw [Nat.mul_add, ← Nat.mul_assoc, Nat.mul_comm 256 (256 ^ cs.length)]
    omega

/-- the first byte is the most significant one -/
theorem beNat_cons (b : Byte) (d : Bytes) : beNat (b :: d) = b.toNat * 256 ^ d.length + beNat d := by
  rw [beNat_eq_leNat_reverse, List.reverse_cons, leNat_append, ← beNat_eq_leNat_reverse]
  simp [Nat.mul_comm, Nat.add_comm]

/-- the sign bit is bit 7 of the first byte -/
theorem sign_iff (b : Byte) (d : Bytes) :
    (2 * beNat (b :: d) < 256 ^ (b :: d).length) ↔ b.toNat < 128 := by
  rw [beNat_cons, List.length_cons, Nat.pow_succ]
  have hd := beNat_lt d
  generalize 256 ^ d.length = M at *
  generalize beNat d = r at *
  constructor
  · intro h
    apply Classical.byContradiction
    intro hb
    have : 128 * M ≤ b.toNat * M := Nat.mul_le_mul_right M (by omega)
    omega
  · intro h
    have : b.toNat * M ≤ 127 * M := Nat.mul_le_mul_right M (by omega)
    omega

theorem sign_test (b : Byte) : ((b &&& 0x80#8) == 0x80#8) = decide (128 ≤ b.toNat) := by
  have : ∀ n : Fin (2 ^ 8), ((BitVec.ofFin n &&& 0x80#8) == 0x80#8) = decide (128 ≤ (BitVec.ofFin n).toNat) := by
    decide +kernel
  exact this b.toFin

/-! ### the carry loop -/

theorem twosRev_length (l : Bytes) (c : Bool) : (twosRev l c).length = l.length := by
  induction l generalizing c with
  | nil => rfl
  | cons b bs ih => simp only [twosRev]; split <;> simp [ih]

private theorem not_toNat (b : Byte) : (~~~b).toNat = 255 - b.toNat := by
  have : ∀ n : Fin (2 ^ 8), (~~~(BitVec.ofFin n)).toNat = 255 - (BitVec.ofFin n).toNat := by decide +kernel
  exact this b.toFin

private theorem not_succ_toNat (b : Byte) : (~~~b + 1#8).toNat = if b.toNat = 0 then 0 else 256 - b.toNat := by
  have : ∀ n : Fin (2 ^ 8), (~~~(BitVec.ofFin n) + 1#8).toNat =
      if (BitVec.ofFin n).toNat = 0 then 0 else 256 - (BitVec.ofFin n).toNat := by decide +kernel
  exact this b.toFin

private theorem not_eq_ff (b : Byte) : (~~~b == 0xff#8) = decide (b.toNat = 0) := by
  have : ∀ n : Fin (2 ^ 8), (~~~(BitVec.ofFin n) == 0xff#8) = decide ((BitVec.ofFin n).toNat = 0) := by decide +kernel
  exact this b.toFin

/-- without a pending carry the loop is the one's complement -/
theorem leNat_twosRev_false (l : Bytes) : leNat (twosRev l false) = 256 ^ l.length - 1 - leNat l := by
  induction l with
  | nil => simp [twosRev, leNat]
  | cons b bs ih =>
    simp only [twosRev, Bool.false_eq_true, if_false, leNat, ih, not_toNat, List.length_cons, Nat.pow_succ]
    have h1 := leNat_lt bs
    have h2 := b.isLt
    generalize 256 ^ bs.length = M at *
    omega

/-- with the carry the loop negates modulo `256^n` -/
theorem leNat_twosRev_true (l : Bytes) :
    leNat (twosRev l true) = if leNat l = 0 then 0 else 256 ^ l.length - leNat l := by
  induction l with
  | nil => simp [twosRev, leNat]
  | cons b bs ih =>
    simp only [twosRev, if_true, leNat, not_succ_toNat, not_eq_ff, List.length_cons, Nat.pow_succ]
    have h1 := leNat_lt bs
    have h2 := b.isLt
    by_cases hb : b.toNat = 0
    · simp only [hb, decide_true, if_true, ih]
      generalize 256 ^ bs.length = M at *
      by_cases hz : leNat bs = 0
      · simp [hz]
      · simp only [hz, if_false]
        have : ¬ (0 + 256 * leNat bs = 0) := by omega
        simp only [this, if_false]
        omega
    · simp only [hb, decide_false, if_false, leNat_twosRev_false]
      have : ¬ (b.toNat + 256 * leNat bs = 0) := by omega
      simp only [this, if_false]
      generalize 256 ^ bs.length = M at *
      omega

theorem twosComplement_length (p : Bytes) : (twosComplement p).length = p.length := by
  simp [twosComplement, twosRev_length]

/-- `twosComplement` negates the big-endian magnitude modulo `256^n` -/
theorem beNat_twosComplement (p : Bytes) :
    beNat (twosComplement p) = if beNat p = 0 then 0 else 256 ^ p.length - beNat p := by
  rw [beNat_eq_leNat_reverse, twosComplement, List.reverse_reverse, leNat_twosRev_true,
    ← beNat_eq_leNat_reverse, List.length_reverse]

/-! ### hexadecimal rendering -/

theorem hexEncode_append (d e : Bytes) : hexEncode (d ++ e) = hexEncode d ++ hexEncode e := by
  induction d with
  | nil => rfl
  | cons b bs ih => simp [hexEncode, ih]

/-- the two digits of a byte are `forDigit` of its nibbles -/
theorem hexEncode_byte (b : Byte) : hexEncode [b] = [forDigit (b.toNat / 16), forDigit (b.toNat % 16)] := by
  have : ∀ n : Fin (2 ^ 8), hexEncode [BitVec.ofFin n] =
      [forDigit ((BitVec.ofFin n).toNat / 16), forDigit ((BitVec.ofFin n).toNat % 16)] := by decide +kernel
  exact this b.toFin

theorem forDigit_eq_zero_iff (k : Nat) (hk : k < 16) : forDigit k = '0' ↔ k = 0 := by
  have : ∀ n : Fin 16, forDigit n.val = '0' ↔ n.val = 0 := by decide +kernel
  exact this ⟨k, hk⟩

theorem trimLeftZeros_append (x y : List Char) :
    trimLeftZeros (x ++ y) = if trimLeftZeros x = [] then trimLeftZeros y else trimLeftZeros x ++ y := by
  induction x with
  | nil => simp [trimLeftZeros]
  | cons c cs ih =>
    simp only [List.cons_append, trimLeftZeros]
    by_cases hc : c = '0'
    · simp [hc, ih]
    · simp [hc]

theorem natHex_ne_nil (n : Nat) : natHex n ≠ [] := by
  by_cases h : n < 16
  · rw [natHex_lt h]; simp
  · rw [natHex_ge h]; simp

/-- appending one hexadecimal digit -/
theorem natHex_step (n k : Nat) (hn : n ≠ 0) (hk : k < 16) : natHex (16 * n + k) = natHex n ++ [forDigit k] := by
  rw [natHex_ge (by omega)]
  have h1 : (16 * n + k) / 16 = n := by omega
  have h2 : (16 * n + k) % 16 = k := by omega
  rw [h1, h2]

/-- a byte's two digits with the zeros trimmed -/
theorem trim_byte (b : Byte) :
    trimLeftZeros (hexEncode [b]) = if b.toNat = 0 then [] else natHex b.toNat := by
  rw [hexEncode_byte]
  have hb := b.isLt
  by_cases h0 : b.toNat = 0
  · simp [h0, trimLeftZeros, forDigit]
  · simp only [h0, if_false, trimLeftZeros]
    by_cases hh : b.toNat / 16 = 0
    · have hlt : b.toNat < 16 := by omega
      have hm : b.toNat % 16 = b.toNat := by omega
      have z : forDigit 0 = '0' := by decide
      simp only [hh, z, if_true, hm]
      have : ¬ forDigit b.toNat = '0' := by
        rw [forDigit_eq_zero_iff _ hlt]; exact h0
      simp only [this, if_false]
      rw [natHex_lt hlt]
    · have : ¬ forDigit (b.toNat / 16) = '0' := by
        rw [forDigit_eq_zero_iff _ (by omega)]; exact hh
      simp only [this, if_false]
      have e : b.toNat = 16 * (b.toNat / 16) + b.toNat % 16 := by omega
      conv => rhs; rw [e]
      rw [natHex_step _ _ hh (by omega), natHex_lt (by omega)]
      rfl

private theorem trim_hexEncode_rev (l : Bytes) :
    trimLeftZeros (hexEncode l.reverse) = if beNat l.reverse = 0 then [] else natHex (beNat l.reverse) := by
  induction l with
  | nil => simp [hexEncode, trimLeftZeros, beNat]
  | cons b l ih =>
    rw [List.reverse_cons, hexEncode_append, trimLeftZeros_append, ih, beNat_snoc, trim_byte]
    generalize l.reverse = d at *
    have hb := b.isLt
    by_cases hd : beNat d = 0
    · simp only [hd, if_true, Nat.zero_mul, Nat.zero_add]
    · simp only [hd, if_false, natHex_ne_nil]
      have : ¬ (beNat d * 256 + b.toNat = 0) := by omega
      simp only [this, if_false]
      rw [hexEncode_byte]
      have e : beNat d * 256 + b.toNat = 16 * (16 * beNat d + b.toNat / 16) + b.toNat % 16 := by omega
      rw [e, natHex_step _ _ (by omega) (by omega), natHex_step _ _ hd (by omega)]
      simp

/-- trimmed hex of a byte string is the hexadecimal numeral of its magnitude (nothing at all for zero) -/
theorem trim_hexEncode (d : Bytes) :
    trimLeftZeros (hexEncode d) = if beNat d = 0 then [] else natHex (beNat d) := by
  simpa using trim_hexEncode_rev d.reverse

/-- a byte string has magnitude zero exactly when all its bytes are zero -/
theorem beNat_eq_zero_iff (d : Bytes) : beNat d = 0 ↔ ∀ b ∈ d, b = 0#8 := by
  induction d with
  | nil => simp [beNat]
  | cons b bs ih =>
    rw [beNat_cons]
    have hp : 0 < 256 ^ bs.length := Nat.pow_pos (by decide)
    constructor
    · intro h
      have h1 : b.toNat * 256 ^ bs.length = 0 := by omega
      have h2 : beNat bs = 0 := by omega
      have hb : b.toNat = 0 := by
        rcases Nat.mul_eq_zero.mp h1 with h | h
        · exact h
        · omega
      intro x hx
      rcases List.mem_cons.mp hx with rfl | hx
      · exact BitVec.eq_of_toNat_eq (by simpa using hb)
      · exact ih.mp h2 x hx
    · intro h
      have hb : b = 0#8 := h b (List.mem_cons_self)
      have h2 : beNat bs = 0 := ih.mpr (fun x hx => h x (List.mem_cons_of_mem _ hx))
      simp [hb, h2]

/-- the `%x` of package fmt and `hex.EncodeToString` are the same function on byte slices -/
theorem fmtX_eq_hexEncode (d : Bytes) : fmtX d = hexEncode d := by
  induction d with
  | nil => rfl
  | cons b bs ih =>
    have : ∀ n : Fin (2 ^ 8),
        ldigits.getD (BitVec.ofFin n >>> 4).toNat '?' = hextable.getD (BitVec.ofFin n >>> 4).toNat '?' ∧
        ldigits.getD (BitVec.ofFin n &&& 0x0f#8).toNat '?' = hextable.getD (BitVec.ofFin n &&& 0x0f#8).toNat '?' := by
      decide +kernel
    have hb := this b.toFin
    simp only [fmtX, hexEncode, ih]
    rw [show b = BitVec.ofFin b.toFin from rfl, hb.1, hb.2]

end GoMC.Lemmas
